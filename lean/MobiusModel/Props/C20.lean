import MobiusModel.Crash
import MobiusModel.Generated.Persist
/-!
  C20 — A crash never leaves persistent state torn.

  Property theorems only (model and lemmas: `Crash`).  A persistent update is the program of system
  calls it makes; `crash prog k fs` is what a restart finds when the process was killed after `k` of
  them, for EVERY `k` and EVERY prior directory state `fs` (including stale temp files of earlier
  crashes).  The loaders mirror `NewFlatNews`, `NewThreadedNewsYAML`, `NewBanFile`,
  `NewYAMLAccountManager`; the YAML codec is a parameter (`deser`, with `deser (ser v) = some v`
  where a value is needed).  That the code makes exactly these programs is (a) the obligations at the
  end over os-call lists regenerated from the source, (b) the harness' strace comparison.
  Not modelled: a kill in the middle of one `write` call, power loss (no fsync anywhere).
-/
namespace Mobius.C20
open Mobius.Crash

def tmpOf (p : Name) : Name := p ++ ".tmp".toList
def acctTmp : Name := ".account.tmp".toList
def acctFile (login : Name) : Name := login ++ ".yaml".toList

/-- Generic write-temp-then-rename (DESIGN §11 `Crash.temp_rename_atomic`): at every crash point the
    target holds its complete old content or the complete new content – the new one once the program
    has run to its end (which is before the update is acknowledged) – and no other file changes. -/
theorem temp_rename_atomic (fs : FS) (tmp p : Name) (new : Bytes) (hne : tmp ≠ p) (k : Nat) :
    (get (crash (tempRename tmp p new) k fs) p = get fs p ∨
      get (crash (tempRename tmp p new) k fs) p = some new) ∧
    ((tempRename tmp p new).length ≤ k → get (crash (tempRename tmp p new) k fs) p = some new) ∧
    (∀ q, q ≠ p → q ≠ tmp → get (crash (tempRename tmp p new) k fs) q = get fs q) := by
  have h := tempRename_get fs tmp p new hne k
  exact ⟨h.1, fun hk => h.2.1 (by simpa [tempRename, writeFile] using hk), h.2.2⟩

/-- Message board (`FlatNews.Write`: temp = `<file>.tmp`, new content = post ++ in-memory board):
    a restart loads the old board or the board with the whole post; the latter once the call returned. -/
theorem board_post_crash_safe (fs : FS) (p : Name) (board post : Bytes) (k : Nat) :
    (loadBoard (crash (tempRename (tmpOf p) p (post ++ board)) k fs) p = loadBoard fs p ∨
      loadBoard (crash (tempRename (tmpOf p) p (post ++ board)) k fs) p = some (Board.nl2cr (post ++ board))) ∧
    (4 ≤ k → loadBoard (crash (tempRename (tmpOf p) p (post ++ board)) k fs) p = some (Board.nl2cr (post ++ board))) := by
  have h := tempRename_get fs (tmpOf p) p (post ++ board) (append_tmp_ne p) k
  refine ⟨?_, fun hk => by simp [loadBoard, h.2.1 hk]⟩
  rcases h.1 with h1 | h1
  · left; simp [loadBoard, h1]
  · right; simp [loadBoard, h1]

/-- Threaded news (`ThreadedNewsYAML.writeFile`): if the old file loaded as `vold`, every crash state
    loads, as `vold` or as the complete new value; the new one once the call returned. -/
theorem news_update_crash_safe {α : Type} (deser : Bytes → Option α) (ser : α → Bytes)
    (hrt : ∀ v, deser (ser v) = some v) (fs : FS) (p : Name) (vold vnew : α)
    (hold : loadYaml deser fs p = some vold) (k : Nat) :
    (loadYaml deser (crash (tempRename (tmpOf p) p (ser vnew)) k fs) p = some vold ∨
      loadYaml deser (crash (tempRename (tmpOf p) p (ser vnew)) k fs) p = some vnew) ∧
    (4 ≤ k → loadYaml deser (crash (tempRename (tmpOf p) p (ser vnew)) k fs) p = some vnew) := by
  have h := tempRename_get fs (tmpOf p) p (ser vnew) (append_tmp_ne p) k
  refine ⟨?_, fun hk => by simp [loadYaml, h.2.1 hk, hrt]⟩
  rcases h.1 with h1 | h1
  · left; simpa [loadYaml, h1] using hold
  · right; simp [loadYaml, h1, hrt]

/-- Ban list (`BanFile.Add`); the file may not exist yet (then the old value is the empty list). -/
theorem ban_add_crash_safe {α : Type} (deser : Bytes → Option α) (ser : α → Bytes) (empty : α)
    (hrt : ∀ v, deser (ser v) = some v) (fs : FS) (p : Name) (vold vnew : α)
    (hold : loadBans deser empty fs p = some vold) (k : Nat) :
    (loadBans deser empty (crash (tempRename (tmpOf p) p (ser vnew)) k fs) p = some vold ∨
      loadBans deser empty (crash (tempRename (tmpOf p) p (ser vnew)) k fs) p = some vnew) ∧
    (4 ≤ k → loadBans deser empty (crash (tempRename (tmpOf p) p (ser vnew)) k fs) p = some vnew) := by
  have h := tempRename_get fs (tmpOf p) p (ser vnew) (append_tmp_ne p) k
  refine ⟨?_, fun hk => by simp [loadBans, h.2.1 hk, hrt]⟩
  rcases h.1 with h1 | h1
  · left; simpa [loadBans, h1] using hold
  · right; simp [loadBans, h1, hrt]

/-- Account update, same login (`Update` since `fix: 57e02c9`: remove the temp name, write `.account.tmp`, rename it over `<login>.yaml`): the
    loader sees the old set of account files or the same set with this one file replaced by the complete
    new content (in place – every other entry identical). -/
theorem account_update_crash_safe {α : Type} (deser : Bytes → Option α) (fs : FS) (login : Name) (new : Bytes)
    (hex : get fs (acctFile login) ≠ none) (k : Nat) :
    (loadAccounts deser (crash (freshTempRename acctTmp (acctFile login) new) k fs) = loadAccounts deser fs ∨
      loadAccounts deser (crash (freshTempRename acctTmp (acctFile login) new) k fs) =
        loadAccounts deser (set fs (acctFile login) new)) ∧
    (5 ≤ k → loadAccounts deser (crash (freshTempRename acctTmp (acctFile login) new) k fs) =
        loadAccounts deser (set fs (acctFile login) new)) := by
  have h := freshTempRename_view isYaml fs acctTmp (acctFile login) new isYaml_account_tmp
    (account_tmp_ne_login login) hex k
  refine ⟨?_, fun hk => by simp [loadAccounts, contents, h.2 hk]⟩
  rcases h.1 with h1 | h1
  · left; simp [loadAccounts, contents, h1]
  · right; simp [loadAccounts, contents, h1]

/-- Account creation (`Create`: remove the temp name, write `.account.tmp`, `link` it to `<login>.yaml`, remove it): absent
    until the link, complete from the link on; the temp file – also one left by an earlier crash – is
    never loaded. -/
theorem account_create_crash_safe {α : Type} (deser : Bytes → Option α) (fs : FS) (login : Name) (d : Bytes)
    (hnew : get fs (acctFile login) = none) (k : Nat) :
    (k ≤ 4 → loadAccounts deser (crash (freshCreateLink acctTmp (acctFile login) d) k fs) = loadAccounts deser fs) ∧
    (5 ≤ k → loadAccounts deser (crash (freshCreateLink acctTmp (acctFile login) d) k fs) =
        loadAccounts deser (fs ++ [(acctFile login, d)])) := by
  have h := freshCreateLink_view isYaml fs acctTmp (acctFile login) d isYaml_account_tmp
    (account_tmp_ne_login login) hnew k
  exact ⟨fun hk => by simp [loadAccounts, contents, h.1 hk], fun hk => by simp [loadAccounts, contents, h.2 hk]⟩

/-- Account rename + update (`Update` with a new login: `rename old.yaml new.yaml`, then the atomic
    replace): after the first call the file `new.yaml` still holds the complete OLD account, and the
    loader keys by the login inside the file – so every crash state loads as the complete old set or
    the complete new set. -/
theorem account_rename_crash_safe {α : Type} (deser : Bytes → Option α) (fs : FS) (old new : Name) (d : Bytes)
    (hon : acctFile old ≠ acctFile new) (hold : get fs (acctFile old) ≠ none)
    (hnew : get fs (acctFile new) = none) (k : Nat) :
    (loadAccounts deser (crash (freshRenameUpdate acctTmp (acctFile old) (acctFile new) d) k fs) = loadAccounts deser fs ∨
      loadAccounts deser (crash (freshRenameUpdate acctTmp (acctFile old) (acctFile new) d) k fs) =
        loadAccounts deser (set (renameKey fs (acctFile old) (acctFile new)) (acctFile new) d)) ∧
    (6 ≤ k → loadAccounts deser (crash (freshRenameUpdate acctTmp (acctFile old) (acctFile new) d) k fs) =
        loadAccounts deser (set (renameKey fs (acctFile old) (acctFile new)) (acctFile new) d)) := by
  have hv : isYaml (acctFile old) = isYaml (acctFile new) := by
    simp only [acctFile]; rw [isYaml_login, isYaml_login]
  have h := freshRenameUpdate_contents isYaml fs acctTmp (acctFile old) (acctFile new) d isYaml_account_tmp hv
    (account_tmp_ne_login new) hon hold hnew k
  refine ⟨?_, fun hk => by simp [loadAccounts, h.2 hk]⟩
  rcases h.1 with h1 | h1
  · left; simp [loadAccounts, h1]
  · right; simp [loadAccounts, h1]

/-- `Update` as the code runs it now (all three cases: same login, rename onto a free login, rename onto an
    existing login = refused before any call): every crash state loads as the value before the update or as
    the value after the completed program. -/
theorem account_update_total_crash_safe {α : Type} (deser : Bytes → Option α) (fs : FS) (old new : Name) (d : Bytes)
    (hold : get fs (acctFile old) ≠ none) (k : Nat) :
    loadAccounts deser (crash (updateProg acctTmp fs (acctFile old) (acctFile new) d) k fs) = loadAccounts deser fs ∨
    loadAccounts deser (crash (updateProg acctTmp fs (acctFile old) (acctFile new) d) k fs) =
      loadAccounts deser (crash (updateProg acctTmp fs (acctFile old) (acctFile new) d)
        (updateProg acctTmp fs (acctFile old) (acctFile new) d).length fs) := by
  unfold updateProg
  by_cases hsame : acctFile old = acctFile new
  · simp only [hsame, if_true]
    have hex : get fs (acctFile new) ≠ none := hsame ▸ hold
    have hl : (freshTempRename acctTmp (acctFile new) d).length = 5 := by simp [freshTempRename, tempRename, writeFile]
    have h := account_update_crash_safe deser fs new d hex k
    have hfin := (account_update_crash_safe deser fs new d hex 5).2 (by omega)
    rw [hl, hfin]
    exact h.1
  · simp only [hsame, if_false]
    cases hn : get fs (acctFile new) with
    | some c => left; simp [crash]
    | none =>
      simp only [Option.isSome_none, Bool.false_eq_true, if_false]
      have hl : (freshRenameUpdate acctTmp (acctFile old) (acctFile new) d).length = 6 := by
        simp [freshRenameUpdate, freshTempRename, tempRename, writeFile]
      have h := account_rename_crash_safe deser fs old new d hsame hold hn k
      have hfin := (account_rename_crash_safe deser fs old new d hsame hold hn 6).2 (by omega)
      rw [hl, hfin]
      exact h.1

/-- A rename onto an existing login makes no system call at all: the directory is untouched. -/
theorem rename_onto_existing_refused (fs : FS) (old new : Name) (d : Bytes) (k : Nat)
    (hne : acctFile old ≠ acctFile new) (hex : get fs (acctFile new) ≠ none) :
    crash (updateProg acctTmp fs (acctFile old) (acctFile new) d) k fs = fs := by
  obtain ⟨c, hc⟩ := Option.ne_none_iff_exists'.mp hex
  simp [updateProg, hne, hc, crash]

/-- Account deletion is one call: before it the old set, after it the set without the file. -/
theorem account_delete_crash_safe {α : Type} (deser : Bytes → Option α) (fs : FS) (login : Name) (k : Nat) :
    loadAccounts deser (crash [.remove (acctFile login)] k fs) = loadAccounts deser fs ∨
    loadAccounts deser (crash [.remove (acctFile login)] k fs) = loadAccounts deser (erase fs (acctFile login)) := by
  match k with
  | 0 => left; simp [crash]
  | k + 1 => right; simp [crash, apply]

/-- The loader's `*.yaml` glob ignores the temp names in use and would NOT ignore `<x>.tmp.yaml`. -/
theorem glob_ignores_temp :
    isYaml acctTmp = false ∧ (∀ x : Name, isYaml (tmpOf x) = false) ∧
    (∀ x : Name, isYaml (x ++ ".yaml.tmp".toList) = false) ∧
    (∀ x : Name, isYaml (x ++ ".tmp.yaml".toList) = true) := by
  refine ⟨isYaml_account_tmp, isYaml_dot_tmp, ?_, isYaml_tmp_dot_yaml⟩
  intro x
  have := isYaml_dot_tmp (x ++ ".yaml".toList)
  simpa [List.append_assoc] using this

/-- NEGATIVE WITNESS (the behaviour before the `fix:` commits for account create/update, the ban list
    and the second write of `FlatNews.Write`): `os.WriteFile` directly on the live file.  After its first
    call the file is EMPTY, for every prior state: the board is lost, `NewBanFile` / `NewThreadedNewsYAML`
    fail (no server start) when the decoder rejects empty input, and an empty account file is decoded
    into whatever the decoder makes of nothing. -/
theorem direct_write_torn (fs : FS) (p : Name) (new : Bytes) :
    get (crash (directWrite p new) 1 fs) p = some [] ∧
    loadBoard (crash (directWrite p new) 1 fs) p = some [] ∧
    (∀ {α : Type} (deser : Bytes → Option α) (empty : α), deser [] = none →
      loadBans deser empty (crash (directWrite p new) 1 fs) p = none ∧
      loadYaml deser (crash (directWrite p new) 1 fs) p = none) := by
  have h : get (crash (directWrite p new) 1 fs) p = some [] := by
    simp [crash, directWrite, writeFile, apply, get_set_eq]
  refine ⟨h, by simp [loadBoard, h, Board.nl2cr], ?_⟩
  intro α deser empty he
  simp [loadBans, loadYaml, h, he]

/-- The concrete torn state: old content `[1,2]`, new content `[3]`, killed after the truncate –
    neither old nor new. -/
theorem direct_write_torn_witness :
    ∃ (fs : FS) (p : Name) (new : Bytes) (k : Nat), k ≤ (directWrite p new).length ∧
      get (crash (directWrite p new) k fs) p ≠ get fs p ∧ get (crash (directWrite p new) k fs) p ≠ some new :=
  ⟨[("b".toList, [1, 2])], "b".toList, [3], 1, by decide, by decide, by decide⟩

/-- The old `FlatNews.Write` (atomic rename FOLLOWED by a direct rewrite): a kill after the fifth call
    leaves an empty board although the rename had already put the complete new text in place. -/
theorem old_board_write_torn (fs : FS) (p : Name) (new : Bytes) :
    get (crash (tempRename (tmpOf p) p new ++ directWrite p new) 4 fs) p = some new ∧
    get (crash (tempRename (tmpOf p) p new ++ directWrite p new) 5 fs) p = some [] := by
  have h4 : crash (tempRename (tmpOf p) p new ++ directWrite p new) 4 fs = crash (tempRename (tmpOf p) p new) 4 fs :=
    crash_append_le _ _ _ _ (by simp [tempRename, writeFile])
  have h5 := crash_append_ge (tempRename (tmpOf p) p new) (directWrite p new) 1 fs
  have hl : (tempRename (tmpOf p) p new).length = 4 := by simp [tempRename, writeFile]
  rw [hl] at h5
  refine ⟨?_, ?_⟩
  · rw [h4]; exact (tempRename_get fs (tmpOf p) p new (append_tmp_ne p) 4).2.1 (by omega)
  · rw [h5]; simp [crash, directWrite, writeFile, apply, get_set_eq]

/-- NEGATIVE WITNESS (why the temp file must be TRUNCATED when it is opened; `temp_rename_atomic` holds for every
    prior state precisely because `os.WriteFile` truncates): if an earlier crash left a temp file LONGER than the
    new content and the temp is opened without `O_TRUNC`, the completed, acknowledged update publishes the new
    content followed by the stale tail – neither old nor new (the next restart fails to parse it). -/
theorem no_trunc_inherits_stale_tail :
    ∃ (fs : FS) (tmp p : Name) (new : Bytes),
      get fs tmp ≠ none ∧
      get (crash (tempRenameNoTrunc tmp p new) 4 fs) p ≠ get fs p ∧
      get (crash (tempRenameNoTrunc tmp p new) 4 fs) p ≠ some new ∧
      get (crash (tempRename tmp p new) 4 fs) p = some new :=
  ⟨[("n.tmp".toList, [9, 9, 9, 9, 9]), ("n".toList, [1])], "n.tmp".toList, "n".toList, [2, 3],
    by decide, by decide, by decide, by decide⟩

/-- NEGATIVE WITNESS for the hypothesis `hnew` of `account_rename_crash_safe` (the new login must be free):
    `Update` does not check it, and renaming account `a` onto an EXISTING login `b` first renames `a.yaml` over
    `b.yaml`.  A kill right after that call leaves `b`'s account destroyed while `a` is still the old `a` –
    neither the old set `{a, b}` nor the new set `{b := a'}`.  This was the behaviour before
    `fix: 5d2c023` (Update now refuses such a rename before any call, see `rename_onto_existing_refused` and the
    obligation `rename_guarded`); the harness generates the case and monitors it (`rename-onto-existing-login`). -/
theorem rename_onto_existing_login_torn :
    ∃ (fs : FS) (old new : Name) (d : Bytes) (k : Nat),
      get fs (acctFile new) ≠ none ∧
      contents isYaml (crash (renameUpdate acctTmp (acctFile old) (acctFile new) d) k fs) ≠ contents isYaml fs ∧
      contents isYaml (crash (renameUpdate acctTmp (acctFile old) (acctFile new) d) k fs) ≠
        contents isYaml (crash (renameUpdate acctTmp (acctFile old) (acctFile new) d) 5 fs) :=
  ⟨[("a.yaml".toList, [1]), ("b.yaml".toList, [2])], "a".toList, "b".toList, [9], 1, by decide, by decide, by decide⟩

/-! Obligations over the os-call lists regenerated from /repo's source on every run. -/

/-- Source expressions that denote a temp name: `<live file> + ".tmp"` or `Join(dir, ".account.tmp")`. -/
def isTempExpr (s : String) : Bool :=
  " + \".tmp\"".toList.isSuffixOf s.toList || ".tmp\")".toList.isSuffixOf s.toList

/-- The persistent update functions make exactly the os calls of the modelled programs, in that order:
    WriteFile(temp) then Rename(temp, live) [`tempRename`]; WriteFile(temp), Link(temp, final), deferred
    Remove(temp) [`createLink`]; Rename(old, new) only when the login changes, then WriteFile(temp),
    Rename(temp, new) [`renameUpdate` / `tempRename`]; Remove [`delete`]. -/
theorem persist_programs :
    Generated.persistCalls.filter (fun r => r.1 != "mobius.HandleSetFileInfo") =
    [("mobius.BanFile.Add",
        [("WriteFile", "bf.filePath + \".tmp\"", "data:out", ""),
         ("Rename", "bf.filePath + \".tmp\"", "bf.filePath", "")]),
     ("mobius.FlatNews.Write",
        [("WriteFile", "f.filePath + \".tmp\"", "data:f.data", ""),
         ("Rename", "f.filePath + \".tmp\"", "f.filePath", "")]),
     ("mobius.ThreadedNewsYAML.writeFile",
        [("WriteFile", "n.filePath + \".tmp\"", "data:out", ""),
         ("Rename", "n.filePath + \".tmp\"", "n.filePath", "")]),
     ("mobius.YAMLAccountManager.Create",
        [("Remove", "filepath.Join(am.accountDir, \".account.tmp\")", "", ""),
         ("WriteFile", "filepath.Join(am.accountDir, \".account.tmp\")", "data:b", ""),
         ("Link", "filepath.Join(am.accountDir, \".account.tmp\")",
            "filepath.Join(am.accountDir, path.Join(\"/\", account.Login + \".yaml\"))", ""),
         ("Remove", "filepath.Join(am.accountDir, \".account.tmp\")", "", "defer")]),
     ("mobius.YAMLAccountManager.Delete",
        [("Remove", "filepath.Join(am.accountDir, path.Join(\"/\", login + \".yaml\"))", "", "")]),
     ("mobius.YAMLAccountManager.Update",
        [("Rename", "filepath.Join(am.accountDir, path.Join(\"/\", account.Login) + \".yaml\")",
            "filepath.Join(am.accountDir, path.Join(\"/\", newLogin) + \".yaml\")", "if account.Login != newLogin"),
         ("Remove", "filepath.Join(am.accountDir, \".account.tmp\")", "", ""),
         ("WriteFile", "filepath.Join(am.accountDir, \".account.tmp\")", "data:out", ""),
         ("Rename", "filepath.Join(am.accountDir, \".account.tmp\")",
            "filepath.Join(am.accountDir, path.Join(\"/\", newLogin) + \".yaml\")", "")])] := by
  decide

/-- The rename in `Update` is reached only when the new login is not in the account table (the early return
    `if _, exists := am.accounts[newLogin]; exists { return … }` precedes it in its block). -/
theorem rename_guarded :
    Generated.persistGuards.lookup "mobius.YAMLAccountManager.Update" =
      some ["_, exists := am.accounts[newLogin]; exists", "", "", ""] := by decide

/-- No other function of internal/mobius creates, writes, renames, links or removes files (a new
    persistent update path would show up here). -/
theorem persist_functions :
    Generated.persistCalls.map (·.1) =
      ["mobius.BanFile.Add", "mobius.FlatNews.Write", "mobius.HandleSetFileInfo", "mobius.ThreadedNewsYAML.writeFile",
       "mobius.YAMLAccountManager.Create", "mobius.YAMLAccountManager.Delete", "mobius.YAMLAccountManager.Update"] := by
  decide

/-- Every `os.WriteFile` / `os.OpenFile` / `os.Create` of those functions targets a temp name – no live
    file is ever opened for writing. -/
theorem no_live_file_written :
    ∀ r ∈ Generated.persistCalls, ∀ c ∈ r.2,
      (c.1 = "WriteFile" ∨ c.1 = "OpenFile" ∨ c.1 = "Create" ∨ c.1 = "Truncate") → isTempExpr c.2.1 = true := by
  decide

/-- The account loader globs `*.yaml` (which `isYaml` models). -/
theorem account_glob : Generated.accountGlob = "*.yaml" := by decide

-- non-vacuity: a concrete directory, a stale temp file, every crash point of an account update
example : (List.range 7).map (fun k =>
      contents isYaml (crash (freshTempRename acctTmp (acctFile "bob".toList) [9, 9]) k
        [("al.yaml".toList, [1]), (".account.tmp".toList, [7, 7, 7]), ("bob.yaml".toList, [2])])) =
    [[[1], [2]], [[1], [2]], [[1], [2]], [[1], [2]], [[1], [2]], [[1], [9, 9]], [[1], [9, 9]]] := by decide
example : (List.range 8).map (fun k =>
      contents isYaml (crash (freshRenameUpdate acctTmp (acctFile "bob".toList) (acctFile "rob".toList) [9]) k
        [("al.yaml".toList, [1]), ("bob.yaml".toList, [2])])) =
    [[[1], [2]], [[1], [2]], [[1], [2]], [[1], [2]], [[1], [2]], [[1], [2]], [[1], [9]], [[1], [9]]] := by decide
example : (List.range 7).map (fun k =>
      contents isYaml (crash (freshCreateLink acctTmp (acctFile "eve".toList) [5]) k [("al.yaml".toList, [1])])) =
    [[[1]], [[1]], [[1]], [[1]], [[1]], [[1], [5]], [[1], [5]]] := by decide
example : get (crash (directWrite "Banlist.yaml".toList [3]) 1 [("Banlist.yaml".toList, [1, 2])]) "Banlist.yaml".toList
    = some [] := by decide

end Mobius.C20
