import MobiusModel.WireLemmas
import MobiusModel.WireLemmas2
import MobiusModel.WireLemmas3
import MobiusModel.Drain
import MobiusModel.Generated.Consts
import MobiusModel.Generated.Readers
import MobiusModel.Spec.Tables
/-!
  C01 — Wire format fidelity of every protocol object.

  Property theorems only (helper lemmas live in `WireLemmas`, `Drain`).  The encoders named here
  are the *reference Hotline layouts* of `Wire.lean`; the correspondence check compares the Go
  encoders with them byte for byte, and the fact extractor ties every Go `Read` method to the
  standard offset-reader shape that `drain` models.
-/
namespace Mobius.C01

/-- Field: decoding the emitted bytes yields the original field and consumes all of them. -/
theorem field_decode_encode (f : Field) (h : f.WF) :
    Field.decode f.encode = .ok (f, f.encode.length) := by
  rw [Field.decode_encode' f h, Field.encode_length]

/-- Field: the size prefix equals the number of data bytes that follow. -/
theorem field_prefix (f : Field) (h : f.WF) :
    rd16 (f.encode.drop 2) = (f.encode.drop 4).length ∧ (f.encode.drop 4) = f.data := by
  obtain ⟨_, hlen⟩ := h
  have h2 : (f.encode).drop 2 = be16 f.data.length ++ f.data := by simp [Field.encode, be16]
  have h4 : (f.encode).drop 4 = f.data := by simp [Field.encode, be16]
  rw [h2, h4, rd16_be16_append]
  exact ⟨by omega, rfl⟩

/-- Transaction: decoding the emitted bytes yields the original transaction. -/
theorem transaction_decode_encode (t : Transaction) (h : t.WFdec) :
    Transaction.decode t.encode = .ok t :=
  Transaction.decode_encode' t h

/-- Transaction: every length / size / count prefix equals what follows. -/
theorem transaction_prefixes (t : Transaction) (h : t.WFdec) :
    t.encode.length = 20 + rd32 (t.encode.drop 12) ∧
    rd32 (t.encode.drop 12) = rd32 (t.encode.drop 16) ∧
    rd32 (t.encode.drop 12) = (t.encode.drop 20).length ∧
    rd16 (t.encode.drop 20) = t.fields.length ∧
    parseFields t.fields.length (t.encode.drop 22) = .ok t.fields := by
  obtain ⟨hty, hid, herr, hf, hn, hp⟩ := h
  have hl := Transaction.encode_length t
  have d12 := Transaction.drop12 t []
  have d20 := Transaction.drop20 t []
  have d22 := Transaction.drop22 t []
  simp only [List.append_nil] at d12 d20 d22
  have d16 : t.encode.drop 16 = be32 t.payloadSize ++ (be16 t.fields.length ++ fieldsEncode t.fields) := by
    simp [Transaction.encode, be16, be32]
  rw [d12, d16, d20, d22, rd32_be32_append, rd32_be32_append, rd16_be16_append]
  have e1 : t.payloadSize % 4294967296 = t.payloadSize := by omega
  have e3 : t.fields.length % 65536 = t.fields.length := by omega
  rw [e1, e3]
  refine ⟨hl, rfl, ?_, rfl, ?_⟩
  · simp [fieldsEncode_length, Transaction.payloadSize]
  · simpa using parseFields_encode t.fields hf []

/-- A concatenation of emitted transactions is self-delimiting: it parses back to the same list. -/
theorem stream_selfdelimiting (ts : List Transaction) (h : ∀ t ∈ ts, t.WFdec) :
    parseStream (ts.map Transaction.encode).flatten = .ok ts := by
  unfold parseStream
  apply parseStreamAux_encode ts h
  have : ∀ (l : List Transaction), (∀ t ∈ l, t.WFdec) → l.length ≤ (l.map Transaction.encode).flatten.length := by
    intro l hl
    induction l with
    | nil => simp
    | cons t l ih =>
      have := Transaction.encode_length t
      have := ih (fun u hu => hl u (by simp [hu]))
      simp at *; omega
  exact this ts h

/-- User record (field 300): decoding the emitted bytes yields the original record, consuming all of them;
    the name-length prefix equals the number of name bytes. -/
theorem user_decode_encode (u : User) (h : u.WF) :
    User.decode u.encode = .ok (u, u.encode.length) ∧ rd16 (u.encode.drop 6) = (u.encode.drop 8).length := by
  refine ⟨by rw [User.decode_encode' u h, User.encode_length], ?_⟩
  have d6 : u.encode.drop 6 = be16 u.name.length ++ u.name := by simp [User.encode, be16]
  have d8 : u.encode.drop 8 = u.name := by simp [User.encode, be16]
  rw [d6, d8, rd16_be16_append]
  have := h.2.2.2
  omega

/-- File path (field 202): decoding an encoded path yields the original items, for every list of
    items whose names fit the one-byte length prefix. -/
theorem path_decode_encode (items : List Bytes) (h : ∀ it ∈ items, it.length < 256) (hn : items.length < 65536) :
    pathDecode (pathEncode items) = .ok items :=
  pathDecode_encode items h hn

/-- File list record (field 200): decoding an emitted record yields the record, and the
    name-size prefix equals the number of name bytes that follow. -/
theorem file_name_with_info_decode_encode (f : FileNameWithInfo) (h : f.WF) :
    FileNameWithInfo.decode f.encode = .ok f ∧ f.encode.length = 20 + f.name.length :=
  ⟨FileNameWithInfo.decode_encode' f h, FileNameWithInfo.encode_length f h⟩

/-- Resume data (field 203): `UnmarshalBinary` of `BinaryMarshal` output yields the fork list
    (fork count is one byte: fewer than 256 forks). -/
theorem resume_decode_encode (forks : List ForkInfo) (h : ∀ f ∈ forks, f.WF) (hn : forks.length < 256) :
    resumeDecode (resumeEncode forks) = .ok forks :=
  resumeDecode_encode forks h hn

/-- Information fork of a flattened file object: decoding the emitted fork yields the original fork
    (name, comment, type/creator codes, dates), its length equals the declared `DataSize`
    (74 + |name| + |comment|).  The name bound is the decoder's own 16-bit arithmetic. -/
theorem info_fork_decode_encode (i : InfoFork) (h : i.WF) (hn : i.name.length + 74 < 65536) :
    InfoFork.decode i.encode = .ok i ∧ i.encode.length = i.size :=
  ⟨InfoFork.decode_encode' i h hn, InfoFork.encode_length i h.1⟩

example : (⟨[1,2,3,4], [5,6,7,8], [9,9,9,9], [0,0,0,0], [0,0,0,0], List.replicate 32 0, List.replicate 8 7,
    List.replicate 8 8, [0,0], [104, 105], [33]⟩ : InfoFork).WF := by
  simp [InfoFork.WF, InfoFork.fixedWF]

/-- Flattened file object: the upload parser (`ReadFrom`) applied to an emitted header yields the
    fork count, information fork and data size the header was built from, whatever file data
    follows — so the INFO size prefix equals the fork bytes that follow and the DATA header is
    found right behind them. -/
theorem flattened_header_decode_encode (fc : Nat) (i : InfoFork) (ds : Nat) (h : i.WF)
    (hn : i.name.length + 74 < 65536) (hfc : fc < 65536) (hds : ds < 4294967296) (rest : Bytes) :
    ffoDecode (ffoHeader fc i ds ++ rest) = .ok (fc, i, ds) :=
  ffoDecode_header fc i ds h hn hfc hds rest

/-- News path (field 325): decoding an encoded news path yields the original items. -/
theorem news_path_decode_encode (items : List Bytes) (h : ∀ it ∈ items, it.length < 256) (hn : items.length < 65536) :
    newsPathDecode (pathEncode items) = .ok items :=
  newsPathDecode_encode items h hn

/-- Account record (reply to "get user"): the parameter-count prefix equals the number of fields,
    the fields parse back in order, and the login obfuscation is its own inverse. -/
theorem account_record_roundtrip (a : AccountRec) (h1 : a.name.length < 65536) (h2 : a.login.length < 65536)
    (h3 : a.access.length < 65536) :
    rd16 a.encode = a.fields.length ∧ parseFields a.fields.length (a.encode.drop 2) = .ok a.fields ∧
    obfuscate (obfuscate a.login) = a.login :=
  ⟨(AccountRec.roundtrip a h1 h2 h3).1, (AccountRec.roundtrip a h1 h2 h3).2, obfuscate_involutive a.login⟩

/-- Transfer preamble: the 16 bytes a transfer connection starts with decode to the reference number
    and size they were built from, whatever follows them on the stream. -/
theorem transfer_preamble_decode_encode (ref size : Nat) (hr : ref < 4294967296) (hs : size < 4294967296) (rest : Bytes) :
    transferDecode (transferPreamble ref size ++ rest) = .ok (ref, size) :=
  transferDecode_preamble ref size hr hs rest

/-- Handshake: every emitted client handshake is accepted, whatever versions it names. -/
theorem handshake_accepted (ver sub : Nat) (rest : Bytes) : handshakeValid (handshakeBytes ver sub ++ rest) = true :=
  handshakeValid_bytes ver sub rest

/-- Article list (field 321): a client parsing the emitted entries gets exactly the entries, in order,
    nothing left over: every title/poster length prefix equals the bytes that follow. -/
theorem article_entries_parse_encode (as : List ArtEntry) (h : ∀ a ∈ as, a.WF) :
    parseArtEntries as.length (artEntriesEncode as) = some as :=
  parseArtEntries_encode as h

example : (⟨7, List.replicate 8 1, 0, [116], [112, 113], 12⟩ : ArtEntry).WF := by simp [ArtEntry.WF]

/-- Integer fields: 2- and 4-byte encodings decode to the value; any other length is rejected. -/
theorem decode_int_roundtrip (n : Nat) :
    (n < 65536 → decodeInt (be16 n) = .ok n) ∧ (n < 4294967296 → decodeInt (be32 n) = .ok n) ∧
    (∀ d : Bytes, d.length ≠ 2 → d.length ≠ 4 → decodeInt d = .err) :=
  ⟨decodeInt_be16 n, decodeInt_be32 n, decodeInt_other⟩

/-- The emitted bytes do not depend on the sizes of the buffers the encoder is drained through,
    and emission terminates: for *every* script of buffer sizes ≥ 1 with at least |bytes|+1
    entries the drained output is exactly the layout and the last call reports EOF. -/
theorem drain_buffer_independent (layout : Bytes) (sizes : List Nat)
    (h1 : ∀ n ∈ sizes, 1 ≤ n) (h2 : layout.length < sizes.length) :
    drain layout sizes 0 = ⟨layout, layout.length, true⟩ :=
  drain_complete layout sizes h1 h2

/-- Any two adequate scripts deliver the same bytes. -/
theorem drain_scripts_agree (layout : Bytes) (s1 s2 : List Nat)
    (h1 : ∀ n ∈ s1, 1 ≤ n) (h2 : ∀ n ∈ s2, 1 ≤ n)
    (l1 : layout.length < s1.length) (l2 : layout.length < s2.length) :
    (drain layout s1 0).out = (drain layout s2 0).out := by
  rw [drain_complete layout s1 h1 l1, drain_complete layout s2 h2 l2]

/-- Whatever the script (even an inadequate one), what was delivered is a prefix of the layout. -/
theorem drain_always_prefix (layout : Bytes) (sizes : List Nat) :
    (drain layout sizes 0).out = layout.take (drain layout sizes 0).off := by
  have := (drain_prefix_exact layout sizes 0 (by omega)).1
  simpa using this

/-! Obligations over the tables regenerated from /repo's source on every run. -/

/-- The transaction-type numbering in the source is the protocol's. -/
theorem generated_tranTypes : Generated.tranTypes = Spec.tranTypes := by decide

/-- The field-id numbering in the source is the protocol's. -/
theorem generated_fieldIDs : Generated.fieldIDs = Spec.fieldIDs := by decide

/-- Framing constants (header length, minimum field length, handshake size, …). -/
theorem generated_miscConsts : Generated.miscConsts = Spec.miscConsts := by decide

/-- Every `Read([]byte)` method in the source has the standard offset-reader shape that `drain`
    models (`if off ≥ len(buf) {return 0, EOF}; n := copy(p, buf[off:]); off += n; return n, nil`). -/
theorem generated_readers_standard : ∀ r ∈ Generated.readers, r.2.1 = true := by decide

/-- The set of readers is the one the correspondence check drains (none added or dropped silently). -/
theorem generated_readers_names : Generated.readers.map (·.1) =
    ["hotline.Account", "hotline.Field", "hotline.FileHeader", "hotline.FileNameWithInfo",
     "hotline.FlatFileInformationFork", "hotline.NewsArtList", "hotline.NewsArtListData",
     "hotline.NewsCategoryListData15", "hotline.TrackerRegistration", "hotline.Transaction", "hotline.User",
     "hotline.flattenedFileObject", "mobius.Agreement", "mobius.FlatNews"] := by decide

-- non-vacuity: concrete objects meeting the hypotheses
example : (⟨101, [1, 2, 3]⟩ : Field).WF := by decide
example : Field.decode (Field.encode ⟨101, [1, 2, 3]⟩) = .ok (⟨101, [1, 2, 3]⟩, 7) := by decide
example : Transaction.decode (Transaction.encode ⟨0, 1, 107, 7, 0, [⟨105, [0x98]⟩, ⟨106, []⟩]⟩)
    = .ok ⟨0, 1, 107, 7, 0, [⟨105, [0x98]⟩, ⟨106, []⟩]⟩ := by decide +kernel
example : pathDecode (pathEncode [[100, 105, 114], [115, 117, 98]]) = .ok [[100, 105, 114], [115, 117, 98]] := by decide
example : User.decode (User.encode ⟨1, 2, 3, [65, 66]⟩) = .ok (⟨1, 2, 3, [65, 66]⟩, 10) := by decide
example : (⟨[84, 69, 88, 84], [116, 116, 120, 116], 5, [0, 0, 0, 0], 0, [97, 46, 116]⟩ : FileNameWithInfo).WF := by
  simp [FileNameWithInfo.WF]
example : resumeDecode (resumeEncode [⟨[68, 65, 84, 65], 256⟩]) = .ok [⟨[68, 65, 84, 65], 256⟩] := by decide
example : drain [1, 2, 3, 4, 5] [2, 1, 1, 7, 1, 1] 0 = ⟨[1, 2, 3, 4, 5], 5, true⟩ := by decide

end Mobius.C01
