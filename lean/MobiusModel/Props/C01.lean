import MobiusModel.WireLemmas
import MobiusModel.WireLemmas2
import MobiusModel.WireLemmas3
import MobiusModel.Drain
import MobiusModel.Generated.Consts
import MobiusModel.Generated.Readers
import MobiusModel.Spec.Tables
import MobiusModel.TranslatedTies
import MobiusModel.SendPath
import MobiusModel.AliasNS
/-!
  C01 — Wire format fidelity of every protocol object.

  Property theorems only (helper lemmas live in `WireLemmas`, `Drain`).  The encoders named here
  are the *reference Hotline layouts* of `Wire.lean`; the correspondence check compares the Go
  encoders with them byte for byte, and the fact extractor ties every Go `Read` method to the
  standard offset-reader shape that `drain` models.
-/
namespace Mobius.C01

/-- Field: decoding the emitted bytes yields the original field and consumes all of them. -/
theorem field_decode_encode (f : Field) (h : f.WF) :
    Field.decode f.encode = .ok (f, f.encode.length) := by
  rw [Field.decode_encode' f h, Field.encode_length]

/-- Field: the size prefix equals the number of data bytes that follow. -/
theorem field_prefix (f : Field) (h : f.WF) :
    rd16 (f.encode.drop 2) = (f.encode.drop 4).length ∧ (f.encode.drop 4) = f.data := by
  obtain ⟨_, hlen⟩ := h
  have h2 : (f.encode).drop 2 = be16 f.data.length ++ f.data := by simp [Field.encode, be16]
  have h4 : (f.encode).drop 4 = f.data := by simp [Field.encode, be16]
  rw [h2, h4, rd16_be16_append]
  exact ⟨by omega, rfl⟩

/-- Transaction: decoding the emitted bytes yields the original transaction. -/
theorem transaction_decode_encode (t : Transaction) (h : t.WFdec) :
    Transaction.decode t.encode = .ok t :=
  Transaction.decode_encode' t h

/-- Transaction: every length / size / count prefix equals what follows. -/
theorem transaction_prefixes (t : Transaction) (h : t.WFdec) :
    t.encode.length = 20 + rd32 (t.encode.drop 12) ∧
    rd32 (t.encode.drop 12) = rd32 (t.encode.drop 16) ∧
    rd32 (t.encode.drop 12) = (t.encode.drop 20).length ∧
    rd16 (t.encode.drop 20) = t.fields.length ∧
    parseFields t.fields.length (t.encode.drop 22) = .ok t.fields := by
  obtain ⟨hty, hid, herr, hf, hn, hp⟩ := h
  have hl := Transaction.encode_length t
  have d12 := Transaction.drop12 t []
  have d20 := Transaction.drop20 t []
  have d22 := Transaction.drop22 t []
  simp only [List.append_nil] at d12 d20 d22
  have d16 : t.encode.drop 16 = be32 t.payloadSize ++ (be16 t.fields.length ++ fieldsEncode t.fields) := by
    simp [Transaction.encode, be16, be32]
  rw [d12, d16, d20, d22, rd32_be32_append, rd32_be32_append, rd16_be16_append]
  have e1 : t.payloadSize % 4294967296 = t.payloadSize := by omega
  have e3 : t.fields.length % 65536 = t.fields.length := by omega
  rw [e1, e3]
  refine ⟨hl, rfl, ?_, rfl, ?_⟩
  · simp [fieldsEncode_length, Transaction.payloadSize]
  · simpa using parseFields_encode t.fields hf []

/-- A concatenation of emitted transactions is self-delimiting: it parses back to the same list. -/
theorem stream_selfdelimiting (ts : List Transaction) (h : ∀ t ∈ ts, t.WFdec) :
    parseStream (ts.map Transaction.encode).flatten = .ok ts := by
  unfold parseStream
  apply parseStreamAux_encode ts h
  have : ∀ (l : List Transaction), (∀ t ∈ l, t.WFdec) → l.length ≤ (l.map Transaction.encode).flatten.length := by
    intro l hl
    induction l with
    | nil => simp
    | cons t l ih =>
      have := Transaction.encode_length t
      have := ih (fun u hu => hl u (by simp [hu]))
      simp at *; omega
  exact this ts h

/-- User record (field 300): decoding the emitted bytes yields the original record, consuming all of them;
    the name-length prefix equals the number of name bytes. -/
theorem user_decode_encode (u : User) (h : u.WF) :
    User.decode u.encode = .ok (u, u.encode.length) ∧ rd16 (u.encode.drop 6) = (u.encode.drop 8).length := by
  refine ⟨by rw [User.decode_encode' u h, User.encode_length], ?_⟩
  have d6 : u.encode.drop 6 = be16 u.name.length ++ u.name := by simp [User.encode, be16]
  have d8 : u.encode.drop 8 = u.name := by simp [User.encode, be16]
  rw [d6, d8, rd16_be16_append]
  have := h.2.2.2
  omega

/-- File path (field 202): decoding an encoded path yields the original items, for every list of
    items whose names fit the one-byte length prefix. -/
theorem path_decode_encode (items : List Bytes) (h : ∀ it ∈ items, it.length < 256) (hn : items.length < 65536) :
    pathDecode (pathEncode items) = .ok items :=
  pathDecode_encode items h hn

/-- File list record (field 200): decoding an emitted record yields the record, and the
    name-size prefix equals the number of name bytes that follow. -/
theorem file_name_with_info_decode_encode (f : FileNameWithInfo) (h : f.WF) :
    FileNameWithInfo.decode f.encode = .ok f ∧ f.encode.length = 20 + f.name.length :=
  ⟨FileNameWithInfo.decode_encode' f h, FileNameWithInfo.encode_length f h⟩

/-- Resume data (field 203): `UnmarshalBinary` of `BinaryMarshal` output yields the fork list
    (fork count is one byte: fewer than 256 forks). -/
theorem resume_decode_encode (forks : List ForkInfo) (h : ∀ f ∈ forks, f.WF) (hn : forks.length < 256) :
    resumeDecode (resumeEncode forks) = .ok forks :=
  resumeDecode_encode forks h hn

/-- Information fork of a flattened file object: decoding the emitted fork yields the original fork
    (name, comment, type/creator codes, dates), its length equals the declared `DataSize`
    (74 + |name| + |comment|).  The name bound is the decoder's own 16-bit arithmetic. -/
theorem info_fork_decode_encode (i : InfoFork) (h : i.WF) (hn : i.name.length + 74 < 65536) :
    InfoFork.decode i.encode = .ok i ∧ i.encode.length = i.size :=
  ⟨InfoFork.decode_encode' i h hn, InfoFork.encode_length i h.1⟩

example : (⟨[1,2,3,4], [5,6,7,8], [9,9,9,9], [0,0,0,0], [0,0,0,0], List.replicate 32 0, List.replicate 8 7,
    List.replicate 8 8, [0,0], [104, 105], [33]⟩ : InfoFork).WF := by
  simp [InfoFork.WF, InfoFork.fixedWF]

/-- Flattened file object: the upload parser (`ReadFrom`) applied to an emitted header yields the
    fork count, information fork and data size the header was built from, whatever file data
    follows — so the INFO size prefix equals the fork bytes that follow and the DATA header is
    found right behind them. -/
theorem flattened_header_decode_encode (fc : Nat) (i : InfoFork) (ds : Nat) (h : i.WF)
    (hn : i.name.length + 74 < 65536) (hfc : fc < 65536) (hds : ds < 4294967296) (rest : Bytes) :
    ffoDecode (ffoHeader fc i ds ++ rest) = .ok (fc, i, ds) :=
  ffoDecode_header fc i ds h hn hfc hds rest

/-- News path (field 325): decoding an encoded news path yields the original items. -/
theorem news_path_decode_encode (items : List Bytes) (h : ∀ it ∈ items, it.length < 256) (hn : items.length < 65536) :
    newsPathDecode (pathEncode items) = .ok items :=
  newsPathDecode_encode items h hn

/-- Account record (reply to "get user"): the parameter-count prefix equals the number of fields,
    the fields parse back in order, and the login obfuscation is its own inverse. -/
theorem account_record_roundtrip (a : AccountRec) (h1 : a.name.length < 65536) (h2 : a.login.length < 65536)
    (h3 : a.access.length < 65536) :
    rd16 a.encode = a.fields.length ∧ parseFields a.fields.length (a.encode.drop 2) = .ok a.fields ∧
    obfuscate (obfuscate a.login) = a.login :=
  ⟨(AccountRec.roundtrip a h1 h2 h3).1, (AccountRec.roundtrip a h1 h2 h3).2, obfuscate_involutive a.login⟩

/-- Transfer preamble: the 16 bytes a transfer connection starts with decode to the reference number
    and size they were built from, whatever follows them on the stream. -/
theorem transfer_preamble_decode_encode (ref size : Nat) (hr : ref < 4294967296) (hs : size < 4294967296) (rest : Bytes) :
    transferDecode (transferPreamble ref size ++ rest) = .ok (ref, size) :=
  transferDecode_preamble ref size hr hs rest

/-- Handshake: every emitted client handshake is accepted, whatever versions it names. -/
theorem handshake_accepted (ver sub : Nat) (rest : Bytes) : handshakeValid (handshakeBytes ver sub ++ rest) = true :=
  handshakeValid_bytes ver sub rest

/-- Article list (field 321): a client parsing the emitted entries gets exactly the entries, in order,
    nothing left over: every title/poster length prefix equals the bytes that follow. -/
theorem article_entries_parse_encode (as : List ArtEntry) (h : ∀ a ∈ as, a.WF) :
    parseArtEntries as.length (artEntriesEncode as) = some as :=
  parseArtEntries_encode as h

example : (⟨7, List.replicate 8 1, 0, [116], [112, 113], 12⟩ : ArtEntry).WF := by simp [ArtEntry.WF]

/-- Integer fields: 2- and 4-byte encodings decode to the value; any other length is rejected. -/
theorem decode_int_roundtrip (n : Nat) :
    (n < 65536 → decodeInt (be16 n) = .ok n) ∧ (n < 4294967296 → decodeInt (be32 n) = .ok n) ∧
    (∀ d : Bytes, d.length ≠ 2 → d.length ≠ 4 → decodeInt d = .err) :=
  ⟨decodeInt_be16 n, decodeInt_be32 n, decodeInt_other⟩

/-- The emitted bytes do not depend on the sizes of the buffers the encoder is drained through,
    and emission terminates: for *every* script of buffer sizes ≥ 1 with at least |bytes|+1
    entries the drained output is exactly the layout and the last call reports EOF. -/
theorem drain_buffer_independent (layout : Bytes) (sizes : List Nat)
    (h1 : ∀ n ∈ sizes, 1 ≤ n) (h2 : layout.length < sizes.length) :
    drain layout sizes 0 = ⟨layout, layout.length, true⟩ :=
  drain_complete layout sizes h1 h2

/-- Any two adequate scripts deliver the same bytes. -/
theorem drain_scripts_agree (layout : Bytes) (s1 s2 : List Nat)
    (h1 : ∀ n ∈ s1, 1 ≤ n) (h2 : ∀ n ∈ s2, 1 ≤ n)
    (l1 : layout.length < s1.length) (l2 : layout.length < s2.length) :
    (drain layout s1 0).out = (drain layout s2 0).out := by
  rw [drain_complete layout s1 h1 l1, drain_complete layout s2 h2 l2]

/-- Whatever the script (even an inadequate one), what was delivered is a prefix of the layout. -/
theorem drain_always_prefix (layout : Bytes) (sizes : List Nat) :
    (drain layout sizes 0).out = layout.take (drain layout sizes 0).off := by
  have := (drain_prefix_exact layout sizes 0 (by omega)).1
  simpa using this

/-! Obligations over the tables regenerated from /repo's source on every run. -/

/-- The transaction-type numbering in the source is the protocol's. -/
theorem generated_tranTypes : Generated.tranTypes = Spec.tranTypes := by decide

/-- The field-id numbering in the source is the protocol's. -/
theorem generated_fieldIDs : Generated.fieldIDs = Spec.fieldIDs := by decide

/-- Framing constants (header length, minimum field length, handshake size, …). -/
theorem generated_miscConsts : Generated.miscConsts = Spec.miscConsts := by decide

/-- Every `Read([]byte)` method in the source has the standard offset-reader shape that `drain`
    models (`if off ≥ len(buf) {return 0, EOF}; n := copy(p, buf[off:]); off += n; return n, nil`). -/
theorem generated_readers_standard : ∀ r ∈ Generated.readers, r.2.1 = true := by decide

/-- The set of readers is the one the correspondence check drains (none added or dropped silently). -/
theorem generated_readers_names : Generated.readers.map (·.1) =
    ["hotline.Account", "hotline.Field", "hotline.FileHeader", "hotline.FileNameWithInfo",
     "hotline.FlatFileInformationFork", "hotline.NewsArtList", "hotline.NewsArtListData",
     "hotline.NewsCategoryListData15", "hotline.TrackerRegistration", "hotline.Transaction", "hotline.User",
     "hotline.flattenedFileObject", "mobius.Agreement", "mobius.FlatNews"] := by decide

-- non-vacuity: concrete objects meeting the hypotheses
example : (⟨101, [1, 2, 3]⟩ : Field).WF := by decide
example : Field.decode (Field.encode ⟨101, [1, 2, 3]⟩) = .ok (⟨101, [1, 2, 3]⟩, 7) := by decide
example : Transaction.decode (Transaction.encode ⟨0, 1, 107, 7, 0, [⟨105, [0x98]⟩, ⟨106, []⟩]⟩)
    = .ok ⟨0, 1, 107, 7, 0, [⟨105, [0x98]⟩, ⟨106, []⟩]⟩ := by decide +kernel
example : pathDecode (pathEncode [[100, 105, 114], [115, 117, 98]]) = .ok [[100, 105, 114], [115, 117, 98]] := by decide
example : User.decode (User.encode ⟨1, 2, 3, [65, 66]⟩) = .ok (⟨1, 2, 3, [65, 66]⟩, 10) := by decide
example : (⟨[84, 69, 88, 84], [116, 116, 120, 116], 5, [0, 0, 0, 0], 0, [97, 46, 116]⟩ : FileNameWithInfo).WF := by
  simp [FileNameWithInfo.WF]
example : resumeDecode (resumeEncode [⟨[68, 65, 84, 65], 256⟩]) = .ok [⟨[68, 65, 84, 65], 256⟩] := by decide
example : drain [1, 2, 3, 4, 5] [2, 1, 1, 7, 1, 1] 0 = ⟨[1, 2, 3, 4, 5], 5, true⟩ := by decide

section SendPathSection
open Mobius.SendPath

/-! The send path (`SendPath.lean`: `Server.sendTransaction` over whole histories of sends, some of whose
    `Write` calls fail).  Wave d. -/

/-- What is written for a transaction is its wire layout and nothing else, whatever was sent — or failed to be
    sent — before: the `Write` calls made for step `s` are the same after ANY two histories. -/
theorem send_path_no_residue (pre₁ pre₂ : List Step) (s : Step) :
    (run (pre₁ ++ [s])).drop (run pre₁).length = send s ∧
    (run (pre₂ ++ [s])).drop (run pre₂).length = send s := by
  simp [run_append, run]

/-- Every `Write` call of every history offers exactly the layout of one transaction of that history, to its
    addressee, and that layout has the prefix laws and decodes to the transaction. -/
theorem send_path_every_write_is_one_layout (h : List Step) (hwf : ∀ s ∈ h, s.t.WFdec) :
    ∀ c ∈ run h, ∃ s ∈ h, s.registered = true ∧ c.client = s.client ∧ c.outcome = s.outcome ∧
      c.bytes = s.t.encode ∧ Transaction.decode c.bytes = .ok s.t ∧ c.bytes.length = 20 + rd32 (c.bytes.drop 12) := by
  intro c hc
  rw [run_calls] at hc
  simp only [List.mem_map, List.mem_filter] at hc
  obtain ⟨s, ⟨hs, hr⟩, rfl⟩ := hc
  exact ⟨s, hs, hr, rfl, rfl, rfl, transaction_decode_encode s.t (hwf s hs), (transaction_prefixes s.t (hwf s hs)).1⟩

/-- The number of `Write` calls is the number of sends to registered clients: one call per transaction. -/
theorem send_path_one_write_per_send (h : List Step) :
    (run h).length = (h.filter (·.registered)).length := by
  rw [run_calls]; simp

/-- A client all of whose writes succeeded has received a self-delimiting stream that parses to exactly the
    transactions addressed to it, in order — whatever happened on the other clients' connections (failed
    writes, short writes) in between. -/
theorem send_path_stream_of_healthy_client (c : Nat) (h : List Step) (hwf : ∀ s ∈ h, s.t.WFdec)
    (hok : ∀ s ∈ h, s.client = c → s.registered = true → s.outcome = .ok) :
    parseStream (received c (run h)) = .ok (delivered c h) := by
  rw [received_all_ok c h hok]
  apply stream_selfdelimiting
  intro t ht
  unfold delivered stepsOf at ht
  simp only [List.mem_map, List.mem_filter] at ht
  obtain ⟨s, ⟨⟨hs, _⟩, _⟩, rfl⟩ := ht
  exact hwf s hs

/-- What a client receives depends on the sends addressed to it only. -/
theorem send_path_clients_independent (c : Nat) (h : List Step) :
    received c (run h) = received c (run (stepsOf c h)) := by
  unfold received
  rw [filter_run, filter_run]
  unfold stepsOf
  simp [List.filter_filter]

-- non-vacuity: a history with a failed write to client 1 between two sends to client 2
example : ∀ s ∈ demoHist, s.t.WFdec := by
  unfold Transaction.WFdec Field.Scannable; decide
example : ∀ s ∈ demoHist, s.client = 2 → s.registered = true → s.outcome = .ok := by decide
example : (run demoHist).length = 4 ∧ delivered 2 demoHist = [demoT 1, demoT 4] := by decide
example : parseStream (received 2 (run demoHist)) = .ok [demoT 1, demoT 4] := by decide +kernel
/-- The theorems are about `sendTransaction` as written, not about any send path: one that serialises into a
    recycled buffer which is reset only after a successful write emits, after the failed write of `demoHist`,
    a call that is not the layout of any transaction (the class of seeded change C01d-1). -/
example : ¬ ∀ c ∈ Pooled.run [] demoHist, ∃ s ∈ demoHist, c.bytes = s.t.encode := by decide

end SendPathSection

section AliasSection
open Mobius.AliasNS

/-! Downloads of aliases (`AliasNS.lean`: a namespace with alias chains of any length; sizes through `Stat`,
    bytes through `Open`, both following the chain).  Wave d. -/

/-- For every namespace, every path that resolves to a file through any chain of aliases, and every request
    (whole file, or resumed at any offset within the file): the stream is the flattened header followed by
    exactly the bytes `Open` yields from the offset, then the resource fork part; the header has the length the
    sizes account for; the reply's file size is the number of data bytes that follow the header and its
    transfer size the header + those bytes + the stored resource fork; and for a whole-file request the DATA
    fork size field of the header IS the number of data bytes that follow it. -/
theorem alias_download_size_prefixes_agree (ns : NS) (p : Nat) (k : Option Nat) (own : Own) (rep : Reply) (s : Bytes)
    (ho : ownOf ns p = some own) (hty : own.ty.length = 4) (hcr : own.creator.length = 4)
    (hm : ∀ m n, stat ns p = some (m, n) → m.length = 8 ∧ n < 4294967296)
    (hd : download ns p k = some (rep, s)) :
    ∃ data info, openData ns p = some data ∧ k.getD 0 ≤ data.length ∧
      s = ffoHeader 2 info data.length ++ (data.drop (k.getD 0) ++
            ((if k.isSome then [] else forkHeader macr (rsrcLen own)) ++ own.rsrc.getD [])) ∧
      (ffoHeader 2 info data.length).length = 56 + info.size ∧
      rep.fileSize = (data.drop (k.getD 0)).length ∧
      rep.transferSize = (ffoHeader 2 info data.length).length + (data.drop (k.getD 0)).length + rsrcLen own ∧
      (s.drop (56 + info.size)).take rep.fileSize = data.drop (k.getD 0) ∧
      (k = none → rd32 (s.drop (52 + info.size)) = data.length ∧ (s.drop (56 + info.size)).take data.length = data) := by
  unfold download at hd
  rw [ho] at hd
  cases hst : stat ns p with
  | none => simp [hst] at hd
  | some mn =>
    obtain ⟨mtime, size⟩ := mn
    obtain ⟨data, hop, hlen⟩ := stat_open ns p mtime size hst
    obtain ⟨hm8, hsz⟩ := hm mtime size hst
    simp only [hst, hop] at hd
    by_cases hoff : k.getD 0 > size
    · simp [hoff] at hd
    · simp only [hoff, if_false, Option.some.injEq, Prod.mk.injEq] at hd
      obtain ⟨hrep, hs⟩ := hd
      have hf := defaultInfo_fixedWF own mtime hm8 hty hcr
      subst hlen
      refine ⟨data, defaultInfo own mtime, hop, by omega, hs.symm, ffoHeader_length _ _ _ hf, ?_, ?_, ?_, ?_⟩
      · rw [← hrep]; simp
      · rw [← hrep, ffoHeader_length _ _ _ hf]; simp; omega
      · rw [← hs, ← hrep, ffoHeader_drop_all _ _ _ _ hf]
        have : (data.drop (k.getD 0)).length = data.length - k.getD 0 := by simp
        rw [← this]; exact List.take_left' rfl
      · intro hk
        subst hk
        rw [← hs]
        refine ⟨?_, ?_⟩
        · rw [ffoHeader_drop_dsize _ _ _ _ hf, rd32_be32_append]; omega
        · rw [ffoHeader_drop_all _ _ _ _ hf]; simp

/-- An alias delivers what its target delivers, whatever the length of the chain behind it. -/
theorem alias_resolves_as_its_target (ns : NS) (p t : Nat) (own : Own) (fuel : Nat)
    (h : lookup ns p = some (.alias own t)) :
    resolve (fuel + 1) ns p = resolve fuel ns t := by
  simp [resolve, h]

-- non-vacuity: the alias of an alias in `demoNS` (path 2) delivers the 5 bytes of the file at path 0
example : openData demoNS 2 = some [1, 2, 3, 4, 5] ∧ stat demoNS 2 = some (List.replicate 8 0, 5) := by decide
example : ∃ own, ownOf demoNS 2 = some own ∧ own.ty.length = 4 ∧ own.creator.length = 4 := ⟨_, rfl, by decide, by decide⟩
example : (download demoNS 2 none).map (fun r => (r.1.fileSize, r.1.transferSize, r.2.length)) = some (5, 138, 154) := by decide +kernel
example : (download demoNS 2 (some 3)).map (fun r => (r.1.fileSize, r.2.drop 131)) = some (2, [4, 5, 9, 9]) := by decide +kernel
/-- Not vacuous: a wrapper that takes the size from the link itself (`Lstat`; the class of seeded change C01d-2)
    announces a size that is not the number of bytes that follow. -/
example : (downloadLstat demoNS 2 44).map (fun r => decide (r.1 = r.2.length)) = some false := by decide

end AliasSection

/-! Ties by translation (docs/Translator.md): the split / decode functions the decoders above are
    built from ARE the Go functions of /repo's current source, translated to Lean on every check
    (`Generated/Translated.lean`) — equal for all inputs.  A semantic change of one of these Go
    functions (a bound, a constant, an offset, the width of an addition) breaks its theorem.
    `.panic` on the translated side = Go run-time panic or a slice bound above the length. -/

/-- `FieldScanner` (the inner scanner of `Transaction.Write`, `parseFields`) is `fieldSplit`. -/
theorem translated_FieldScanner_is_the_model (d : Bytes) (atEOF : Bool) :
    Generated.Translated.FieldScanner (some d) atEOF = .ok (match fieldSplit d with
      | none => (0, none, none)
      | some (adv, tok) => ((adv : Int), some tok, none)) :=
  TranslatedTies.FieldScanner_translated d atEOF

/-- `transactionScanner` is `tranSplit` (the split function of `parseStream`). -/
theorem translated_transactionScanner_is_tranSplit (d : Bytes) (atEOF : Bool) :
    Generated.Translated.transactionScanner (some d) atEOF = .ok (match tranSplit d with
      | none => (0, none, none)
      | some (adv, tok) => ((adv : Int), some tok, none)) :=
  TranslatedTies.transactionScanner_translated_tranSplit d atEOF

/-- `Field.DecodeInt` is `decodeInt` (and neither ever panics). -/
theorem translated_DecodeInt_is_the_model (d : Bytes) :
    Generated.Translated.Field_DecodeInt (some d) = .ok (match decodeInt d with
      | .ok n => ((n : Int), none)
      | _ => (0, some "unknown byte length")) :=
  TranslatedTies.DecodeInt_translated d

/-- One step of the `FilePath.Write` item loop of the model is the translated `fileItemScanner` on the
    remaining data followed by the translated `FilePathItem.Write` on the token; only the reaction of
    `bufio.Scanner` to a token slice that overruns the data (capacity) is the model's own. -/
theorem translated_fileItemScanner_is_the_model_step (d : Bytes) (n pos : Nat) :
    pathDecodeItems d (n + 1) pos =
      match Generated.Translated.fileItemScanner (some (d.drop pos)) true with
      | .ok (adv, some tok, _) =>
        (match Generated.Translated.FilePathItem_Write 0 none (some tok) with
         | .ok (_, none, _, some name) =>
           (match pathDecodeItems d n (pos + adv.toNat) with
            | .ok is => .ok (name :: is)
            | r => r)
         | _ => .err)
      | .ok (_, none, _) => .err
      | .panic => if pos + 3 + ((d.drop (pos + 2)).headD 0).toNat > scanBufCap then .panic else .err :=
  TranslatedTies.pathDecodeItems_step_translated d n pos

/-- One step of the `DecodeNewsPath` loop of the model is the translated `newsPathScanner`. -/
theorem translated_newsPathScanner_is_the_model_step (d : Bytes) (n pos : Nat) (prev : Bytes) :
    newsPathDecodeItems d (n + 1) pos prev =
      match Generated.Translated.newsPathScanner (some (d.drop pos)) true with
      | .ok (adv, some name, _) =>
        (match newsPathDecodeItems d n (pos + adv.toNat) name with
         | .ok is => .ok (name :: is)
         | r => r)
      | .ok (_, none, _) =>
        (match newsPathDecodeItems d n pos [] with
         | .ok is => .ok ([] :: is)
         | r => r)
      | .panic =>
        if pos + 3 + ((d.drop (pos + 2)).headD 0).toNat > scanBufCap then .panic
        else (match newsPathDecodeItems d n pos prev with
          | .ok is => .ok (prev :: is)
          | r => r) :=
  TranslatedTies.newsPathDecodeItems_step_translated d n pos prev

-- non-vacuity: concrete inputs through the translated functions
example : Generated.Translated.FieldScanner (some ([0, 105] ++ be16 2 ++ [7, 8, 9])) true
    = .ok (6, some ([0, 105] ++ be16 2 ++ [7, 8]), none) := by decide
example : Generated.Translated.Field_DecodeInt (some (be32 70000)) = .ok (70000, none) := by decide
example : Generated.Translated.fileItemScanner (some [0, 0, 2, 65, 66, 0, 0]) false = .ok (5, some [0, 0, 2, 65, 66], none) := by decide
example : Generated.Translated.newsPathScanner (some [0, 0, 2, 65, 66, 0, 0]) false = .ok (5, some [65, 66], none) := by decide
example : pathDecodeItems [0, 0, 2, 65, 66] 1 0 = .ok [[65, 66]] := by decide

/-- `Transaction.Size` (the total-size / data-size bytes `Transaction.Read` writes) is `be32 payloadSize`
    of the reference encoder, for every transaction (the 32-bit truncation included). -/
theorem translated_Transaction_Size_is_the_model (t : Transaction) :
    Generated.Translated.Transaction_Size (t.fields.map fun f => some f.data) = .ok (some (be32 t.payloadSize)) :=
  TranslatedTies.Size_translated t

example : Generated.Translated.Transaction_Size [some [1, 2, 3], some []] = .ok (some [0, 0, 0, 13]) := by decide

/-! ### `EncodeString` (the login / password obfuscation) against its regenerated body

  `Generated.encodeStringShape` is the signature and the statements of `hotline.EncodeString`, re-extracted
  on every run with identifiers renamed by position.  The text says: a fresh slice of the argument's length
  whose element `i` is `255 - arg[i]` for every `i` below the length.  `obfuscate_is_that_loop` is exactly
  that statement about the model's `obfuscate`, for every byte string and every index. -/

theorem generated_encodeString_shape :
    Generated.encodeStringShape =
      ["func([]byte) []byte",
       "v0 := make([]byte, len(p0))",
       "for v1 := 0; v1 < len(p0); v1++ { v0[v1] = 255 - p0[v1] }",
       "return v0"] := by decide

theorem obfuscate_is_that_loop (b : Bytes) :
    (obfuscate b).length = b.length ∧
    ∀ (i : Nat) (h : i < b.length), (obfuscate b)[i]? = some (255 - b[i]) := by
  refine ⟨by simp [obfuscate], fun i h => ?_⟩
  simp [obfuscate, h]

/-- … and a list with those two properties is `obfuscate b`: the loop text determines the result. -/
theorem that_loop_is_obfuscate (b r : Bytes) (hl : r.length = b.length)
    (he : ∀ (i : Nat) (h : i < b.length), r[i]? = some (255 - b[i])) : r = obfuscate b := by
  apply List.ext_getElem?
  intro i
  by_cases h : i < b.length
  · rw [he i h, (obfuscate_is_that_loop b).2 i h]
  · have h1 : r.length ≤ i := by omega
    have h2 : (obfuscate b).length ≤ i := by rw [(obfuscate_is_that_loop b).1]; omega
    rw [List.getElem?_eq_none h1, List.getElem?_eq_none h2]

example : obfuscate [0, 97, 255] = [255, 158, 0] := by decide

end Mobius.C01
