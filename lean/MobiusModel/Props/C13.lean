import MobiusModel.Presence
import MobiusModel.PresenceAbort
import MobiusModel.PresenceTeardown
import MobiusModel.Generated.Consts
import MobiusModel.Generated.Recover
import MobiusModel.Generated.Concurrency
import MobiusModel.Generated.Outbox
/-!
  C13 — Presence converges and user ids address one live user.

  Property theorems only (model and lemmas: `Registry`, `Presence`).  The allocator mirrors
  `MemClientMgr.Add` after fix 2989207 (skip 0 and ids held by connected clients).
-/
namespace Mobius.C13

/-- `Registry.ids_nodup`: for ALL histories of add / delete — of any length, across any number of
    wraps of the 16-bit id and of the 32-bit counter — no two connected users share an id, and no
    connected user holds id 0. -/
theorem Registry.ids_nodup (ops : List RegOp) :
    ((ops.foldl regStep Registry.init).clients.map (·.id)).Nodup ∧
    ∀ c ∈ (ops.foldl regStep Registry.init).clients, c.id ≠ 0 ∧ c.id < 65536 :=
  ⟨(regOps_inv ops).ids_nodup, (regOps_inv ops).range⟩

/-- The allocator's loop terminates with an id whenever fewer than 65 535 users are connected, and
    the id it hands out is non-zero, 16-bit and held by nobody. -/
theorem allocator_terminates (ops : List RegOp) (mk : Client)
    (hcap : (ops.foldl regStep Registry.init).clients.length < 65535) :
    ∃ r' c, (ops.foldl regStep Registry.init).add mk = some (r', c) ∧
      c.id ≠ 0 ∧ c.id < 65536 ∧ c.id ∉ (ops.foldl regStep Registry.init).ids ∧
      ∀ x, x ∈ r'.clients ↔ x = c ∨ x ∈ (ops.foldl regStep Registry.init).clients := by
  obtain ⟨r', c, ha⟩ := Registry.add_succeeds (r := ops.foldl regStep Registry.init) mk hcap
  have hs := Registry.add_spec (regOps_inv ops) ha
  exact ⟨r', c, ha, hs.2.1, hs.2.2.1, hs.2.2.2.1, hs.2.2.2.2.2.2.2.2⟩

/-- A newcomer never replaces a connected user: everybody who was in the table is still in it, with
    the same record, after any `Add`. -/
theorem add_keeps_everybody (r : Registry) (h : r.Inv) (mk : Client) (r' : Registry) (c : Client)
    (ha : r.add mk = some (r', c)) : ∀ d ∈ r.clients, r'.get d.id = some d := by
  intro d hd
  have hs := Registry.add_spec h ha
  exact Registry.get_of_mem hs.1.sorted ((hs.2.2.2.2.2.2.2.2 d).mpr (Or.inr hd))

/-- A transaction addressed to id `i` is delivered only to the one connected user holding `i`
    (`sendTransaction`'s lookup), in every reachable state; to nobody when no one holds it. -/
theorem delivered_only_to_holder (r : Registry) (h : r.Inv) (o : Out) (k : Nat) (hd : deliver r o = some k) :
    ∃ c ∈ r.clients, c.id = o.to ∧ c.conn = k ∧ ∀ c' ∈ r.clients, c'.id = o.to → c' = c := by
  unfold deliver at hd
  cases hg : r.get o.to with
  | none => simp [hg] at hd
  | some c =>
    simp [hg] at hd
    have hc := Registry.get_some hg
    exact ⟨c, hc.1, hc.2, hd, fun c' hc' hid => h.sorted.eq_of_id hc' hc.1 (by rw [hid, hc.2])⟩

theorem undeliverable_without_holder (r : Registry) (o : Out) (hno : ∀ c ∈ r.clients, c.id ≠ o.to) : deliver r o = none := by
  unfold deliver
  cases hg : r.get o.to with
  | none => rfl
  | some c => exact absurd (Registry.get_some hg).2 (hno c (Registry.get_some hg).1)

-- ------------------------------------------------------------------ private messages

/-- The target refuses private messages: the sender gets the refusal (and the automatic reply when
    set, and the reply to its request); nothing at all is addressed to the target. -/
theorem private_message_refused (w : PresWorld) (a r t : Nat) (msg : Bytes) (q : Option Bytes) (c tc : Client)
    (hg : w.reg.get a = some c) (hp : accessBit c.access 40 = true) (ht : w.reg.get t = some tc)
    (href : flagBit tc.flags 2 = true) :
    (w.step (.sendIM a r t msg q)).1 = w ∧
    (w.step (.sendIM a r t msg q)).2.map (·.1) =
      [mkTran 104 c.id (imFields (tc.name ++ str " does not accept private messages.") tc 2)] ++
      (if tc.autoReply.length > 0 then [mkTran 104 c.id (imFields tc.autoReply tc 1)] else []) ++ [mkReply c r []] ∧
    ∀ o ∈ (w.step (.sendIM a r t msg q)).2.map (·.1), o.to = c.id := by
  have houts : (w.step (.sendIM a r t msg q)).2.map (·.1) =
      [mkTran 104 c.id (imFields (tc.name ++ str " does not accept private messages.") tc 2)] ++
      (if tc.autoReply.length > 0 then [mkTran 104 c.id (imFields tc.autoReply tc 1)] else []) ++ [mkReply c r []] := by
    simp only [PresWorld.step, hg, presSendIM, hp, ht, href, Bool.not_true, Bool.false_eq_true, if_false, if_true, List.map_map]
    exact List.map_id _
  refine ⟨by simp only [PresWorld.step, hg, presSendIM, hp, ht, Bool.not_true, Bool.false_eq_true, if_false], houts, ?_⟩
  rw [houts]
  intro o ho
  simp only [List.mem_append, List.mem_singleton] at ho
  rcases ho with (rfl | ho) | rfl
  · rfl
  · split at ho
    · simp only [List.mem_singleton] at ho; rw [ho]; rfl
    · cases ho
  · rfl

/-- The target accepts private messages: exactly one transaction carries the message, it is addressed
    to the target's id (so, by `delivered_only_to_holder`, it reaches the holder's connection only);
    the automatic reply, when set, and the reply go to the sender. -/
theorem private_message_delivered (w : PresWorld) (a r t : Nat) (msg : Bytes) (q : Option Bytes) (c tc : Client)
    (hg : w.reg.get a = some c) (hp : accessBit c.access 40 = true) (ht : w.reg.get t = some tc)
    (href : flagBit tc.flags 2 = false) :
    (w.step (.sendIM a r t msg q)).2.map (·.1) =
      [mkTran 104 t (imFields msg c 1 ++ match q with | some q => [⟨214, q⟩] | none => [])] ++
      (if tc.autoReply.length > 0 then [mkTran 104 c.id (imFields tc.autoReply tc 1)] else []) ++ [mkReply c r []] ∧
    deliver w.reg (mkTran 104 t (imFields msg c 1 ++ match q with | some q => [⟨214, q⟩] | none => [])) = some tc.conn := by
  refine ⟨?_, ?_⟩
  · simp only [PresWorld.step, hg, presSendIM, hp, ht, href, Bool.not_true, Bool.false_eq_true, if_false, List.map_map]
    exact List.map_id _
  · simp [deliver, mkTran, ht]

/-- Nobody holds the addressed id: nothing is sent to anybody. -/
theorem private_message_to_nobody (w : PresWorld) (a r t : Nat) (msg : Bytes) (q : Option Bytes) (c : Client)
    (hg : w.reg.get a = some c) (hp : accessBit c.access 40 = true) (ht : w.reg.get t = none) :
    w.step (.sendIM a r t msg q) = (w, []) := by
  simp only [PresWorld.step, hg, presSendIM, hp, ht, Bool.not_true, Bool.false_eq_true, if_false]

-- ------------------------------------------------------------------ roster convergence

/-- Every reachable state satisfies the invariant (table well formed; every roster a client holds is
    sorted, describes only connected users with their current data, and lists every announced user). -/
theorem reachable_inv (w : PresWorld) (h : w.Reach) : w.Inv := h.inv

/-- `Presence.converges`: in every reachable state in which no login is half-way (every connected
    user has been announced), folding the user-change / user-left notifications a client received
    onto the list it fetched gives exactly the server's current list (id, name, icon, flags).
    "Nothing in flight" is built into the model: a notification is in the log when it is emitted. -/
theorem Presence.converges (w : PresWorld) (h : w.Reach) (hsettled : ∀ d ∈ w.reg.clients, d.announced = true)
    (c : Client) (hc : c ∈ w.reg.clients) (r : List Entry) (hv : w.view c.conn = some r) : r = w.userList :=
  (h.inv.views c hc r hv).eq_userList h.inv.reg hsettled

/-- Even with logins half-way, what a client holds is never wrong about anybody it lists, and it
    lists every announced user: the only possible difference from the server's list is a missing
    entry for a user whose login is not complete. -/
theorem Presence.never_wrong (w : PresWorld) (h : w.Reach) (c : Client) (hc : c ∈ w.reg.clients) (r : List Entry)
    (hv : w.view c.conn = some r) :
    (∀ e ∈ r, e ∈ w.userList) ∧ (∀ d ∈ w.reg.clients, d.announced = true → entryOf d ∈ r) := by
  have hok := h.inv.views c hc r hv
  exact ⟨fun e he => by obtain ⟨d, hd, rfl⟩ := hok.sound e he; exact List.mem_map.mpr ⟨d, hd, rfl⟩, hok.complete⟩

/-- Going away and coming back are announced to EVERY connected user, the user itself included (both
    use `SendAll`): so the returning user's own row is reset too.  (Both events are ordinary steps of
    `Reach`, so `Presence.converges` covers histories with idle periods.) -/
theorem away_and_back_tell_everybody (w : PresWorld) (a : Nat) (c : Client) (hg : w.reg.get a = some c) :
    (flagBit c.flags 0 = false →
      (w.step (.away a)).2.map (fun p => p.1.to) = w.reg.ids ∧
      ∀ p ∈ (w.step (.away a)).2, p.2 = Note.change (entryOf { c with flags := setFlag c.flags 0 true })) ∧
    (flagBit c.flags 0 = true →
      (w.step (.wake a)).2.map (fun p => p.1.to) = w.reg.ids ∧
      ∀ p ∈ (w.step (.wake a)).2, p.2 = Note.change (entryOf { c with flags := setFlag c.flags 0 false })) := by
  have hid := (Registry.get_some hg).2
  have hids : ∀ c' : Client, c'.id = c.id →
      (w.reg.modify c.id (fun _ => c')).clients.map (fun d => (changeTo 301 changeFieldsC c' d).1.to) = w.reg.ids := by
    intro c' hc'
    unfold Registry.modify Registry.ids
    simp only [List.map_map]
    apply List.map_congr_left
    intro d _
    simp only [Function.comp, changeTo, mkTran]
    split
    · rename_i h; rw [hc', h]
    · rfl
  constructor
  · intro hf
    simp only [PresWorld.step, hg, presAway, hf, Bool.false_eq_true, if_false, List.map_map]
    refine ⟨hids _ rfl, ?_⟩
    intro p hp
    obtain ⟨d, _, rfl⟩ := List.mem_map.mp hp
    rfl
  · intro hf
    simp only [PresWorld.step, hg, presWake, hf, Bool.not_true, Bool.false_eq_true, if_false, List.map_map]
    refine ⟨hids _ rfl, ?_⟩
    intro p hp
    obtain ⟨d, _, rfl⟩ := List.mem_map.mp hp
    rfl

/-- The notes the model attaches to its outputs are what a client decodes from the bytes. -/
theorem wire_change_decodes (to : Nat) (c : Client) (hid : c.id < 65536) :
    noteOf (mkTran 301 to (changeFieldsA c)) = .change (entryOf c) ∧
    noteOf (mkTran 301 to (changeFieldsB c)) = .change (entryOf c) ∧
    noteOf (mkTran 301 to (changeFieldsC c)) = .change (entryOf c) := noteOf_change to c hid

theorem wire_left_decodes (to i : Nat) (hi : i < 65536) : noteOf (mkTran 302 to [⟨103, be16 i⟩]) = .left i :=
  noteOf_left to i hi

theorem wire_record_decodes (d : Client) (hid : d.id < 65536) (hic : (normIcon d.icon).length = 2)
    (hnm : d.name.length < 65536) : decodeUserRecord (userRecord d) = entryOf d := decode_userRecord d hid hic hnm

/-! Obligations over the facts regenerated from /repo's source on every run. -/

theorem generated_user_flags :
    (["UserFlagAway", "UserFlagAdmin", "UserFlagRefusePM", "UserFlagRefusePChat", "UserOptRefusePM", "UserOptRefuseChat",
      "UserOptAutoResponse"].map fun n => Generated.miscConsts.lookup n) =
    [some 0, some 1, some 2, some 3, some 0, some 1, some 2] := by decide

theorem generated_presence_access :
    (["AccessAnyName", "AccessDisconUser", "AccessModifyUser", "AccessSendPrivMsg", "AccessCannotBeDiscon", "AccessGetClientInfo"].map
      fun n => Generated.accessConsts.lookup n) = [some 26, some 22, some 17, some 40, some 23, some 24] := by decide

theorem generated_presence_types :
    (["TranAgreed", "TranGetUserNameList", "TranNotifyChangeUser", "TranNotifyDeleteUser", "TranSetClientUserInfo", "TranSetUser",
      "TranUserAccess", "TranSendInstantMsg", "TranServerMsg"].map fun n => Generated.tranTypes.lookup n) =
    [some 121, some 300, some 301, some 302, some 304, some 353, some 354, some 108, some 104] := by decide

/-- Every access to the client table's map happens under the manager's mutex. -/
theorem generated_client_table_locked :
    ∀ a ∈ Generated.mapAccesses, a.1 = "hotline.MemClientMgr.clients" → a.2.2 = true := by decide

/-- The connection entry point defers `Disconnect` (which calls `Delete`): a user leaves the table on
    every exit path. -/
theorem generated_disconnect_deferred : ("handleNewConnection", "Disconnect") ∈ Generated.entryDefers := by decide

-- ------------------------------------------------------------------ the order inside Disconnect

/-- `Disconnect` removes the user from the table BEFORE it picks the audience of the user-left notice
    (`NotifyOthers` lists the table): regenerated from source on every run. -/
theorem generated_disconnect_order :
    Generated.disconnectCalls = ["ClientMgr.Delete", "cc.NotifyOthers", "Connection.Close"] := by decide

/-- With that order the audience is everybody still connected … -/
theorem audience_after_delete (r : Registry) (i : Nat) (c : Client) :
    c ∈ (r.delete i).clients ↔ c ∈ r.clients ∧ c.id ≠ i := by
  simp [Registry.delete, List.mem_filter]

/-- … and no list fetched from then on contains the leaver: whoever holds a list with the leaver in it fetched
    it before the removal, was therefore connected at the removal, and is (if still connected) in the audience.
    So no schedule of logins and fetches between the two halves of `Disconnect` can leave a ghost. -/
theorem fetch_after_delete_omits_leaver (r : Registry) (i : Nat) :
    ∀ e ∈ (r.delete i).clients.map entryOf, e.id ≠ i := by
  intro e he
  obtain ⟨c, hc, rfl⟩ := List.mem_map.mp he
  exact ((audience_after_delete r i c).mp hc).2

private def ghostA : Client := ⟨1, 0, [], [], [], [0x61], [0, 1], 0, [], true⟩
private def ghostX : Client := ⟨2, 1, [], [], [], [0x78], [0, 2], 0, [], true⟩
private def ghostC : Client := ⟨0, 0, [], [], [], [0x63], [0, 3], 0, [], true⟩
private def ghostR : Registry := ⟨2, 2, [ghostA, ghostX]⟩

/-- The other order (audience picked first, removal afterwards — seeded change C13c-1) has a schedule that leaves a
    permanent ghost: C logs in and fetches between the two halves; its list contains the leaver, it is connected
    afterwards, and it is not in the audience. -/
theorem notify_before_delete_leaves_ghost :
    ∃ (r : Registry) (x : Nat) (r1 : Registry) (c : Client),
      r.Inv ∧ r.add ghostC = some (r1, c) ∧
      c ∉ r.clients.filter (·.id != x) ∧                       -- audience picked on the old table
      (∃ e ∈ r1.clients.map entryOf, e.id = x) ∧               -- C's fetched list shows the leaver
      c ∈ (r1.delete x).clients ∧                              -- C is still connected after the removal
      ∀ e ∈ (r1.delete x).clients.map entryOf, e.id ≠ x := by  -- while the server's list no longer has it
  refine ⟨ghostR, 2, ⟨3, 3, [ghostA, ghostX, { ghostC with id := 3, conn := 2 }]⟩, { ghostC with id := 3, conn := 2 },
    ⟨by unfold SortedIds; decide, by decide, by decide, by decide⟩, by decide +kernel, by decide, by decide, by decide,
    fetch_after_delete_omits_leaver _ 2⟩

-- ------------------------------------------------------------------ non-vacuity

private def acc : Bytes := [0, 0, 0, 0x20, 0, 0x80, 0, 0]   -- any-name (26), send-private-message (40)
private def demo : List PresEv :=
  [.connect [1] [65] acc [0, 0], .agreed 1 5 (some [0x61]) (some [0, 7]) 0 none, .fetch 1 6,
   .connect [2] [66] acc [0, 0], .agreed 2 7 (some [0x62]) (some [0, 9]) 1 none,
   .setInfo 1 8 (some [0x63]) (some [0, 0, 0, 8]) none none, .connect [3] [67] acc [0, 0], .disconnect 3]

private theorem demo_reach : (PresWorld.init.after demo).Reach := by
  have step := fun (w : PresWorld) (e : PresEv) (h : w.Reach) (hok : e.ok w) => PresWorld.Reach.step w e h hok
  unfold demo PresWorld.after
  simp only [List.foldl]
  refine step _ _ (step _ _ (step _ _ (step _ _ (step _ _ (step _ _ (step _ _ (step _ _ PresWorld.Reach.init ?_) ?_) ?_) ?_) ?_) ?_) ?_) ?_
  all_goals exact PresEv.ok_of_okb (by decide +kernel)

-- user 1 fetched before user 2 appeared and before its own rename; its folded roster is the current list
example : (PresWorld.init.after demo).view 0 = some (PresWorld.init.after demo).userList := by decide +kernel
example : (PresWorld.init.after demo).userList = [⟨1, [0x63], [0, 8], 0⟩, ⟨2, [0x62], [0, 9], 4⟩] := by decide +kernel
example : ∀ d ∈ (PresWorld.init.after demo).reg.clients, d.announced = true := by decide +kernel
-- the counter wraps: ids 1 and 2 are taken, 0 is skipped
example : allocId (fun i => i == 1 || i == 2) 65536 65535 = some (65539, 3) := by decide +kernel
example : allocId (fun i => i == 1) 65536 4294967295 = some (2, 2) := by decide +kernel

-- ------------------------------------------------------------------ wave d: requests that fail half-way

/-- Nothing between a handler and `handleNewConnection` stops a panic (regenerated from source on every run): the
    only recovery points of packages hotline / internal/mobius are `dontPanic` itself and the two connection entry
    points that defer it.  Together with `generated_disconnect_deferred` this is why `presAbort` (partial update,
    then `Disconnect`) is the model of a request whose handler panics. -/
theorem generated_recover_sites :
    Generated.recoverSites =
      ["hotline.dontPanic:recover", "hotline.handleFileTransfer:defer dontPanic", "hotline.handleNewConnection:defer dontPanic"] := by
  decide

/-- An aborted request (set-client-user-info / Agreed that stored name and icon and then panicked on the Options
    field, or any handler panic) leaves exactly the world and the notices of a plain disconnect: the half-made
    change is gone with the user, everybody remaining is sent the user-left notice. -/
theorem aborted_request_is_a_departure (w : PresWorld) (a : Nat) (c : Client) (hg : w.reg.get a = some c)
    (nm ic : Option Bytes) :
    w.stepX (.setInfoAbort a nm ic) = w.step (.disconnect a) ∧
    w.stepX (.agreedAbort a nm ic) = w.step (.disconnect a) ∧
    w.stepX (.crash a) = w.step (.disconnect a) ∧
    (w.step (.disconnect a)).2 =
      (w.reg.delete c.id).clients.map (fun d => (mkTran 302 d.id [⟨103, be16 c.id⟩], Note.left c.id)) ∧
    ∀ e ∈ (w.step (.disconnect a)).1.userList, e.id ≠ c.id := by
  refine ⟨?_, ?_, ?_, ?_, ?_⟩
  · simp only [PresWorld.stepX, PresWorld.step, hg]
    exact presAbort_eq_disconnect w c _ (infoPartial_id c nm ic)
  · simp only [PresWorld.stepX, PresWorld.step, hg]
    exact presAbort_eq_disconnect w c _ (agreedPartial_id c nm ic)
  · simp only [PresWorld.stepX, PresWorld.step, hg]
    exact presAbort_eq_disconnect w c c rfl
  · simp only [PresWorld.step, hg, presDisconnect]
  · simp only [PresWorld.step, hg, presDisconnect]
    exact fetch_after_delete_omits_leaver w.reg c.id

/-- `request_outcome`: after ANY request of a connected user, completed or aborted, either the server's list is
    unchanged, or the user's new row was sent to everybody else, or the user left and everybody remaining was told. -/
theorem request_outcome (w : PresWorld) (q : PresReq) (a : Nat) (c : Client) (hq : q.actor? = some a)
    (hg : w.reg.get a = some c) : Outcome w c (w.stepX q).1 (w.stepX q).2 :=
  Mobius.request_outcome w q a c hq hg

/-- `Presence.converges` over histories that interleave well-formed events with aborted requests (`ReachX`): in
    every reachable state with no login half-way, every roster a connected client holds is the server's list. -/
theorem Presence.converges_with_aborts (w : PresWorld) (h : w.ReachX) (hsettled : ∀ d ∈ w.reg.clients, d.announced = true)
    (c : Client) (hc : c ∈ w.reg.clients) (r : List Entry) (hv : w.view c.conn = some r) : r = w.userList :=
  (h.inv.views c hc r hv).eq_userList h.inv.reg hsettled

/-- … and with logins half-way a roster is never wrong about anybody it lists and lists every announced user. -/
theorem Presence.never_wrong_with_aborts (w : PresWorld) (h : w.ReachX) (c : Client) (hc : c ∈ w.reg.clients)
    (r : List Entry) (hv : w.view c.conn = some r) :
    (∀ e ∈ r, e ∈ w.userList) ∧ (∀ d ∈ w.reg.clients, d.announced = true → entryOf d ∈ r) := by
  have hok := h.inv.views c hc r hv
  exact ⟨fun e he => by obtain ⟨d, hd, rfl⟩ := hok.sound e he; exact List.mem_map.mpr ⟨d, hd, rfl⟩, hok.complete⟩

private def abortDemo : List PresReq :=
  [.ok (.connect [1] [65] acc [0, 0]), .ok (.agreed 1 5 (some [0x61]) (some [0, 7]) 0 none), .ok (.fetch 1 6),
   .ok (.connect [2] [66] acc [0, 0]), .ok (.agreed 2 7 (some [0x62]) (some [0, 9]) 0 none), .ok (.fetch 2 8)]

private theorem abortDemo_reach (tail : List PresReq) (ht : ∀ q ∈ tail, ∃ a nm ic, q = .setInfoAbort a nm ic) :
    (PresWorld.init.afterX (abortDemo ++ tail)).ReachX := by
  have step := fun (w : PresWorld) (q : PresReq) (h : w.ReachX) (hok : q.okw w) => PresWorld.ReachX.step w q h hok
  have base : (PresWorld.init.afterX abortDemo).ReachX := by
    unfold abortDemo PresWorld.afterX
    simp only [List.foldl]
    refine step _ _ (step _ _ (step _ _ (step _ _ (step _ _ (step _ _ PresWorld.ReachX.init ?_) ?_) ?_) ?_) ?_) ?_
    all_goals exact PresReq.okw_of_okb (by decide +kernel)
  unfold PresWorld.afterX at base ⊢
  rw [List.foldl_append]
  generalize List.foldl (fun w q => (w.stepX q).1) PresWorld.init abortDemo = w0 at base ⊢
  induction tail generalizing w0 with
  | nil => exact base
  | cons q qs ih =>
    obtain ⟨a, nm, ic, rfl⟩ := ht q (by simp)
    exact ih (fun q hq => ht q (by simp [hq])) _ (step w0 _ base trivial)

-- user 2 renames itself with a one-byte Options field: it is gone, user 1 was told, user 1's roster is the list
example : (PresWorld.init.afterX (abortDemo ++ [.setInfoAbort 2 (some [0x7a]) (some [0, 1])])).userList = [⟨1, [0x61], [0, 7], 0⟩] := by
  decide +kernel
example : (PresWorld.init.afterX (abortDemo ++ [.setInfoAbort 2 (some [0x7a]) (some [0, 1])])).view 0 =
    some [⟨1, [0x61], [0, 7], 0⟩] := by decide +kernel
example : (PresWorld.init.afterX (abortDemo ++ [.setInfoAbort 2 (some [0x7a]) (some [0, 1])])).ReachX :=
  abortDemo_reach _ (by intro q hq; simp only [List.mem_singleton] at hq; exact ⟨_, _, _, hq⟩)

/-- The other behaviour — the panic is swallowed on the way (seeded change C13d-1), the partial update stays and
    the session goes on — has a history after which a roster differs from the server's list for good: nobody is
    half-way, nothing is in flight, user 1 still shows user 2 under its old name and icon. -/
theorem contained_abort_diverges :
    ∃ (w : PresWorld) (c c' : Client) (k : Nat),
      w.ReachX ∧ (∀ d ∈ w.reg.clients, d.announced = true) ∧ w.reg.get 2 = some c ∧ c' = infoPartial c (some [0x7a]) (some [0, 1]) ∧
      w.view k = some w.userList ∧                                            -- converged before the request
      (∀ d ∈ (presContained w c c').reg.clients, d.announced = true) ∧       -- still nobody half-way afterwards
      (presContained w c c').view k ≠ some (presContained w c c').userList := by
  refine ⟨PresWorld.init.afterX abortDemo, ⟨2, 1, [2], [66], acc, [0x62], [0, 9], 0, [], true⟩, _, 0, ?_, by decide +kernel,
    by decide +kernel, rfl, by decide +kernel, by decide +kernel, by decide +kernel⟩
  have := abortDemo_reach [] (by intro q hq; cases hq)
  simpa using this

-- ------------------------------------------------------------------ wave d: login variants

/-- `login_variants`: for every login request — field 102 absent, present and empty, present and not empty; any
    account (any-name or not, Name empty or not) — the newcomer is listed under the name the request determines
    (`loginName`), it is announced by the login itself iff that name is not blank, and then exactly the other
    connected users are sent its row. -/
theorem login_variants (w : PresWorld) (l an ac ic : Bytes) (nf : Option Bytes) (r' : Registry) (c : Client)
    (ha : w.reg.add (newPresClient l an ac (loginName an ac nf) ic ((loginName an ac nf).length != 0)) = some (r', c))
    (hinv : w.reg.Inv) :
    (w.step (loginEv l an ac nf ic)).1.reg = r' ∧ c ∈ r'.clients ∧ c.name = loginName an ac nf ∧
    (c.announced = true ↔ loginName an ac nf ≠ []) ∧
    (w.step (loginEv l an ac nf ic)).2 =
      if loginName an ac nf ≠ [] then (r'.clients.filter (·.id != c.id)).map (changeTo 301 changeFieldsA c) else [] :=
  Mobius.login_variants w l an ac ic nf r' c ha hinv

/-- A login the server could not announce is announced by its `Agreed`: every other connected user is sent the
    row; from then on the user counts as announced (`Presence.converges` asks for nothing else). -/
theorem agreed_announces (w : PresWorld) (a r : Nat) (nm ic : Option Bytes) (o : Nat) (au : Option Bytes) (c : Client)
    (hg : w.reg.get a = some c) :
    (∀ d ∈ (w.step (.agreed a r nm ic o au)).1.reg.clients, d.id ≠ c.id →
      ∃ p ∈ (w.step (.agreed a r nm ic o au)).2, p.1.to = d.id ∧ p.2 = Note.change (entryOf (agreedClient c nm ic o au))) ∧
    (w.step (.agreed a r nm ic o au)).1.reg.get c.id = some (agreedClient c nm ic o au) ∧
    (agreedClient c nm ic o au).announced = true :=
  Mobius.agreed_announces w a r nm ic o au c hg

private def noAny : Bytes := [0, 0, 0, 0, 0, 0x80, 0, 0]   -- send-private-message only
-- the twelve variants: (field 102 absent / empty / "x") × (any-name or not) × (account Name "A" / empty) → the name
example : [loginName [65] acc none, loginName [65] acc (some []), loginName [65] acc (some [0x78]),
           loginName [] acc none, loginName [] acc (some []), loginName [] acc (some [0x78]),
           loginName [65] noAny none, loginName [65] noAny (some []), loginName [65] noAny (some [0x78]),
           loginName [] noAny none, loginName [] noAny (some []), loginName [] noAny (some [0x78])] =
          [[], [], [0x78], [], [], [0x78], [], [65], [65], [], [], []] := by decide
-- an empty name field on an account that may not choose its name: announced at once under the account's Name …
example : ((PresWorld.init.afterX abortDemo).step (loginEv [3] [65] noAny (some []) [0, 3])).2.map (fun p => (p.1.to, p.2)) =
    [(1, Note.change ⟨3, [65], [0, 3], 0⟩), (2, Note.change ⟨3, [65], [0, 3], 0⟩)] := by decide +kernel
-- … on an any-name account: listed with a blank name, nobody told, until its Agreed
example : ((PresWorld.init.afterX abortDemo).step (loginEv [3] [65] acc (some []) [0, 3])).2 = [] := by decide +kernel
example : ((PresWorld.init.afterX abortDemo).step (loginEv [3] [65] acc (some []) [0, 3])).1.userList.map (·.id) = [1, 2, 3] := by
  decide +kernel

-- ------------------------------------------------------------------ wave e: faults at connection teardown

/-- The body of `Disconnect` is the three calls in this order (regenerated from source): the table removal and the
    choice of the audience come before `Connection.Close`, whose outcome therefore cannot influence them. -/
theorem generated_disconnect_prog :
    Generated.disconnectCalls.filterMap tdCallOfName = disconnectProg ∧
    Generated.disconnectCalls.length = disconnectProg.length := by decide

/-- `teardown_independent_of_close`: whatever `Connection.Close()` reports — and even for a body that gives up when it
    fails — the world after `Disconnect` and the notices it queued are those of `presDisconnect` (the same function for
    every close result); Close is called exactly once; a failure is logged. -/
theorem teardown_independent_of_close (w : PresWorld) (c : Client) (cr cr' : CloseRes) (retOnErr : Bool) :
    presTeardown w c cr = presDisconnect w c ∧ presTeardown w c cr = presTeardown w c cr' ∧
    ((tdRun disconnectProg c cr retOnErr w).w, (tdRun disconnectProg c cr retOnErr w).outs) = presDisconnect w c ∧
    (tdRun disconnectProg c cr retOnErr w).closeCalls = 1 ∧
    (tdRun disconnectProg c cr retOnErr w).logged = (cr == .err) :=
  ⟨presTeardown_eq_disconnect w c cr, by rw [presTeardown_eq_disconnect, presTeardown_eq_disconnect],
   (tdRun_close_last w c cr retOnErr).1, (tdRun_close_last w c cr retOnErr).2, tdRun_logs_failure w c cr retOnErr⟩

/-- A session that ends with a failing Close tells everybody remaining, and nobody fetches the leaver afterwards:
    `Outcome` (user left, every remaining user sent the notice) for every close result. -/
theorem teardown_outcome (w : PresWorld) (a : Nat) (c : Client) (cr : CloseRes) (hg : w.reg.get a = some c) :
    Outcome w c (w.stepT (.teardown a cr)).1 (w.stepT (.teardown a cr)).2 := by
  rw [PresWorld.stepT_eq]
  exact Mobius.request_outcome w (.ok (.disconnect a)) a c rfl hg

/-- Histories in which every departure carries a close outcome are histories of `ReachX` with the outcomes erased:
    same worlds, same outputs. -/
theorem teardown_history_erases (w : PresWorld) (qs : List PresReqT) :
    w.runT qs = w.runX (qs.map PresReqT.erase) := PresWorld.runT_eq w qs

/-- `Presence.converges` / `never_wrong` over histories with failing closes (`ReachT`). -/
theorem Presence.converges_with_close_faults (w : PresWorld) (h : w.ReachT) (hsettled : ∀ d ∈ w.reg.clients, d.announced = true)
    (c : Client) (hc : c ∈ w.reg.clients) (r : List Entry) (hv : w.view c.conn = some r) : r = w.userList :=
  Presence.converges_with_aborts w h.toX hsettled c hc r hv

theorem Presence.never_wrong_with_close_faults (w : PresWorld) (h : w.ReachT) (c : Client) (hc : c ∈ w.reg.clients)
    (r : List Entry) (hv : w.view c.conn = some r) :
    (∀ e ∈ r, e ∈ w.userList) ∧ (∀ d ∈ w.reg.clients, d.announced = true → entryOf d ∈ r) :=
  Presence.never_wrong_with_aborts w h.toX c hc r hv

private def tdDemo : List PresReqT :=
  [.base (.ok (.connect [1] [65] acc [0, 0])), .base (.ok (.agreed 1 5 (some [0x61]) (some [0, 7]) 0 none)), .base (.ok (.fetch 1 6)),
   .base (.ok (.connect [2] [66] acc [0, 0])), .base (.ok (.agreed 2 7 (some [0x62]) (some [0, 9]) 0 none)), .base (.ok (.fetch 2 8))]

private def tdWorld : PresWorld := (PresWorld.init.runT tdDemo).1
private def tdLeaver : Client := ⟨2, 1, [2], [66], acc, [0x62], [0, 9], 0, [], true⟩

-- non-vacuity: two users hold each other in their rosters; user 2's Close FAILS: user 1 is sent the notice, the table
-- drops user 2, user 1's roster is the fresh list again, the failure is logged
example : tdWorld.reg.get 2 = some tdLeaver := by decide +kernel
example : (tdWorld.stepT (.teardown 2 .err)).2.map (fun p => (p.1.to, p.2)) = [(1, Note.left 2)] := by decide +kernel
example : (tdWorld.stepT (.teardown 2 .err)).1.view 0 = some (tdWorld.stepT (.teardown 2 .err)).1.userList ∧
          (tdWorld.stepT (.teardown 2 .err)).1.userList.map (·.id) = [1] := by decide +kernel
example : (tdRun disconnectProg tdLeaver .err false tdWorld).logged = true ∧
          (tdRun disconnectProg tdLeaver .err false tdWorld).closeCalls = 1 := by decide +kernel

/-- The other arrangement (Close BEFORE the notices, the body left when Close fails — seeded change C13e-2) does
    depend on the close outcome: with a clean Close it behaves like the code, with a failing one the user is out of the
    table, nobody is told, and a settled roster that equalled the list before keeps the departed user. -/
theorem close_first_returning_loses_notices :
    ∃ (w : PresWorld) (c : Client) (k : Nat),
      w.reg.get c.id = some c ∧ w.view k = some w.userList ∧ (∀ d ∈ w.reg.clients, d.announced = true) ∧
      ((tdRun [.delete, .close, .notify] c .ok true w).w, (tdRun [.delete, .close, .notify] c .ok true w).outs) = presDisconnect w c ∧
      (tdRun [.delete, .close, .notify] c .err true w).outs = [] ∧
      (presDisconnect w c).2 ≠ [] ∧
      (tdRun [.delete, .close, .notify] c .err true w).w.view k ≠ some (tdRun [.delete, .close, .notify] c .err true w).w.userList :=
  ⟨tdWorld, tdLeaver, 0, by decide +kernel, by decide +kernel, by decide +kernel, by decide +kernel, by decide +kernel,
   by decide +kernel, by decide +kernel⟩


end Mobius.C13
