import MobiusModel.Authz
import MobiusModel.Generated.Handlers
import MobiusModel.Generated.AccessGuards
import MobiusModel.Generated.Consts
import MobiusModel.TranslatedTies
import MobiusModel.KickGrace
import MobiusModel.Generated.Kick
import MobiusModel.SetUserLogins
/-!
  C06 — No privilege amplification; protected users cannot be kicked.

  Property theorems only.  `Authz.newUser` / `Authz.updateUserCreate` mirror the two account-creation
  paths (HandleNewUser, create branch of HandleUpdateUser) literally: `copy(newAccess[:], data)` into a
  zeroed bitmap, the 64-iteration loop `if newAccess.IsSet(i) && !cc.Authorize(i) → refuse`, then
  `AccountManager.Create`.  `Authz.disconnectTarget` mirrors HandleDisconnectUser after the requester's own
  guard.  Every theorem is for all 2^64 × 2^64 pairs of bitmaps / all byte strings in the access field.
-/
namespace Mobius.C06
open Mobius.Spec Mobius.Authz AccessBitmap

/-- The subset loop accepts exactly when every requested privilege is one the creator holds. -/
theorem subset_loop_iff (creator req : AccessBitmap) :
    subsetLoop creator req = true ↔ ∀ i, i < 64 → req.isSet i = true → creator.isSet i = true :=
  subsetLoop_iff creator req

example : subsetLoop (ofBits [14, 2, 40]) (ofBits [2, 40]) = true := by decide
example : subsetLoop (ofBits [14, 2]) (ofBits [2, 63]) = false := by decide

/-- HandleNewUser creates the account iff the creator may create accounts, the login is free, every
    requested privilege is held by the creator, and the store accepts it; the stored bitmap is the
    requested one (as copied: 8 bytes, zero-extended / truncated). -/
theorem newUser_created_iff (creator : AccessBitmap) (loginExists : Bool) (field : Bytes) (createFails : Bool) (a : AccessBitmap) :
    newUser creator loginExists field createFails = .created a ↔
      creator.isSet Priv.createUser = true ∧ loginExists = false ∧ createFails = false ∧
      a = ofBytes field ∧ (∀ i, i < 64 → (ofBytes field).isSet i = true → creator.isSet i = true) := by
  constructor
  · intro h
    obtain ⟨h1, h2, h3, h4, h5⟩ := newUser_created creator loginExists field createFails a h
    subst h3
    exact ⟨h1, h2, h5, rfl, (subsetLoop_iff _ _).mp h4⟩
  · rintro ⟨h1, h2, h3, h4, h5⟩
    have hs : subsetLoop creator (ofBytes field) = true := (subsetLoop_iff _ _).mpr h5
    subst h2 h3 h4
    simp [newUser, h1, hs]

example : newUser (ofBits [14, 2]) false [0x20] false = .created (ofBits [2]) := by decide

/-- The same law for the create branch of the multi-user editor. -/
theorem updateUser_created_iff (creator : AccessBitmap) (field : Bytes) (createFails : Bool) (a : AccessBitmap) :
    updateUserCreate creator field createFails = .created a ↔
      creator.isSet Priv.createUser = true ∧ createFails = false ∧
      a = ofBytes field ∧ (∀ i, i < 64 → (ofBytes field).isSet i = true → creator.isSet i = true) := by
  constructor
  · intro h
    obtain ⟨h1, h3, h4, h5⟩ := updateUserCreate_created creator field createFails a h
    subst h3
    exact ⟨h1, h5, rfl, (subsetLoop_iff _ _).mp h4⟩
  · rintro ⟨h1, h3, h4, h5⟩
    have hs : subsetLoop creator (ofBytes field) = true := (subsetLoop_iff _ _).mpr h5
    subst h3 h4
    simp [updateUserCreate, h1, hs]

example : updateUserCreate (ofBits [14, 2]) [0x20, 0, 0, 0, 0, 0, 0, 0, 0xff] false = .created (ofBits [2]) := by decide

/-- No amplification, first creation request: an account that comes to exist holds no privilege its creator lacks. -/
theorem newUser_no_amplification (creator : AccessBitmap) (loginExists : Bool) (field : Bytes) (createFails : Bool)
    (a : AccessBitmap) (h : newUser creator loginExists field createFails = .created a) :
    ∀ i, i < 64 → a.isSet i = true → creator.isSet i = true := by
  obtain ⟨_, _, _, ha, hsub⟩ := (newUser_created_iff creator loginExists field createFails a).mp h
  subst ha; exact hsub

/-- No amplification, second creation request (multi-user editor). -/
theorem updateUser_no_amplification (creator : AccessBitmap) (field : Bytes) (createFails : Bool)
    (a : AccessBitmap) (h : updateUserCreate creator field createFails = .created a) :
    ∀ i, i < 64 → a.isSet i = true → creator.isSet i = true := by
  obtain ⟨_, _, ha, hsub⟩ := (updateUser_created_iff creator field createFails a).mp h
  subst ha; exact hsub

/-- A request for a privilege the creator lacks is refused on both paths, whatever else it asks for. -/
theorem excess_is_refused (creator : AccessBitmap) (field : Bytes) (i : Nat) (hi : i < 64)
    (hreq : (ofBytes field).isSet i = true) (hlack : creator.isSet i = false) (ex f : Bool) :
    (∀ a, newUser creator ex field f ≠ .created a) ∧ (∀ a, updateUserCreate creator field f ≠ .created a) := by
  constructor
  · intro a h
    have := newUser_no_amplification creator ex field f a h i hi
    obtain ⟨_, _, _, ha, _⟩ := (newUser_created_iff creator ex field f a).mp h
    rw [ha, hreq, hlack] at this
    exact absurd (this rfl) (by decide)
  · intro a h
    have := updateUser_no_amplification creator field f a h i hi
    obtain ⟨_, _, ha, _⟩ := (updateUser_created_iff creator field f a).mp h
    rw [ha, hreq, hlack] at this
    exact absurd (this rfl) (by decide)

example : (ofBytes [0, 0, 0, 0, 0, 0x80]).isSet 40 = true ∧ (ofBits [14]).isSet 40 = false := by decide

/-- `copy(newAccess[:], data)`: only the first 8 bytes count, and short data is zero-extended –
    so an over-long or short access field cannot smuggle in a privilege. -/
theorem copy_semantics (field : Bytes) :
    ofBytes field = ofBytes (field.take 8) ∧ ofBytes field = ofBytes (field ++ List.replicate (8 - field.length) 0) ∧
    (field.length = 8 → (ofBytes field).toBytes = field) :=
  ⟨(ofBytes_take field).symm, (ofBytes_pad field).symm, toBytes_ofBytes field⟩

/-- Through the whole request: whatever the multi-user editor is asked to do, every account-creation it
    performs passed the guard (`createUser ∈ effects` only with the create privilege). -/
theorem editor_create_needs_privilege (acc : AccessBitmap) (items : List UserItem)
    (h : Effect.createUser ∈ (run acc (.updateUser items)).effects) : acc.isSet Priv.createUser = true :=
  (run_sound acc _ _ h).2

/-! ### protected users -/

/-- A target whose account is marked cannot-be-disconnected is never disconnected or banned by a
    disconnect request, whatever ban option it carries: the reply is the error reply, the ban store
    is unchanged, no disconnect is scheduled, no ban notice is sent. -/
theorem protected_target_inert (target : AccessBitmap) (h : target.isSet Priv.cannotBeDiscon = true)
    (login ip : String) (opt : BanOpt) (bans : List (String × BanKind)) :
    disconnectTarget target login ip opt bans =
      ⟨.errReply (login ++ " is not allowed to be disconnected."), bans, false, false⟩ := by
  simp [disconnectTarget, h]

example : (ofBits [23]).isSet Priv.cannotBeDiscon = true := by decide

/-- An unprotected target is disconnected; option 1 adds a temporary ban of its address, option 2 a
    permanent one, no option / any other value none. -/
theorem unprotected_target (target : AccessBitmap) (h : target.isSet Priv.cannotBeDiscon = false)
    (login ip : String) (bans : List (String × BanKind)) :
    disconnectTarget target login ip .absent bans = ⟨.reply, bans, true, false⟩ ∧
    disconnectTarget target login ip .temporary bans = ⟨.reply, bans ++ [(ip, .temporary)], true, true⟩ ∧
    disconnectTarget target login ip .permanent bans = ⟨.reply, bans ++ [(ip, .permanent)], true, true⟩ ∧
    disconnectTarget target login ip .other bans = ⟨.reply, bans, true, false⟩ := by
  simp [disconnectTarget, h]

/-- In the full handler model: against a protected target nothing is performed and nobody else is
    reached, for every requester bitmap and every ban option. -/
theorem protected_target_request (acc : AccessBitmap) (opt : BanOpt) :
    (run acc (.disconnectUser true opt)).effects = [] ∧ Out.toOthers ∉ (run acc (.disconnectUser true opt)).out := by
  cases h : acc.isSet Priv.disconUser <;> simp [run, Authz.guard, deny, refuse, h]

/-! ### Obligations over the regenerated guard skeleton -/

/-- The cannot-be-disconnected check is a deny-guard on the *target's* connection and nothing
    state-changing (`BanList.Add`, `Disconnect`, …) precedes it. -/
theorem protected_check_precedes_ban_and_disconnect :
    ("HandleDisconnectUser", "clientConn", "AccessCannotBeDiscon",
      "deny-guard:clientConn.Authorize(AccessCannotBeDiscon)", "", ([] : List String)) ∈ Generated.authSites := by decide

/-- Both creation paths run the per-bit check `if newAccess.IsSet(i) { if !cc.Authorize(i) { refuse } }`
    inside a loop, after the create-user guard, and in HandleNewUser before any state change. -/
theorem amplification_loops_present :
    ("HandleNewUser", "cc", "i", "deny-guard", "for && newAccess.IsSet(i)", ([] : List String)) ∈ Generated.authSites ∧
    (Generated.authSites.any fun s => s.1 == "HandleUpdateUser" && s.2.2.1 == "i" && s.2.2.2.1 == "deny-guard" &&
      s.2.2.2.2.1 == "range t.Fields && !(acc != nil) && for && newAccess.IsSet(i)") = true := by decide

/-- Neither creation path calls `AccountManager.Create` before its amplification loop. -/
theorem create_follows_loop :
    ∀ s ∈ Generated.authSites, s.2.2.1 = "i" → "AccountManager.Create" ∉ s.2.2.2.2.2 := by decide

/-- The two privilege numbers this property hinges on. -/
theorem c06_constants : Generated.accessConsts.lookup "AccessCannotBeDiscon" = some Priv.cannotBeDiscon ∧
    Generated.accessConsts.lookup "AccessCreateUser" = some Priv.createUser ∧
    Generated.accessConsts.lookup "AccessDisconUser" = some Priv.disconUser := by decide

/-- Both creation paths are, statement by statement, what `newUser` / `updateUserCreate` model: a zeroed bitmap,
    `copy(newAccess[:], <access field>.Data)`, the loop `for i := 0; i < 64; i++` refusing on
    `newAccess.IsSet(i) && !cc.Authorize(i)`, and only then the account built from `newAccess`. -/
theorem creation_paths_shape : Generated.ampFlow = [
    ("HandleNewUser", ["var newAccess AccessBitmap",
      "copy(newAccess[:], t.GetField(FieldUserAccess).Data)",
      "for i := 0; i < 64; i++ { if newAccess.IsSet(i) { if !cc.Authorize(i) { return cc.NewErrReply(t, \"Cannot create account with more access than yourself.\") } } }",
      "account := NewAccount(login, string(t.GetField(FieldUserName).Data), string(t.GetField(FieldUserPassword).Data), newAccess)"]),
    ("HandleUpdateUser", ["var newAccess AccessBitmap",
      "copy(newAccess[:], GetField(FieldUserAccess, &subFields).Data)",
      "for i := 0; i < 64; i++ { if newAccess.IsSet(i) { if !cc.Authorize(i) { return cc.NewErrReply(t, \"Cannot create account with more access than yourself.\") } } }",
      "account := NewAccount( userLogin, string(GetField(FieldUserName, &subFields).Data), string(GetField(FieldUserPassword, &subFields).Data), newAccess, )"])] := by
  decide +kernel

/-- HandleDisconnectUser, statement by statement: requester guard, target lookup, protected-target guard,
    and only then the ban block, the delayed disconnect and the reply – the order `disconnectTarget` models. -/
theorem disconnect_shape : Generated.disconnectFlow =
    ["guard-requester:AccessDisconUser", "assign:clientID", "assign:clientConn",
     "guard:clientConn.Authorize(AccessCannotBeDiscon)", "ban-block", "go:Disconnect", "return"] := by decide

/-! Ties by translation (docs/Translator.md): the `isSet` / `set` every amplification theorem above is
    stated with ARE `(*AccessBitmap).IsSet` / `Set` of /repo's current hotline/access.go, translated to
    Lean on every check (`Generated/Translated.lean`) — for every bitmap and every `0 ≤ i < 64`, the
    range the 64-iteration subset loop of the two account handlers runs over. -/

theorem translated_IsSet_is_the_model (b : AccessBitmap) (i : Nat) (hi : i < 64) :
    Generated.Translated.AccessBitmap_IsSet b.bytes (i : Int) = .ok (b.isSet i) :=
  TranslatedTies.IsSet_translated b i hi

theorem translated_Set_is_the_model (b : AccessBitmap) (i : Nat) (hi : i < 64) :
    Generated.Translated.AccessBitmap_Set b.bytes (i : Int) = .ok (b.set i).bytes :=
  TranslatedTies.Set_translated b i hi

-- non-vacuity
example : Generated.Translated.AccessBitmap_IsSet (AccessBitmap.ofBits [14, 22]).bytes 22 = .ok true := by decide
example : Generated.Translated.AccessBitmap_IsSet (AccessBitmap.ofBits [14, 22]).bytes 23 = .ok false := by decide

/-! ## Wave d — the delayed `Disconnect()` of an accepted disconnect request (`KickGrace`)

    The body of `ClientConn.Disconnect()` deletes **by user id** (`ClientMgr.Delete(cc.ID)`) and never compares the
    table's entry with `cc`; since fix d658b12 it runs once per connection object.  Clause: *a protected user is never
    disconnected by another user's disconnect request* — here for the timer, whatever happens during the grace
    second (the target hangs up by itself, others log in and inherit ids, also across the 16-bit wrap). -/

open Mobius.KickGrace in
/-- For EVERY history of logins, hang-ups, disconnect requests and timer firings from the empty server (no
    hypothesis on the id counter): a `Disconnect()` call removes from the client table at most the connection object
    it was called on, and a user whose account is marked cannot-be-disconnected is removed only by its own connection
    loop — never by the timer of a disconnect request. -/
theorem kick_timer_spares_protected (es : List Ev) (j : Nat) (h : Handle)
    (hj : (run World.init es).handles[j]? = some h)
    (c : Client) (hc : c ∈ (run World.init es).reg.clients)
    (hgone : c ∉ (step (run World.init es) (.disconnect j)).reg.clients) :
    c.conn = h.conn ∧ (accessBit c.access 23 = true → h.kind = .loop) := by
  have hg := run_good es _ Good.init
  exact ⟨disconnect_removes_at_most_target _ hg j h hj c hc hgone,
    fun hp => (protected_removed_only_by_own_loop _ hg j h hj c hc hp hgone).1⟩

/-- Regenerated: the body of `ClientConn.Disconnect` (with the by-id `ClientMgr.Delete`) is the single statement
    `cc.<sync.Once field>.Do(func() { … })` — what `KickGrace.disconnectObj` models.  (Without the once-guard the
    model is `stepOld`, for which the clause fails: `kick_timer_after_wrap_removes_protected`.) -/
theorem disconnect_is_once_guarded : Generated.disconnectShape = "once-guarded" := by decide

/-- What the body of `Disconnect()` guarantees on its own: it removes exactly the holders of the id stored in the
    object it is called on (whoever they are). -/
theorem disconnect_body_removes_by_id (w : KickGrace.World) (h : KickGrace.Handle) (c : Client) :
    c ∈ (KickGrace.disconnectObjById w h).reg.clients ↔ c ∈ w.reg.clients ∧ c.id ≠ h.id :=
  KickGrace.disconnectObjById_removes w h c

/-- A disconnect request against a protected user, or naming an id nobody holds, schedules nothing and leaves
    the table alone. -/
theorem kick_protected_or_unheld_inert (w : KickGrace.World) (t : Nat)
    (h : ∀ c, w.reg.get t = some c → accessBit c.access 23 = true) : (KickGrace.kick w true t).1 = w := by
  unfold KickGrace.kick
  simp only [Bool.not_true, Bool.false_eq_true, if_false]
  split
  · rfl
  · rename_i c hg; rw [if_pos (h c hg)]

open Mobius.KickGrace in
/-- NEGATIVE WITNESS about the code BEFORE fix d658b12 (`stepOld`: the body ran on every call): after the wrap, user 5
    is kicked (accepted), hangs up by itself inside the grace second, a PROTECTED user logs in and is handed id 5, the
    timer fires — and the protected user is gone from the table.  (Replayed on the real code by the harness family
    `kick-grace` when d658b12 is reverted: `protected-disconnected-after-id-wrap`.) -/
theorem kick_timer_after_wrap_removes_protected :
    let w := runOld wrapWorld [.kick true 5, .disconnect 0, .login true]
    (∃ c ∈ w.reg.clients, accessBit c.access 23 = true ∧ c.id = 5 ∧ c.conn = 1) ∧
    w.handles[0]? = some ⟨.timer, 5, 0⟩ ∧
    (stepOld w (.disconnect 0)).reg.clients = [] := by
  decide +kernel

open Mobius.KickGrace in
/-- … and the same history on the code as it is now: the stale timer is a no-op, the protected newcomer stays. -/
theorem kick_timer_after_wrap_now_spares_protected :
    let w := run wrapWorld [.kick true 5, .disconnect 0, .login true]
    w.handles[0]? = some ⟨.timer, 5, 0⟩ ∧
    ((step w (.disconnect 0)).reg.clients.map fun c => (c.id, c.conn, accessBit c.access 23)) = [(5, 1, true)] := by
  decide +kernel

-- non-vacuity: a history in which a timer does remove somebody (its target) from a populated table, and one where
-- it fires after its target left and a newcomer came
example :
    let es : List KickGrace.Ev := [.login false, .login false, .login true, .kick true 2]
    (KickGrace.run KickGrace.World.init es).handles[3]? = some ⟨.timer, 2, 1⟩ ∧
    ((KickGrace.step (KickGrace.run KickGrace.World.init es) (.disconnect 3)).reg.clients.map (·.id)) = [1, 3] := by
  decide +kernel

example :
    let es : List KickGrace.Ev := [.login false, .login false, .kick true 2, .disconnect 1, .login true]
    ((KickGrace.run KickGrace.World.init es).reg.clients.map (·.id)) = [1, 3] ∧
    (KickGrace.run KickGrace.World.init es).handles[1]? = some ⟨.timer, 2, 1⟩ ∧
    ((KickGrace.step (KickGrace.run KickGrace.World.init es) (.disconnect 1)).reg.clients.map (·.id)) = [1, 3] := by
  decide +kernel

example : (KickGrace.kick (KickGrace.run KickGrace.World.init [.login true]) true 1).2 = .protectedT ∧
    (KickGrace.kick (KickGrace.run KickGrace.World.init [.login true]) true 7).2 = .panicked := by decide +kernel

/-! ### wave e — logins are byte-string keys: amplification and protection judged against the STORED account

  `SetUserLogins` (accounts keyed by login bytes, sessions carrying a copy, the single-account editor matching logins
  byte-wise).  The handlers consult the session's copy; these theorems show that, after any history, that copy is what
  the account store holds under the session's own login — so the bounds hold relative to the account itself. -/
section SetUserLoginsC06
open SetUserLogins

/-- No amplification relative to the creator's STORED account, after any history of creations, logins and set-users
    (first creation request): whatever comes to exist holds no privilege the creator's account (the key byte-wise equal
    to the creating session's login) lacks at that moment. -/
theorem newUser_bounded_by_stored_account (es : List (Ev AccessBitmap)) (s : Sess AccessBitmap)
    (hs : s ∈ (SetUserLogins.run World.init es).sess) (loginExists : Bool) (field : Bytes) (createFails : Bool)
    (a : AccessBitmap) (h : newUser s.access loginExists field createFails = .created a) :
    ∃ st, lookup s.login (SetUserLogins.run World.init es).accts = some st ∧
      ∀ i, i < 64 → a.isSet i = true → st.isSet i = true :=
  ⟨s.access, coherent_run es _ coherent_init s hs, newUser_no_amplification s.access loginExists field createFails a h⟩

/-- … second creation request (multi-user editor). -/
theorem updateUser_bounded_by_stored_account (es : List (Ev AccessBitmap)) (s : Sess AccessBitmap)
    (hs : s ∈ (SetUserLogins.run World.init es).sess) (field : Bytes) (createFails : Bool)
    (a : AccessBitmap) (h : updateUserCreate s.access field createFails = .created a) :
    ∃ st, lookup s.login (SetUserLogins.run World.init es).accts = some st ∧
      ∀ i, i < 64 → a.isSet i = true → st.isSet i = true :=
  ⟨s.access, coherent_run es _ coherent_init s hs, updateUser_no_amplification s.access field createFails a h⟩

/-- Protection follows the STORED account of the target: when the account stored under the target session's login is
    marked cannot-be-disconnected (e.g. by a set-user while it was logged in), a disconnect request against that
    session is inert — error reply, ban store unchanged, nothing scheduled, no notice — after any history. -/
theorem protection_follows_stored_account (es : List (Ev AccessBitmap)) (s : Sess AccessBitmap)
    (hs : s ∈ (SetUserLogins.run World.init es).sess) (st : AccessBitmap)
    (hst : lookup s.login (SetUserLogins.run World.init es).accts = some st)
    (hp : st.isSet Priv.cannotBeDiscon = true) (login ip : String) (opt : BanOpt) (bans : List (String × BanKind)) :
    disconnectTarget s.access login ip opt bans =
      ⟨.errReply (login ++ " is not allowed to be disconnected."), bans, false, false⟩ := by
  have := coherent_run es _ coherent_init s hs
  rw [hst] at this
  cases this
  exact protected_target_inert s.access hp login ip opt bans

/-- A set-user that names another spelling (`Bob` for `bob`) cannot open a gap between account and sessions: it is
    refused and changes neither (so the two theorems above cannot be undermined by it). -/
theorem set_user_other_spelling_changes_nothing {α : Type} (w : World α) (l : Bytes) (a : α)
    (h : lookup l w.accts = none) : (setUser w l a).1 = w ∧ (setUser w l a).2 = false := by
  rw [setUser_refused w l a h]; exact ⟨rfl, rfl⟩

/-- non-vacuity: creator account `bob` holds {14, 2}, a separate account `Bob` holds {14, 2, 40}; `bob` is logged in;
    set-user `bob` := {14} demotes the session as well — it can no longer create an account holding 2; a set-user naming
    `BOb` (not a key) is refused. -/
example :
    let bob : Bytes := [98, 111, 98]
    let Bob : Bytes := [66, 111, 98]
    let BOb : Bytes := [66, 79, 98]
    let w : World AccessBitmap := SetUserLogins.run World.init
      [.create bob (ofBits [14, 2]), .create Bob (ofBits [14, 2, 40]), .login 1 bob, .login 2 Bob, .setUser bob (ofBits [14])]
    (w.sess.map fun s => newUser s.access false [0x20] false) = [.tooMuch, .created (ofBits [2])] ∧
    (setUser w BOb (ofBits [])).2 = false := by
  decide

end SetUserLoginsC06

end Mobius.C06
