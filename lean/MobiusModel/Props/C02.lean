import MobiusModel.Session
import MobiusModel.SessionTransfer
import MobiusModel.Generated.Consts
import MobiusModel.Generated.PeerReads
import MobiusModel.AcceptLoop
import MobiusModel.TranslatedTies
/-!
  C02 — Segmentation-independent parsing of client byte streams.

  Property theorems only (helper lemmas live in `Scan`, `Session`).  A client stream is the list of
  chunks the connection's successive `Read` calls return, followed by EOF; "all partitions of the
  byte stream into read segments of size ≥ 1" are all `chunks` with non-empty members and a given
  `chunks.flatten`.  Every statement below is for *all* chunk lists (empty chunks included, so the
  non-emptiness hypothesis of the property is not even needed), no bound on length or count.
-/
set_option linter.unusedVariables false
namespace Mobius.C02
open Mobius.Session

/-- (1) The transaction scanner (`bufio.Scanner` with `transactionScanner`, 64 KiB token limit)
    delivers on every chunking exactly the tokens and final status of the specification on the
    concatenated stream. -/
theorem scanner_meets_spec (chunks : List Bytes) :
    Scan.scan Scan.tranScanner 65536 [] chunks = Scan.tokensOf Scan.tranScanner 65536 chunks.flatten := by
  simpa using Scan.scan_eq_tokensOf Scan.tranScanner Scan.tranScanner_pd 65536 [] chunks (by simp)

/-- (1') Any two chunkings of the same bytes are scanned alike. -/
theorem scanner_segmentation_independent (c1 c2 : List Bytes) (h : c1.flatten = c2.flatten) :
    Scan.scan Scan.tranScanner 65536 [] c1 = Scan.scan Scan.tranScanner 65536 [] c2 :=
  Scan.segmentation_independent Scan.tranScanner Scan.tranScanner_pd 65536 c1 c2 h

/-- (2) `io.ReadFull` of `n` bytes (handshake: 12, transfer preamble: 16) delivers the first `n`
    bytes of the concatenated stream and leaves exactly the rest, on every chunking. -/
theorem readFull_delivers_prefix (chunks : List Bytes) (n : Nat) :
    (readFull chunks n).1 = chunks.flatten.take n ∧ (readFull chunks n).2.flatten = chunks.flatten.drop n :=
  readFull_spec chunks n

/-- (2') Hence it depends on the bytes only. -/
theorem readFull_segmentation_independent (c1 c2 : List Bytes) (n : Nat) (h : c1.flatten = c2.flatten) :
    (readFull c1 n).1 = (readFull c2 n).1 ∧ (readFull c1 n).2.flatten = (readFull c2 n).2.flatten := by
  obtain ⟨a1, a2⟩ := readFull_spec c1 n
  obtain ⟨b1, b2⟩ := readFull_spec c2 n
  rw [a1, a2, b1, b2, h]
  exact ⟨rfl, rfl⟩

/-- (3) The whole control connection — handshake, ban gate, login, every later transaction, the
    way the loop ends — is a function of the concatenated stream: the operational run over the
    chunks equals the specification on `chunks.flatten`, for every environment (accounts, password
    check, ban list, handlers) and every initial world. -/
theorem session_meets_spec {W O : Type} (env : Env W O) (w : W) (chunks : List Bytes) :
    Session.run env w chunks = Session.runStream env w chunks.flatten :=
  Session.run_eq_runStream env w chunks

/-- (3') The form of DESIGN §11: delivered in any pieces of size ≥ 1 or all at once — same result
    (outcome, bytes to the peer, transactions dispatched, final world, everything emitted). -/
theorem session_segmentation_independent {W O : Type} (env : Env W O) (w : W) (chunks : List Bytes)
    (hne : ∀ c ∈ chunks, c ≠ []) :
    Session.run env w chunks = Session.run env w [chunks.flatten] := by
  rw [Session.run_eq_runStream, Session.run_eq_runStream]
  simp

/-- (3'') Any two chunkings of the same bytes. -/
theorem session_any_two_chunkings {W O : Type} (env : Env W O) (w : W) (c1 c2 : List Bytes)
    (h : c1.flatten = c2.flatten) : Session.run env w c1 = Session.run env w c2 := by
  rw [Session.run_eq_runStream, Session.run_eq_runStream, h]

/-- (4) The transfer connection's preamble: decoded reference number / size (or the error) and the
    bytes left for the transfer itself do not depend on the chunking. -/
theorem transfer_preamble_segmentation_independent (c1 c2 : List Bytes) (h : c1.flatten = c2.flatten) :
    (TransferSession.preamble c1).1 = (TransferSession.preamble c2).1 ∧
    (TransferSession.preamble c1).2.flatten = (TransferSession.preamble c2).2.flatten := by
  obtain ⟨a1, a2⟩ := TransferSession.preamble_eq c1
  obtain ⟨b1, b2⟩ := TransferSession.preamble_eq c2
  rw [a1, a2, b1, b2, h]
  exact ⟨rfl, rfl⟩

/-- (5) The specification is the intended one: a well-formed session (valid handshake, address not
    refused, accepted login, then any emitted transactions that each fit the 64 KiB buffer),
    delivered in *any* chunking, is logged in, hands exactly the transactions sent to the
    dispatcher, in order, and ends at EOF. -/
theorem wellformed_session_dispatches_exactly {W O : Type} (env : Env W O) (w : W) (hs : Bytes)
    (login : Transaction) (ts : List Transaction) (chunks : List Bytes)
    (hchunks : chunks.flatten = hs ++ (login.encode ++ (ts.map Transaction.encode).flatten))
    (hhs : hs.length = 12) (hv : handshakeValid hs = true)
    (hb : BanGate.refused env.bans (BanGate.ipOf env.addr) env.now = false)
    (hl : login.WFdec ∧ login.encode.length ≤ maxTok)
    (hts : ∀ t ∈ ts, t.WFdec ∧ t.encode.length ≤ maxTok)
    (hauth : Session.authenticate env login = true) :
    (Session.run env w chunks).loggedIn = true ∧ (Session.run env w chunks).dispatched = ts ∧
    (Session.run env w chunks).outcome = .ended .eof ∧ (Session.run env w chunks).loginTran = some login := by
  rw [Session.run_eq_runStream, hchunks]
  exact Session.runStream_wellformed env w hs login ts hhs hv hb hl hts hauth

/-- (6) Everything after the preamble of a transfer connection is read with exact-size reads
    (`io.ReadFull`, `binary.Read`, `io.CopyN`).  ANY parser of that kind — a decision tree of "read
    exactly n bytes, continue depending on them" — computes the same value and leaves the same
    bytes unread whatever the chunking of the stream. -/
theorem exact_read_parsers_segmentation_independent {α : Type} (p : Prog α) (c1 c2 : List Bytes)
    (h : c1.flatten = c2.flatten) :
    (Prog.run p c1).1 = (Prog.run p c2).1 ∧ (Prog.run p c1).2.flatten = (Prog.run p c2).2.flatten := by
  obtain ⟨a1, a2⟩ := Prog.run_eq_runFlat p c1
  obtain ⟨b1, b2⟩ := Prog.run_eq_runFlat p c2
  rw [a1, a2, b1, b2, h]
  exact ⟨rfl, rfl⟩

/-- (6') Instance: the folder-upload item loop (item header, 4-byte transfer size, flattened file
    with 2 or 3 forks per item; send / resume / skip decided by the server's file system = `actions`)
    — the items received, their fork contents and the bytes left over do not depend on the chunking,
    in particular not on where a read boundary falls relative to the end of a file item or inside
    the 4-byte size that follows a resume answer. -/
theorem folder_upload_segmentation_independent (n : Nat) (actions : List Nat) (c1 c2 : List Bytes)
    (h : c1.flatten = c2.flatten) :
    (FolderUpload.run n actions c1).1 = (FolderUpload.run n actions c2).1 ∧
    (FolderUpload.run n actions c1).2.flatten = (FolderUpload.run n actions c2).2.flatten :=
  FolderUpload.run_segmentation_independent n actions c1 c2 h

/-! Obligations over the constants regenerated from /repo's source on every run: the sizes the
    model reads (12-byte handshake, 20-byte transaction header before the size-counted part). -/

theorem generated_handshakeSize : Generated.miscConsts.lookup "handshakeSize" = some 12 := by decide
theorem generated_tranHeaderLen : Generated.miscConsts.lookup "tranHeaderLen" = some 20 := by decide

/-! Obligation over the receive paths as they are written in /repo now (`Generated/PeerReads.lean`: every call
    that takes bytes from the peer's stream in handleNewConnection, performHandshake, handleFileTransfer,
    UploadHandler, UploadFolderHandler, DownloadFolderHandler, receiveFile and flattenedFileObject.ReadFrom, plus any
    read from a registered client's stored connection anywhere).  This is the premise of the `Prog` model: the one
    scanner of the control connection aside, the server takes bytes from a peer ONLY with exact-size idioms
    (`io.ReadFull`, `binary.Read` of a fixed-size struct, `io.CopyN`), or hands the stream to a function of which
    the same is shown. -/
theorem generated_peer_reads_are_exact_size :
    Generated.peerReadFuncsMissing = [] ∧
    (∀ e ∈ Generated.peerReads, e.2.1 = "exact" ∨ e.2.1 = "scanner" ∨ e.2.1 = "handoff") ∧
    Generated.peerReads.filter (·.2.1 == "scanner") = [("handleNewConnection", "scanner", "bufio.NewScanner(rwc)")] ∧
    (∀ e ∈ Generated.peerReads, e.2.1 = "handoff" →
      e.2.2 ∈ ["performHandshake", "UploadHandler", "UploadFolderHandler", "DownloadFolderHandler", "receiveFile", "ReadFrom"]) ∧
    -- each listed function reads something or hands the stream on (none is an empty shell)
    (∀ f ∈ ["handleNewConnection", "performHandshake", "handleFileTransfer", "UploadHandler", "UploadFolderHandler",
            "DownloadFolderHandler", "receiveFile", "ReadFrom"], Generated.peerReads.any (·.1 == f) = true) := by
  decide

section AcceptLoopSection
open Mobius.Session Mobius.AcceptLoop

/-! The accept loops (`AcceptLoop.lean`; wave d): what `Serve` / `ServeFileTransfers` do with an accepted
    connection before the handlers of theorems (3) and (4) get it. -/

/-- (7) The control accept loop as written — rate-limit decision, then the UNREAD connection to
    `handleNewConnection` — serves any two chunkings of the same bytes alike. -/
theorem accept_loop_segmentation_independent {W O : Type} (allowed : Bool) (env : Env W O) (w : W) (c1 c2 : List Bytes)
    (h : c1.flatten = c2.flatten) : serve allowed env w c1 = serve allowed env w c2 := by
  unfold serve
  rw [session_any_two_chunkings env w c1 c2 h]

/-- (7') An accept loop MAY look at the opening bytes without harm if it reads an exact number of them and
    replays them: for every `n`, every predicate on the bytes read and every chunking the result is the one of the
    all-at-once delivery, and when the connection is kept the session is the session on the untouched stream. -/
theorem exact_preread_with_replay_is_transparent {W O : Type} (n : Nat) (keep : Bytes → Bool) (env : Env W O) (w : W)
    (chunks : List Bytes) :
    servePreread n keep env w chunks = servePreread n keep env w [chunks.flatten] ∧
    (keep (chunks.flatten.take n) = true → servePreread n keep env w chunks = .handled (Session.run env w chunks)) := by
  have key : ∀ cs : List Bytes, servePreread n keep env w cs =
      if keep (cs.flatten.take n) then .handled (Session.run env w cs) else .dropped := by
    intro cs
    obtain ⟨a1, a2⟩ := readFull_spec cs n
    have hflat : ((readFull cs n).1 :: (readFull cs n).2).flatten = cs.flatten := by simp [a1, a2]
    have hrun := session_any_two_chunkings env w _ cs hflat
    unfold servePreread
    simp only
    rw [hrun, a1]
  constructor
  · rw [key chunks, key [chunks.flatten]]
    have : ([chunks.flatten] : List Bytes).flatten = chunks.flatten := by simp
    rw [this, session_any_two_chunkings env w [chunks.flatten] chunks this]
  · intro hk
    rw [key chunks, hk]; rfl

/-- (7'') The transfer accept loop hands the unread connection to the handler of theorem (4). -/
theorem transfer_accept_loop_segmentation_independent (c1 c2 : List Bytes) (h : c1.flatten = c2.flatten) :
    (serveTransfer c1).1 = (serveTransfer c2).1 ∧ (serveTransfer c1).2.flatten = (serveTransfer c2).2.flatten :=
  transfer_preamble_segmentation_independent c1 c2 h

/-- Obligation over the accept loops as they are written in /repo now (`Generated/PeerReads.lean`, second table:
    every function of package hotline that calls `.Accept()`): there are exactly two, and each does exactly one
    thing with the accepted connection's stream — it hands the connection ITSELF (not a wrapper, nothing read
    from it before) to `handleFileTransfer` / `handleNewConnection`.  This is the premise of `serve`. -/
theorem generated_accept_loops_hand_the_connection_on_unread :
    Generated.acceptLoopReads =
      [("ServeFileTransfers", "handoff", "handleFileTransfer"), ("Serve", "handoff", "handleNewConnection")] := by
  decide

-- non-vacuity
example : (serve true (demoEnv BanGate.Store.empty [49, 58, 50] 0) 0 [demoHandshake.take 2, demoHandshake.drop 2 ++ demoLogin.encode]).isHandled = true := by
  decide
example : startsTRTP (([demoHandshake.take 2, demoHandshake.drop 2 ++ demoLogin.encode] : List Bytes).flatten.take 4) = true := by decide
/-- Not vacuous: the accept loop that looks at the opening bytes with ONE `Read` (the class of seeded change
    C02d-3) keeps the connection when the 12 handshake bytes arrive together and drops it when the first
    segment holds two of them. -/
example : (servePeek 12 startsTRTP (demoEnv BanGate.Store.empty [49, 58, 50] 0) 0 [demoHandshake ++ demoLogin.encode]).isHandled = true ∧
    (servePeek 12 startsTRTP (demoEnv BanGate.Store.empty [49, 58, 50] 0) 0 [demoHandshake.take 2, demoHandshake.drop 2 ++ demoLogin.encode]).isHandled = false := by
  decide

end AcceptLoopSection

-- non-vacuity: concrete instances meeting the hypotheses
example : ∀ c ∈ [demoHandshake.take 5, demoHandshake.drop 5 ++ demoLogin.encode.take 3, demoLogin.encode.drop 3 ++ demoKeepAlive.encode], c ≠ [] := by
  decide
example : [demoHandshake.take 5, demoHandshake.drop 5 ++ demoLogin.encode.take 3, demoLogin.encode.drop 3 ++ demoKeepAlive.encode].flatten
    = demoHandshake ++ (demoLogin.encode ++ ([demoKeepAlive].map Transaction.encode).flatten) := by decide
example : demoHandshake.length = 12 ∧ handshakeValid demoHandshake = true := by decide
example : demoLogin.WFdec ∧ demoLogin.encode.length ≤ maxTok := by
  unfold Transaction.WFdec Field.Scannable; decide
example : demoKeepAlive.WFdec ∧ demoKeepAlive.encode.length ≤ maxTok := by
  unfold Transaction.WFdec Field.Scannable; decide
example : Session.authenticate (demoEnv BanGate.Store.empty [49, 58, 50] 0) demoLogin = true := by decide
example : BanGate.refused (demoEnv BanGate.Store.empty [49, 58, 50] 0).bans (BanGate.ipOf [49, 58, 50]) 0 = false := by decide
-- a 13-byte stream cut 5+8 and 12+1 is read alike (the witness of the defect repaired by 2fdacf6)
example : (readFull [[1, 2, 3, 4, 5], [6, 7, 8, 9, 10, 11, 12, 13]] 12).1 = (readFull [[1, 2, 3, 4, 5, 6, 7, 8, 9, 10, 11, 12], [13]] 12).1 := by
  decide
example : TransferSession.preamble [[0x48, 0x54, 0x58], [0x46, 0, 0, 0, 9, 0, 0, 0, 5, 0, 0, 0], [0, 1, 2]] = (.ok (9, 5), [[1, 2]]) := by
  decide

-- a two-read parser on a 3-byte stream cut 1+2 and 2+1
example : (Prog.run (Prog.read 2 fun a => Prog.read 1 fun b => Prog.done (a, b)) [[1], [2, 3]]).1 = ([1, 2], [3]) ∧
    (Prog.run (Prog.read 2 fun a => Prog.read 1 fun b => Prog.done (a, b)) [[1, 2], [3]]).1 = ([1, 2], [3]) := by decide

/-! Tie by translation (docs/Translator.md): the split function the theorems above are about IS the
    Go `transactionScanner` of /repo's current source, translated to Lean on every check
    (`Generated/Translated.lean`) — equal for every pending buffer, the 32-bit wrap of
    `tranHeaderLen + totalSize` included.  A semantic change of the Go function breaks this theorem. -/
theorem translated_transactionScanner_is_the_model (d : Bytes) (atEOF : Bool) :
    Generated.Translated.transactionScanner (some d) atEOF = .ok (match Scan.tranScanner d with
      | .needMore => (0, none, none)
      | .token adv tok => ((adv : Int), some tok, none)) :=
  TranslatedTies.transactionScanner_translated d atEOF

-- non-vacuity: a 22-byte transaction followed by one more byte
example : Generated.Translated.transactionScanner (some ([0, 0, 0, 0, 0, 0, 0, 0, 0, 0, 0, 0] ++ be32 2 ++ be32 2 ++ [0, 0, 9])) false
    = .ok (22, some ([0, 0, 0, 0, 0, 0, 0, 0, 0, 0, 0, 0] ++ be32 2 ++ be32 2 ++ [0, 0]), none) := by decide

end Mobius.C02
