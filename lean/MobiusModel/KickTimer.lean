import MobiusModel.Registry
/-!
  KickTimer: the client table under disconnects that are requested TWICE for the same connection object.

  `ClientConn.Disconnect` (hotline/client_conn.go) is `ClientMgr.Delete(cc.ID)`, then a "user left" notice to
  everybody `ClientMgr.List()` still holds, then `Connection.Close()`.  It is called from the connection's own handler
  (`defer c.Disconnect()` in `handleNewConnection`) and — for a user an administrator disconnects, deletes or whose
  account is changed — a second time from a goroutine the handler starts (`time.Sleep(1 s); clientConn.Disconnect()`
  in `HandleDisconnectUser`, likewise `HandleDeleteUser` / `HandleUpdateUser`), on the pointer captured when the
  request was handled.  `Delete` goes by id.  Since fix d658b12 the whole body runs inside
  `cc.disconnectOnce.Do(…)`: once per connection object.

  * events: `login mk` (`ClientMgr.Add`), `leave conn` (the connection's own deferred `Disconnect`),
    `timerFires conn` (the delayed `Disconnect` on the captured pointer).  `conn` is the ghost serial number of the
    connection object (`Registry.Client.conn`); its id never changes after `Add`.
  * `step` / `run` / `St` (with `gone`, the connection objects whose `Disconnect` body has run): THE CODE AS IT IS.
    `step_spec`: for every history — also across the wrap of the 16-bit id counter — a disconnect removes exactly
    the connection it is aimed at, or nothing the second time.
  * `stepById` / `runById` / `StById`: the code BEFORE the fix (every call deletes by id), kept as the documented
    negative witness: safe only while the id has not been reissued (`disconnect_removes_only_its_target`), which
    holds as long as the counter has made fewer than 65 536 steps since the connection was registered
    (`no_reissue_before_wrap`; ghost state `ticks` = number of increments the counter ever made, `born` = one record
    (conn, id, ticks at `Add`) per connection object), and NOT beyond (`stale_timer_removes_newcomer_after_wrap`).
-/
namespace Mobius.Kick

structure Birth where
  conn : Nat
  id : Nat
  t : Nat
deriving Repr, DecidableEq

structure StById where
  reg : Registry
  ticks : Nat
  born : List Birth
deriving Repr

def StById.init : StById := ⟨Registry.init, 0, []⟩

inductive Ev where
  | login (mk : Client)
  | leave (conn : Nat)
  | timerFires (conn : Nat)
deriving Repr

/-- What one event does to the outside world. -/
structure Out where
  added : Option Client := none      -- the connection registered (with its id)
  removed : Option Client := none    -- the connection taken out of the table
  notices : List (Nat × Nat) := []   -- "user left": (addressee id, id that left)
deriving Repr, DecidableEq

def StById.idOf (s : StById) (conn : Nat) : Option Nat := (s.born.find? (·.conn == conn)).map (·.id)

/-- `Disconnect` on a connection object whose id is `i`: `Delete(i)`, then everybody still listed is told. -/
def discById (r : Registry) (i : Nat) : Registry × Out :=
  (r.delete i, { removed := r.get i, notices := (r.delete i).clients.map fun o => (o.id, i) })

/-- How far `Add` moved the counter (1 … 65 536 steps), read off the old and the new counter value. -/
def advance (old new : Nat) : Nat := (new + 4294967296 - old - 1) % 4294967296 + 1

def loginById (s : StById) (mk : Client) : StById × Out :=
  match s.reg.add mk with
  | none => (s, {})
  | some (r', c) =>
    let t := s.ticks + advance s.reg.counter r'.counter
    (⟨r', t, ⟨c.conn, c.id, t⟩ :: s.born⟩, { added := some c })

def discStepById (s : StById) (conn : Nat) : StById × Out :=
  match s.idOf conn with
  | none => (s, {})
  | some i => ({ s with reg := (discById s.reg i).1 }, (discById s.reg i).2)

/-- The code before fix d658b12: every call of `Disconnect` deletes by id. -/
def stepById (s : StById) : Ev → StById × Out
  | .login mk => loginById s mk
  | .leave conn => discStepById s conn
  | .timerFires conn => discStepById s conn

def runById (s : StById) : List Ev → StById
  | [] => s
  | e :: es => runById (stepById s e).1 es

-- ------------------------------------------------------------------ deleting by id (both versions do, the first time)

/-- Whoever holds the id is removed, everybody else stays — whatever connection the disconnect was meant for. -/
theorem disc_removes_holder_of_id (r : Registry) (i : Nat) (x : Client) :
    x ∈ (discById r i).1.clients ↔ x ∈ r.clients ∧ x.id ≠ i := by
  simp [discById, Registry.delete]

/-- The notices go to exactly the clients that stay, and name the id `i`. -/
theorem disc_notices (r : Registry) (i : Nat) :
    (discById r i).2.notices = (discById r i).1.clients.map fun o => (o.id, i) := rfl

/-- "No other connection holds the id of `conn` now". -/
def NoReissue (r : Registry) (conn i : Nat) : Prop := ∀ d ∈ r.clients, d.id = i → d.conn = conn

/-- A disconnect removes only the connection it was aimed at — PROVIDED the id was not reissued to another
    connection in the meantime: every other connection stays, what is removed (if anything) is `conn`, and no
    notice names the id of a client that is still listed. -/
theorem disconnect_removes_only_its_target (r : Registry) (conn i : Nat) (h : NoReissue r conn i) :
    (∀ d ∈ r.clients, d.conn ≠ conn → d ∈ (discById r i).1.clients) ∧
    (∀ d, (discById r i).2.removed = some d → d.conn = conn) ∧
    (∀ n ∈ (discById r i).2.notices, ∀ d ∈ (discById r i).1.clients, n.2 ≠ d.id) := by
  refine ⟨?_, ?_, ?_⟩
  · intro d hd hne
    rw [disc_removes_holder_of_id]
    exact ⟨hd, fun hid => hne (h d hd hid)⟩
  · intro d hd
    have := Registry.get_some (r := r) (id := i) (c := d) hd
    exact h d this.1 this.2
  · intro n hn d hd
    rw [disc_notices] at hn
    obtain ⟨o, _, rfl⟩ := List.mem_map.mp hn
    have := ((disc_removes_holder_of_id r i d).mp hd).2
    exact fun e => this e.symm

-- ------------------------------------------------------------------ ids are reissued only after the 16-bit wrap

theorem allocId_advance {used : Nat → Bool} {fuel ctr c' id : Nat} (h : allocId used fuel ctr = some (c', id)) :
    ∃ k, 1 ≤ k ∧ k ≤ fuel ∧ c' = (ctr + k) % 4294967296 ∧ id = c' % 65536 := by
  induction fuel generalizing ctr with
  | zero => simp [allocId] at h
  | succ fuel ih =>
    unfold allocId at h
    dsimp only at h
    split at h
    · have h' := Option.some.inj h
      have h1 : c' = (ctr + 1) % 4294967296 := (congrArg Prod.fst h').symm
      have h2 : id = (ctr + 1) % 4294967296 % 65536 := (congrArg Prod.snd h').symm
      exact ⟨1, by omega, by omega, h1, by rw [h2, h1]⟩
    · obtain ⟨k, hk1, hk2, hc, hid⟩ := ih h
      exact ⟨k + 1, by omega, by omega, by omega, hid⟩

/-- Invariant tying the ghost bookkeeping to the table. -/
structure GoodById (s : StById) : Prop where
  inv : s.reg.Inv
  ctr : s.reg.counter = s.ticks % 4294967296
  live : ∀ d ∈ s.reg.clients, ∃ t, (⟨d.conn, d.id, t⟩ : Birth) ∈ s.born
  ids : ∀ e ∈ s.born, e.id = e.t % 65536 ∧ e.t ≤ s.ticks ∧ e.conn < s.reg.serial
  order : s.born.Pairwise (fun a b => b.t < a.t)
  later : ∀ d ∈ s.reg.clients, ∀ t, (⟨d.conn, d.id, t⟩ : Birth) ∈ s.born → ∀ e ∈ s.born, t < e.t → e.id ≠ d.id

theorem GoodById.init : GoodById StById.init :=
  ⟨Registry.Inv.init, rfl, (by intro d h; cases h), (by intro e h; cases h), List.Pairwise.nil, (by intro d h; cases h)⟩

theorem GoodById.disc {s : StById} (h : GoodById s) (conn : Nat) : GoodById (discStepById s conn).1 := by
  unfold discStepById
  split
  · exact h
  · rename_i i _
    have hsub : ∀ d, d ∈ (discById s.reg i).1.clients → d ∈ s.reg.clients :=
      fun d hd => ((disc_removes_holder_of_id s.reg i d).mp hd).1
    exact ⟨h.inv.delete i, h.ctr, fun d hd => h.live d (hsub d hd), h.ids, h.order,
      fun d hd => h.later d (hsub d hd)⟩

theorem GoodById.login {s : StById} (h : GoodById s) (mk : Client) : GoodById (loginById s mk).1 := by
  unfold loginById
  split
  · exact h
  · rename_i r' c ha
    have hs := Registry.add_spec h.inv ha
    obtain ⟨hinv', hne0, hlt, hfresh, hconn, _, _, hser, hmem⟩ := hs
    -- how far the counter moved
    have hadv : ∃ k, 1 ≤ k ∧ k ≤ 65536 ∧ r'.counter = (s.reg.counter + k) % 4294967296 ∧ c.id = r'.counter % 65536 := by
      unfold Registry.add at ha
      split at ha
      · cases ha
      · rename_i ctr' id hal
        obtain ⟨k, hk1, hk2, hc, hid⟩ := allocId_advance hal
        have h' := Option.some.inj ha
        have hr' : r'.counter = ctr' := (congrArg (fun p : Registry × Client => p.1.counter) h').symm
        have hc' : c.id = id := (congrArg (fun p : Registry × Client => p.2.id) h').symm
        exact ⟨k, hk1, hk2, by rw [hr', hc], by rw [hc', hr', hid]⟩
    obtain ⟨k, hk1, hk2, hctr', hid⟩ := hadv
    have hctr := h.ctr
    have hk : advance s.reg.counter r'.counter = k := by
      unfold advance
      omega
    dsimp only
    rw [hk]
    have hlive_old : ∀ d ∈ s.reg.clients, d.conn < s.reg.serial := h.inv.conns
    refine ⟨hinv', ?_, ?_, ?_, ?_, ?_⟩
    · show r'.counter = (s.ticks + k) % 4294967296
      omega
    · intro d hd
      rcases (hmem d).mp hd with rfl | hd
      · exact ⟨s.ticks + k, List.mem_cons_self⟩
      · obtain ⟨t, ht⟩ := h.live d hd
        exact ⟨t, List.mem_cons_of_mem _ ht⟩
    · intro e he
      rcases List.mem_cons.mp he with rfl | he
      · refine ⟨?_, Nat.le_refl _, ?_⟩
        · show c.id = (s.ticks + k) % 65536
          omega
        · show c.conn < r'.serial
          omega
      · have := h.ids e he
        refine ⟨this.1, ?_, ?_⟩
        · show e.t ≤ s.ticks + k
          omega
        · show e.conn < r'.serial
          omega
    · refine List.pairwise_cons.mpr ⟨?_, h.order⟩
      intro e he
      have := (h.ids e he).2.1
      show e.t < s.ticks + k
      omega
    · intro d hd t ht e he hlt'
      rcases (hmem d).mp hd with rfl | hd
      · -- the newcomer: its only record is the new one, nothing is younger
        rcases List.mem_cons.mp ht with heq | ht
        · have ht' : t = s.ticks + k := by injection heq
          rcases List.mem_cons.mp he with rfl | he
          · exact absurd hlt' (by show ¬ t < s.ticks + k; omega)
          · have := (h.ids e he).2.1; omega
        · have := (h.ids _ ht).2.2
          simp only at this
          omega
      · -- an older client: its record is an old one; a younger record is old (induction) or the newcomer's (fresh id)
        have hdc := hlive_old d hd
        rcases List.mem_cons.mp ht with heq | ht
        · have : d.conn = c.conn := by injection heq
          omega
        · rcases List.mem_cons.mp he with rfl | he
          · show c.id ≠ d.id
            intro hcd
            exact hfresh (List.mem_map.mpr ⟨d, hd, hcd.symm⟩)
          · exact h.later d hd t ht e he hlt'

theorem GoodById.step {s : StById} (h : GoodById s) (e : Ev) : GoodById (stepById s e).1 := by
  cases e with
  | login mk => exact h.login mk
  | leave c => exact h.disc c
  | timerFires c => exact h.disc c

theorem GoodById.run {s : StById} (h : GoodById s) (es : List Ev) : GoodById (runById s es) := by
  induction es generalizing s with
  | nil => exact h
  | cons e es ih => exact ih (h.step e)

/-- Two members of a strictly decreasing list with the same key are the same member. -/
theorem eq_of_same_t {l : List Birth} (h : l.Pairwise (fun a b => b.t < a.t)) {a b : Birth}
    (ha : a ∈ l) (hb : b ∈ l) (ht : a.t = b.t) : a = b := by
  induction l with
  | nil => cases ha
  | cons x xs ih =>
    have hx := List.pairwise_cons.mp h
    rcases List.mem_cons.mp ha with rfl | ha' <;> rcases List.mem_cons.mp hb with rfl | hb'
    · rfl
    · have := hx.1 _ hb'; omega
    · have := hx.1 _ ha'; omega
    · exact ih hx.2 ha' hb'

/-- THE WINDOW: as long as the counter has made fewer than 65 536 steps since `conn` was registered, nobody else
    holds `conn`'s id — whatever logins and disconnects happened in between. -/
theorem no_reissue_before_wrap {s : StById} (h : GoodById s) (b : Birth) (hb : b ∈ s.born) (hwin : s.ticks < b.t + 65536) :
    NoReissue s.reg b.conn b.id := by
  intro d hd hid
  apply Classical.byContradiction
  intro hne
  obtain ⟨t, ht⟩ := h.live d hd
  have hd1 := h.ids _ ht
  have hb1 := h.ids b hb
  simp only at hd1
  by_cases hlt : t < b.t
  · exact h.later d hd t ht b hb hlt hid.symm
  · by_cases heq : t = b.t
    · have := eq_of_same_t h.order ht hb heq
      have : d.conn = b.conn := by rw [← this]
      exact hne this
    · omega

/-- Hence, for every history from the empty server: a delayed `Disconnect` that fires before the counter has gone
    round removes only the connection it was aimed at. -/
theorem timer_removes_only_its_target (es : List Ev) (b : Birth) (hb : b ∈ (runById StById.init es).born)
    (hwin : (runById StById.init es).ticks < b.t + 65536) :
    (∀ d ∈ (runById StById.init es).reg.clients, d.conn ≠ b.conn → d ∈ (discById (runById StById.init es).reg b.id).1.clients) ∧
    (∀ d, (discById (runById StById.init es).reg b.id).2.removed = some d → d.conn = b.conn) :=
  let g := GoodById.init.run es
  ⟨(disconnect_removes_only_its_target _ _ _ (no_reissue_before_wrap g b hb hwin)).1,
   (disconnect_removes_only_its_target _ _ _ (no_reissue_before_wrap g b hb hwin)).2.1⟩

-- ------------------------------------------------------------------ THE CODE AS IT IS: Disconnect runs once per connection object

structure St where
  reg : Registry
  born : List (Nat × Nat)   -- (conn, id)
  gone : List Nat           -- connection objects whose Disconnect has run
deriving Repr

def St.init : St := ⟨Registry.init, [], []⟩

def step (s : St) : Ev → St × Out
  | .login mk =>
    match s.reg.add mk with
    | none => (s, {})
    | some (r', c) => (⟨r', (c.conn, c.id) :: s.born, s.gone⟩, { added := some c })
  | .leave conn | .timerFires conn =>
    if conn ∈ s.gone then (s, {}) else
    match s.born.lookup conn with
    | none => (s, {})
    | some i => (⟨(discById s.reg i).1, s.born, conn :: s.gone⟩, (discById s.reg i).2)

def run (s : St) : List Ev → St
  | [] => s
  | e :: es => run (step s e).1 es

/-- Every connection object whose Disconnect has not run yet is in the table under its own id. -/
structure Good (s : St) : Prop where
  inv : s.reg.Inv
  live : ∀ p ∈ s.born, p.1 ∉ s.gone → ∃ d ∈ s.reg.clients, d.conn = p.1 ∧ d.id = p.2
  fresh : ∀ p ∈ s.born, p.1 < s.reg.serial

theorem Good.init : Good St.init :=
  ⟨Registry.Inv.init, (by intro p h; cases h), (by intro p h; cases h)⟩

theorem lookup_mem {l : List (Nat × Nat)} {k v : Nat} (h : l.lookup k = some v) : (k, v) ∈ l := by
  induction l with
  | nil => cases h
  | cons p ps ih =>
    obtain ⟨a, b⟩ := p
    simp only [List.lookup] at h
    split at h
    · rename_i heq
      have : k = a := by simpa using heq
      cases h
      rw [this]; exact List.mem_cons_self
    · exact List.mem_cons_of_mem _ (ih h)

/-- With `Disconnect` run once per connection object, a disconnect removes exactly the connection it is aimed at
    (or nothing, the second time) — for EVERY history, also across the wrap of the id counter. -/
theorem step_spec {s : St} (h : Good s) (e : Ev) :
    Good (step s e).1 ∧
    (∀ conn, (e = .leave conn ∨ e = .timerFires conn) →
      (∀ d, (step s e).2.removed = some d → d.conn = conn) ∧
      (∀ d ∈ s.reg.clients, d.conn ≠ conn → d ∈ (step s e).1.reg.clients)) := by
  have disc : ∀ conn, Good (step s (.leave conn)).1 ∧
      (∀ d, (step s (.leave conn)).2.removed = some d → d.conn = conn) ∧
      (∀ d ∈ s.reg.clients, d.conn ≠ conn → d ∈ (step s (.leave conn)).1.reg.clients) := by
    intro conn
    simp only [step]
    split
    · exact ⟨h, (by intro d hd; cases hd), fun d hd _ => hd⟩
    · rename_i hng
      split
      · exact ⟨h, (by intro d hd; cases hd), fun d hd _ => hd⟩
      · rename_i i hl
        have hp := lookup_mem hl
        obtain ⟨d0, hd0, hc0, hi0⟩ := h.live _ hp hng
        simp only at hc0 hi0
        have hnr : NoReissue s.reg conn i := by
          intro d hd hid
          rw [h.inv.sorted.eq_of_id hd hd0 (by rw [hid, hi0])]; exact hc0
        have key := disconnect_removes_only_its_target s.reg conn i hnr
        refine ⟨⟨h.inv.delete i, ?_, h.fresh⟩, key.2.1, key.1⟩
        intro p hpb hpg
        have hpc : p.1 ≠ conn := fun e => hpg (by rw [e]; exact List.mem_cons_self)
        have hpg' : p.1 ∉ s.gone := fun hm => hpg (List.mem_cons_of_mem _ hm)
        obtain ⟨d, hd, hdc, hdi⟩ := h.live p hpb hpg'
        exact ⟨d, key.1 d hd (by rw [hdc]; exact hpc), hdc, hdi⟩
  cases e with
  | leave conn =>
    refine ⟨(disc conn).1, ?_⟩
    intro c hc
    rcases hc with hc | hc
    · injection hc with hc; subst hc; exact (disc conn).2
    · cases hc
  | timerFires conn =>
    have e2 : step s (.timerFires conn) = step s (.leave conn) := by simp only [step]
    rw [e2]
    refine ⟨(disc conn).1, ?_⟩
    intro c hc
    rcases hc with hc | hc
    · cases hc
    · injection hc with hc; subst hc; exact (disc conn).2
  | login mk =>
    refine ⟨?_, by intro c hc; rcases hc with hc | hc <;> cases hc⟩
    simp only [step]
    split
    · exact h
    · rename_i r' c ha
      obtain ⟨hinv', _, _, _, hconn, _, _, hser, hmem⟩ := Registry.add_spec h.inv ha
      refine ⟨hinv', ?_, ?_⟩
      · intro p hp hg
        rcases List.mem_cons.mp hp with rfl | hp
        · exact ⟨c, (hmem c).mpr (Or.inl rfl), rfl, rfl⟩
        · obtain ⟨d, hd, hdc, hdi⟩ := h.live p hp hg
          exact ⟨d, (hmem d).mpr (Or.inr hd), hdc, hdi⟩
      · intro p hp
        rcases List.mem_cons.mp hp with rfl | hp
        · show c.conn < r'.serial; omega
        · have := h.fresh p hp; show p.1 < r'.serial; omega

theorem Good.run {s : St} (h : Good s) (es : List Ev) : Good (run s es) := by
  induction es generalizing s with
  | nil => exact h
  | cons e es ih => exact ih (step_spec h e).1

/-- No "user left" notice ever names the id of a client that is still listed (no invariant needed). -/
theorem step_notices_name_nobody_listed (s : St) (e : Ev) :
    ∀ n ∈ (step s e).2.notices, ∀ d ∈ (step s e).1.reg.clients, n.2 ≠ d.id := by
  have disc : ∀ conn, ∀ n ∈ (step s (.leave conn)).2.notices, ∀ d ∈ (step s (.leave conn)).1.reg.clients, n.2 ≠ d.id := by
    intro conn n hn d hd
    simp only [step] at hn hd
    by_cases hg : conn ∈ s.gone
    · rw [if_pos hg] at hn; cases hn
    · rw [if_neg hg] at hn hd
      cases hl : s.born.lookup conn with
      | none => rw [hl] at hn; cases hn
      | some i =>
        rw [hl] at hn hd
        simp only at hn hd
        rw [disc_notices] at hn
        obtain ⟨o, _, rfl⟩ := List.mem_map.mp hn
        have := ((disc_removes_holder_of_id s.reg i d).mp hd).2
        exact fun e => this e.symm
  cases e with
  | leave conn => exact disc conn
  | timerFires conn =>
    have e2 : step s (.timerFires conn) = step s (.leave conn) := by simp only [step]
    rw [e2]; exact disc conn
  | login mk =>
    intro n hn
    simp only [step] at hn
    split at hn <;> cases hn

/-- For every history from the empty server: a connection object that has logged in and whose `Disconnect` has not
    run is in the table under its own id — `sendTransaction`'s lookup of that id finds THIS connection. -/
theorem registered_until_own_disconnect (es : List Ev) (conn i : Nat)
    (hb : (conn, i) ∈ (run St.init es).born) (hg : conn ∉ (run St.init es).gone) :
    ∃ d, (run St.init es).reg.get i = some d ∧ d.conn = conn := by
  have g := Good.init.run es
  obtain ⟨d, hd, hc, hi⟩ := g.live _ hb hg
  simp only at hc hi
  exact ⟨d, by rw [← hi]; exact Registry.get_of_mem g.inv.sorted hd, hc⟩

-- ------------------------------------------------------------------ before the fix: NOT safe across the wrap

def blank : Client := ⟨0, 0, [], [], [], [], [], 0, [], false⟩

/-- One connection comes and goes (what the harness does 65 5xx times to move the counter). -/
def spin (r : Registry) : Registry :=
  match r.add blank with
  | some (r', c) => r'.delete c.id
  | none => r

theorem allocId_next {used : Nat → Bool} (fuel ctr : Nat) (h0 : (ctr + 1) % 4294967296 % 65536 ≠ 0)
    (hf : used ((ctr + 1) % 4294967296 % 65536) = false) :
    allocId used (fuel + 1) ctr = some ((ctr + 1) % 4294967296, (ctr + 1) % 4294967296 % 65536) := by
  unfold allocId
  dsimp only
  rw [if_pos ⟨h0, hf⟩]

/-- With one user `u` (id 1) connected and the counter between 1 and 65 534, a connection that comes and goes
    moves the counter by one and leaves the table as it was. -/
theorem spin_one (u : Client) (hu : u.id = 1) (ctr ser : Nat) (h1 : 1 ≤ ctr) (h2 : ctr < 65535) :
    spin ⟨ctr, ser, [u]⟩ = ⟨ctr + 1, ser + 1, [u]⟩ := by
  have hmod : (ctr + 1) % 4294967296 = ctr + 1 := by omega
  have hmod2 : (ctr + 1) % 65536 = ctr + 1 := by omega
  have hused : Registry.used ⟨ctr, ser, [u]⟩ ((ctr + 1) % 4294967296 % 65536) = false := by
    simp only [Registry.used, List.any_cons, List.any_nil, Bool.or_false, hu, hmod, hmod2]
    have : ¬ (1 = ctr + 1) := by omega
    simpa using this
  have ha : Registry.add ⟨ctr, ser, [u]⟩ blank =
      some (⟨ctr + 1, ser + 1, insertClient { blank with id := ctr + 1, conn := ser } [u]⟩, { blank with id := ctr + 1, conn := ser }) := by
    unfold Registry.add
    rw [allocId_next 65535 ctr (by rw [hmod, hmod2]; omega) hused]
    simp only [hmod, hmod2]
  have hins : insertClient { blank with id := ctr + 1, conn := ser } [u] = [u, { blank with id := ctr + 1, conn := ser }] := by
    have e1 : u.id < ctr + 1 := by omega
    have e2 : ¬ (ctr + 1 < u.id) := by omega
    simp [insertClient, List.filter, e1, e2]
  have hdel : Registry.delete ⟨ctr + 1, ser + 1, [u, { blank with id := ctr + 1, conn := ser }]⟩ (ctr + 1) = ⟨ctr + 1, ser + 1, [u]⟩ := by
    have e3 : (u.id != ctr + 1) = true := by
      have : u.id ≠ ctr + 1 := by omega
      simpa using this
    simp [Registry.delete, List.filter, e3]
  unfold spin
  rw [ha]
  dsimp only
  rw [hins]
  exact hdel

def spinN : Nat → Registry → Registry
  | 0, r => r
  | n + 1, r => spinN n (spin r)

theorem spinN_counter (u : Client) (hu : u.id = 1) (n ctr ser : Nat) (h1 : 1 ≤ ctr) (h2 : ctr + n ≤ 65535) :
    spinN n ⟨ctr, ser, [u]⟩ = ⟨ctr + n, ser + n, [u]⟩ := by
  induction n generalizing ctr ser with
  | zero => rfl
  | succ n ih =>
    simp only [spinN]
    rw [spin_one u hu ctr ser h1 (by omega), ih (ctr + 1) (ser + 1) (by omega) (by omega)]
    congr 1 <;> omega

/-- THE DEFECT of the code before the fix, as a history from the empty server: user U logs in (id 1); 65 534
    connections come and go; U is disconnected by an administrator (timer scheduled) and hangs up; a newcomer
    logs in and is given id 1 again; the timer fires — and removes the NEWCOMER, a different connection object,
    from the table. -/
theorem stale_timer_removes_newcomer_after_wrap :
    ∃ (r : Registry) (u n : Client),
      Registry.init.add blank = some (r, u) ∧ u.id = 1 ∧
      (spinN 65534 r).delete u.id = ⟨65535, 65535, []⟩ ∧
      Registry.add ⟨65535, 65535, []⟩ blank = some (⟨65537, 65536, [n]⟩, n) ∧
      n.id = u.id ∧ n.conn ≠ u.conn ∧
      (discById ⟨65537, 65536, [n]⟩ u.id).2.removed = some n ∧
      (discById ⟨65537, 65536, [n]⟩ u.id).1.clients = [] := by
  refine ⟨⟨1, 1, [{ blank with id := 1, conn := 0 }]⟩, { blank with id := 1, conn := 0 },
    { blank with id := 1, conn := 65535 }, by decide, rfl, ?_, by decide +kernel, rfl, by decide, by decide, by decide⟩
  rw [spinN_counter _ rfl 65534 1 1 (by omega) (by omega)]
  decide

-- ------------------------------------------------------------------ oracle: the registry events of a kick history

/-- Spin until the allocator would hand out `want` if it were free (do-while, at most `fuel` rounds). -/
def spinTo (want : Nat) : Nat → Registry → Registry
  | 0, r => r
  | fuel + 1, r =>
    let r' := spin r
    match allocId (fun i => i != want && r'.used i) 65536 r'.counter with
    | some (_, id) => if id == want then r' else spinTo want fuel r'
    | none => r'

structure OSt where
  st : St
  seen : List (Nat × Nat)   -- model connection serial ↦ number of the login among the recorded logins
  out : List String

def connOf (s : OSt) (n : Nat) : Nat :=
  match s.seen.find? (·.2 == n) with
  | some p => p.1
  | none => 4294967295

def serialOf (s : OSt) (c : Option Client) : String :=
  match c with
  | none => "-1"
  | some d => match s.seen.lookup d.conn with
    | some n => toString n
    | none => "?"

/-- One connection-level event of a kick history, through `step` (the once-guarded Disconnect); the answer is what
    the client manager sees: `add:<n>=<id>`, `own-delete:<id>-><n removed>`, `delayed-delete:…`, or nothing when
    the second Disconnect of a connection object does nothing. -/
def oracleStep (s : OSt) (op : String) : OSt :=
  match op.splitOn ":" with
  | ["add"] =>
    match step s.st (.login blank) with
    | (st', { added := some c, .. }) => ⟨st', (c.conn, s.seen.length) :: s.seen, s!"add:{s.seen.length}={c.id}" :: s.out⟩
    | _ => { s with out := "add:full" :: s.out }
  | ["spin", w] => { s with st := { s.st with reg := spinTo (w.toNat?.getD 0) 66000 s.st.reg } }
  | [kind, n] =>
    let conn := connOf s (n.toNat?.getD 0)
    let i := (s.st.born.lookup conn).getD 0
    let already := decide (conn ∈ s.st.gone)
    let (st', o) := step s.st (if kind == "leave" then .leave conn else .timerFires conn)
    if already then { s with st := st' } else
    let name := if kind == "leave" then "own-delete" else "delayed-delete"
    ⟨st', s.seen, s!"{name}:{i}->{serialOf s o.removed}" :: s.out⟩
  | _ => { s with out := "bad-op" :: s.out }

def oracleLine (ops : String) : String :=
  let s := (ops.splitOn ",").foldl oracleStep ⟨St.init, [], []⟩
  " ".intercalate s.out.reverse

end Mobius.Kick
