import MobiusModel.Bytes
/-!
  Access: the 8-byte Hotline access bitmap with `Set` / `IsSet` exactly as in hotline/access.go

      func (bits *AccessBitmap) Set(i int)        { bits[i/8] |= 1 << uint(7-i%8) }
      func (bits *AccessBitmap) IsSet(i int) bool { return bits[i/8]&(1<<uint(7-i%8)) != 0 }

  i.e. privilege `i` is bit `i` counted from the most significant bit of the first byte.
  Go panics (index out of range) for `i ≥ 64`; no caller reaches that (constants ≤ 40, loops `< 64`),
  the model returns `false` / leaves the bitmap unchanged there and every lemma carries `i < 64`.
-/
namespace Mobius

structure AccessBitmap where
  bytes : Vector UInt8 8
deriving DecidableEq, Repr

namespace AccessBitmap

def zero : AccessBitmap := ⟨Vector.replicate 8 0⟩
def ones : AccessBitmap := ⟨Vector.replicate 8 255⟩

/-- `1 << uint(7 - i%8)` as a byte. -/
def bitMask (i : Nat) : UInt8 := (1 : UInt8) <<< UInt8.ofNat (7 - i % 8)

def byteAt (b : AccessBitmap) (k : Nat) : UInt8 := if h : k < 8 then b.bytes[k] else 0

/-- `bits[i/8] |= 1 << uint(7-i%8)` -/
def set (b : AccessBitmap) (i : Nat) : AccessBitmap :=
  if h : i / 8 < 8 then ⟨b.bytes.set (i / 8) (b.bytes[i / 8] ||| bitMask i)⟩ else b

/-- `bits[i/8] & (1<<uint(7-i%8)) != 0` -/
def isSet (b : AccessBitmap) (i : Nat) : Bool := (byteAt b (i / 8)) &&& bitMask i != 0

/-- `copy(newAccess[:], data)` into a zeroed bitmap: short data zero-extends, long data is cut at 8 bytes. -/
def ofBytes (data : Bytes) : AccessBitmap := ⟨Vector.ofFn fun (k : Fin 8) => data.getD k.val 0⟩

/-- `bits[:]` – the raw 8 bytes as sent in field 110. -/
def toBytes (b : AccessBitmap) : Bytes := b.bytes.toList

/-- all of `l` set, starting from `b` -/
def setAll (b : AccessBitmap) (l : List Nat) : AccessBitmap := l.foldl set b

def ofBits (l : List Nat) : AccessBitmap := setAll zero l

/-- keep only the bits listed in `d` -/
def mask (b : AccessBitmap) (d : List Nat) : AccessBitmap := ofBits (d.filter fun i => b.isSet i)

/-- `a ⊆ b`: every privilege of `a` is a privilege of `b` -/
def Subset (a b : AccessBitmap) : Prop := ∀ i, i < 64 → a.isSet i = true → b.isSet i = true

def subsetB (a b : AccessBitmap) : Bool := (List.range 64).all fun i => !a.isSet i || b.isSet i

/-! ### byte-level facts (finite, by kernel evaluation) -/

private theorem byte_and_mask (n k : Nat) (hn : n < 256) (hk : k < 8) :
    ((UInt8.ofNat n) &&& ((1 : UInt8) <<< UInt8.ofNat k) != 0) = n.testBit k := by
  have h : ∀ n < 256, ∀ k < 8, ((UInt8.ofNat n) &&& ((1 : UInt8) <<< UInt8.ofNat k) != 0) = n.testBit k := by
    decide +kernel
  exact h n hn k hk

private theorem mask_toNat (k : Nat) (hk : k < 8) : ((1 : UInt8) <<< UInt8.ofNat k).toNat = 2 ^ k := by
  have h : ∀ k < 8, ((1 : UInt8) <<< UInt8.ofNat k).toNat = 2 ^ k := by decide +kernel
  exact h k hk

theorem byte_test (x : UInt8) (i : Nat) : (x &&& bitMask i != 0) = x.toNat.testBit (7 - i % 8) := by
  have := byte_and_mask x.toNat (7 - i % 8) x.toNat_lt (by omega)
  simpa [bitMask] using this

theorem byte_or_test (x : UInt8) (i k : Nat) :
    (x ||| bitMask i).toNat.testBit k = (x.toNat.testBit k || decide (7 - i % 8 = k)) := by
  rw [UInt8.toNat_or, Nat.testBit_or]
  unfold bitMask
  rw [mask_toNat _ (by omega), Nat.testBit_two_pow]

theorem byte_ext (x y : UInt8) (h : ∀ k < 8, x.toNat.testBit k = y.toNat.testBit k) : x = y := by
  apply UInt8.toNat_inj.mp
  apply Nat.eq_of_testBit_eq
  intro i
  by_cases hi : i < 8
  · exact h i hi
  · have h8 : (2:Nat) ^ 8 ≤ 2 ^ i := Nat.pow_le_pow_right (by omega) (by omega)
    have hx := x.toNat_lt; have hy := y.toNat_lt
    rw [Nat.testBit_lt_two_pow (by omega), Nat.testBit_lt_two_pow (by omega)]

/-! ### bitmap-level lemmas -/

theorem isSet_eq_testBit (b : AccessBitmap) (i : Nat) :
    b.isSet i = (b.byteAt (i / 8)).toNat.testBit (7 - i % 8) := by
  unfold isSet; exact byte_test _ _

theorem byteAt_set (b : AccessBitmap) (i k : Nat) (hi : i < 64) :
    (b.set i).byteAt k = if i / 8 = k then b.byteAt k ||| bitMask i else b.byteAt k := by
  have h8 : i / 8 < 8 := by omega
  unfold set byteAt
  simp only [h8, dite_true]
  by_cases hk : k < 8
  · simp only [hk, dite_true, Vector.getElem_set]
    by_cases e : i / 8 = k
    · subst e; simp
    · simp [e]
  · have : i / 8 ≠ k := by omega
    simp [hk, this]

/-- positions ≥ 64 do not exist (Go would panic; the model answers `false`) -/
theorem isSet_ge (b : AccessBitmap) (i : Nat) (h : 64 ≤ i) : b.isSet i = false := by
  rw [isSet_eq_testBit]
  have h8 : ¬ i / 8 < 8 := by omega
  simp [byteAt, h8]

@[simp] theorem isSet_zero (i : Nat) : zero.isSet i = false := by
  rw [isSet_eq_testBit]
  unfold byteAt zero
  by_cases h : i / 8 < 8 <;> simp [h]

/-- The key bit lemma: setting privilege `i` makes exactly `i` (additionally) set. -/
theorem isSet_set (b : AccessBitmap) (i j : Nat) (hi : i < 64) (hj : j < 64) :
    (b.set i).isSet j = true ↔ i = j ∨ b.isSet j = true := by
  rw [isSet_eq_testBit, isSet_eq_testBit, byteAt_set b i (j / 8) hi]
  by_cases e : i / 8 = j / 8
  · simp only [e, if_true]
    rw [byte_or_test]
    simp only [Bool.or_eq_true, decide_eq_true_eq]
    constructor
    · rintro (h | h)
      · exact Or.inr h
      · exact Or.inl (by omega)
    · rintro (h | h)
      · exact Or.inr (by subst h; rfl)
      · exact Or.inl h
  · simp only [e, if_false]
    constructor
    · exact Or.inr
    · rintro (h | h)
      · exact absurd (by subst h; rfl) e
      · exact h

theorem isSet_set_self (b : AccessBitmap) (i : Nat) (hi : i < 64) : (b.set i).isSet i = true :=
  (isSet_set b i i hi hi).mpr (Or.inl rfl)

/-- Two bitmaps with the same 64 privileges are the same 8 bytes. -/
theorem ext_isSet (a b : AccessBitmap) (h : ∀ i, i < 64 → a.isSet i = b.isSet i) : a = b := by
  cases a with | mk av => cases b with | mk bv =>
  congr 1
  apply Vector.ext
  intro k hk
  apply byte_ext
  intro t ht
  have := h (8 * k + (7 - t)) (by omega)
  rw [isSet_eq_testBit, isSet_eq_testBit] at this
  have e1 : (8 * k + (7 - t)) / 8 = k := by omega
  have e2 : 7 - (8 * k + (7 - t)) % 8 = t := by omega
  rw [e1, e2] at this
  simpa [byteAt, hk] using this

theorem isSet_setAll (l : List Nat) (hl : ∀ i ∈ l, i < 64) (b : AccessBitmap) (j : Nat) (hj : j < 64) :
    (b.setAll l).isSet j = true ↔ j ∈ l ∨ b.isSet j = true := by
  induction l generalizing b with
  | nil => simp [setAll]
  | cons x xs ih =>
    have hx : x < 64 := hl x (by simp)
    have := ih (fun i hi => hl i (by simp [hi])) (b.set x)
    simp only [setAll, List.foldl_cons] at this ⊢
    rw [this, isSet_set b x j hx hj]
    simp only [List.mem_cons]
    constructor
    · rintro (h | h | h)
      · exact Or.inl (Or.inr h)
      · exact Or.inl (Or.inl h.symm)
      · exact Or.inr h
    · rintro ((h | h) | h)
      · exact Or.inr (Or.inl h.symm)
      · exact Or.inl h
      · exact Or.inr (Or.inr h)

theorem isSet_ofBits (l : List Nat) (hl : ∀ i ∈ l, i < 64) (j : Nat) (hj : j < 64) :
    (ofBits l).isSet j = true ↔ j ∈ l := by
  unfold ofBits
  rw [isSet_setAll l hl zero j hj]
  simp

theorem isSet_mask (b : AccessBitmap) (d : List Nat) (hd : ∀ i ∈ d, i < 64) (j : Nat) (hj : j < 64) :
    (b.mask d).isSet j = true ↔ j ∈ d ∧ b.isSet j = true := by
  unfold mask
  rw [isSet_ofBits _ (fun i hi => hd i (List.mem_filter.mp hi).1) j hj]
  simp [List.mem_filter]

theorem subsetB_iff (a b : AccessBitmap) : subsetB a b = true ↔ Subset a b := by
  unfold subsetB Subset
  simp only [List.all_eq_true, List.mem_range, Bool.or_eq_true, Bool.not_eq_true']
  constructor
  · intro h i hi hs
    rcases h i hi with h' | h'
    · rw [hs] at h'; cases h'
    · exact h'
  · intro h i hi
    cases hs : a.isSet i
    · exact Or.inl rfl
    · exact Or.inr (h i hi hs)

instance (a b : AccessBitmap) : Decidable (Subset a b) := decidable_of_iff _ (subsetB_iff a b)

theorem Subset.refl (a : AccessBitmap) : Subset a a := fun _ _ h => h
theorem Subset.trans {a b c : AccessBitmap} (h1 : Subset a b) (h2 : Subset b c) : Subset a c :=
  fun i hi h => h2 i hi (h1 i hi h)

/-! ### raw bytes -/

@[simp] theorem toBytes_length (b : AccessBitmap) : b.toBytes.length = 8 := by simp [toBytes]

/-- the wire / legacy-array form loses nothing -/
theorem ofBytes_toBytes (b : AccessBitmap) : ofBytes b.toBytes = b := by
  cases b with | mk v =>
  unfold ofBytes toBytes
  congr 1
  apply Vector.ext
  intro k hk
  simp [List.getD_eq_getElem?_getD]

/-- `copy` keeps the first 8 bytes and ignores the rest -/
theorem ofBytes_take (d : Bytes) : ofBytes (d.take 8) = ofBytes d := by
  unfold ofBytes
  congr 1
  apply Vector.ext
  intro k hk
  simp [Vector.getElem_ofFn, List.getD_eq_getElem?_getD]

/-- `copy` of short data zero-extends -/
theorem ofBytes_pad (d : Bytes) : ofBytes (d ++ List.replicate (8 - d.length) 0) = ofBytes d := by
  unfold ofBytes
  congr 1
  apply Vector.ext
  intro k hk
  simp only [Vector.getElem_ofFn, List.getD_eq_getElem?_getD]
  by_cases h : k < d.length
  · simp [List.getElem?_append_left h]
  · rw [List.getElem?_append_right (by omega)]
    simp [List.getElem?_replicate]
    have : d[k]? = none := by simp; omega
    rw [this]; simp
    split <;> rfl

theorem toBytes_ofBytes (d : Bytes) (h : d.length = 8) : (ofBytes d).toBytes = d := by
  unfold ofBytes toBytes
  apply List.ext_getElem
  · simp [h]
  · intro i h1 h2
    simp [List.getD_eq_getElem?_getD]
    have : i < d.length := by simp at h1; omega
    simp [this]

end AccessBitmap
end Mobius
