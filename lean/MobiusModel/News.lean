import MobiusModel.AMap
import MobiusModel.Wire
/-!
  News (C18): `ThreadedNewsYAML` (internal/mobius/threaded_news.go, as of fix 1d47fc0) and the list
  encoders of hotline/news.go (as of c27e702 / 1322b81).

  The Go tree (`map[string]NewsCategoryListData15` nested through `SubCats`) is modelled FLAT: a
  finite map from a path (list of names) to the item at that path (`Cat`: type + article map).
  An item is present iff every item above it is present (`PrefixClosed`, preserved by every
  operation), so the flat lookup is the Go walk from the root; a missing item reads as the zero
  value with nil maps (reads give nothing, writes panic).  The YAML file is an abstract `F` with
  `ser`/`deser` parameters (`Codec`); the round-trip assumption is an explicit hypothesis.
-/
namespace Mobius.News

abbrev Path := List Bytes

/-- `hotline.NewsArtData` (ids as numbers; `DataFlav` is constant). -/
structure Art where
  title : Bytes
  poster : Bytes
  date : Bytes       -- 8 bytes
  prev : Nat
  next : Nat
  parent : Nat
  firstChild : Nat
  data : Bytes
deriving DecidableEq, Repr

/-- what the property calls the article itself: title, poster, date, body -/
def Art.content (a : Art) : Bytes × Bytes × Bytes × Bytes := (a.title, a.poster, a.date, a.data)

/-- `hotline.NewsCategoryListData15` without its sub-items (those are the entries below its path). -/
structure Cat where
  ty : Nat                 -- 2 = bundle, 3 = category
  arts : AMap Nat Art
deriving DecidableEq, Repr

abbrev Tree := AMap Path Cat

/-- the YAML file: serialiser / loader as parameters -/
structure Codec (F : Type) where
  ser : Tree → F
  deser : F → Option Tree

/-- the trusted assumption about gopkg.in/yaml.v3 on the model's value domain -/
def Codec.RoundTrip {F : Type} (cd : Codec F) : Prop := ∀ t, cd.deser (cd.ser t) = some t

structure State (F : Type) where
  mem : Tree
  disk : F

/-- outcome of a manager method: returned nil / returned an error / panicked (state as left behind) -/
inductive R (σ : Type) where
  | ok (s : σ)
  | err (s : σ)
  | panic (s : σ)
deriving Repr

/-- 0 = returned nil, 1 = returned an error, 2 = panicked -/
def R.kind {σ : Type} : R σ → Nat
  | .ok _ => 0
  | .err _ => 1
  | .panic _ => 2

def R.state {σ : Type} : R σ → σ
  | .ok s => s
  | .err s => s
  | .panic s => s

-- ---------------------------------------------------------------- tree helpers

/-- drop every item at or below `p` (`delete(cats, name)` / overwriting `cats[name]`) -/
def removeUnder (p : Path) (t : Tree) : Tree := t.filterKeys (fun q => !decide (p <+: q))

theorem get_removeUnder (p q : Path) (t : Tree) :
    (removeUnder p t).get q = if p <+: q then none else t.get q := by
  unfold removeUnder
  rw [AMap.get_filterKeys]
  by_cases h : p <+: q <;> simp [h]

def getArticle (t : Tree) (path : Path) (id : Nat) : Option Art := (t.get path).bind (·.arts.get id)

/-- split off the last component -/
def unsnoc : Path → Option (Path × Bytes)
  | [] => none
  | x :: xs =>
    match unsnoc xs with
    | none => some ([], x)
    | some (ys, y) => some (x :: ys, y)

theorem unsnoc_eq_some (l ys : Path) (y : Bytes) : unsnoc l = some (ys, y) ↔ l = ys ++ [y] := by
  induction l generalizing ys y with
  | nil => simp [unsnoc]
  | cons x xs ih =>
    unfold unsnoc
    cases h : unsnoc xs with
    | none =>
      have hx : xs = [] := by
        cases xs with
        | nil => rfl
        | cons a as =>
          unfold unsnoc at h
          cases h2 : unsnoc as <;> simp [h2] at h
      subst hx
      cases ys with
      | nil => simp
      | cons a as => simp
    | some p =>
      obtain ⟨zs, z⟩ := p
      have hxs := (ih zs z).mp h
      subst hxs
      constructor
      · intro e
        simp only [Option.some.injEq, Prod.mk.injEq] at e
        obtain ⟨rfl, rfl⟩ := e
        simp
      · intro e
        cases ys with
        | nil => simp at e
        | cons a as =>
          simp only [List.cons_append, List.cons.injEq] at e
          obtain ⟨rfl, e2⟩ := e
          obtain ⟨h3, h4⟩ := List.append_inj' e2 rfl
          simp only [List.cons.injEq, and_true] at h4
          subst h3; subst h4; rfl

/-- the items directly below `path` (name, item), in map order -/
def children (t : Tree) (path : Path) : List (Bytes × Cat) :=
  t.toList.filterMap fun e =>
    match unsnoc e.1 with
    | some (p, n) => if p = path then some (n, e.2) else none
    | none => none

theorem mem_children (t : Tree) (path : Path) (n : Bytes) (c : Cat) :
    (n, c) ∈ children t path ↔ t.get (path ++ [n]) = some c := by
  unfold children
  rw [List.mem_filterMap]
  constructor
  · rintro ⟨⟨k, v⟩, hm, hf⟩
    simp only at hf
    cases hu : unsnoc k with
    | none => simp [hu] at hf
    | some pn =>
      obtain ⟨p, m⟩ := pn
      simp only [hu] at hf
      by_cases hp : p = path
      · simp only [hp, if_true, Option.some.injEq, Prod.mk.injEq] at hf
        obtain ⟨rfl, rfl⟩ := hf
        have := (unsnoc_eq_some k p m).mp hu
        rw [← hp, ← this]
        exact (AMap.mem_toList_iff t k v).mp hm
      · simp [hp] at hf
  · intro h
    refine ⟨(path ++ [n], c), (AMap.mem_toList_iff t _ c).mpr h, ?_⟩
    simp only
    rw [(unsnoc_eq_some (path ++ [n]) path n).mpr rfl]
    simp

/-- bytewise lexicographic order (Go `cmp.Compare` on strings) -/
def lexLe : Bytes → Bytes → Bool
  | [], _ => true
  | _ :: _, [] => false
  | a :: as, b :: bs => if a.toNat < b.toNat then true else if a.toNat = b.toNat then lexLe as bs else false

theorem lexLe_total (a b : Bytes) : (lexLe a b || lexLe b a) = true := by
  induction a generalizing b with
  | nil => simp [lexLe]
  | cons x xs ih =>
    cases b with
    | nil => simp [lexLe]
    | cons y ys =>
      simp only [lexLe]
      by_cases h1 : x.toNat < y.toNat
      · simp [h1]
      · by_cases h2 : x.toNat = y.toNat
        · have := ih ys
          simp [h2, this]
        · have h3 : y.toNat < x.toNat := by omega
          simp [h1, h2, h3]

theorem lexLe_trans (a b c : Bytes) (h1 : lexLe a b = true) (h2 : lexLe b c = true) : lexLe a c = true := by
  induction a generalizing b c with
  | nil => simp [lexLe]
  | cons x xs ih =>
    cases b with
    | nil => simp [lexLe] at h1
    | cons y ys =>
      cases c with
      | nil => simp [lexLe] at h2
      | cons z zs =>
        simp only [lexLe] at h1 h2 ⊢
        by_cases a1 : x.toNat < y.toNat
        · by_cases b1 : y.toNat < z.toNat
          · have : x.toNat < z.toNat := by omega
            simp [this]
          · by_cases b2 : y.toNat = z.toNat
            · have : x.toNat < z.toNat := by omega
              simp [this]
            · simp [b1, b2] at h2
        · by_cases a2 : x.toNat = y.toNat
          · simp only [a1, a2, if_false] at h1
            by_cases b1 : y.toNat < z.toNat
            · have : x.toNat < z.toNat := by omega
              simp [this]
            · by_cases b2 : y.toNat = z.toNat
              · simp only [b1, b2, if_false] at h2
                have e : x.toNat = z.toNat := by omega
                have ne : ¬ x.toNat < z.toNat := by omega
                have h1' : lexLe xs ys = true := by simpa using h1
                have h2' : lexLe ys zs = true := by simpa using h2
                simp [ne, e, ih ys zs h1' h2']
              · simp [b1, b2] at h2
          · simp [a1, a2] at h1

/-- `GetCategories`: the children sorted by name -/
def listCats (t : Tree) (path : Path) : List (Bytes × Cat) :=
  (children t path).mergeSort (fun a b => lexLe a.1 b.1)

/-- `ListArticles`: the articles of the item at `path` sorted by id (nothing for a missing item) -/
def listArticles (t : Tree) (path : Path) : List (Nat × Art) :=
  match t.get path with
  | none => []
  | some c => c.arts.toList.mergeSort (fun a b => decide (a.1 ≤ b.1))

-- ---------------------------------------------------------------- id allocation

def maxKey (m : AMap Nat Art) : Nat := m.keys.foldl max 0

theorem foldl_max_ge (l : List Nat) (i : Nat) : i ≤ l.foldl max i ∧ ∀ k ∈ l, k ≤ l.foldl max i := by
  induction l generalizing i with
  | nil => simp
  | cons x xs ih =>
    simp only [List.foldl_cons]
    have := ih (max i x)
    constructor
    · exact Nat.le_trans (Nat.le_max_left i x) this.1
    · intro k hk
      simp only [List.mem_cons] at hk
      rcases hk with rfl | hk
      · exact Nat.le_trans (Nat.le_max_right i k) this.1
      · exact this.2 k hk

theorem foldl_max_mem (l : List Nat) (i : Nat) : l.foldl max i = i ∨ l.foldl max i ∈ l := by
  induction l generalizing i with
  | nil => simp
  | cons x xs ih =>
    simp only [List.foldl_cons]
    rcases ih (max i x) with h | h
    · rw [h]
      by_cases hx : i ≤ x
      · right; simp [Nat.max_eq_right hx]
      · left; exact Nat.max_eq_left (by omega)
    · right; exact List.mem_cons_of_mem _ h

theorem le_maxKey (m : AMap Nat Art) (k : Nat) (h : k ∈ m.keys) : k ≤ maxKey m := (foldl_max_ge m.keys 0).2 k h

theorem maxKey_mem (m : AMap Nat Art) (h : m.keys ≠ []) : maxKey m ∈ m.keys := by
  rcases foldl_max_mem m.keys 0 with h0 | h0
  · -- the maximum is 0: every key is 0, and there is one
    cases hk : m.keys with
    | nil => exact absurd hk h
    | cons x xs =>
      have hx : x ≤ maxKey m := le_maxKey m x (by rw [hk]; simp)
      have : maxKey m = 0 := h0
      have : x = 0 := by omega
      rw [‹maxKey m = 0›, this]; simp
  · exact h0

/-- the id `PostArticle` gives the new article: 1 in an empty category, else newest + 1 -/
def nextId (arts : AMap Nat Art) : Nat := if arts.keys = [] then 1 else maxKey arts + 1

theorem nextId_fresh (arts : AMap Nat Art) : arts.get (nextId arts) = none ∧ ∀ k ∈ arts.keys, k < nextId arts := by
  have hlt : ∀ k ∈ arts.keys, k < nextId arts := by
    intro k hk
    unfold nextId
    by_cases h : arts.keys = []
    · rw [h] at hk; simp at hk
    · simp only [h, if_false]
      have := le_maxKey arts k hk
      omega
  refine ⟨?_, hlt⟩
  apply AMap.get_none_of_not_mem_keys
  intro hm
  have := hlt _ hm
  omega

/-- step 1 on an existing article `k`: the previously newest article learns its successor -/
def f1 (arts : AMap Nat Art) (k : Nat) (x : Art) : Art :=
  if arts.keys ≠ [] ∧ k = maxKey arts then { x with next := nextId arts } else x

/-- step 2 on an existing article `k`: the parent learns its first child, if it had none -/
def f2 (parent nid k : Nat) (x : Art) : Art :=
  if parent ≠ 0 ∧ k = parent ∧ x.firstChild = 0 then { x with firstChild := nid } else x

/-- `binary.BigEndian.PutUint32(cat.Articles[prevID].NextArt[:], nextID)` (in place, before the parent lookup) -/
def linkPrev (arts : AMap Nat Art) : AMap Nat Art :=
  if arts.keys = [] then arts else
  match arts.get (maxKey arts) with
  | some pa => arts.set (maxKey arts) (f1 arts (maxKey arts) pa)
  | none => arts

/-- the parent lookup and first-child update; `none` = nil pointer dereference -/
def linkParent (m : AMap Nat Art) (parent nid : Nat) : Option (AMap Nat Art) :=
  if parent = 0 then some m else
  match m.get parent with
  | none => none
  | some pa => some (if pa.firstChild = 0 then m.set parent (f2 parent nid parent pa) else m)

/-- the new article as stored -/
def newArt (arts : AMap Nat Art) (parent : Nat) (a : Art) : Art :=
  { a with parent := parent, prev := if arts.keys = [] then a.prev else maxKey arts }

/-- `PostArticle` on the article map of the addressed item.  `false` = the parent lookup hit a nil
    pointer (panic) AFTER the previous newest article's `NextArt` was overwritten in memory. -/
def postArts (arts : AMap Nat Art) (parent : Nat) (a : Art) : AMap Nat Art × Bool :=
  match linkParent (linkPrev arts) parent (nextId arts) with
  | none => (linkPrev arts, false)
  | some m => (m.set (nextId arts) (newArt arts parent a), true)

-- ---------------------------------------------------------------- the manager's methods

variable {F : Type}

/-- is the `SubCats` / `Categories` map holding the children of `path` non-nil? -/
def mapExists (t : Tree) (path : Path) : Bool := path = [] || (t.get path).isSome

/-- `CreateGrouping(path, name, type)`: `cats[name] = fresh item` — overwrites an existing item of
    that name (its articles and sub-items are gone); panics on a nil map when `path` names nothing. -/
def createGrouping (cd : Codec F) (path : Path) (name : Bytes) (ty : Nat) (st : State F) : R (State F) :=
  if !mapExists st.mem path then .panic st
  else
    let t' := (removeUnder (path ++ [name]) st.mem).set (path ++ [name]) ⟨ty, AMap.empty⟩
    .ok ⟨t', cd.ser t'⟩

/-- `PostArticle(path, parentID, article)`. -/
def post (cd : Codec F) (path : Path) (parent : Nat) (a : Art) (st : State F) : R (State F) :=
  if path = [] then .err st else
  match st.mem.get path with
  | none => .panic st                         -- nil article map: nil-pointer / nil-map write
  | some c =>
    let r := postArts c.arts parent a
    let t' := st.mem.set path { c with arts := r.1 }
    if r.2 then .ok ⟨t', cd.ser t'⟩ else .panic ⟨t', st.disk⟩

/-- `DeleteArticle(path, id)`: removes that map entry only (links of other articles untouched). -/
def deleteArticle (cd : Codec F) (path : Path) (id : Nat) (st : State F) : R (State F) :=
  if path = [] then .err st else
  match st.mem.get path with
  | none => .err st                           -- "news category not found" (fix 1d47fc0)
  | some c =>
    let t' := st.mem.set path { c with arts := c.arts.del id }
    .ok ⟨t', cd.ser t'⟩

/-- `DeleteNewsItem(path)`: `delete(cats, last)` (no-op on a nil map), then the file is rewritten. -/
def deleteItem (cd : Codec F) (path : Path) (st : State F) : R (State F) :=
  if path = [] then .panic st else
  let t' := removeUnder path st.mem
  .ok ⟨t', cd.ser t'⟩

/-- `Load()` / `NewThreadedNewsYAML` on the same file. -/
def reload (cd : Codec F) (st : State F) : R (State F) :=
  match cd.deser st.disk with
  | some t => .ok ⟨t, st.disk⟩
  | none => .err st

inductive Op where
  | newBundle (path : Path) (name : Bytes)
  | newCategory (path : Path) (name : Bytes)
  | post (path : Path) (parent : Nat) (a : Art)      -- parent 0 = new thread
  | delArticle (path : Path) (id : Nat)
  | delItem (path : Path)
  | reload
deriving Repr

def step (cd : Codec F) (st : State F) : Op → R (State F)
  | .newBundle p n => createGrouping cd p n 2 st
  | .newCategory p n => createGrouping cd p n 3 st
  | .post p par a => post cd p par a st
  | .delArticle p id => deleteArticle cd p id st
  | .delItem p => deleteItem cd p st
  | .reload => reload cd st

/-- a history: panics are contained by the connection's recover, the server goes on -/
def run (cd : Codec F) (st : State F) (ops : List Op) : State F := ops.foldl (fun s o => (step cd s o).state) st

-- ---------------------------------------------------------------- wire forms of the replies

def artEntry (e : Nat × Art) : ArtEntry := ⟨e.1, e.2.date, e.2.parent, e.2.title, e.2.poster, e.2.data.length % 65536⟩

/-- field 321 of the list-articles reply -/
def listArticlesField (t : Tree) (path : Path) : Bytes :=
  let es := (listArticles t path).map artEntry
  artListEncode 0 es.length [] [] (es.map ArtEntry.encode).flatten

/-- `len(Articles) + len(SubCats)` of the item at `p` -/
def itemCount (t : Tree) (p : Path) (c : Cat) : Nat := c.arts.toList.length + (children t p).length

/-- fields 323 of the list-categories reply -/
def listCatsFields (t : Tree) (path : Path) : List Bytes :=
  (listCats t path).map fun e => newsCatEncode (e.2.ty = 3) (itemCount t (path ++ [e.1]) e.2) e.1


-- ---------------------------------------------------------------- lemmas: posting

theorem linkPrev_get (arts : AMap Nat Art) (k : Nat) :
    (linkPrev arts).get k = (arts.get k).map (f1 arts k) := by
  unfold linkPrev
  by_cases h : arts.keys = []
  · rw [if_pos h]
    have : f1 arts k = fun x => x := by
      funext x; unfold f1; rw [if_neg (fun hh => hh.1 h)]
    rw [this]; simp
  · rw [if_neg h]
    obtain ⟨pa, hpa⟩ := (AMap.mem_keys_iff arts (maxKey arts)).mp (maxKey_mem arts h)
    rw [hpa]
    show (arts.set (maxKey arts) (f1 arts (maxKey arts) pa)).get k = _
    rw [AMap.get_set]
    by_cases hk : k = maxKey arts
    · rw [if_pos hk, hk, hpa]; rfl
    · rw [if_neg hk]
      have : f1 arts k = fun x => x := by
        funext x; unfold f1; rw [if_neg (fun hh => hk hh.2)]
      rw [this]; simp

theorem linkParent_get (m m2 : AMap Nat Art) (parent nid k : Nat) (h : linkParent m parent nid = some m2) :
    m2.get k = (m.get k).map (f2 parent nid k) := by
  unfold linkParent at h
  by_cases hp : parent = 0
  · rw [if_pos hp] at h
    cases h
    have : f2 parent nid k = fun x => x := by
      funext x; unfold f2; rw [if_neg (fun hh => hh.1 hp)]
    rw [this]; simp
  · rw [if_neg hp] at h
    cases hpa : m.get parent with
    | none => rw [hpa] at h; cases h
    | some pa =>
      rw [hpa] at h
      simp only [Option.some.injEq] at h
      by_cases hf : pa.firstChild = 0
      · rw [if_pos hf] at h
        subst h
        rw [AMap.get_set]
        by_cases hk : k = parent
        · rw [if_pos hk, hk, hpa]; rfl
        · rw [if_neg hk]
          have : f2 parent nid k = fun x => x := by
            funext x; unfold f2; rw [if_neg (fun hh => hk hh.2.1)]
          rw [this]; simp
      · rw [if_neg hf] at h
        subst h
        by_cases hk : k = parent
        · rw [hk, hpa]
          show some pa = some (f2 parent nid parent pa)
          unfold f2
          rw [if_neg (fun hh => hf hh.2.2)]
        · have : f2 parent nid k = fun x => x := by
            funext x; unfold f2; rw [if_neg (fun hh => hk hh.2.1)]
          rw [this]; simp

/-- what posting does to an article that is already there: possibly a new `next` (the previously
    newest article) and, when the post went through, possibly a new `firstChild` (the parent, if it
    had none) — nothing else. -/
def touched (arts : AMap Nat Art) (parent : Nat) (ok : Bool) (k : Nat) (x : Art) : Art :=
  if ok then f2 parent (nextId arts) k (f1 arts k x) else f1 arts k x

theorem f1_content (arts : AMap Nat Art) (k : Nat) (x : Art) :
    (f1 arts k x).content = x.content ∧ (f1 arts k x).prev = x.prev ∧ (f1 arts k x).parent = x.parent ∧
    (f1 arts k x).firstChild = x.firstChild := by
  unfold f1; split <;> simp [Art.content]

theorem f2_content (parent nid k : Nat) (x : Art) :
    (f2 parent nid k x).content = x.content ∧ (f2 parent nid k x).prev = x.prev ∧ (f2 parent nid k x).parent = x.parent ∧
    (f2 parent nid k x).next = x.next := by
  unfold f2; split <;> simp [Art.content]

theorem touched_content (arts : AMap Nat Art) (parent : Nat) (ok : Bool) (k : Nat) (x : Art) :
    (touched arts parent ok k x).content = x.content ∧ (touched arts parent ok k x).prev = x.prev ∧
    (touched arts parent ok k x).parent = x.parent := by
  unfold touched
  have a := f1_content arts k x
  cases ok
  · exact ⟨a.1, a.2.1, a.2.2.1⟩
  · have b := f2_content parent (nextId arts) k (f1 arts k x)
    simp only [if_true]
    exact ⟨b.1.trans a.1, b.2.1.trans a.2.1, b.2.2.1.trans a.2.2.1⟩

theorem postArts_get (arts : AMap Nat Art) (parent : Nat) (a : Art) (k : Nat) (hk : k ≠ nextId arts) :
    (postArts arts parent a).1.get k = (arts.get k).map (touched arts parent (postArts arts parent a).2 k) := by
  unfold postArts
  cases h : linkParent (linkPrev arts) parent (nextId arts) with
  | none =>
    show (linkPrev arts).get k = _
    rw [linkPrev_get]
    rfl
  | some m =>
    show (m.set (nextId arts) (newArt arts parent a)).get k = _
    rw [AMap.get_set_ne _ _ _ _ hk, linkParent_get _ _ _ _ k h, linkPrev_get, Option.map_map]
    rfl

theorem postArts_new (arts : AMap Nat Art) (parent : Nat) (a : Art) (h : (postArts arts parent a).2 = true) :
    (postArts arts parent a).1.get (nextId arts) = some (newArt arts parent a) := by
  unfold postArts at h ⊢
  cases hl : linkParent (linkPrev arts) parent (nextId arts) with
  | none => rw [hl] at h; cases h
  | some m => simp

theorem postArts_new_fail (arts : AMap Nat Art) (parent : Nat) (a : Art) (h : (postArts arts parent a).2 = false) :
    (postArts arts parent a).1.get (nextId arts) = none := by
  unfold postArts at h ⊢
  cases hl : linkParent (linkPrev arts) parent (nextId arts) with
  | none =>
    show (linkPrev arts).get (nextId arts) = none
    rw [linkPrev_get, (nextId_fresh arts).1]; rfl
  | some m => rw [hl] at h; cases h

/-- posting goes through exactly when the thread parent (if any) is present -/
theorem postArts_ok_iff (arts : AMap Nat Art) (parent : Nat) (a : Art) :
    (postArts arts parent a).2 = true ↔ (parent = 0 ∨ (arts.get parent).isSome) := by
  unfold postArts linkParent
  by_cases hp : parent = 0
  · simp [hp]
  · rw [if_neg hp, linkPrev_get]
    cases hg : arts.get parent <;> simp [hp]

theorem getArticle_set (t : Tree) (path p : Path) (c : Cat) (id : Nat) :
    getArticle (t.set path c) p id = if p = path then c.arts.get id else getArticle t p id := by
  unfold getArticle
  rw [AMap.get_set]
  by_cases h : p = path <;> simp [h]

-- ---------------------------------------------------------------- lemmas: the article list on the wire

instance (a : ArtEntry) : Decidable a.WF := by unfold ArtEntry.WF; infer_instance

theorem b8_small (n : Nat) (h : n < 256) : (b8 n).toNat = n := by
  rw [b8_toNat]; omega

theorem artEntry_parse_encode (e : ArtEntry) (h : e.WF) (rest : Bytes) :
    ArtEntry.parse (e.encode ++ rest) = some (e, rest) := by
  obtain ⟨hid, hdate, hpar, htl, hpl, hsz⟩ := h
  -- the encoded entry, re-associated at every boundary the parser looks at
  let tail : Bytes := [10] ++ textPlain ++ be16 e.size ++ rest
  let p := e.encode ++ rest
  have e0 : p = be32 e.id ++ (e.date ++ (be32 e.parent ++ ([0, 0, 0, 0] ++ (be16 1 ++ ([b8 e.title.length] ++ (e.title ++ ([b8 e.poster.length] ++ (e.poster ++ tail)))))))) := by
    simp [p, tail, ArtEntry.encode, List.append_assoc]
  have e4 : p = be32 e.id ++ (e.date ++ (be32 e.parent ++ ([0, 0, 0, 0] ++ (be16 1 ++ ([b8 e.title.length] ++ (e.title ++ ([b8 e.poster.length] ++ (e.poster ++ tail)))))))) := e0
  have e12 : p = (be32 e.id ++ e.date) ++ (be32 e.parent ++ ([0, 0, 0, 0] ++ (be16 1 ++ ([b8 e.title.length] ++ (e.title ++ ([b8 e.poster.length] ++ (e.poster ++ tail))))))) := by
    rw [e0]; simp [List.append_assoc]
  have e20 : p = (be32 e.id ++ e.date ++ be32 e.parent ++ [0, 0, 0, 0]) ++ (be16 1 ++ ([b8 e.title.length] ++ (e.title ++ ([b8 e.poster.length] ++ (e.poster ++ tail))))) := by
    rw [e0]; simp [List.append_assoc]
  have e22 : p = (be32 e.id ++ e.date ++ be32 e.parent ++ [0, 0, 0, 0] ++ be16 1) ++ ([b8 e.title.length] ++ (e.title ++ ([b8 e.poster.length] ++ (e.poster ++ tail)))) := by
    rw [e0]; simp [List.append_assoc]
  have e23 : p = (be32 e.id ++ e.date ++ be32 e.parent ++ [0, 0, 0, 0] ++ be16 1 ++ [b8 e.title.length]) ++ (e.title ++ ([b8 e.poster.length] ++ (e.poster ++ tail))) := by
    rw [e0]; simp [List.append_assoc]
  have e23t : p = (be32 e.id ++ e.date ++ be32 e.parent ++ [0, 0, 0, 0] ++ be16 1 ++ [b8 e.title.length] ++ e.title) ++ ([b8 e.poster.length] ++ (e.poster ++ tail)) := by
    rw [e0]; simp [List.append_assoc]
  have e24t : p = (be32 e.id ++ e.date ++ be32 e.parent ++ [0, 0, 0, 0] ++ be16 1 ++ [b8 e.title.length] ++ e.title ++ [b8 e.poster.length]) ++ (e.poster ++ tail) := by
    rw [e0]; simp [List.append_assoc]
  have e24tp : p = (be32 e.id ++ e.date ++ be32 e.parent ++ [0, 0, 0, 0] ++ be16 1 ++ [b8 e.title.length] ++ e.title ++ [b8 e.poster.length] ++ e.poster) ++ tail := by
    rw [e0]; simp [List.append_assoc]
  have hlen : p.length = 37 + e.title.length + e.poster.length + rest.length := by
    rw [e0]; simp [tail, textPlain, hdate]; omega
  have a_tl : ((p.drop 22).headD 0).toNat = e.title.length := by
    rw [e22, List.drop_left' (by simp [hdate])]
    simp [b8_small _ htl]
  have a_pl : ((p.drop (23 + e.title.length)).headD 0).toNat = e.poster.length := by
    rw [e23t, List.drop_left' (by simp [hdate]; omega)]
    simp [b8_small _ hpl]
  have a_q : p.drop (24 + e.title.length + e.poster.length) = tail := by
    rw [e24tp, List.drop_left' (by simp [hdate]; omega)]
  have a_fl : rd16 (p.drop 20) = 1 := by
    rw [e20, List.drop_left' (by simp [hdate]), rd16_be16_append]
  have a_id : rd32 p = e.id := by
    rw [e0, rd32_be32_append]; omega
  have a_date : (p.drop 4).take 8 = e.date := by
    rw [e4, List.drop_left' (by simp), List.take_left' hdate]
  have a_par : rd32 (p.drop 12) = e.parent := by
    rw [e12, List.drop_left' (by simp [hdate]), rd32_be32_append]; omega
  have a_title : (p.drop 23).take e.title.length = e.title := by
    rw [e23, List.drop_left' (by simp [hdate]), List.take_left' rfl]
  have a_poster : (p.drop (24 + e.title.length)).take e.poster.length = e.poster := by
    rw [e24t, List.drop_left' (by simp [hdate]; omega), List.take_left' rfl]
  have a_t11 : tail.take 11 = [10] ++ textPlain := by
    show ([10] ++ textPlain ++ be16 e.size ++ rest).take 11 = _
    rw [List.append_assoc, List.take_left' (by simp [textPlain])]
  have a_sz : rd16 (tail.drop 11) = e.size := by
    show rd16 (([10] ++ textPlain ++ be16 e.size ++ rest).drop 11) = _
    rw [List.append_assoc, List.drop_left' (by simp [textPlain]), rd16_be16_append]; omega
  have a_rest : tail.drop 13 = rest := by
    show ([10] ++ textPlain ++ be16 e.size ++ rest).drop 13 = _
    rw [List.drop_left' (by simp [textPlain])]
  show ArtEntry.parse p = some (e, rest)
  unfold ArtEntry.parse
  simp only [a_tl, a_pl, a_q, a_fl, a_id, a_date, a_par, a_title, a_poster, a_t11, a_sz, a_rest, hlen]
  have c1 : ¬ (37 + e.title.length + e.poster.length + rest.length < 23) := by omega
  have c2 : ¬ (37 + e.title.length + e.poster.length + rest.length < 23 + e.title.length + 1) := by omega
  have c3 : ¬ (37 + e.title.length + e.poster.length + rest.length < 24 + e.title.length + e.poster.length + 13) := by omega
  simp [c1, c2, c3]


theorem parseArtEntries_encode (es : List ArtEntry) (h : ∀ e ∈ es, e.WF) :
    parseArtEntries es.length (es.map ArtEntry.encode).flatten = some es := by
  induction es with
  | nil => simp [parseArtEntries]
  | cons e es ih =>
    simp only [List.length_cons, List.map_cons, List.flatten_cons]
    unfold parseArtEntries
    rw [artEntry_parse_encode e (h e (by simp))]
    simp only
    rw [ih (fun x hx => h x (by simp [hx]))]

-- ---------------------------------------------------------------- lemmas: listings

theorem listArticles_mem (t : Tree) (path : Path) (id : Nat) (a : Art) :
    (id, a) ∈ listArticles t path ↔ getArticle t path id = some a := by
  unfold listArticles getArticle
  cases h : t.get path with
  | none => simp
  | some c =>
    simp only [List.mem_mergeSort, Option.bind_some]
    exact AMap.mem_toList_iff c.arts id a

theorem listArticles_perm (t : Tree) (path : Path) (c : Cat) (h : t.get path = some c) :
    (listArticles t path).Perm c.arts.toList := by
  unfold listArticles
  rw [h]
  exact List.mergeSort_perm _ _

/-- ascending ids, each once -/
theorem listArticles_sorted (t : Tree) (path : Path) :
    (listArticles t path).Pairwise (fun x y => x.1 < y.1) := by
  unfold listArticles
  cases h : t.get path with
  | none => simp
  | some c =>
    simp only
    have hle : (c.arts.toList.mergeSort fun a b => decide (a.1 ≤ b.1)).Pairwise (fun x y => x.1 ≤ y.1) := by
      have := List.pairwise_mergeSort (le := fun (a b : Nat × Art) => decide (a.1 ≤ b.1))
        (fun a b c h1 h2 => by simp only [decide_eq_true_eq] at *; omega)
        (fun a b => by simp only [Bool.or_eq_true, decide_eq_true_eq]; omega) c.arts.toList
      exact this.imp (fun h => by simpa using h)
    have hnd : ((c.arts.toList.mergeSort fun a b => decide (a.1 ≤ b.1)).map Prod.fst).Nodup :=
      ((List.mergeSort_perm c.arts.toList _).map Prod.fst).nodup_iff.mpr c.arts.nd
    have hne : (c.arts.toList.mergeSort fun a b => decide (a.1 ≤ b.1)).Pairwise (fun x y => x.1 ≠ y.1) := by
      have := hnd
      unfold List.Nodup at this
      rw [List.pairwise_map] at this
      exact this
    have := hle.and hne
    exact this.imp (fun h => by omega)

theorem listCats_mem (t : Tree) (path : Path) (n : Bytes) (c : Cat) :
    (n, c) ∈ listCats t path ↔ t.get (path ++ [n]) = some c := by
  unfold listCats
  rw [List.mem_mergeSort]
  exact mem_children t path n c

theorem listCats_sorted (t : Tree) (path : Path) :
    (listCats t path).Pairwise (fun x y => lexLe x.1 y.1 = true) := by
  unfold listCats
  exact List.pairwise_mergeSort (le := fun (a b : Bytes × Cat) => lexLe a.1 b.1)
    (fun a b c h1 h2 => lexLe_trans a.1 b.1 c.1 h1 h2) (fun a b => lexLe_total a.1 b.1) _

-- ---------------------------------------------------------------- lemmas: the flat tree is the Go tree

/-- every present item has its parent item present (so the Go walk from the root reaches it) -/
def PrefixClosed (t : Tree) : Prop :=
  ∀ p n, (t.get (p ++ [n])).isSome → p = [] ∨ (t.get p).isSome

theorem prefix_snoc_of_ne {p q : Path} {n : Bytes} (h : q <+: p ++ [n]) (hne : q ≠ p ++ [n]) : q <+: p := by
  obtain ⟨r, hr⟩ := h
  cases hrr : unsnoc r with
  | none =>
    have : r = [] := by
      cases r with
      | nil => rfl
      | cons x xs => unfold unsnoc at hrr; cases h2 : unsnoc xs <;> simp [h2] at hrr
    subst this
    simp at hr
    exact absurd hr hne
  | some ym =>
    obtain ⟨ys, y⟩ := ym
    have := (unsnoc_eq_some r ys y).mp hrr
    subst this
    rw [← List.append_assoc] at hr
    obtain ⟨h1, _⟩ := List.append_inj' hr rfl
    exact ⟨ys, h1⟩

theorem prefixClosed_removeUnder (q : Path) (t : Tree) (h : PrefixClosed t) : PrefixClosed (removeUnder q t) := by
  intro p n hp
  rw [get_removeUnder] at hp
  by_cases hq : q <+: p ++ [n]
  · simp [hq] at hp
  · simp only [hq, if_false] at hp
    rcases h p n hp with h1 | h1
    · exact Or.inl h1
    · right
      rw [get_removeUnder]
      have : ¬ q <+: p := fun hh => hq (hh.trans (List.prefix_append p [n]))
      simp [this, h1]

theorem prefixClosed_set_present (t : Tree) (h : PrefixClosed t) (path : Path) (c : Cat)
    (hp : (t.get path).isSome) : PrefixClosed (t.set path c) := by
  intro p n hpn
  rw [AMap.get_set] at hpn
  have key : (t.get (p ++ [n])).isSome := by
    by_cases e : p ++ [n] = path
    · rw [e]; exact hp
    · simpa [e] using hpn
  rcases h p n key with h1 | h1
  · exact Or.inl h1
  · right
    rw [AMap.get_set]
    by_cases e : p = path <;> simp [e, h1]


theorem prefixClosed_set_new (t : Tree) (h : PrefixClosed t) (path : Path) (name : Bytes) (c : Cat)
    (hp : path = [] ∨ (t.get path).isSome) : PrefixClosed (t.set (path ++ [name]) c) := by
  intro p n hpn
  rw [AMap.get_set] at hpn
  by_cases e : p ++ [n] = path ++ [name]
  · obtain ⟨e1, _⟩ := List.append_inj' e rfl
    subst e1
    rcases hp with hp | hp
    · exact Or.inl hp
    · right
      rw [AMap.get_set]
      have : ¬ p = p ++ [name] := fun x => by
        have := congrArg List.length x
        simp at this
      simp [this, hp]
  · simp only [e, if_false] at hpn
    rcases h p n hpn with h1 | h1
    · exact Or.inl h1
    · right
      rw [AMap.get_set]
      by_cases e2 : p = path ++ [name] <;> simp [e2, h1]

theorem not_snoc_prefix (path : Path) (name : Bytes) : ¬ (path ++ [name]) <+: path := by
  intro ⟨r, hr⟩
  have := congrArg List.length hr
  simp at this

-- ---------------------------------------------------------------- the invariant over histories

variable {F : Type}

/-- an article without its `next` link (the only thing a contained panic can leave un-persisted) -/
def Art.strip (a : Art) : Art := { a with next := 0 }

theorem strip_content (a b : Art) (h : a.strip = b.strip) : a.content = b.content := by
  cases a; cases b
  simp only [Art.strip, Art.mk.injEq] at h
  simp [Art.content, h]

/-- two trees that agree on everything except `next` links -/
def SameButNext (t m : Tree) : Prop :=
  ∀ p, (t.get p).map Cat.ty = (m.get p).map Cat.ty ∧
       ∀ id, (getArticle t p id).map Art.strip = (getArticle m p id).map Art.strip

theorem SameButNext.refl (t : Tree) : SameButNext t t := fun _ => ⟨rfl, fun _ => rfl⟩

/-- Reachable states: memory is a proper tree, the file loads, and the loaded tree is memory up
    to `next` links. -/
def Good (cd : Codec F) (st : State F) : Prop :=
  PrefixClosed st.mem ∧ ∃ t, cd.deser st.disk = some t ∧ PrefixClosed t ∧ SameButNext t st.mem

theorem good_persisted (cd : Codec F) (hrt : cd.RoundTrip) (t : Tree) (h : PrefixClosed t) :
    Good cd ⟨t, cd.ser t⟩ := ⟨h, t, hrt t, h, SameButNext.refl t⟩

theorem f1_strip (arts : AMap Nat Art) (k : Nat) (x : Art) : (f1 arts k x).strip = x.strip := by
  unfold f1; split <;> simp [Art.strip]

theorem step_good (cd : Codec F) (hrt : cd.RoundTrip) (st : State F) (op : Op) (h : Good cd st) :
    Good cd (step cd st op).state := by
  obtain ⟨hpc, t, hd, htpc, hsame⟩ := h
  have cg : ∀ (p : Path) (n : Bytes) (ty : Nat), Good cd (createGrouping cd p n ty st).state := by
    intro p n ty
    unfold createGrouping
    cases hm : mapExists st.mem p with
    | false => exact ⟨hpc, t, hd, htpc, hsame⟩
    | true =>
      apply good_persisted cd hrt
      apply prefixClosed_set_new _ (prefixClosed_removeUnder _ _ hpc)
      simp only [mapExists, Bool.or_eq_true, decide_eq_true_eq] at hm
      rcases hm with hm | hm
      · exact Or.inl hm
      · right
        rw [get_removeUnder, if_neg (not_snoc_prefix p n)]
        exact hm
  cases op with
  | newBundle p n => exact cg p n 2
  | newCategory p n => exact cg p n 3
  | delItem p =>
    show Good cd (deleteItem cd p st).state
    unfold deleteItem
    by_cases hp : p = []
    · rw [if_pos hp]; exact ⟨hpc, t, hd, htpc, hsame⟩
    · rw [if_neg hp]
      exact good_persisted cd hrt _ (prefixClosed_removeUnder _ _ hpc)
  | delArticle p id =>
    show Good cd (deleteArticle cd p id st).state
    unfold deleteArticle
    by_cases hp : p = []
    · rw [if_pos hp]; exact ⟨hpc, t, hd, htpc, hsame⟩
    · rw [if_neg hp]
      cases hc : st.mem.get p with
      | none => exact ⟨hpc, t, hd, htpc, hsame⟩
      | some c =>
        exact good_persisted cd hrt _ (prefixClosed_set_present _ hpc _ _ (by rw [hc]; rfl))
  | reload =>
    show Good cd (reload cd st).state
    unfold reload
    rw [hd]
    exact ⟨htpc, t, hd, htpc, SameButNext.refl t⟩
  | post p par a =>
    show Good cd (post cd p par a st).state
    unfold post
    by_cases hp : p = []
    · rw [if_pos hp]; exact ⟨hpc, t, hd, htpc, hsame⟩
    · rw [if_neg hp]
      cases hc : st.mem.get p with
      | none => exact ⟨hpc, t, hd, htpc, hsame⟩
      | some c =>
        have hpc' := prefixClosed_set_present _ hpc p { c with arts := (postArts c.arts par a).1 } (by rw [hc]; rfl)
        cases hok : (postArts c.arts par a).2 with
        | true =>
          simp only [hok, if_true]
          exact good_persisted cd hrt _ hpc'
        | false =>
          simp only [hok, Bool.false_eq_true, if_false, R.state]
          refine ⟨hpc', t, hd, htpc, ?_⟩
          intro q
          obtain ⟨h1, h2⟩ := hsame q
          constructor
          · rw [h1, AMap.get_set]
            by_cases e : q = p
            · rw [if_pos e, e, hc]; rfl
            · rw [if_neg e]
          · intro id
            rw [h2 id, getArticle_set]
            by_cases e : q = p
            · rw [if_pos e, e]
              simp only
              have hga : getArticle st.mem p id = c.arts.get id := by simp [getArticle, hc]
              rw [hga]
              by_cases hid : id = nextId c.arts
              · rw [hid, postArts_new_fail _ _ _ hok, (nextId_fresh c.arts).1]
              · rw [postArts_get _ _ _ _ hid, hok, Option.map_map]
                congr 1
                funext x
                simp [touched, f1_strip]
            · rw [if_neg e]

theorem run_good (cd : Codec F) (hrt : cd.RoundTrip) (ops : List Op) (st : State F) (h : Good cd st) :
    Good cd (run cd st ops) := by
  induction ops generalizing st with
  | nil => exact h
  | cons o rest ih =>
    simp only [run, List.foldl_cons]
    exact ih _ (step_good cd hrt st o h)

end Mobius.News
