import MobiusModel.StalledDelivery
/-!
  C12, wave e — the dispatcher between the outbox and the per-transaction goroutines.

  `Net` (StalledDelivery) starts at `.spawn s`: a goroutine that already carries ITS transaction `s`.  Here the step
  before it is modelled: `processOutbox` receives the next transaction from the outbox (FIFO) into a variable that
  belongs to THIS iteration, and the goroutine it starts closes over that variable.  `Dispatch.step` is that loop under
  an arbitrary schedule (receive / a goroutine's write completes / a connection stalls or resumes);
  `Dispatch.conservation`: for every schedule, delivered ++ blocked ++ not-yet-received is a permutation of the outbox —
  each spawned send carries its own transaction, none twice, none lost.

  `Shared` is the contrast: ONE variable declared before the loop, assigned on every receive, read by each goroutine
  only when it gets to run.  `Shared.loses_and_duplicates`: a schedule in which the second receive precedes the first
  goroutine's read delivers the second transaction twice and the first never.
-/
namespace Mobius
namespace Dispatch
variable {α : Type}

inductive Ev where
  | recv                -- `t := <-s.outbox; go func() { sendTransaction(t) }()`
  | fire (i : Nat)      -- the i-th blocked goroutine's write completes
  | stall (k : Nat)
  | resume (k : Nat)
deriving Repr

structure St (α : Type) where
  outbox : List (Send α)
  net : Net α := {}

def step (s : St α) : Ev → St α
  | .recv =>
    match s.outbox with
    | [] => s
    | t :: rest => { outbox := rest, net := s.net.step (.spawn t) }
  | .fire i => { s with net := s.net.step (.fire i) }
  | .stall k => { s with net := s.net.step (.stall k) }
  | .resume k => { s with net := s.net.step (.resume k) }

def run (s : St α) (evs : List Ev) : St α := evs.foldl step s

/-- Everything the dispatcher is responsible for: handed over, blocked in a goroutine, still in the outbox. -/
def all (s : St α) : List (Send α) := s.net.delivered ++ s.net.pending ++ s.outbox

theorem step_all (s : St α) (e : Ev) : (all (step s e)).Perm (all s) := by
  cases e with
  | recv =>
    cases ho : s.outbox with
    | nil => simp [step, ho]
    | cons t rest => simp [step, ho, all, Net.step]
  | fire i =>
    have h := Net.step_conservation s.net (.fire i)
    simp only [Net.spawned, List.append_nil] at h
    exact List.Perm.append_right s.outbox h
  | stall k => simp [step, all, Net.step]
  | resume k => simp [step, all, Net.step]

/-- **Each spawned send carries its own transaction**: under EVERY schedule the multiset of transactions delivered,
    blocked and not yet received is the multiset put on the outbox. -/
theorem conservation (s : St α) (evs : List Ev) : (all (run s evs)).Perm (all s) := by
  induction evs generalizing s with
  | nil => exact List.Perm.refl _
  | cons e es ih => exact (ih (step s e)).trans (step_all s e)

/-- Hence, from an outbox `ob` and the empty net: once everything was received and nothing is blocked, what was
    delivered is a permutation of `ob`, and every connection's inbox holds exactly its transactions, each once. -/
theorem delivered_exactly_once (ob : List (Send α)) (evs : List Ev)
    (hr : (run { outbox := ob } evs).outbox = []) (hp : (run { outbox := ob } evs).net.pending = []) :
    (run { outbox := ob } evs).net.delivered.Perm ob := by
  have h := conservation ({ outbox := ob } : St α) evs
  simp only [all, hr, hp, List.append_nil] at h
  simpa [all] using h

theorem inbox_exactly_once (ob : List (Send α)) (evs : List Ev) (k : Nat)
    (hr : (run { outbox := ob } evs).outbox = []) (hp : (run { outbox := ob } evs).net.pending = []) :
    ((run { outbox := ob } evs).net.inbox k).Perm ((ob.filter (·.to == k)).map (·.item)) := by
  unfold Net.inbox
  exact ((delivered_exactly_once ob evs hr hp).filter (fun s => s.to == k)).map (fun s => s.item)

end Dispatch

/-! The shared-variable dispatcher (NOT the code: `var t Transaction` before the loop, `t = <-s.outbox` inside). -/
namespace Shared
variable {α : Type}

inductive Ev where
  | recv           -- `t = <-s.outbox; go func() { … }()` — the goroutine exists but has not read `t` yet
  | read           -- a started goroutine reads the shared `t` (and from then on carries that value)
  | fire (i : Nat)
deriving Repr

structure St (α : Type) where
  outbox : List (Send α)
  cur : Option (Send α) := none
  unread : Nat := 0
  net : Net α := {}

def step (s : St α) : Ev → St α
  | .recv =>
    match s.outbox with
    | [] => s
    | t :: rest => { s with outbox := rest, cur := some t, unread := s.unread + 1 }
  | .read =>
    match s.unread, s.cur with
    | n + 1, some t => { s with unread := n, net := s.net.step (.spawn t) }
    | _, _ => s
  | .fire i => { s with net := s.net.step (.fire i) }

def run (s : St α) (evs : List Ev) : St α := evs.foldl step s

/-- **Negative witness**: two transactions for two readers; the second receive happens before the first goroutine
    reads the variable.  Reader 2 gets its line twice, reader 1 gets nothing — although everything was received and
    nothing is blocked. -/
theorem loses_and_duplicates :
    let s := run ({ outbox := [⟨1, 10⟩, ⟨2, 20⟩] } : St Nat) [.recv, .recv, .read, .read, .fire 0, .fire 0]
    s.outbox = [] ∧ s.unread = 0 ∧ s.net.pending = [] ∧ s.net.inbox 1 = [] ∧ s.net.inbox 2 = [20, 20] := by
  decide

/-- The same dispatcher under the benign schedule (every goroutine reads before the next receive) delivers
    correctly — which is why a test with one transaction per request does not see the difference. -/
example :
    let s := run ({ outbox := [⟨1, 10⟩, ⟨2, 20⟩] } : St Nat) [.recv, .read, .recv, .read, .fire 0, .fire 0]
    s.net.inbox 1 = [10] ∧ s.net.inbox 2 = [20] := by decide

end Shared
end Mobius
