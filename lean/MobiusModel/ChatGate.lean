import MobiusModel.Wire
/-!
  ChatGate: *existence* of a private chat as a privileged effect.

  `hotline/chat.go` `MemChatManager` keeps `chats map[ChatID]*PrivateChat`.  The only method that inserts
  into the map is `New` (called by `HandleInviteNewChat`, behind the guard on bit 11 'open chat').  Every other
  method looks the id up: `Join`, `GetSubject`, `SetSubject`, `Members` dereference the entry without a check —
  for an id the manager never issued that is a nil dereference, i.e. a panic in the requester's connection
  goroutine (recovered by `dontPanic`; the requester is dropped, nothing else changes); `Leave` returns early
  when the id is unknown (and the handler then panics in `Members`).  The chat handlers `HandleJoinChat`,
  `HandleLeaveChat`, `HandleSetChatSubject`, `HandleRejectChatInvite` and the private branch of `HandleChatSend`
  have no privilege of their own: they can only act on a chat somebody holding bit 11 opened.

  The model is the manager with the handlers' call sequences; `Res.panicked` is the nil dereference.
-/
namespace Mobius.ChatGate
open Mobius

structure Chat where
  id : Nat
  subject : Bytes
  members : List Nat          -- user ids (map keys)
deriving Repr, DecidableEq

structure St where
  chats : List Chat
deriving Repr, DecidableEq

def St.init : St := ⟨[]⟩

def St.find (s : St) (cid : Nat) : Option Chat := s.chats.find? (·.id == cid)

def St.update (s : St) (cid : Nat) (f : Chat → Chat) : St :=
  ⟨s.chats.map fun ch => if ch.id == cid then { f ch with id := ch.id } else ch⟩

/-- A request of user `who`; `open_` / `send` are the two privilege bits the chat handlers look at (bit 11, bit 10);
    `newId` is the random id `New` draws. -/
inductive Op where
  | inviteNew (who : Nat) (open_ : Bool) (newId : Nat)
  | join (who cid : Nat)
  | leave (who cid : Nat)
  | setSubject (who cid : Nat) (subject : Bytes)
  | send (who : Nat) (send : Bool) (cid : Nat)
  | decline (who cid : Nat)
deriving Repr, DecidableEq

inductive Res where
  | denied                      -- lack-of-privilege error reply, nothing else
  | panicked                    -- nil dereference on an id the manager does not hold: nothing changes, nobody is reached
  | ok (reached : List Nat)     -- the users other than the requester who are sent something carrying the chat id
deriving Repr, DecidableEq

def others (who : Nat) (l : List Nat) : List Nat := l.filter (· != who)

def step (s : St) : Op → St × Res
  | .inviteNew who op newId =>
    if !op then (s, .denied)
    else (⟨⟨newId, [], [who]⟩ :: s.chats.filter (·.id != newId)⟩, .ok [])
  | .join who cid =>
    match s.find cid with
    | none => (s, .panicked)
    | some ch => (s.update cid fun c => { c with members := who :: c.members.filter (· != who) }, .ok (others who ch.members))
  | .leave who cid =>
    match s.find cid with
    | none => (s, .panicked)
    | some ch => (s.update cid fun c => { c with members := c.members.filter (· != who) }, .ok (others who ch.members))
  | .setSubject who cid subj =>
    match s.find cid with
    | none => (s, .panicked)
    | some ch => (s.update cid fun c => { c with subject := subj }, .ok (others who ch.members))
  | .send who sd cid =>
    if !sd then (s, .denied) else
    match s.find cid with
    | none => (s, .panicked)
    | some ch => (s, .ok (others who ch.members))
  | .decline who cid =>
    match s.find cid with
    | none => (s, .panicked)
    | some ch => (s, .ok (others who ch.members))

def run (s : St) (ops : List Op) : St := ops.foldl (fun s o => (step s o).1) s

/-- The ids of the chats a state holds. -/
def St.ids (s : St) : List Nat := s.chats.map (·.id)

theorem update_ids (s : St) (cid : Nat) (f : Chat → Chat) : (s.update cid f).ids = s.ids := by
  simp only [St.update, St.ids, List.map_map]
  apply List.map_congr_left
  intro ch _
  simp only [Function.comp]
  split <;> rfl

/-- One step adds an id only through `inviteNew` by a holder of 'open chat'. -/
theorem step_ids (s : St) (o : Op) (i : Nat) (hi : i ∈ (step s o).1.ids) :
    i ∈ s.ids ∨ ∃ who, o = .inviteNew who true i := by
  cases o with
  | inviteNew who op newId =>
    cases op with
    | false => exact Or.inl hi
    | true =>
      simp only [step, Bool.not_true, Bool.false_eq_true, if_false, St.ids, List.map_cons, List.mem_cons] at hi
      rcases hi with rfl | hi
      · exact Or.inr ⟨who, rfl⟩
      · left
        simp only [List.mem_map, List.mem_filter] at hi
        obtain ⟨ch, ⟨hch, _⟩, rfl⟩ := hi
        exact List.mem_map.2 ⟨ch, hch, rfl⟩
  | join who cid =>
    simp only [step] at hi; split at hi
    · exact Or.inl hi
    · rw [update_ids] at hi; exact Or.inl hi
  | leave who cid =>
    simp only [step] at hi; split at hi
    · exact Or.inl hi
    · rw [update_ids] at hi; exact Or.inl hi
  | setSubject who cid subj =>
    simp only [step] at hi; split at hi
    · exact Or.inl hi
    · rw [update_ids] at hi; exact Or.inl hi
  | send who sd cid =>
    simp only [step] at hi
    split at hi
    · exact Or.inl hi
    · split at hi <;> exact Or.inl hi
  | decline who cid =>
    simp only [step] at hi; split at hi <;> exact Or.inl hi

theorem run_ids (ops : List Op) (s : St) (i : Nat) (hi : i ∈ (run s ops).ids) :
    i ∈ s.ids ∨ ∃ who, Op.inviteNew who true i ∈ ops := by
  induction ops generalizing s with
  | nil => exact Or.inl hi
  | cons o ops ih =>
    rcases ih (step s o).1 hi with h | ⟨who, h⟩
    · rcases step_ids s o i h with h' | ⟨who, rfl⟩
      · exact Or.inl h'
      · exact Or.inr ⟨who, List.mem_cons_self⟩
    · exact Or.inr ⟨who, List.mem_cons_of_mem _ h⟩

theorem find_none_of_not_mem (s : St) (cid : Nat) (h : cid ∉ s.ids) : s.find cid = none := by
  simp only [St.find, List.find?_eq_none, beq_iff_eq]
  intro ch hch he
  exact h (List.mem_map.2 ⟨ch, hch, he⟩)

/-- A request naming an id the state does not hold changes nothing and reaches nobody. -/
theorem step_unknown (s : St) (o : Op) (cid : Nat) (h : cid ∉ s.ids)
    (ho : o = .join who cid ∨ o = .leave who cid ∨ o = .setSubject who cid subj ∨ o = .send who sd cid ∨ o = .decline who cid) :
    (step s o).1 = s ∧ ((step s o).2 = .panicked ∨ (step s o).2 = .denied) := by
  have hf := find_none_of_not_mem s cid h
  rcases ho with rfl | rfl | rfl | rfl | rfl
  · simp [step, hf]
  · simp [step, hf]
  · simp [step, hf]
  · cases sd <;> simp [step, hf]
  · simp [step, hf]

end Mobius.ChatGate
