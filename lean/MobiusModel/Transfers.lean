import MobiusModel.Wire
/-!
  Transfers: single-file download (C08) and upload (C09).

  * `StoredFile` — what the server holds for one name: data fork, optional `.info_` and `.rsrc_`
    side files, and the three things `fileWrapper.flattenedFileObject` derives from `Stat` and the
    extension table (modification time, type and creator codes).
  * `downloadReply` mirrors `HandleDownloadFile` (fields 108 / 207), `downloadStream` mirrors
    `DownloadHandler` (what is written to the transfer connection).
  * `splitDownload` is the *reference client*: it finds the data fork through the header's own
    INFO size field and takes as many bytes as the reply's file-size field announces.
  * `receiveFile` mirrors `hotline.receiveFile` on the bytes that arrived before the connection
    ended; `uploadTransfer` mirrors `UploadHandler` over the two-name state `UpState`
    (`<name>` / `<name>.incomplete`); `handleUploadFile` mirrors the control request.

  The layouts (`ffoHeader`, `InfoFork.encode`, `forkHeader`, `transferPreamble`) are Wire's.
-/
namespace Mobius

-- ---------------------------------------------------------------- list / byte helpers

theorem rd32_take (l : Bytes) (n : Nat) (h : 4 ≤ n) : rd32 (l.take n) = rd32 l := by
  match l, n, h with
  | [], _, _ => simp
  | [_], n + 1, _ => simp
  | [_, _], n + 2, _ => simp
  | [_, _, _], n + 3, _ => simp
  | a :: b :: c :: d :: r, n + 4, _ => simp [rd32]

theorem rd16_take (l : Bytes) (n : Nat) (h : 2 ≤ n) : rd16 (l.take n) = rd16 l := by
  match l, n, h with
  | [], _, _ => simp
  | [_], n + 1, _ => simp
  | a :: b :: r, n + 2, _ => simp [rd16]

/-- uint32(a - b) for an int64 size `a` and an offset `b < 2^32`. -/
def sub32 (a b : Nat) : Nat := (a + 4294967296 - b) % 4294967296

theorem sub32_of_le (a b : Nat) (h : b ≤ a) (ha : a < 4294967296) : sub32 a b = a - b := by
  unfold sub32; omega

-- ---------------------------------------------------------------- the flattened-file header, decomposed

/-- The 36 bytes before the INFO size field. -/
def ffoPre (fc : Nat) : Bytes :=
  [0x46, 0x49, 0x4C, 0x50] ++ be16 1 ++ List.replicate 16 0 ++ be16 fc ++
  [0x49, 0x4E, 0x46, 0x4F] ++ [0, 0, 0, 0] ++ [0, 0, 0, 0]

/-- The 12 bytes of the DATA fork header before its size field. -/
def dataPre : Bytes := [0x44, 0x41, 0x54, 0x41] ++ [0, 0, 0, 0] ++ [0, 0, 0, 0]

@[simp] theorem ffoPre_length (fc : Nat) : (ffoPre fc).length = 36 := by simp [ffoPre]
@[simp] theorem dataPre_length : dataPre.length = 12 := rfl

theorem ffoHeader_eq (fc : Nat) (i : InfoFork) (ds : Nat) :
    ffoHeader fc i ds = ffoPre fc ++ (be32 i.size ++ (i.encode ++ (dataPre ++ be32 ds))) := by
  simp [ffoHeader, ffoPre, dataPre]

theorem InfoFork.encode_length (i : InfoFork) (h : i.fixedWF) : i.encode.length = i.size := by
  obtain ⟨h1, h2, h3, h4, h5, h6, h7, h8, h9⟩ := h
  simp [InfoFork.encode, InfoFork.size, h1, h2, h3, h4, h5, h6, h7, h8, h9]; omega

theorem ffoHeader_length (fc : Nat) (i : InfoFork) (ds : Nat) (h : i.fixedWF) :
    (ffoHeader fc i ds).length = 56 + i.size := by
  rw [ffoHeader_eq]; simp [InfoFork.encode_length i h]; omega

@[simp] theorem forkHeader_length (ty : Bytes) (n : Nat) : (forkHeader ty n).length = ty.length + 12 := by
  simp [forkHeader]

@[simp] theorem macr_length : macr.length = 4 := rfl

/-- The first 70 bytes of an information fork (everything before the name-size field). -/
def InfoFork.fixed70 (i : InfoFork) : Bytes :=
  i.platform ++ i.ty ++ i.creator ++ i.flags ++ i.platformFlags ++ i.rsvd ++ i.createDate ++ i.modifyDate ++ i.script

theorem InfoFork.fixed70_length (i : InfoFork) (h : i.fixedWF) : i.fixed70.length = 70 := by
  obtain ⟨h1, h2, h3, h4, h5, h6, h7, h8, h9⟩ := h
  simp [InfoFork.fixed70, h1, h2, h3, h4, h5, h6, h7, h8, h9]

theorem InfoFork.encode_eq (i : InfoFork) :
    i.encode = i.fixed70 ++ (be16 i.name.length ++ (i.name ++ (be16 i.comment.length ++ i.comment))) := by
  simp [InfoFork.encode, InfoFork.fixed70]

/-- Information forks the server-side decoder accepts: the 16-bit `72 + nameSize` does not wrap. -/
def InfoFork.WFup (i : InfoFork) : Prop :=
  i.fixedWF ∧ i.name.length + 74 < 65536 ∧ i.comment.length < 65536

instance (i : InfoFork) : Decidable i.fixedWF := by unfold InfoFork.fixedWF; infer_instance
instance (i : InfoFork) : Decidable i.WFup := by unfold InfoFork.WFup; infer_instance

def Res.isOk {α : Type} : Res α → Bool
  | .ok _ => true
  | _ => false

/-- `FlatFileInformationFork.Write` accepts what the layout emits (no slice-bounds panic). -/
theorem InfoFork.decode_encode_ok (i : InfoFork) (h : i.WFup) : (InfoFork.decode i.encode).isOk = true := by
  obtain ⟨hf, hn, hc⟩ := h
  have hl := InfoFork.encode_length i hf
  have h70 := InfoFork.fixed70_length i hf
  have d70 : i.encode.drop 70 = be16 i.name.length ++ (i.name ++ (be16 i.comment.length ++ i.comment)) := by
    rw [InfoFork.encode_eq]; exact List.drop_left' h70
  have dtot : i.encode.drop (72 + i.name.length) = be16 i.comment.length ++ i.comment := by
    have : i.encode.drop (72 + i.name.length) = (i.encode.drop 70).drop (2 + i.name.length) := by
      rw [List.drop_drop]; congr 1; omega
    rw [this, d70]
    have : be16 i.name.length ++ (i.name ++ (be16 i.comment.length ++ i.comment))
         = (be16 i.name.length ++ i.name) ++ (be16 i.comment.length ++ i.comment) := by simp
    rw [this]; apply List.drop_left'; simp
  unfold InfoFork.decode
  simp only [InfoFork.size] at hl
  have e1 : ¬ (i.encode.length < 72) := by omega
  rw [if_neg e1, d70, rd16_be16_append]
  have e2 : i.name.length % 65536 = i.name.length := by omega
  have e3 : (72 + i.name.length) % 65536 = 72 + i.name.length := by omega
  simp only [e2, e3]
  have e4 : ¬ (72 + i.name.length < 72 ∨ i.encode.length < 72 + i.name.length) := by omega
  rw [if_neg e4]
  have e5 : i.encode.length > 72 + i.name.length := by omega
  rw [if_pos e5]
  have e6 : ¬ (72 + i.name.length + 2 ≥ 65536 ∨ i.encode.length < 72 + i.name.length + 2) := by omega
  rw [if_neg e6, dtot, rd16_be16_append]
  have e7 : i.comment.length % 65536 = i.comment.length := by omega
  simp only [e7]
  have e8 : ¬ (i.encode.length < 72 + i.name.length + 2 + i.comment.length) := by omega
  rw [if_neg e8]
  rfl

-- ---------------------------------------------------------------- stored files

/-- What the server holds for one file name. -/
structure StoredFile where
  name : Bytes                 -- on-disk (UTF-8) base name
  data : Bytes                 -- data fork
  info : Option InfoFork := none   -- `.info_<name>` holds `i.encode`
  rsrc : Option Bytes := none      -- `.rsrc_<name>`
  mtime : Bytes := List.replicate 8 0  -- `NewTime(ModTime)`, 8 bytes (clock: a parameter)
  ty : Bytes := [0x54, 0x45, 0x58, 0x54]       -- type code from the extension table, 4 bytes
  creator : Bytes := [0x74, 0x74, 0x78, 0x74]  -- creator code, 4 bytes
deriving Repr

/-- The information fork synthesised when no `.info_` side file exists. -/
def defaultInfo (name mtime ty creator : Bytes) : InfoFork :=
  { platform := [0x41, 0x4D, 0x41, 0x43], ty := ty, creator := creator, flags := [0, 0, 0, 0],
    platformFlags := [0, 0, 1, 0], rsvd := List.replicate 32 0, createDate := mtime, modifyDate := mtime,
    script := [0, 0], name := name, comment := [] }

def StoredFile.effInfo (f : StoredFile) : InfoFork :=
  match f.info with
  | some i => i
  | none => defaultInfo f.name f.mtime f.ty f.creator

/-- `ForkCount`: 3 exactly when an information fork is stored. -/
def StoredFile.forkCount (f : StoredFile) : Nat := if f.info.isSome then 3 else 2

/-- `rsrcForkSize`: size of `.rsrc_<name>`, 0 when absent. -/
def StoredFile.rsrcSize (f : StoredFile) : Nat := (f.rsrc.getD []).length

/-- `len(io.ReadAll(ffo))`: the flattened-file header's length. -/
def StoredFile.hdrLen (f : StoredFile) : Nat := 56 + f.effInfo.size

/-- Stored files whose sizes fit the protocol's fields. -/
def StoredFile.WF (f : StoredFile) : Prop :=
  f.effInfo.fixedWF ∧ f.effInfo.name.length < 65536 ∧ f.effInfo.comment.length < 65536 ∧
  f.data.length + f.rsrcSize + f.hdrLen < 4294967296

instance (f : StoredFile) : Decidable f.WF := by unfold StoredFile.WF; infer_instance

theorem defaultInfo_fixedWF (name mtime ty creator : Bytes) (hm : mtime.length = 8) (ht : ty.length = 4)
    (hc : creator.length = 4) : (defaultInfo name mtime ty creator).fixedWF := by
  simp [defaultInfo, InfoFork.fixedWF, hm, ht, hc]

/-- `flattenedFileObject` of a wrapper created with data offset `off`. -/
def StoredFile.header (f : StoredFile) (off : Nat) : Bytes :=
  ffoHeader f.forkCount f.effInfo (sub32 f.data.length off)

/-- `flattenedFileObject.TransferSize(offset)` of a wrapper created with data offset `wrapOff`
    (all arithmetic in uint32). -/
def StoredFile.transferSize (f : StoredFile) (wrapOff off : Nat) : Nat :=
  (sub32 f.data.length wrapOff + f.rsrcSize + f.hdrLen + 4294967296 - off % 4294967296) % 4294967296

-- ---------------------------------------------------------------- download: control request

structure DlRequest where
  resume : Option Nat := none   -- data-fork offset of field 203 (first fork entry), if the field is present
  preview : Bool := false       -- field 204 present
deriving Repr, DecidableEq

structure DlReply where
  transferSize : Nat  -- field 108
  fileSize : Nat      -- field 207
deriving Repr, DecidableEq

/-- `HandleDownloadFile` (granted request on an existing file). -/
def downloadReply (f : StoredFile) (rq : DlRequest) : DlReply :=
  let k := rq.resume.getD 0
  let ds := sub32 f.data.length k
  { fileSize := ds, transferSize := if rq.preview then ds else f.transferSize k 0 }

/-- The reply's fields in the order the handler emits them. -/
def downloadReplyFields (ref : Bytes) (f : StoredFile) (rq : DlRequest) : List Field :=
  let r := downloadReply f rq
  [⟨107, ref⟩, ⟨116, [0, 0]⟩, ⟨108, be32 r.transferSize⟩, ⟨207, be32 r.fileSize⟩]

-- ---------------------------------------------------------------- download: transfer connection

/-- The part after the data fork: a MACR fork header (not on resume), then the stored fork bytes. -/
def StoredFile.forkPart (f : StoredFile) (resume : Bool) : Bytes :=
  (if resume then [] else forkHeader macr f.rsrcSize) ++ f.rsrc.getD []

/-- `DownloadHandler`: bytes written to the transfer connection, and whether it returned an error
    (`Discard` beyond the end of the file). -/
def downloadStream (f : StoredFile) (rq : DlRequest) : Bytes × Bool :=
  let k := rq.resume.getD 0
  let hdr := if rq.preview then [] else f.header 0
  if k > f.data.length then (hdr, true)
  else (hdr ++ (f.data.drop k ++ f.forkPart rq.resume.isSome), false)

/-- Reference client: split a (non-preview) download stream with the header's own INFO size field
    and the announced file size: (information fork, data, what follows). -/
def splitDownload (s : Bytes) (fileSize : Nat) : Option (Bytes × Bytes × Bytes) :=
  if s.length < 40 then none else
  let il := rd32 (s.drop 36)
  if s.length < 56 + il + fileSize then none else
  some ((s.drop 40).take il, (s.drop (56 + il)).take fileSize, s.drop (56 + il + fileSize))

theorem ffoHeader_drop36 (fc : Nat) (i : InfoFork) (ds : Nat) (rest : Bytes) :
    (ffoHeader fc i ds ++ rest).drop 36 = be32 i.size ++ (i.encode ++ (dataPre ++ be32 ds ++ rest)) := by
  rw [ffoHeader_eq]
  have : ffoPre fc ++ (be32 i.size ++ (i.encode ++ (dataPre ++ be32 ds))) ++ rest
       = ffoPre fc ++ (be32 i.size ++ (i.encode ++ (dataPre ++ be32 ds ++ rest))) := by simp
  rw [this]; exact List.drop_left' (ffoPre_length fc)

theorem ffoHeader_drop40 (fc : Nat) (i : InfoFork) (ds : Nat) (rest : Bytes) :
    (ffoHeader fc i ds ++ rest).drop 40 = i.encode ++ (dataPre ++ be32 ds ++ rest) := by
  have : (ffoHeader fc i ds ++ rest).drop 40 = ((ffoHeader fc i ds ++ rest).drop 36).drop 4 := by
    rw [List.drop_drop]
  rw [this, ffoHeader_drop36]; exact List.drop_left' (be32_length _)

theorem ffoHeader_drop_info (fc : Nat) (i : InfoFork) (ds : Nat) (rest : Bytes) (h : i.fixedWF) :
    (ffoHeader fc i ds ++ rest).drop (40 + i.size) = dataPre ++ be32 ds ++ rest := by
  have : (ffoHeader fc i ds ++ rest).drop (40 + i.size) = ((ffoHeader fc i ds ++ rest).drop 40).drop i.size := by
    rw [List.drop_drop]
  rw [this, ffoHeader_drop40]; exact List.drop_left' (InfoFork.encode_length i h)

theorem ffoHeader_drop_dsize (fc : Nat) (i : InfoFork) (ds : Nat) (rest : Bytes) (h : i.fixedWF) :
    (ffoHeader fc i ds ++ rest).drop (52 + i.size) = be32 ds ++ rest := by
  have : (ffoHeader fc i ds ++ rest).drop (52 + i.size) = ((ffoHeader fc i ds ++ rest).drop (40 + i.size)).drop 12 := by
    rw [List.drop_drop]; congr 1; omega
  rw [this, ffoHeader_drop_info _ _ _ _ h]
  have : dataPre ++ be32 ds ++ rest = dataPre ++ (be32 ds ++ rest) := by simp
  rw [this]; exact List.drop_left' dataPre_length

theorem ffoHeader_drop_all (fc : Nat) (i : InfoFork) (ds : Nat) (rest : Bytes) (h : i.fixedWF) :
    (ffoHeader fc i ds ++ rest).drop (56 + i.size) = rest :=
  List.drop_left' (ffoHeader_length fc i ds h)

/-- The reference client recovers exactly `info`, the first `n` bytes of what follows the header, and the rest. -/
theorem splitDownload_header (fc : Nat) (i : InfoFork) (ds : Nat) (body : Bytes) (n : Nat)
    (h : i.fixedWF) (hs : i.size < 4294967296) (hn : n ≤ body.length) :
    splitDownload (ffoHeader fc i ds ++ body) n = some (i.encode, body.take n, body.drop n) := by
  have hl := ffoHeader_length fc i ds h
  unfold splitDownload
  have e1 : ¬ ((ffoHeader fc i ds ++ body).length < 40) := by simp [hl]; omega
  rw [if_neg e1, ffoHeader_drop36, rd32_be32_append]
  have e2 : i.size % 4294967296 = i.size := by omega
  simp only [e2]
  have e3 : ¬ ((ffoHeader fc i ds ++ body).length < 56 + i.size + n) := by simp [hl]; omega
  rw [if_neg e3, ffoHeader_drop40, ffoHeader_drop_all _ _ _ _ h]
  have e4 : (ffoHeader fc i ds ++ body).drop (56 + i.size + n) = body.drop n := by
    rw [← List.drop_drop, ffoHeader_drop_all _ _ _ _ h]
  rw [e4, List.take_left' (InfoFork.encode_length i h)]

-- ---------------------------------------------------------------- upload: what the server does with the bytes that arrived

structure RecvRes where
  appended : Bytes      -- written to the target (`.incomplete`) file
  complete : Bool       -- `receiveFile` returned nil
  rsrc : Bytes := []    -- written to the resource-fork writer
deriving Repr, DecidableEq

def RecvRes.fail : RecvRes := { appended := [], complete := false }

/-- `hotline.receiveFile` on the bytes `r` that arrive before the connection ends.
    Sequential `binary.Read`/`io.ReadFull` of the 24-byte header, the 16-byte INFO fork header,
    the information fork (decoded by `FlatFileInformationFork.Write`, which can panic — recovered by
    the connection handler: same effect as an error here) and the 16-byte DATA fork header; then
    `io.CopyN` of the announced data size into the target (everything that arrived is written), and,
    for fork count 3, the MACR fork header and the resource fork. -/
def receiveFile (r : Bytes) : RecvRes :=
  if r.length < 40 then .fail else
  let il := rd32 (r.drop 36)
  if r.length < 40 + il then .fail else
  if il ≠ 0 ∧ (InfoFork.decode ((r.drop 40).take il)).isOk = false then .fail else
  if r.length < 56 + il then .fail else
  let ds := rd32 (r.drop (52 + il))
  let avail := r.drop (56 + il)
  let got := avail.take ds
  if got.length < ds then { appended := got, complete := false }
  else if rd16 (r.drop 22) = 3 then
    let q := avail.drop ds
    if q.length < 16 then { appended := got, complete := false }
    else
      let rs := rd32 (q.drop 12)
      if (q.drop 16).length < rs then { appended := got, complete := false, rsrc := q.drop 16 }
      else { appended := got, complete := true, rsrc := (q.drop 16).take rs }
  else { appended := got, complete := true }

/-- What a client sends on an upload connection after the preamble. -/
def uploadStream (fc : Nat) (i : InfoFork) (d r : Bytes) : Bytes :=
  ffoHeader fc i d.length ++ (d ++ (if fc = 3 then forkHeader macr r.length ++ r else []))

theorem uploadStream_length (fc : Nat) (i : InfoFork) (d r : Bytes) (h : i.fixedWF) :
    (uploadStream fc i d r).length = 56 + i.size + d.length + (if fc = 3 then 16 + r.length else 0) := by
  unfold uploadStream
  rw [List.length_append, ffoHeader_length _ _ _ h]
  split <;> simp <;> omega

theorem ffoHeader_drop22 (fc : Nat) (i : InfoFork) (ds : Nat) (rest : Bytes) :
    (ffoHeader fc i ds ++ rest).drop 22 = be16 fc ++ ([0x49, 0x4E, 0x46, 0x4F] ++ [0, 0, 0, 0] ++ [0, 0, 0, 0] ++
      (be32 i.size ++ (i.encode ++ (dataPre ++ be32 ds))) ++ rest) := by
  simp [ffoHeader, dataPre, be16]

/-- **Cut lemma.**  After any prefix of a well-formed upload stream the server has appended exactly
    the data-fork bytes that were in the prefix, and reports completion exactly when the whole stream arrived. -/
theorem receiveFile_prefix (fc : Nat) (i : InfoFork) (d r : Bytes) (n : Nat)
    (hi : i.WFup) (hfc : fc < 65536) (hd : d.length < 4294967296) (hr : r.length < 4294967296) :
    let s := uploadStream fc i d r
    (receiveFile (s.take n)).appended = d.take (n - (56 + i.size)) ∧
    (receiveFile (s.take n)).complete = decide (s.length ≤ n) := by
  intro s
  obtain ⟨hf, hn, hc⟩ := hi
  have hsl : s.length = 56 + i.size + d.length + (if fc = 3 then 16 + r.length else 0) :=
    uploadStream_length fc i d r hf
  have hisz : i.size < 65536 + 65536 := by simp [InfoFork.size]; omega
  have htl : (s.take n).length = min n s.length := List.length_take
  by_cases c1 : n < 56 + i.size
  · -- the cut is inside the flattened-file header: nothing is appended
    have hz : n - (56 + i.size) = 0 := by omega
    have hnc : ¬ (s.length ≤ n) := by omega
    rw [hz]; simp only [List.take_zero, hnc, decide_false]
    unfold receiveFile
    by_cases c2 : n < 40
    · have : (s.take n).length < 40 := by omega
      rw [if_pos this]; exact ⟨rfl, rfl⟩
    · have e1 : ¬ ((s.take n).length < 40) := by omega
      rw [if_neg e1]
      have hil : rd32 ((s.take n).drop 36) = i.size := by
        rw [List.drop_take, rd32_take _ _ (by omega)]
        show rd32 ((uploadStream fc i d r).drop 36) = _
        unfold uploadStream
        rw [ffoHeader_drop36, rd32_be32_append]; omega
      simp only [hil]
      by_cases c3 : n < 40 + i.size
      · have : (s.take n).length < 40 + i.size := by omega
        rw [if_pos this]; exact ⟨rfl, rfl⟩
      · have e2 : ¬ ((s.take n).length < 40 + i.size) := by omega
        rw [if_neg e2]
        have hinfo : ((s.take n).drop 40).take i.size = i.encode := by
          rw [List.drop_take, List.take_take]
          have : min i.size (n - 40) = i.size := by omega
          rw [this]
          show ((uploadStream fc i d r).drop 40).take i.size = _
          unfold uploadStream
          rw [ffoHeader_drop40]; exact List.take_left' (InfoFork.encode_length i hf)
        rw [hinfo, InfoFork.decode_encode_ok i ⟨hf, hn, hc⟩]
        have e3 : ¬ (i.size ≠ 0 ∧ true = false) := by simp
        rw [if_neg e3]
        have : (s.take n).length < 56 + i.size := by omega
        rw [if_pos this]; exact ⟨rfl, rfl⟩
  · -- the whole header arrived
    have c1' : 56 + i.size ≤ n := by omega
    unfold receiveFile
    have e1 : ¬ ((s.take n).length < 40) := by omega
    rw [if_neg e1]
    have hil : rd32 ((s.take n).drop 36) = i.size := by
      rw [List.drop_take, rd32_take _ _ (by omega)]
      show rd32 ((uploadStream fc i d r).drop 36) = _
      unfold uploadStream
      rw [ffoHeader_drop36, rd32_be32_append]; omega
    simp only [hil]
    have e2 : ¬ ((s.take n).length < 40 + i.size) := by omega
    rw [if_neg e2]
    have hinfo : ((s.take n).drop 40).take i.size = i.encode := by
      rw [List.drop_take, List.take_take]
      have : min i.size (n - 40) = i.size := by omega
      rw [this]
      show ((uploadStream fc i d r).drop 40).take i.size = _
      unfold uploadStream
      rw [ffoHeader_drop40]; exact List.take_left' (InfoFork.encode_length i hf)
    rw [hinfo, InfoFork.decode_encode_ok i ⟨hf, hn, hc⟩]
    have e3 : ¬ (i.size ≠ 0 ∧ true = false) := by simp
    rw [if_neg e3]
    have e4 : ¬ ((s.take n).length < 56 + i.size) := by omega
    rw [if_neg e4]
    have hds : rd32 ((s.take n).drop (52 + i.size)) = d.length := by
      rw [List.drop_take, rd32_take _ _ (by omega)]
      show rd32 ((uploadStream fc i d r).drop (52 + i.size)) = _
      unfold uploadStream
      rw [ffoHeader_drop_dsize _ _ _ _ hf, rd32_be32_append]; omega
    simp only [hds]
    -- what follows the header in the prefix
    have hav : (s.take n).drop (56 + i.size)
        = (d ++ (if fc = 3 then forkHeader macr r.length ++ r else [])).take (n - (56 + i.size)) := by
      rw [List.drop_take]
      show ((uploadStream fc i d r).drop (56 + i.size)).take _ = _
      unfold uploadStream
      rw [ffoHeader_drop_all _ _ _ _ hf]
    rw [hav]
    have hgot : ((d ++ (if fc = 3 then forkHeader macr r.length ++ r else [])).take (n - (56 + i.size))).take d.length
        = d.take (n - (56 + i.size)) := by
      rw [List.take_take]
      by_cases c : d.length ≤ n - (56 + i.size)
      · rw [Nat.min_eq_left c, List.take_left' rfl, List.take_of_length_le c]
      · have c' : n - (56 + i.size) ≤ d.length := by omega
        rw [Nat.min_eq_right c', List.take_append_of_le_length c']
    rw [hgot]
    by_cases c5 : n - (56 + i.size) < d.length
    · -- cut inside the data fork
      have : (d.take (n - (56 + i.size))).length < d.length := by rw [List.length_take]; omega
      rw [if_pos this]
      have hnc : ¬ (s.length ≤ n) := by omega
      simp [hnc]
    · have c5' : d.length ≤ n - (56 + i.size) := by omega
      have : ¬ ((d.take (n - (56 + i.size))).length < d.length) := by rw [List.length_take]; omega
      rw [if_neg this]
      have hfcv : rd16 ((s.take n).drop 22) = fc := by
        rw [List.drop_take, rd16_take _ _ (by omega)]
        show rd16 ((uploadStream fc i d r).drop 22) = _
        unfold uploadStream
        rw [ffoHeader_drop22, rd16_be16_append]; omega
      rw [hfcv]
      by_cases c6 : fc = 3
      · rw [if_pos c6]
        simp only [c6, if_true] at hsl ⊢
        -- q = what follows the data fork in the prefix
        have hq : ((d ++ (forkHeader macr r.length ++ r)).take (n - (56 + i.size))).drop d.length
            = (forkHeader macr r.length ++ r).take (n - (56 + i.size) - d.length) := by
          rw [List.drop_take, List.drop_left' rfl]
        rw [hq]
        by_cases c7 : n - (56 + i.size) - d.length < 16
        · have : ((forkHeader macr r.length ++ r).take (n - (56 + i.size) - d.length)).length < 16 := by
            rw [List.length_take]; omega
          rw [if_pos this]
          have hnc : ¬ (s.length ≤ n) := by omega
          simp [hnc]
        · have : ¬ (((forkHeader macr r.length ++ r).take (n - (56 + i.size) - d.length)).length < 16) := by
            rw [List.length_take]; simp; omega
          rw [if_neg this]
          have hrs : rd32 (((forkHeader macr r.length ++ r).take (n - (56 + i.size) - d.length)).drop 12) = r.length := by
            rw [List.drop_take, rd32_take _ _ (by omega)]
            have : (forkHeader macr r.length ++ r).drop 12 = be32 r.length ++ r := by
              simp [forkHeader, macr]
            rw [this, rd32_be32_append]; omega
          simp only [hrs]
          have hrest : ((forkHeader macr r.length ++ r).take (n - (56 + i.size) - d.length)).drop 16
              = r.take (n - (56 + i.size) - d.length - 16) := by
            rw [List.drop_take, List.drop_left' (by simp)]
          rw [hrest]
          by_cases c8 : n - (56 + i.size) - d.length - 16 < r.length
          · have : (r.take (n - (56 + i.size) - d.length - 16)).length < r.length := by
              rw [List.length_take]; omega
            rw [if_pos this]
            have hnc : ¬ (s.length ≤ n) := by omega
            simp [hnc]
          · have : ¬ ((r.take (n - (56 + i.size) - d.length - 16)).length < r.length) := by
              rw [List.length_take]; omega
            rw [if_neg this]
            have hc' : s.length ≤ n := by omega
            simp [hc']
      · rw [if_neg c6]
        simp only [c6, if_false] at hsl
        have hc' : s.length ≤ n := by omega
        simp [hc']

-- ---------------------------------------------------------------- upload: the two names on disk

/-- The upload target: `<name>` and `<name>.incomplete`. -/
structure UpState where
  final : Option Bytes := none
  inc : Option Bytes := none
deriving Repr, DecidableEq

/-- `UploadHandler` on the bytes `recv` that arrive after the preamble:
    an existing final name ends the transfer at once; otherwise `.incomplete` is opened
    `O_CREATE|O_APPEND`, everything `receiveFile` copies is appended, and only when it returns nil the
    partial file is renamed to the final name. -/
def uploadTransfer (st : UpState) (recv : Bytes) : UpState :=
  match st.final with
  | some _ => st
  | none =>
    let r := receiveFile recv
    let inc1 := st.inc.getD [] ++ r.appended
    if r.complete then { final := some inc1, inc := none } else { final := none, inc := some inc1 }

/-- `handleFileTransfer` for an upload: the 16-byte preamble is read with `io.ReadFull`; a short or
    foreign preamble ends the connection before anything is touched. -/
def uploadConn (st : UpState) (conn : Bytes) : UpState :=
  match transferDecode (conn.take 16) with
  | .ok _ => uploadTransfer st (conn.drop 16)
  | _ => st

inductive UpReply where
  | refused                   -- error reply: a file with that name exists
  | noReply                   -- resume asked, no partial file: the handler returns nothing
  | ok (resume : Option Nat)  -- reference number; with the resume option also field 203 carrying the offset
deriving Repr, DecidableEq

/-- `HandleUploadFile` (privileges granted). -/
def handleUploadFile (st : UpState) (resumeOpt : Bool) : UpReply :=
  match st.final with
  | some _ => .refused
  | none =>
    if resumeOpt then
      match st.inc with
      | some p => .ok (some (p.length % 4294967296))
      | none => .noReply
    else .ok none

/-- Field 203 of the resume reply: one DATA fork entry carrying the offset. -/
def uploadResumeData (off : Nat) : Bytes := resumeEncode [⟨[0x44, 0x41, 0x54, 0x41], off⟩]

/-- One client attempt on a connection that dies after `cut` bytes: the client continues from the
    offset the server reports (the size of `.incomplete`; 0 when there is none). -/
def uploadAttempt (ref : Nat) (fc : Nat) (i : InfoFork) (d r : Bytes) (st : UpState) (cut : Nat) : UpState :=
  let o := (st.inc.getD []).length
  let s := uploadStream fc i (d.drop o) r
  uploadConn st ((transferPreamble ref s.length ++ s).take cut)

/-- A history of attempts, each cut at the given byte (a cut at or beyond the end = no cut). -/
def uploadRun (ref : Nat) (fc : Nat) (i : InfoFork) (d r : Bytes) (cuts : List Nat) : UpState :=
  cuts.foldl (uploadAttempt ref fc i d r) {}

/-- The property's state predicate: nothing published and the partial file is a prefix of the
    client's data, or published exactly and no partial file. -/
def UpState.Good (d : Bytes) (st : UpState) : Prop :=
  (st.final = none ∧ ∃ k, k ≤ d.length ∧ st.inc.getD [] = d.take k) ∨ (st.final = some d ∧ st.inc = none)

theorem transferDecode_preamble (ref size : Nat) :
    transferDecode (transferPreamble ref size) = .ok (ref % 4294967296, size % 4294967296) := by
  unfold transferDecode
  have hl : (transferPreamble ref size).length = 16 := by simp [transferPreamble]
  have e1 : ¬ ((transferPreamble ref size).length < 16) := by omega
  rw [if_neg e1]
  have e2 : ((transferPreamble ref size).take 4 != [0x48, 0x54, 0x58, 0x46]) = false := by
    simp [transferPreamble]
  rw [e2]
  have d4 : (transferPreamble ref size).drop 4 = be32 ref ++ (be32 size ++ [0, 0, 0, 0]) := by
    simp [transferPreamble]
  have d8 : (transferPreamble ref size).drop 8 = be32 size ++ [0, 0, 0, 0] := by
    simp [transferPreamble, be32]
  simp [d4, d8, rd32_be32_append]

@[simp] theorem transferPreamble_length (ref size : Nat) : (transferPreamble ref size).length = 16 := by
  simp [transferPreamble]

theorem transferDecode_short (p : Bytes) (h : p.length < 16) : transferDecode p = .err := by
  unfold transferDecode; rw [if_pos h]

/-- What one attempt does to a state, in terms of the client's data. -/
theorem uploadAttempt_step (ref fc : Nat) (i : InfoFork) (d r : Bytes) (k cut : Nat) (inc : Option Bytes)
    (hi : i.WFup) (hfc : fc < 65536) (hd : d.length < 4294967296) (hr : r.length < 4294967296)
    (hk : k ≤ d.length) (hinc : inc.getD [] = d.take k) :
    let s := uploadStream fc i (d.drop k) r
    uploadAttempt ref fc i d r { final := none, inc := inc } cut =
      if cut < 16 then { final := none, inc := inc }
      else if 16 + s.length ≤ cut then { final := some d, inc := none }
      else { final := none, inc := some (d.take (k + (cut - 16 - (56 + i.size)))) } := by
  intro s
  have hlen : (inc.getD []).length = k := by rw [hinc, List.length_take]; omega
  unfold uploadAttempt
  simp only [hlen]
  show uploadConn _ ((transferPreamble ref s.length ++ s).take cut) = _
  unfold uploadConn
  by_cases c1 : cut < 16
  · rw [if_pos c1]
    have : (((transferPreamble ref s.length ++ s).take cut).take 16).length < 16 := by
      simp [List.length_take]; omega
    rw [transferDecode_short _ this]
  · rw [if_neg c1]
    have c1' : 16 ≤ cut := by omega
    have ht : ((transferPreamble ref s.length ++ s).take cut).take 16 = transferPreamble ref s.length := by
      rw [List.take_take, Nat.min_eq_left c1', List.take_left' (transferPreamble_length _ _)]
    rw [ht, transferDecode_preamble]
    have hdrop : ((transferPreamble ref s.length ++ s).take cut).drop 16 = s.take (cut - 16) := by
      rw [List.drop_take, List.drop_left' (transferPreamble_length _ _)]
    simp only [hdrop]
    unfold uploadTransfer
    simp only
    have hdk : (d.drop k).length < 4294967296 := by rw [List.length_drop]; omega
    obtain ⟨ha, hc⟩ := receiveFile_prefix fc i (d.drop k) r (cut - 16) hi hfc hdk hr
    rw [ha, hc, hinc]
    by_cases c2 : 16 + s.length ≤ cut
    · have hsu : s.length = (uploadStream fc i (d.drop k) r).length := rfl
      have : (uploadStream fc i (d.drop k) r).length ≤ cut - 16 := by omega
      rw [if_pos c2]
      simp only [this, decide_true, if_true]
      -- everything arrived: the partial file is the whole data fork
      have hsl := uploadStream_length fc i (d.drop k) r hi.1
      have hge : (d.drop k).length ≤ cut - 16 - (56 + i.size) := by
        have : s.length = (uploadStream fc i (d.drop k) r).length := rfl
        split at hsl <;> omega
      rw [List.take_of_length_le hge, List.take_append_drop]
    · have hsu : s.length = (uploadStream fc i (d.drop k) r).length := rfl
      have : ¬ ((uploadStream fc i (d.drop k) r).length ≤ cut - 16) := by omega
      rw [if_neg c2]
      simp only [this, decide_false]
      rw [← List.take_add]
      rfl

theorem UpState.good_init (d : Bytes) : UpState.Good d {} := by
  left; exact ⟨rfl, 0, by omega, by simp⟩

/-- One attempt keeps a good state good. -/
theorem uploadAttempt_good (ref fc : Nat) (i : InfoFork) (d r : Bytes) (st : UpState) (cut : Nat)
    (hi : i.WFup) (hfc : fc < 65536) (hd : d.length < 4294967296) (hr : r.length < 4294967296)
    (hg : st.Good d) : (uploadAttempt ref fc i d r st cut).Good d := by
  rcases hg with ⟨hf, k, hk, hinc⟩ | ⟨hf, hinc⟩
  · have hst : st = { final := none, inc := st.inc } := by cases st; simp at hf; simp [hf]
    rw [hst, uploadAttempt_step ref fc i d r k cut st.inc hi hfc hd hr hk hinc]
    split
    · left; exact ⟨rfl, k, hk, hinc⟩
    · split
      · right; exact ⟨rfl, rfl⟩
      · left
        refine ⟨rfl, min (k + (cut - 16 - (56 + i.size))) d.length, Nat.min_le_right _ _, ?_⟩
        simp only [Option.getD_some]
        rw [← List.take_take, List.take_length]
  · -- already published: the transfer handler stops at the existing file
    right
    have hst : st = { final := some d, inc := none } := by cases st; simp at hf hinc; simp [hf, hinc]
    rw [hst]
    unfold uploadAttempt uploadConn uploadTransfer
    simp only
    split <;> exact ⟨rfl, rfl⟩

/-- Hypotheses on what the client sends: a well-formed information fork, fork count 2 or 3 (any
    16-bit value is allowed), sizes that fit the 32-bit size fields. -/
structure ClientOK (fc : Nat) (i : InfoFork) (d r : Bytes) : Prop where
  info : i.WFup
  fc : fc < 65536
  data : d.length < 4294967296
  rsrc : r.length < 4294967296


/-- Any further attempts keep a good state good. -/
theorem uploadRun_foldl_good (ref fc : Nat) (i : InfoFork) (d r : Bytes) (h : ClientOK fc i d r) (cuts : List Nat) (st : UpState) (hg : st.Good d) :
    (cuts.foldl (uploadAttempt ref fc i d r) st).Good d := by
  induction cuts generalizing st with
  | nil => exact hg
  | cons c cs ih => exact ih _ (uploadAttempt_good ref fc i d r st c h.info h.fc h.data h.rsrc hg)


end Mobius
