import MobiusModel.Transfers
/-!
  DownloadRoots (C08, wave d): WHICH file a download is about.

  A session's file root is the account's own `FileRoot` when it has one, the server's otherwise
  (`ClientConn.FileRoot`).  `HandleDownloadFile` sizes the file found under that root for the reply and
  registers a pending transfer (`FileTransfer{FileRoot, FilePath, FileName, resume data, options}`) in the
  server-wide table under a fresh reference number; `handleFileTransfer` later resolves the path again from
  the ENTRY's root.  The model keeps the store abstract (a function from root and path to what is stored
  there) and proves that reply and stream always describe the same stored file — for every pair of roots,
  every content of every other root, every table of other sessions' transfers.
-/
namespace Mobius.DlRoots

/-- What is stored where: root string → request path (path field and name) → stored file. -/
abbrev Store := Bytes → Bytes → Option StoredFile

/-- The two configured roots a session sees. -/
structure Sess where
  serverRoot : Bytes        -- `Config.FileRoot`
  acctRoot : Bytes := []    -- `Account.FileRoot` ("" = the account has none)
deriving Repr, DecidableEq

/-- `ClientConn.FileRoot()`. -/
def Sess.root (s : Sess) : Bytes := if s.acctRoot ≠ [] then s.acctRoot else s.serverRoot

/-- A pending transfer (`FileTransfer`): what the transfer connection will resolve. -/
structure Pending where
  root : Bytes
  path : Bytes
  rq : DlRequest
deriving Repr, DecidableEq

/-- `HandleDownloadFile` for a request that names a stored file: the reply computed from the file under the
    session's root, and the entry registered for the transfer connection.  `none` = the path names no stored file
    under the session's root: outside the property's quantifier and outside this model (as coded, the wrapper of a
    missing file is granted as an empty file — docs/C08.md, "dangling aliases"). -/
def handleDownload (st : Store) (s : Sess) (path : Bytes) (rq : DlRequest) : Option (DlReply × Pending) :=
  match st s.root path with
  | none => none
  | some f => some (downloadReply f rq, { root := s.root, path := path, rq := rq })

/-- `handleFileTransfer` → `DownloadHandler` for a pending entry: the file is looked up under the ENTRY's root. -/
def serveTransfer (st : Store) (p : Pending) : Option (Bytes × Bool) :=
  (st p.root p.path).map fun f => downloadStream f p.rq

/-- Which root's file the reply was computed from / the stream is read from (what the harness classifies). -/
def replyRoot (s : Sess) : Bytes := s.root
def streamRoot (p : Pending) : Bytes := p.root

-- ---------------------------------------------------------------- the server-wide table of pending transfers

/-- `MemFileTransferMgr`: reference number → entry. -/
abbrev Table := List (Bytes × Pending)

def Table.get (t : Table) (ref : Bytes) : Option Pending := (t.find? (fun e => e.1 == ref)).map (·.2)

/-- A control request of some session: on a grant the entry is added under the (fresh) reference number `ref`. -/
def request (st : Store) (t : Table) (ref : Bytes) (s : Sess) (path : Bytes) (rq : DlRequest) : Table × Option DlReply :=
  match handleDownload st s path rq with
  | none => (t, none)
  | some (rep, p) => ((ref, p) :: t, some rep)

/-- A transfer connection presenting `ref`. -/
def transfer (st : Store) (t : Table) (ref : Bytes) : Option (Bytes × Bool) :=
  match t.get ref with
  | none => none
  | some p => serveTransfer st p

-- ---------------------------------------------------------------- lemmas

theorem handleDownload_some (st : Store) (s : Sess) (path : Bytes) (rq : DlRequest) (rep : DlReply) (p : Pending)
    (h : handleDownload st s path rq = some (rep, p)) :
    ∃ f, st s.root path = some f ∧ rep = downloadReply f rq ∧ p = { root := s.root, path := path, rq := rq } := by
  unfold handleDownload at h
  cases hf : st s.root path with
  | none => rw [hf] at h; cases h
  | some f =>
    rw [hf] at h
    injection h with h
    injection h with h1 h2
    exact ⟨f, rfl, h1.symm, h2.symm⟩

theorem Table.get_cons_self (t : Table) (ref : Bytes) (p : Pending) : Table.get ((ref, p) :: t) ref = some p := by
  simp [Table.get, List.find?]

theorem Table.get_cons_ne (t : Table) (ref r : Bytes) (p : Pending) (h : ref ≠ r) :
    Table.get ((ref, p) :: t) r = Table.get t r := by
  have : (ref == r) = false := by simpa using h
  simp [Table.get, List.find?, this]

end Mobius.DlRoots
