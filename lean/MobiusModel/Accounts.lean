import MobiusModel.AMap
import MobiusModel.Wire
import MobiusModel.PathAlg
/-!
  Accounts (C15): `YAMLAccountManager` (internal/mobius/account_manager.go, as of the `fix:` commits
  cab4779, 301829b, be877eb, 5d2c023, 57e02c9, 083f744) and the six account handlers of
  transaction_handlers.go.  57e02c9 (writers remove a left-over `.account.tmp` first) does not change the
  abstract effect of a write; 083f744 (the loader moves a file whose name differs from the login inside back
  under that login's name) is a no-op on the states the invariant describes — `load` below is the loader on
  such states and leaves the directory as it is.

  State = (mem : login ↦ account, disk : file name ↦ account).  External things are parameters
  (`Env`): bcrypt as `hash`/`verify`, the file system's NAME_MAX as `nameMax`.  The YAML library is
  the identity here (`deser (ser a) = a` is the trusted assumption exercised by the harness).
  The callers of the handlers are assumed to hold every account privilege (authorisation is C05/C06).
-/
namespace Mobius.Accounts
open PathAlg

abbrev Login := Bytes
abbrev FileName := Bytes

/-- ".yaml" -/
def yamlExt : Bytes := [46, 121, 97, 109, 108]

/-- render a component list with '/' separators -/
def render : List Bytes → Bytes
  | [] => []
  | [c] => c
  | c :: d :: cs => c ++ [47] ++ render (d :: cs)

/-- Go `path.Join("/", s)` without its leading '/' (lexical cleaning of the rooted path). -/
def joinRoot (s : Bytes) : Bytes := render ((splitSlash s).foldl step [])

/-- Create / Delete: `filepath.Join(dir, path.Join("/", login+".yaml"))`, relative to `dir`. -/
def fileC (l : Login) : FileName := joinRoot (l ++ yamlExt)
/-- Update: `filepath.Join(dir, path.Join("/", login)+".yaml")`, relative to `dir`. -/
def fileU (l : Login) : FileName := joinRoot l ++ yamlExt

/-- A login that is a legal file name: non-empty, not "." or "..", no '/', no NUL. -/
def LegalLogin (l : Login) : Prop :=
  l ≠ [] ∧ l ≠ dot ∧ l ≠ dotdot ∧ slash ∉ l ∧ (0 : UInt8) ∉ l

instance (l : Login) : Decidable (LegalLogin l) := by unfold LegalLogin; infer_instance

theorem splitSlash_of_no_slash (s : Bytes) (h : slash ∉ s) : splitSlash s = [s] := by
  induction s with
  | nil => rfl
  | cons b bs ih =>
    simp only [List.mem_cons, not_or] at h
    have hb : ¬ b = 47 := fun e => h.1 e.symm
    rw [splitSlash, if_neg hb, ih h.2]

theorem joinRoot_of_normal (s : Bytes) (h : Normal s) : joinRoot s = s := by
  unfold joinRoot
  rw [splitSlash_of_no_slash s h.2.2.2]
  simp only [List.foldl_cons, List.foldl_nil]
  rw [step_of_normal [] s h]
  rfl

theorem legal_normal {l : Login} (h : LegalLogin l) : Normal l := ⟨h.1, h.2.1, h.2.2.1, h.2.2.2.1⟩

theorem yaml_normal (l : Login) (h : slash ∉ l) : Normal (l ++ yamlExt) := by
  refine ⟨?_, ?_, ?_, ?_⟩
  · simp [yamlExt]
  · intro e
    have := congrArg List.length e
    simp [yamlExt, dot] at this
  · intro e
    have := congrArg List.length e
    simp [yamlExt, dotdot] at this
  · intro hm
    simp only [List.mem_append] at hm
    rcases hm with hm | hm
    · exact h hm
    · simp [yamlExt, slash] at hm

/-- On legal logins both file-name computations are `login ++ ".yaml"`. -/
theorem fileC_legal {l : Login} (h : LegalLogin l) : fileC l = l ++ yamlExt :=
  joinRoot_of_normal _ (yaml_normal l h.2.2.2.1)

theorem fileU_legal {l : Login} (h : LegalLogin l) : fileU l = l ++ yamlExt := by
  unfold fileU; rw [joinRoot_of_normal l (legal_normal h)]

theorem yaml_inj {a b : Login} (h : a ++ yamlExt = b ++ yamlExt) : a = b := List.append_cancel_right h

-- ---------------------------------------------------------------- state

structure Account (H : Type) where
  login : Login
  name : Bytes
  hash : H
  access : Bytes   -- 8 bytes
deriving DecidableEq, Repr

structure State (H : Type) where
  mem : AMap Login (Account H)
  disk : AMap FileName (Account H)

/-- The parameters the model cannot contain. -/
structure Env (H : Type) where
  hash : Bytes → H                 -- bcrypt.GenerateFromPassword (salted)
  verify : H → Bytes → Bool        -- bcrypt.CompareHashAndPassword = nil
  nameMax : Nat                    -- NAME_MAX of the file system holding the accounts directory

/-- the assumed behaviour of bcrypt -/
def Env.Sound {H : Type} (env : Env H) : Prop := ∀ p q, env.verify (env.hash p) q = true ↔ p = q

/-- A directory entry name the OS accepts inside the (flat) accounts directory. -/
def nameOK {H : Type} (env : Env H) (f : FileName) : Bool :=
  decide (f ≠ [] ∧ (0 : UInt8) ∉ f ∧ slash ∉ f ∧ f.length ≤ env.nameMax)

variable {H : Type}

-- ---------------------------------------------------------------- the manager's five methods

/-- `Create`: temp file `.account.tmp`, then `os.Link(temp, file)` — fails if the file exists. -/
def create (env : Env H) (a : Account H) (st : State H) : Bool × State H :=
  let f := fileC a.login
  if !nameOK env f || (st.disk.get f).isSome then (false, st)
  else (true, ⟨st.mem.set a.login a, st.disk.set f a⟩)

/-- `Update(account, newLogin)`: on a login change — refused when the new login already exists
    (fix 5d2c023) — rename the file and move the map entry (the old key is removed), then replace
    the file (temp + rename) and store the entry. -/
def update (env : Env H) (a : Account H) (newLogin : Login) (st : State H) : Bool × State H :=
  if a.login ≠ newLogin then
    if (st.mem.get newLogin).isSome then (false, st) else
    let fo := fileU a.login
    let fn := fileU newLogin
    match st.disk.get fo with
    | none => (false, st)                       -- os.Rename: no such file
    | some old =>
      if !nameOK env fn then (false, st) else
      let a' : Account H := { a with login := newLogin }
      let disk1 := (st.disk.del fo).set fn old  -- rename replaces an existing target
      let mem1 := (st.mem.set newLogin a').del a.login
      (true, ⟨mem1.set newLogin a', disk1.set fn a'⟩)
  else
    let f := fileU newLogin
    if !nameOK env f then (false, st)
    else (true, ⟨st.mem.set a.login a, st.disk.set f a⟩)

/-- `Delete`: remove the file (error if absent), then the map entry. -/
def delete (_env : Env H) (l : Login) (st : State H) : Bool × State H :=
  let f := fileC l
  match st.disk.get f with
  | none => (false, st)
  | some _ => (true, ⟨st.mem.del l, st.disk.del f⟩)

def getAcct (st : State H) (l : Login) : Option (Account H) := st.mem.get l

def listAccts (st : State H) : List (Account H) := st.mem.toList.map Prod.snd

/-- `NewYAMLAccountManager`: every `*.yaml` file is loaded under the login stored INSIDE it. -/
def load (disk : AMap FileName (Account H)) : AMap Login (Account H) :=
  disk.toList.foldl (fun m e => m.set e.2.login e.2) AMap.empty

/-- `ClientConn.Authenticate(login, password-as-sent)`. -/
def canLogin (env : Env H) (st : State H) (l : Login) (pw : Bytes) : Bool :=
  match st.mem.get l with
  | some a => env.verify a.hash pw
  | none => false

def listed (st : State H) (l : Login) : Bool := (st.mem.get l).isSome

-- ---------------------------------------------------------------- handlers

/-- `hotline.GetField(id, &fields)`: first field of that type, nil when absent. -/
def getField (id : Nat) (fs : List Field) : Option Bytes := (fs.find? fun f => f.ty = id).map (·.data)

/-- `t.GetField(id).Data`: an absent field reads as empty. -/
def fieldData (id : Nat) (fs : List Field) : Bytes := (getField id fs).getD []

def zeros8 : Bytes := [0, 0, 0, 0, 0, 0, 0, 0]

/-- `copy(access[:], data)` into an 8-byte array. -/
def copyAccess (old new : Bytes) : Bytes := new.take 8 ++ old.drop (min 8 new.length)

/-- The password rule of set-user / update-user: a value is hashed, the single zero byte leaves
    the stored hash alone, an absent field stores the hash of the empty password. -/
def pwUpdate (env : Env H) (old : H) (pw : Option Bytes) : H :=
  match pw with
  | none => env.hash []
  | some p => if p = [0] then old else env.hash p

inductive Out (H : Type) where
  | done                                   -- plain reply
  | errReply                               -- error reply
  | silent                                 -- the handler returned no transaction
  | panic                                  -- nil dereference, contained by the connection's recover
  | user (name login : Bytes) (hash : H) (access : Bytes)   -- get-user reply (login as obfuscated in the reply)
  | users (l : List (Account H))           -- list-users reply (map order)
  | auth (ok : Bool)
deriving Repr

/-- HandleNewUser (350). -/
def handleNewUser (env : Env H) (fs : List Field) (st : State H) : State H × Out H :=
  let login := obfuscate (fieldData 105 fs)
  if (st.mem.get login).isSome then (st, .errReply) else
  let a : Account H := ⟨login, fieldData 102 fs, env.hash (fieldData 106 fs), copyAccess zeros8 (fieldData 110 fs)⟩
  match create env a st with
  | (true, st') => (st', .done)
  | (false, _) => (st, .errReply)

/-- HandleSetUser (353). -/
def handleSetUser (env : Env H) (fs : List Field) (st : State H) : State H × Out H :=
  let login := obfuscate (fieldData 105 fs)
  match st.mem.get login with
  | none => (st, .errReply)
  | some acc =>
    let a : Account H := { acc with
      name := fieldData 102 fs,
      access := copyAccess acc.access (fieldData 110 fs),
      hash := pwUpdate env acc.hash (getField 106 fs) }
    -- the error of Update is only logged
    ((update env a a.login st).2, .done)

/-- HandleDeleteUser (351). -/
def handleDeleteUser (env : Env H) (fs : List Field) (st : State H) : State H × Out H :=
  match delete env (obfuscate (fieldData 105 fs)) st with
  | (true, st') => (st', .done)
  | (false, _) => (st, .silent)

/-- HandleGetUser (352): the login field is read WITHOUT de-obfuscation. -/
def handleGetUser (fs : List Field) (st : State H) : State H × Out H :=
  match st.mem.get (fieldData 105 fs) with
  | none => (st, .errReply)
  | some a => (st, .user a.name (obfuscate (fieldData 105 fs)) a.hash a.access)

/-- `loginToRename`: the de-obfuscated data field (101) of a sub-record, "" when absent. -/
def loginToRename (fs : List Field) : Login :=
  match getField 101 fs with
  | some d => obfuscate d
  | none => []

/-- `accountToUpdate`: the login looked up — the data field's when present and non-empty, else the login field's. -/
def accountToUpdate (fs : List Field) (userLogin : Login) : Login :=
  if loginToRename fs ≠ [] then loginToRename fs else userLogin

/-- One sub-record of HandleUpdateUser (349): `none` = continue with the next record. -/
def updateRec (env : Env H) (fs : List Field) (st : State H) : State H × Option (Out H) :=
  if fs.length = 1 then
    match getField 101 fs with
    | none => (st, some .panic)
    | some d =>
      match delete env (obfuscate d) st with
      | (true, st') => (st', none)
      | (false, _) => (st, some .silent)
  else
    match getField 105 fs with
    | none => (st, some .panic)
    | some lg =>
      let userLogin := obfuscate lg
      match st.mem.get (accountToUpdate fs userLogin) with
      | some acc =>
        match getField 102 fs with
        | none => (st, some .panic)
        | some nm =>
          let a : Account H := { acc with
            hash := pwUpdate env acc.hash (getField 106 fs),
            access := match getField 110 fs with
              | some ac => copyAccess acc.access ac
              | none => acc.access,
            name := nm }
          match update env a userLogin st with
          | (true, st') => (st', none)
          | (false, st') => (st', some .silent)
      | none =>
        match getField 110 fs, getField 102 fs, getField 106 fs with
        | some ac, some nm, some pw =>
          match create env ⟨userLogin, nm, env.hash pw, copyAccess zeros8 ac⟩ st with
          | (true, st') => (st', none)
          | (false, _) => (st, some .errReply)
        | _, _, _ => (st, some .panic)

/-- HandleUpdateUser (349): sub-records in order; the first failing one ends the request
    (earlier sub-records stay applied). -/
def handleUpdateUser (env : Env H) : List (List Field) → State H → State H × Out H
  | [], st => (st, .done)
  | fs :: rest, st =>
    match updateRec env fs st with
    | (st', none) => handleUpdateUser env rest st'
    | (st', some o) => (st', o)

inductive Op where
  | newUser (fs : List Field)
  | setUser (fs : List Field)
  | updateUser (recs : List (List Field))
  | deleteUser (fs : List Field)
  | getUser (fs : List Field)
  | listUsers
  | login (l : Login) (pw : Bytes)
  | restart
deriving Repr

def step (env : Env H) (st : State H) : Op → State H × Out H
  | .newUser fs => handleNewUser env fs st
  | .setUser fs => handleSetUser env fs st
  | .updateUser recs => handleUpdateUser env recs st
  | .deleteUser fs => handleDeleteUser env fs st
  | .getUser fs => handleGetUser fs st
  | .listUsers => (st, .users (listAccts st))
  | .login l pw => (st, .auth (canLogin env st l pw))
  | .restart => (⟨load st.disk, st.disk⟩, .done)

def run (env : Env H) (st : State H) (ops : List Op) : State H := ops.foldl (fun s o => (step env s o).1) st

-- ---------------------------------------------------------------- legality of requests

/-- `p` holds of the value when there is one -/
def optAll (p : Bytes → Prop) : Option Bytes → Prop
  | some d => p d
  | none => True

instance (p : Bytes → Prop) [DecidablePred p] (o : Option Bytes) : Decidable (optAll p o) := by
  cases o <;> unfold optAll <;> infer_instance

theorem optAll_some {p : Bytes → Prop} {o : Option Bytes} {d : Bytes} (h : optAll p o) (e : o = some d) : p d := by
  subst e; exact h

/-- The logins a sub-record of update-user creates, renames to or deletes are legal file names:
    the login field (105) always, the data field (101) when the record is a delete (one field).
    (The data field of a rename names an EXISTING account, whose login is legal by the invariant.) -/
def RecLegal (fs : List Field) : Prop :=
  optAll (fun lg => LegalLogin (obfuscate lg)) (getField 105 fs) ∧
  (fs.length = 1 → optAll (fun d => LegalLogin (obfuscate d)) (getField 101 fs))

instance (fs : List Field) : Decidable (RecLegal fs) := by unfold RecLegal; infer_instance

def Op.Legal : Op → Prop
  | .newUser fs => LegalLogin (obfuscate (fieldData 105 fs))
  | .deleteUser fs => LegalLogin (obfuscate (fieldData 105 fs))
  | .updateUser recs => ∀ fs ∈ recs, RecLegal fs
  | _ => True

instance (o : Op) : Decidable o.Legal := by
  cases o <;> unfold Op.Legal <;> infer_instance

-- ---------------------------------------------------------------- the invariant

/-- Memory and disk agree: every map entry is stored under its own (legal) login and has exactly
    its file; every file is `<login inside it>.yaml` and has exactly its map entry. -/
structure Inv (st : State H) : Prop where
  mem_ok : ∀ l a, st.mem.get l = some a → a.login = l ∧ LegalLogin l ∧ st.disk.get (l ++ yamlExt) = some a
  disk_ok : ∀ f a, st.disk.get f = some a → f = a.login ++ yamlExt ∧ st.mem.get a.login = some a

theorem Inv.congr {s t : State H} (hm : ∀ k, s.mem.get k = t.mem.get k) (hd : ∀ k, s.disk.get k = t.disk.get k)
    (h : Inv s) : Inv t :=
  ⟨fun l a hl => by rw [← hm] at hl; have := h.mem_ok l a hl; rw [hd] at this; exact this,
   fun f a hf => by rw [← hd] at hf; have := h.disk_ok f a hf; rw [hm] at this; exact this⟩

theorem Inv.set {st : State H} (h : Inv st) (a : Account H) (hl : LegalLogin a.login) :
    Inv ⟨st.mem.set a.login a, st.disk.set (a.login ++ yamlExt) a⟩ := by
  constructor
  · intro l b hb
    simp only [AMap.get_set] at hb ⊢
    by_cases e : l = a.login
    · subst e; simp at hb; subst hb; simp [hl]
    · simp only [e, if_false] at hb
      obtain ⟨h1, h2, h3⟩ := h.mem_ok l b hb
      have : ¬ l ++ yamlExt = a.login ++ yamlExt := fun x => e (yaml_inj x)
      simp [this, h1, h2, h3]
  · intro f b hb
    simp only [AMap.get_set] at hb ⊢
    by_cases e : f = a.login ++ yamlExt
    · subst e; simp at hb; subst hb; simp
    · simp only [e, if_false] at hb
      obtain ⟨h1, h2⟩ := h.disk_ok f b hb
      have : ¬ b.login = a.login := fun x => e (by rw [h1, x])
      simp [this, h1, h2]

theorem Inv.del {st : State H} (h : Inv st) (l : Login) :
    Inv ⟨st.mem.del l, st.disk.del (l ++ yamlExt)⟩ := by
  constructor
  · intro k b hb
    simp only [AMap.get_del] at hb ⊢
    by_cases e : k = l
    · simp [e] at hb
    · simp only [e, if_false] at hb
      obtain ⟨h1, h2, h3⟩ := h.mem_ok k b hb
      have : ¬ k ++ yamlExt = l ++ yamlExt := fun x => e (yaml_inj x)
      simp [this, h1, h2, h3]
  · intro f b hb
    simp only [AMap.get_del] at hb ⊢
    by_cases e : f = l ++ yamlExt
    · simp [e] at hb
    · simp only [e, if_false] at hb
      obtain ⟨h1, h2⟩ := h.disk_ok f b hb
      have : ¬ b.login = l := fun x => e (by rw [h1, x])
      simp [this, h1, h2]

theorem create_inv (env : Env H) (a : Account H) (st : State H) (h : Inv st) (hl : LegalLogin a.login) :
    Inv (create env a st).2 := by
  unfold create
  simp only [fileC_legal hl]
  split
  · exact h
  · exact h.set a hl

theorem delete_inv (env : Env H) (l : Login) (st : State H) (h : Inv st) (hl : LegalLogin l) :
    Inv (delete env l st).2 := by
  unfold delete
  simp only [fileC_legal hl]
  split
  · exact h
  · exact h.del l

/-- `Update` as the handlers call it: the account was read from the map under `a.login`. -/
theorem update_inv (env : Env H) (a : Account H) (n : Login) (st : State H) (h : Inv st)
    (ha : LegalLogin a.login) (hn : LegalLogin n) : Inv (update env a n st).2 := by
  unfold update
  by_cases e : a.login = n
  · subst e
    rw [if_neg (by simp), fileU_legal ha]
    dsimp only
    split
    · exact h
    · exact h.set a ha
  · rw [if_pos e, fileU_legal ha, fileU_legal hn]
    dsimp only
    split
    · exact h
    · split
      · exact h
      · split
        · exact h
        · -- extensionally: delete the old login, then store the renamed account
          have h1 := (h.del a.login).set { a with login := n } hn
          refine Inv.congr ?_ ?_ h1
          · intro k
            simp only [AMap.get_set, AMap.get_del]
            by_cases ek : k = n
            · simp [ek]
            · simp [ek]
          · intro k
            simp only [AMap.get_set, AMap.get_del]
            by_cases ek : k = n ++ yamlExt
            · simp [ek]
            · simp [ek]

theorem handleNewUser_inv (env : Env H) (fs : List Field) (st : State H) (h : Inv st)
    (hl : LegalLogin (obfuscate (fieldData 105 fs))) : Inv (handleNewUser env fs st).1 := by
  unfold handleNewUser
  simp only
  split
  · exact h
  · have := create_inv env ⟨obfuscate (fieldData 105 fs), fieldData 102 fs, env.hash (fieldData 106 fs),
      copyAccess zeros8 (fieldData 110 fs)⟩ st h hl
    split
    · rename_i st' heq; rw [heq] at this; exact this
    · exact h

theorem handleSetUser_inv (env : Env H) (fs : List Field) (st : State H) (h : Inv st) :
    Inv (handleSetUser env fs st).1 := by
  unfold handleSetUser
  simp only
  split
  · exact h
  · rename_i acc hacc
    obtain ⟨h1, h2, _⟩ := h.mem_ok _ _ hacc
    apply update_inv env _ _ st h
    · simp only; rw [h1]; exact h2
    · show LegalLogin acc.login; rw [h1]; exact h2

theorem handleDeleteUser_inv (env : Env H) (fs : List Field) (st : State H) (h : Inv st)
    (hl : LegalLogin (obfuscate (fieldData 105 fs))) : Inv (handleDeleteUser env fs st).1 := by
  unfold handleDeleteUser
  have := delete_inv env _ st h hl
  split
  · rename_i st' heq; rw [heq] at this; exact this
  · exact h

theorem updateRec_inv (env : Env H) (fs : List Field) (st : State H) (h : Inv st) (hl : RecLegal fs) :
    Inv (updateRec env fs st).1 := by
  obtain ⟨hlg, hdel⟩ := hl
  unfold updateRec
  split
  · rename_i h1
    split
    · exact h
    · rename_i d hdd
      have := delete_inv env (obfuscate d) st h (optAll_some (p := fun d => LegalLogin (obfuscate d)) (hdel h1) hdd)
      split
      · rename_i st' heq; rw [heq] at this; exact this
      · exact h
  · simp only
    split
    · exact h
    · rename_i lg hlg'
      have hul : LegalLogin (obfuscate lg) := optAll_some (p := fun d => LegalLogin (obfuscate d)) hlg hlg'
      split
      · rename_i acc hacc
        obtain ⟨h1, h2, _⟩ := h.mem_ok _ _ hacc
        split
        · exact h
        · rename_i nm _
          have := update_inv env { acc with
              hash := pwUpdate env acc.hash (getField 106 fs),
              access := match getField 110 fs with
                | some ac => copyAccess acc.access ac
                | none => acc.access,
              name := nm } (obfuscate lg) st h (by simp only; rw [h1]; exact h2) hul
          split
          · rename_i st' heq; rw [heq] at this; exact this
          · rename_i st' heq; rw [heq] at this; exact this
      · split
        · rename_i ac nm pw _ _ _
          have := create_inv env ⟨obfuscate lg, nm, env.hash pw, copyAccess zeros8 ac⟩ st h hul
          split
          · rename_i st' heq; rw [heq] at this; exact this
          · exact h
        · exact h

theorem handleUpdateUser_inv (env : Env H) (recs : List (List Field)) (st : State H) (h : Inv st)
    (hl : ∀ fs ∈ recs, RecLegal fs) : Inv (handleUpdateUser env recs st).1 := by
  induction recs generalizing st with
  | nil => exact h
  | cons fs rest ih =>
    unfold handleUpdateUser
    have h1 := updateRec_inv env fs st h (hl fs (by simp))
    split
    · rename_i st' heq
      rw [heq] at h1
      exact ih st' h1 (fun g hg => hl g (by simp [hg]))
    · rename_i st' o heq
      rw [heq] at h1; exact h1

-- ---------------------------------------------------------------- restart

theorem load_get_aux (d : List (FileName × Account H)) (acc : AMap Login (Account H))
    (hk : (d.map Prod.fst).Nodup) (hf : ∀ e ∈ d, e.1 = e.2.login ++ yamlExt) (l : Login) :
    (d.foldl (fun m e => m.set e.2.login e.2) acc).get l =
      match alGet (l ++ yamlExt) d with
      | some a => some a
      | none => acc.get l := by
  induction d generalizing acc with
  | nil => simp [alGet]
  | cons e r ih =>
    obtain ⟨f, a⟩ := e
    simp only [List.map_cons, List.nodup_cons] at hk
    have hfa : f = a.login ++ yamlExt := hf (f, a) (by simp)
    simp only [List.foldl_cons]
    rw [ih _ hk.2 (fun e he => hf e (by simp [he]))]
    by_cases e : a.login = l
    · subst e
      have : alGet (a.login ++ yamlExt) r = none := alGet_none_of_not_mem _ _ (by rw [← hfa]; exact hk.1)
      simp [this, alGet, hfa]
    · have hne : ¬ f = l ++ yamlExt := by rw [hfa]; exact fun x => e (yaml_inj x)
      have hne' : ¬ l = a.login := fun x => e x.symm
      simp [alGet, hne, AMap.get_set, hne']

/-- Restarting (loading the directory) yields the accounts that were in memory. -/
theorem load_eq_mem (st : State H) (h : Inv st) (l : Login) : (load st.disk).get l = st.mem.get l := by
  unfold load AMap.toList
  rw [load_get_aux st.disk.l AMap.empty st.disk.nd
    (fun e he => (h.disk_ok e.1 e.2 ((AMap.mem_toList_iff st.disk e.1 e.2).mp he)).1) l]
  simp only [AMap.get_empty]
  cases hd : alGet (l ++ yamlExt) st.disk.l with
  | none =>
    cases hm : st.mem.get l with
    | none => rfl
    | some a =>
      have := (h.mem_ok l a hm).2.2
      simp only [AMap.get] at this
      rw [this] at hd; cases hd
  | some a =>
    obtain ⟨h1, h2⟩ := h.disk_ok (l ++ yamlExt) a hd
    have : a.login = l := (yaml_inj h1).symm
    rw [this] at h2
    simp [h2]

theorem restart_inv (st : State H) (h : Inv st) : Inv (⟨load st.disk, st.disk⟩ : State H) :=
  Inv.congr (s := st) (fun k => (load_eq_mem st h k).symm) (fun _ => rfl) h

theorem step_inv (env : Env H) (st : State H) (op : Op) (h : Inv st) (hl : op.Legal) : Inv (step env st op).1 := by
  cases op with
  | newUser fs => exact handleNewUser_inv env fs st h hl
  | setUser fs => exact handleSetUser_inv env fs st h
  | updateUser recs => exact handleUpdateUser_inv env recs st h hl
  | deleteUser fs => exact handleDeleteUser_inv env fs st h hl
  | getUser fs =>
    show Inv (handleGetUser fs st).1
    unfold handleGetUser; split <;> exact h
  | listUsers => exact h
  | login l pw => exact h
  | restart => exact restart_inv st h

theorem run_inv (env : Env H) (ops : List Op) (st : State H) (h : Inv st) (hl : ∀ o ∈ ops, o.Legal) :
    Inv (run env st ops) := by
  induction ops generalizing st with
  | nil => exact h
  | cons o rest ih =>
    simp only [run, List.foldl_cons]
    exact ih _ (step_inv env st o h (hl o (by simp))) (fun p hp => hl p (by simp [hp]))

-- ---------------------------------------------------------------- stored passwords are hashes

/-- every stored password is a value of `hash` -/
def Hashed (env : Env H) (st : State H) : Prop :=
  (∀ l a, st.mem.get l = some a → ∃ p, a.hash = env.hash p) ∧
  (∀ f a, st.disk.get f = some a → ∃ p, a.hash = env.hash p)

end Mobius.Accounts

namespace Mobius.Accounts
variable {H : Type}

def HashedMem (env : Env H) (st : State H) : Prop :=
  ∀ l a, st.mem.get l = some a → ∃ p, a.hash = env.hash p

theorem pwUpdate_hashed (env : Env H) (old : H) (pw : Option Bytes) (h : ∃ p, old = env.hash p) :
    ∃ p, pwUpdate env old pw = env.hash p := by
  unfold pwUpdate
  split
  · exact ⟨[], rfl⟩
  · split
    · exact h
    · exact ⟨_, rfl⟩

theorem create_hashed (env : Env H) (a : Account H) (st : State H) (h : HashedMem env st)
    (ha : ∃ p, a.hash = env.hash p) : HashedMem env (create env a st).2 := by
  unfold create
  dsimp only
  split
  · exact h
  · intro l b hb
    simp only [AMap.get_set] at hb
    split at hb
    · cases hb; exact ha
    · exact h l b hb

theorem delete_hashed (env : Env H) (l : Login) (st : State H) (h : HashedMem env st) :
    HashedMem env (delete env l st).2 := by
  unfold delete
  dsimp only
  split
  · exact h
  · intro k b hb
    simp only [AMap.get_del] at hb
    split at hb
    · cases hb
    · exact h k b hb

theorem update_hashed (env : Env H) (a : Account H) (n : Login) (st : State H) (h : HashedMem env st)
    (ha : ∃ p, a.hash = env.hash p) : HashedMem env (update env a n st).2 := by
  unfold update
  split
  · dsimp only
    split
    · exact h
    · split
      · exact h
      · split
        · exact h
        · intro k b hb
          simp only [AMap.get_set, AMap.get_del] at hb
          split at hb
          · cases hb; exact ha
          · split at hb
            · cases hb
            · exact h k b hb
  · dsimp only
    split
    · exact h
    · intro k b hb
      simp only [AMap.get_set] at hb
      split at hb
      · cases hb; exact ha
      · exact h k b hb

theorem updateRec_hashed (env : Env H) (fs : List Field) (st : State H) (h : HashedMem env st) :
    HashedMem env (updateRec env fs st).1 := by
  unfold updateRec
  split
  · split
    · exact h
    · rename_i d _
      have := delete_hashed env (obfuscate d) st h
      split
      · rename_i st' heq; rw [heq] at this; exact this
      · exact h
  · simp only
    split
    · exact h
    · rename_i lg _
      split
      · rename_i acc hacc
        split
        · exact h
        · rename_i nm _
          have := update_hashed env { acc with
              hash := pwUpdate env acc.hash (getField 106 fs),
              access := match getField 110 fs with
                | some ac => copyAccess acc.access ac
                | none => acc.access,
              name := nm } (obfuscate lg) st h (pwUpdate_hashed env _ _ (h _ _ hacc))
          split
          · rename_i st' heq; rw [heq] at this; exact this
          · rename_i st' heq; rw [heq] at this; exact this
      · split
        · rename_i ac nm pw _ _ _
          have := create_hashed env ⟨obfuscate lg, nm, env.hash pw, copyAccess zeros8 ac⟩ st h ⟨pw, rfl⟩
          split
          · rename_i st' heq; rw [heq] at this; exact this
          · exact h
        · exact h

theorem handleUpdateUser_hashed (env : Env H) (recs : List (List Field)) (st : State H) (h : HashedMem env st) :
    HashedMem env (handleUpdateUser env recs st).1 := by
  induction recs generalizing st with
  | nil => exact h
  | cons fs rest ih =>
    unfold handleUpdateUser
    have h1 := updateRec_hashed env fs st h
    split
    · rename_i st' heq; rw [heq] at h1; exact ih st' h1
    · rename_i st' o heq; rw [heq] at h1; exact h1

theorem step_hashed (env : Env H) (st : State H) (op : Op) (hi : Inv st) (h : HashedMem env st) :
    HashedMem env (step env st op).1 := by
  cases op with
  | newUser fs =>
    show HashedMem env (handleNewUser env fs st).1
    unfold handleNewUser
    simp only
    split
    · exact h
    · have := create_hashed env ⟨obfuscate (fieldData 105 fs), fieldData 102 fs, env.hash (fieldData 106 fs),
        copyAccess zeros8 (fieldData 110 fs)⟩ st h ⟨_, rfl⟩
      split
      · rename_i st' heq; rw [heq] at this; exact this
      · exact h
  | setUser fs =>
    show HashedMem env (handleSetUser env fs st).1
    unfold handleSetUser
    simp only
    split
    · exact h
    · rename_i acc hacc
      exact update_hashed env _ _ st h (pwUpdate_hashed env _ _ (h _ _ hacc))
  | updateUser recs => exact handleUpdateUser_hashed env recs st h
  | deleteUser fs =>
    show HashedMem env (handleDeleteUser env fs st).1
    unfold handleDeleteUser
    have := delete_hashed env (obfuscate (fieldData 105 fs)) st h
    split
    · rename_i st' heq; rw [heq] at this; exact this
    · exact h
  | getUser fs =>
    show HashedMem env (handleGetUser fs st).1
    unfold handleGetUser; split <;> exact h
  | listUsers => exact h
  | login l pw => exact h
  | restart =>
    intro l a ha
    exact h l a (by rw [← load_eq_mem st hi l]; exact ha)

/-- legal login + length bound ⇒ the OS accepts `login.yaml` -/
theorem nameOK_legal (env : Env H) {l : Login} (hl : LegalLogin l) (hlen : (l ++ yamlExt).length ≤ env.nameMax) :
    nameOK env (l ++ yamlExt) = true := by
  unfold nameOK
  have hn := yaml_normal l hl.2.2.2.1
  have h0 : (0 : UInt8) ∉ l ++ yamlExt := by
    intro hm
    simp only [List.mem_append] at hm
    rcases hm with hm | hm
    · exact hl.2.2.2.2 hm
    · simp [yamlExt] at hm
  simp only [decide_eq_true_eq]
  exact ⟨hn.1, h0, hn.2.2.2, hlen⟩

/-- `Update` without a login change, on a legal login whose file name the OS accepts. -/
theorem update_same (env : Env H) (a : Account H) (st : State H) (hl : LegalLogin a.login)
    (hlen : (a.login ++ yamlExt).length ≤ env.nameMax) :
    update env a a.login st = (true, ⟨st.mem.set a.login a, st.disk.set (a.login ++ yamlExt) a⟩) := by
  unfold update
  rw [if_neg (by simp), fileU_legal hl]
  dsimp only
  rw [nameOK_legal env hl hlen]
  simp

/-- `Update` onto a login that exists is refused: nothing changes (fix 5d2c023). -/
theorem update_rename_existing (env : Env H) (a : Account H) (n : Login) (st : State H)
    (hne : a.login ≠ n) (hex : (st.mem.get n).isSome) : update env a n st = (false, st) := by
  unfold update
  rw [if_pos hne, if_pos hex]

/-- `Update` with a login change onto a free login: the old login disappears, the new one holds the account. -/
theorem update_rename (env : Env H) (a : Account H) (n : Login) (st : State H) (old : Account H)
    (ha : LegalLogin a.login) (hn : LegalLogin n) (hne : a.login ≠ n) (hfree : st.mem.get n = none)
    (hd : st.disk.get (a.login ++ yamlExt) = some old) (hlen : (n ++ yamlExt).length ≤ env.nameMax) :
    ∃ st', update env a n st = (true, st') ∧
      (∀ k, st'.mem.get k = if k = n then some { a with login := n } else if k = a.login then none else st.mem.get k) ∧
      (∀ f, st'.disk.get f = if f = n ++ yamlExt then some { a with login := n }
                              else if f = a.login ++ yamlExt then none else st.disk.get f) := by
  unfold update
  rw [if_pos hne, hfree, fileU_legal ha, fileU_legal hn]
  simp only [Option.isSome_none, Bool.false_eq_true, if_false]
  rw [hd]
  dsimp only
  rw [nameOK_legal env hn hlen]
  refine ⟨_, by simp; rfl, ?_, ?_⟩
  · intro k
    simp only [AMap.get_set, AMap.get_del]
    by_cases e : k = n <;> simp [e]
  · intro f
    simp only [AMap.get_set, AMap.get_del]
    by_cases e : f = n ++ yamlExt <;> simp [e]

end Mobius.Accounts
