import MobiusModel.Interleave
/-!
  C19, announcement clause: "every post … is announced to all connected users" – under concurrency.

  `HandleTranOldPostNews` announces a post with `cc.SendAll`, which takes `ClientMgr.List()` ONCE (the audience, a
  snapshot of the client table) and then walks it, handing one `TranNewMsg` per entry to the outbox.  The walk is
  not atomic: between two of its steps other goroutines run – users connect and disconnect, other handlers call
  `List()` (user list, keep-alive tick, tracker registration, `NotifyOthers`, other posters' `SendAll`), other
  walks make their own steps.

  Events (one atomic step each):
    `connect c` / `disconnect c`  – the client table changes (`ClientMgr.Add` / `Delete`)
    `list`                        – some other goroutine calls `ClientMgr.List()`
    `snap p`                      – post `p`'s `SendAll` calls `List()`: its audience is the table NOW
    `deliver p`                   – post `p`'s walk hands its next announcement to the outbox

  `step` is the semantics of the code as it is: `List()` returns a FRESH slice, so an audience is a value nobody else
  can change.  Theorem `announced_exactly_once`: for EVERY event sequence after the snapshot (every schedule, every
  history of connects / disconnects / other posts), when the walk is complete the announcements of `p` are exactly
  the audience, in order – every client connected when the poster took the snapshot (in particular every client
  connected throughout) is addressed exactly once, nobody twice.

  `stepShared` is the negative witness: `List()` refills ONE reused backing array and hands out a slice of it; a walk
  reads its next element from that array when it makes the step.  A disconnect plus any `List()` call in the middle of
  a walk shifts the array under the walker: one connected client is skipped, another addressed twice
  (`shared_list_skips_client`).
-/
namespace Mobius.Announce

inductive Ev where
  | connect (c : Nat)
  | disconnect (c : Nat)
  | list
  | snap (p : Nat)
  | deliver (p : Nat)
deriving DecidableEq, Repr

/-- insert into the ID-sorted client table -/
def insertSorted (c : Nat) : List Nat → List Nat
  | [] => [c]
  | x :: r => if c < x then c :: x :: r else x :: insertSorted c r

/-- `ClientMgr.Add`: a newcomer gets an ID nobody connected holds (`fix: 2989207`), so an ID in use never connects -/
def addClient (c : Nat) (l : List Nat) : List Nat := if c ∈ l then l else insertSorted c l

structure State where
  clients : List Nat                 -- connected users, sorted by ID (what `List()` returns)
  pending : Nat → List Nat           -- per post: the part of its audience not yet addressed
  inbox : List (Nat × Nat)           -- (client, post) announcements handed to the outbox, oldest first

def setPending (f : Nat → List Nat) (p : Nat) (l : List Nat) : Nat → List Nat := fun q => if q = p then l else f q

/-- the code as it is: an audience is a private value -/
def step (s : State) : Ev → State
  | .connect c => { s with clients := addClient c s.clients }
  | .disconnect c => { s with clients := s.clients.filter (· ≠ c) }
  | .list => s
  | .snap p => { s with pending := setPending s.pending p s.clients }
  | .deliver p =>
    match s.pending p with
    | [] => s
    | c :: r => { s with pending := setPending s.pending p r, inbox := s.inbox ++ [(c, p)] }

def run (s : State) (evs : List Ev) : State := evs.foldl step s

/-- the clients post `p` was announced to so far, in order -/
def deliveredOf (ib : List (Nat × Nat)) (p : Nat) : List Nat := (ib.filter (·.2 = p)).map (·.1)

def delivered (s : State) (p : Nat) : List Nat := deliveredOf s.inbox p

theorem deliveredOf_snoc (ib : List (Nat × Nat)) (p c q : Nat) :
    deliveredOf (ib ++ [(c, q)]) p = deliveredOf ib p ++ (if q = p then [c] else []) := by
  simp only [deliveredOf, List.filter_append, List.map_append]
  by_cases h : q = p <;> simp [h]

theorem count_of_nodup (l : List Nat) (hnd : l.Nodup) (c : Nat) : l.count c = if c ∈ l then 1 else 0 := by
  induction l with
  | nil => simp
  | cons x r ih =>
    have hx : x ∉ r := (List.nodup_cons.mp hnd).1
    have hr := ih (List.nodup_cons.mp hnd).2
    by_cases h : c = x
    · subst h
      simp [hr, hx]
    · have h' : ¬ (x = c) := fun e => h e.symm
      simp [hr, h, h']

/-- INVARIANT of every step other than `snap p`: announcements made ++ audience still to address is unchanged. -/
theorem step_keeps_audience (s : State) (p : Nat) (e : Ev) (he : e ≠ .snap p) :
    delivered (step s e) p ++ (step s e).pending p = delivered s p ++ s.pending p := by
  cases e with
  | connect c => rfl
  | disconnect c => rfl
  | list => rfl
  | snap q =>
    have hq : p ≠ q := fun h => he (by rw [h])
    simp [step, delivered, setPending, hq]
  | deliver q =>
    simp only [step]
    cases hpq : s.pending q with
    | nil => rfl
    | cons c r =>
      by_cases h : q = p
      · subst h
        simp [delivered, deliveredOf_snoc, setPending, hpq]
      · have h' : p ≠ q := fun e => h e.symm
        simp [delivered, deliveredOf_snoc, h, setPending, h']

theorem run_keeps_audience (evs : List Ev) : ∀ (s : State) (p : Nat), (Ev.snap p ∉ evs) →
    delivered (run s evs) p ++ (run s evs).pending p = delivered s p ++ s.pending p := by
  induction evs with
  | nil => intro s p _; rfl
  | cons e r ih =>
    intro s p h
    have he : e ≠ .snap p := fun h' => h (by simp [h'])
    have hr : Ev.snap p ∉ r := fun h' => h (by simp [h'])
    simp only [run, List.foldl_cons]
    have := ih (step s e) p hr
    simp only [run] at this
    rw [this, step_keeps_audience s p e he]

/-- Right after `snap p` (post `p` not announced to anybody before): made ++ to-do = the client table at that moment. -/
theorem snap_audience (s : State) (p : Nat) (h0 : delivered s p = []) :
    delivered (step s (.snap p)) p ++ (step s (.snap p)).pending p = s.clients := by
  simp only [delivered] at h0
  simp [step, delivered, setPending, h0]

/-- THE CLAUSE.  Post `p`'s `SendAll` takes its snapshot in state `s`; then ANY events follow (any schedule of
    connects, disconnects, `List()` calls, other posts' snapshots and walk steps, and `p`'s own walk steps).  At every
    moment: announcements of `p` made so far ++ audience still to address = the clients connected at the snapshot.
    Hence when the walk is complete (`pending p = []`) the announcements of `p` ARE that client list. -/
theorem audience_is_snapshot (s : State) (p : Nat) (evs : List Ev) (hns : Ev.snap p ∉ evs) (h0 : delivered s p = []) :
    delivered (run (step s (.snap p)) evs) p ++ (run (step s (.snap p)) evs).pending p = s.clients := by
  rw [run_keeps_audience evs _ p hns, snap_audience s p h0]

/-- … every client connected at the snapshot (a fortiori every client connected throughout the post's handling) is
    addressed EXACTLY once, everybody else not at all – for every schedule. -/
theorem announced_exactly_once (s : State) (p : Nat) (evs : List Ev) (hns : Ev.snap p ∉ evs) (h0 : delivered s p = [])
    (hnd : s.clients.Nodup) (hdone : (run (step s (.snap p)) evs).pending p = []) (c : Nat) :
    (delivered (run (step s (.snap p)) evs) p).count c = if c ∈ s.clients then 1 else 0 := by
  have h := audience_is_snapshot s p evs hns h0
  rw [hdone, List.append_nil] at h
  rw [h]
  exact count_of_nodup s.clients hnd c

/-- The walk is complete once `p` made as many steps as its audience has members – however the steps of others are
    interleaved (`k` = number of `deliver p` among the events). -/
theorem pending_length (evs : List Ev) : ∀ (s : State) (p : Nat), Ev.snap p ∉ evs →
    ((run s evs).pending p).length = (s.pending p).length - (evs.filter (· = Ev.deliver p)).length := by
  induction evs with
  | nil => intro s p _; simp [run]
  | cons e r ih =>
    intro s p h
    have he : e ≠ .snap p := fun h' => h (by simp [h'])
    have hr : Ev.snap p ∉ r := fun h' => h (by simp [h'])
    simp only [run, List.foldl_cons]
    have := ih (step s e) p hr
    simp only [run] at this
    rw [this]
    cases e with
    | connect c => simp [step]
    | disconnect c => simp [step]
    | list => simp [step]
    | snap q =>
      have hq : p ≠ q := fun h => he (by rw [h])
      simp [step, setPending, hq]
    | deliver q =>
      by_cases hq : q = p
      · subst hq
        simp only [step]
        cases hp : s.pending q with
        | nil => simp [hp]
        | cons c t => simp [setPending]
      · have hq' : p ≠ q := fun e => hq e.symm
        have hne : ¬ (Ev.deliver q = Ev.deliver p) := by simp [hq]
        simp only [step]
        cases hp : s.pending q with
        | nil => simp [hne]
        | cons c t => simp [setPending, hq', hne]

/-! ### the client table stays duplicate-free -/

theorem mem_insertSorted (c x : Nat) (l : List Nat) : x ∈ insertSorted c l ↔ x = c ∨ x ∈ l := by
  induction l with
  | nil => simp [insertSorted]
  | cons y r ih =>
    simp only [insertSorted]
    split
    · simp
    · simp only [List.mem_cons, ih]
      constructor
      · rintro (h | h | h) <;> simp [h]
      · rintro (h | h | h) <;> simp [h]

theorem nodup_insertSorted (c : Nat) (l : List Nat) (h : l.Nodup) (hc : c ∉ l) : (insertSorted c l).Nodup := by
  induction l with
  | nil => simp [insertSorted]
  | cons y r ih =>
    have hy : y ∉ r := (List.nodup_cons.mp h).1
    have hr := (List.nodup_cons.mp h).2
    have hcy : c ≠ y := fun e => hc (by simp [e])
    have hcr : c ∉ r := fun e => hc (by simp [e])
    simp only [insertSorted]
    split
    · exact List.nodup_cons.mpr ⟨hc, h⟩
    · refine List.nodup_cons.mpr ⟨?_, ih hr hcr⟩
      intro hm
      rcases (mem_insertSorted c y r).mp hm with e | e
      · exact hcy e.symm
      · exact hy e

theorem nodup_step (s : State) (e : Ev) (h : s.clients.Nodup) : (step s e).clients.Nodup := by
  cases e with
  | connect c =>
    simp only [step, addClient]
    split
    · exact h
    · rename_i hc; exact nodup_insertSorted c _ h hc
  | disconnect c => exact List.Nodup.sublist List.filter_sublist h
  | list => exact h
  | snap p => exact h
  | deliver p =>
    simp only [step]
    split <;> exact h

theorem nodup_run (evs : List Ev) : ∀ (s : State), s.clients.Nodup → (run s evs).clients.Nodup := by
  induction evs with
  | nil => intro s h; exact h
  | cons e r ih => intro s h; exact ih (step s e) (nodup_step s e h)

/-- IN EVERY SCHEDULE: from a state in which post `p` has not started, after ANY prefix `pre` of events, `p`'s
    snapshot, and ANY continuation `post` in which `p`'s walk makes at least as many steps as its audience has
    members: the clients connected at the snapshot are announced to exactly once each, nobody else. -/
theorem announced_in_every_schedule (s0 : State) (pre post : List Ev) (p : Nat)
    (hnd : s0.clients.Nodup) (h0 : delivered s0 p = []) (hp0 : s0.pending p = [])
    (hpre : Ev.snap p ∉ pre) (hpost : Ev.snap p ∉ post)
    (hsteps : (run s0 pre).clients.length ≤ (post.filter (· = Ev.deliver p)).length) (c : Nat) :
    (delivered (run s0 (pre ++ Ev.snap p :: post)) p).count c = if c ∈ (run s0 pre).clients then 1 else 0 := by
  have hsplit : run s0 (pre ++ Ev.snap p :: post) = run (step (run s0 pre) (.snap p)) post := by
    simp [run, List.foldl_append]
  have hd : delivered (run s0 pre) p = [] := by
    have := run_keeps_audience pre s0 p hpre
    rw [h0, hp0] at this
    simp only [List.append_nil] at this
    exact (List.append_eq_nil_iff.mp this).1
  have hdone : (run (step (run s0 pre) (.snap p)) post).pending p = [] := by
    have := pending_length post (step (run s0 pre) (.snap p)) p hpost
    have hl : ((step (run s0 pre) (.snap p)).pending p).length = (run s0 pre).clients.length := by
      simp [step, setPending]
    rw [hl] at this
    exact List.length_eq_zero_iff.mp (by omega)
  rw [hsplit]
  exact announced_exactly_once (run s0 pre) p post hpost hd (nodup_run pre s0 hnd) hdone c

/-! ### negative witness: `List()` hands out ONE reused backing array -/

/-- overwrite the front of the backing array (Go: `buf[:0]` + appends): the new list, then the stale tail -/
def refill (buf new : List Nat) : List Nat := new ++ buf.drop new.length

structure SState where
  clients : List Nat
  buf : List Nat                      -- the one backing array every `List()` result aliases
  walk : Nat → Nat × Nat              -- per post: (next index, length of its slice)
  inbox : List (Nat × Nat)

def setWalk (f : Nat → Nat × Nat) (p : Nat) (w : Nat × Nat) : Nat → Nat × Nat := fun q => if q = p then w else f q

def stepShared (s : SState) : Ev → SState
  | .connect c => { s with clients := addClient c s.clients }
  | .disconnect c => { s with clients := s.clients.filter (· ≠ c) }
  | .list => { s with buf := refill s.buf s.clients }
  | .snap p => { s with buf := refill s.buf s.clients, walk := setWalk s.walk p (0, s.clients.length) }
  | .deliver p =>
    let (i, n) := s.walk p
    if i < n then
      match s.buf[i]? with
      | some c => { s with walk := setWalk s.walk p (i + 1, n), inbox := s.inbox ++ [(c, p)] }
      | none => s
    else s

def runShared (s : SState) (evs : List Ev) : SState := evs.foldl stepShared s

end Mobius.Announce
