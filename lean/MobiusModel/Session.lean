import MobiusModel.Scan
import MobiusModel.WireLemmas
import MobiusModel.BanGate
/-!
  Session: `Server.handleNewConnection` (hotline/server.go) as a function of the client's byte
  stream, given as the list of chunks the connection's `Read` calls return, followed by EOF.

      handshake: io.ReadFull of 12 bytes → size / protocol check → 8-byte reply
      → ban gate (BanGate.refused) → bufio.Scanner with transactionScanner: first token
      → Transaction.Write → account lookup (empty login = "guest") + password check
      → [logged in] registration, login reply … → loop over the remaining tokens, each decoded and
        handed to the dispatcher, until the scanner stops or a token does not decode
      → deferred Disconnect.

  What the model does not contain is a parameter: the password check (`verify`, bcrypt), the account
  table, the ban store, the instant of the connection, the random id of the ban notice, and the
  three places where a *logged-in* session touches the rest of the server (`onLogin`, `handle`,
  `onDisconnect`), each a state transformer on an abstract world `W` emitting outputs `O`.
  Before a successful login none of the three is ever invoked — that is the content of C04.

  Also here: `readFull` (what `io.ReadFull` delivers from a chunked stream) and the transfer
  connection's 16-byte preamble (`handleFileTransfer`).
-/
set_option linter.unusedVariables false
namespace Mobius

-- ---------------------------------------------------------------- io.ReadFull on a chunked stream

/-- `io.ReadFull(r, buf[:n])` on a stream whose successive `Read`s return the given chunks and
    then EOF: the bytes delivered (fewer than `n` only if EOF came first) and the chunks left
    unread (a `Read` never returns more than was asked for; the rest of a chunk stays queued). -/
def readFull : List Bytes → Nat → Bytes × List Bytes
  | [], _ => ([], [])
  | c :: cs, n =>
    if n = 0 then ([], c :: cs)
    else if c.length ≤ n then
      let r := readFull cs (n - c.length)
      (c ++ r.1, r.2)
    else (c.take n, c.drop n :: cs)

/-- `readFull` depends only on the concatenated stream: it delivers its first `n` bytes and
    leaves the rest. -/
theorem readFull_spec (chunks : List Bytes) (n : Nat) :
    (readFull chunks n).1 = chunks.flatten.take n ∧ (readFull chunks n).2.flatten = chunks.flatten.drop n := by
  induction chunks generalizing n with
  | nil => simp [readFull]
  | cons c cs ih =>
    unfold readFull
    by_cases h0 : n = 0
    · subst h0; simp
    · simp only [h0, if_false]
      by_cases hle : c.length ≤ n
      · simp only [hle, if_true, List.flatten_cons]
        obtain ⟨ih1, ih2⟩ := ih (n - c.length)
        constructor
        · rw [ih1, List.take_append, List.take_of_length_le hle]
        · rw [ih2, List.drop_append, List.drop_of_length_le hle, List.nil_append]
      · simp only [hle, if_false, List.flatten_cons]
        have hz : n - c.length = 0 := by omega
        constructor
        · rw [List.take_append, hz]; simp
        · rw [List.drop_append, hz]; simp

-- ---------------------------------------------------------------- pieces of the login

/-- `Transaction.GetField`: the first field with that id, or an empty field. -/
def getField (t : Transaction) (id : Nat) : Field :=
  (t.fields.find? (fun f => f.ty == id)).getD ⟨0, []⟩

/-- "guest" -/
def guestLogin : Bytes := [103, 117, 101, 115, 116]

/-- The account a login transaction names: field 105 de-obfuscated, empty meaning guest. -/
def loginOf (t : Transaction) : Bytes :=
  let l := obfuscate (getField t 105).data
  if l = [] then guestLogin else l

/-- The password bytes handed to bcrypt: field 106 as sent. -/
def pwOf (t : Transaction) : Bytes := (getField t 106).data

/-- "Incorrect login." -/
def incorrectLogin : Bytes := [73, 110, 99, 111, 114, 114, 101, 99, 116, 32, 108, 111, 103, 105, 110, 46]

/-- `NewErrReply(&clientLogin, "Incorrect login.")`: reply flag, the login's id, error code 1, field 100. -/
def errReply (id : Nat) : Transaction := ⟨0, 1, 0, id, 1, [⟨100, incorrectLogin⟩]⟩

/-- "You are permanently banned on this server" -/
def permBanMsg : Bytes :=
  [89, 111, 117, 32, 97, 114, 101, 32, 112, 101, 114, 109, 97, 110, 101, 110, 116, 108, 121, 32, 98, 97, 110, 110, 101, 100,
   32, 111, 110, 32, 116, 104, 105, 115, 32, 115, 101, 114, 118, 101, 114]

/-- "You are temporarily banned on this server" -/
def tempBanMsg : Bytes :=
  [89, 111, 117, 32, 97, 114, 101, 32, 116, 101, 109, 112, 111, 114, 97, 114, 105, 108, 121, 32, 98, 97, 110, 110, 101, 100,
   32, 111, 110, 32, 116, 104, 105, 115, 32, 115, 101, 114, 118, 101, 114]

/-- `sendBanMessage`: server message (104) with a random id, data (101) and chat options (109) = 0. -/
def banNotice (id : Nat) (permanent : Bool) : Transaction :=
  ⟨0, 0, 104, id, 0, [⟨101, if permanent then permBanMsg else tempBanMsg⟩, ⟨109, [0, 0]⟩]⟩

/-- The guest fallback applies to the empty login only. -/
theorem loginOf_empty (t : Transaction) (h : (getField t 105).data = []) : loginOf t = guestLogin := by
  simp [loginOf, h, obfuscate]

theorem loginOf_nonempty (t : Transaction) (h : (getField t 105).data ≠ []) :
    loginOf t = obfuscate (getField t 105).data := by
  have : obfuscate (getField t 105).data ≠ [] := by
    simpa [obfuscate] using h
  simp [loginOf, this]

-- ---------------------------------------------------------------- the session

namespace Session

/-- Everything `handleNewConnection` reads that is not the client's bytes. -/
structure Env (W O : Type) where
  /-- `bcrypt.CompareHashAndPassword(hash, password) == nil` -/
  verify : Bytes → Bytes → Bool
  /-- `AccountManager.Get(login)`: the stored password hash, `none` = no such account -/
  accts : Bytes → Option Bytes
  bans : BanGate.Store
  /-- `remoteAddr` -/
  addr : Bytes
  /-- `time.Now()` at the ban check -/
  now : Nat
  /-- the random transaction id of a ban notice -/
  noticeId : Nat
  /-- registration, login reply, access, agreement, user-joined notifications -/
  onLogin : W → Bytes → Transaction → W × List O
  /-- `handleTransaction` -/
  handle : W → Transaction → W × List O
  /-- the deferred `Disconnect` -/
  onDisconnect : W → W × List O

inductive EndReason where
  | eof            -- the client closed the stream (a trailing partial transaction is dropped)
  | tooLong        -- a transaction does not fit the scanner's 64 KiB buffer: the loop ends
  | noProgress     -- the split function yielded a token without advancing (not reachable for transactionScanner: the empty token fails to decode first)
  | decodeErr      -- `Transaction.Write` returned an error
  | decodePanic    -- `Transaction.Write` panicked (recovered by dontPanic)
deriving DecidableEq, Repr

def EndReason.ofStatus : Scan.Status → EndReason
  | .eof => .eof
  | .tooLong => .tooLong
  | .noProgress => .noProgress

inductive Outcome where
  | hsShort                      -- fewer than 12 bytes before EOF
  | hsInvalid                    -- 12 bytes that do not start with TRTP HOTL
  | banned (permanent : Bool)
  | loginUndecodable             -- no first token, or `Transaction.Write` rejected it
  | loginPanic                   -- `Transaction.Write` panicked on the first token
  | loginRejected                -- no such account / wrong password: error reply, return
  | ended (why : EndReason)      -- logged in; how the transaction loop ended
deriving DecidableEq, Repr

structure Result (W O : Type) where
  outcome : Outcome
  /-- bytes `handleNewConnection` itself writes to the peer (everything a logged-in client is sent
      afterwards goes through the outbox and is part of `outs`) -/
  toPeer : Bytes
  loggedIn : Bool
  /-- the login transaction, when one was decoded -/
  loginTran : Option Transaction
  /-- the transactions handed to `handleTransaction`, in order -/
  dispatched : List Transaction
  world : W
  /-- everything emitted towards the rest of the server (registry changes, replies queued on the
      outbox, notifications to other clients) -/
  outs : List O

structure LoopRes (W O : Type) where
  world : W
  outs : List O
  dispatched : List Transaction
  why : EndReason

/-- The transaction loop over the tokens the scanner delivers after the login. -/
def loop {W O : Type} (handle : W → Transaction → W × List O) (w : W) (st : Scan.Status) :
    List Bytes → LoopRes W O
  | [] => ⟨w, [], [], EndReason.ofStatus st⟩
  | tok :: rest =>
    match Transaction.decode tok with
    | .ok t =>
      let r := loop handle (handle w t).1 st rest
      ⟨r.world, (handle w t).2 ++ r.outs, t :: r.dispatched, r.why⟩
    | .err => ⟨w, [], [], .decodeErr⟩
    | .panic => ⟨w, [], [], .decodePanic⟩

/-- `Authenticate(login, password)`. -/
def authenticate {W O : Type} (env : Env W O) (t : Transaction) : Bool :=
  match env.accts (loginOf t) with
  | some h => env.verify h (pwOf t)
  | none => false

/-- From the first scanner token on (`sc` = everything the scanner will deliver on this stream). -/
def afterGate {W O : Type} (env : Env W O) (w : W) (sc : Scan.Result) : Result W O :=
  match Transaction.decode (sc.tokens.headD []) with
  | .err => ⟨.loginUndecodable, handshakeReply, false, none, [], w, []⟩
  | .panic => ⟨.loginPanic, handshakeReply, false, none, [], w, []⟩
  | .ok t =>
    if authenticate env t then
      let l := env.onLogin w (loginOf t) t
      let r := loop env.handle l.1 sc.status sc.tokens.tail
      let d := env.onDisconnect r.world
      ⟨.ended r.why, handshakeReply, true, some t, r.dispatched, d.1, l.2 ++ r.outs ++ d.2⟩
    else
      ⟨.loginRejected, handshakeReply ++ (errReply t.id).encode, false, some t, [], w, []⟩

/-- The connection from the 12 bytes `io.ReadFull` delivered (`hs`) on; the scanner is only
    created (`sc ()`) when the gate lets the connection through. -/
def core {W O : Type} (env : Env W O) (w : W) (hs : Bytes) (sc : Unit → Scan.Result) : Result W O :=
  if hs.length ≠ 12 then ⟨.hsShort, [], false, none, [], w, []⟩
  else if handshakeValid hs = false then ⟨.hsInvalid, [], false, none, [], w, []⟩
  else if BanGate.refused env.bans (BanGate.ipOf env.addr) env.now then
    let p := BanGate.permanent env.bans (BanGate.ipOf env.addr)
    ⟨.banned p, handshakeReply ++ (banNotice env.noticeId p).encode, false, none, [], w, []⟩
  else afterGate env w (sc ())

/-- `handleNewConnection` on a stream delivered as `chunks` (then EOF): operational — `io.ReadFull`
    over the chunks, then `bufio.Scanner` over what is left of them. -/
def run {W O : Type} (env : Env W O) (w : W) (chunks : List Bytes) : Result W O :=
  core env w (readFull chunks 12).1 (fun _ => Scan.scan Scan.tranScanner maxTok [] (readFull chunks 12).2)

/-- The same on the concatenated stream: the specification `run` is proved equal to. -/
def runStream {W O : Type} (env : Env W O) (w : W) (s : Bytes) : Result W O :=
  core env w (s.take 12) (fun _ => Scan.tokensOf Scan.tranScanner maxTok (s.drop 12))

/-- The operational run is a function of the concatenated stream only. -/
theorem run_eq_runStream {W O : Type} (env : Env W O) (w : W) (chunks : List Bytes) :
    run env w chunks = runStream env w chunks.flatten := by
  unfold run runStream
  obtain ⟨h1, h2⟩ := readFull_spec chunks 12
  rw [h1]
  congr 1
  funext _
  rw [Scan.scan_eq_tokensOf Scan.tranScanner Scan.tranScanner_pd maxTok [] _ (by simp), List.nil_append, h2]

-- ---------------------------------------------------------------- the login gate (C04)

/-- The first token the scanner yields on the bytes after the handshake ([] when there is none). -/
def firstToken (s : Bytes) : Bytes := (Scan.tokensOf Scan.tranScanner maxTok (s.drop 12)).tokens.headD []

/-- The condition under which a connection is logged in, on the raw stream. -/
def LoginCond {W O : Type} (env : Env W O) (s : Bytes) : Prop :=
  (s.take 12).length = 12 ∧ handshakeValid (s.take 12) = true ∧
  BanGate.refused env.bans (BanGate.ipOf env.addr) env.now = false ∧
  ∃ t, Transaction.decode (firstToken s) = .ok t ∧
    ∃ h, env.accts (loginOf t) = some h ∧ env.verify h (pwOf t) = true

theorem authenticate_iff {W O : Type} (env : Env W O) (t : Transaction) :
    authenticate env t = true ↔ ∃ h, env.accts (loginOf t) = some h ∧ env.verify h (pwOf t) = true := by
  unfold authenticate
  cases hl : env.accts (loginOf t) with
  | none => simp
  | some h => simp

theorem afterGate_loggedIn_iff {W O : Type} (env : Env W O) (w : W) (sc : Scan.Result) :
    (afterGate env w sc).loggedIn = true ↔
      ∃ t, Transaction.decode (sc.tokens.headD []) = .ok t ∧ authenticate env t = true := by
  unfold afterGate
  cases hd : Transaction.decode (sc.tokens.headD []) with
  | err => simp
  | panic => simp
  | ok t =>
    by_cases ha : authenticate env t = true
    · simp [ha]
    · simp [ha]

theorem core_loggedIn_iff {W O : Type} (env : Env W O) (w : W) (hs : Bytes) (sc : Unit → Scan.Result) :
    (core env w hs sc).loggedIn = true ↔
      hs.length = 12 ∧ handshakeValid hs = true ∧
      BanGate.refused env.bans (BanGate.ipOf env.addr) env.now = false ∧
      ∃ t, Transaction.decode ((sc ()).tokens.headD []) = .ok t ∧ authenticate env t = true := by
  unfold core
  by_cases h1 : hs.length = 12
  · by_cases h2 : handshakeValid hs = true
    · by_cases h3 : BanGate.refused env.bans (BanGate.ipOf env.addr) env.now = true
      · simp [h1, h2, h3]
      · have h3' : BanGate.refused env.bans (BanGate.ipOf env.addr) env.now = false := by
          simpa using h3
        simp [h1, h2, h3', afterGate_loggedIn_iff]
    · have h2' : handshakeValid hs = false := by simpa using h2
      simp [h1, h2']
  · simp [h1]

theorem runStream_loggedIn_iff {W O : Type} (env : Env W O) (w : W) (s : Bytes) :
    (runStream env w s).loggedIn = true ↔ LoginCond env s := by
  unfold runStream LoginCond firstToken
  rw [core_loggedIn_iff]
  constructor
  · rintro ⟨a, b, c, t, ht, hau⟩
    exact ⟨a, b, c, t, ht, (authenticate_iff env t).mp hau⟩
  · rintro ⟨a, b, c, t, ht, hau⟩
    exact ⟨a, b, c, t, ht, (authenticate_iff env t).mpr hau⟩

/-- What a connection that is not logged in may have been sent, and that nothing else happened. -/
def Inert {W O : Type} (env : Env W O) (w : W) (r : Result W O) : Prop :=
  (r.toPeer = [] ∨ r.toPeer = handshakeReply ∨
   (∃ t, r.loginTran = some t ∧ r.toPeer = handshakeReply ++ (errReply t.id).encode) ∨
   (∃ p, r.toPeer = handshakeReply ++ (banNotice env.noticeId p).encode)) ∧
  r.world = w ∧ r.outs = [] ∧ r.dispatched = []

theorem afterGate_inert {W O : Type} (env : Env W O) (w : W) (sc : Scan.Result)
    (h : (afterGate env w sc).loggedIn = false) : Inert env w (afterGate env w sc) := by
  unfold afterGate at h ⊢
  cases hd : Transaction.decode (sc.tokens.headD []) with
  | err => simp [Inert]
  | panic => simp [Inert]
  | ok t =>
    rw [hd] at h
    by_cases ha : authenticate env t = true
    · simp [ha] at h
    · simp only [ha, Inert]
      refine ⟨Or.inr (Or.inr (Or.inl ⟨t, rfl, rfl⟩)), rfl, rfl, rfl⟩

theorem core_inert {W O : Type} (env : Env W O) (w : W) (hs : Bytes) (sc : Unit → Scan.Result)
    (h : (core env w hs sc).loggedIn = false) : Inert env w (core env w hs sc) := by
  unfold core at h ⊢
  by_cases h1 : hs.length ≠ 12
  · simp [h1, Inert]
  · simp only [h1, if_false] at h ⊢
    by_cases h2 : handshakeValid hs = false
    · simp [h2, Inert]
    · simp only [h2] at h ⊢
      by_cases h3 : BanGate.refused env.bans (BanGate.ipOf env.addr) env.now = true
      · simp only [h3, if_true, Inert]
        refine ⟨Or.inr (Or.inr (Or.inr ⟨_, rfl⟩)), rfl, rfl, rfl⟩
      · simp only [h3] at h ⊢
        exact afterGate_inert env w (sc ()) h

/-- The error reply carries the id of the transaction that was decoded from the first token. -/
theorem afterGate_loginTran {W O : Type} (env : Env W O) (w : W) (sc : Scan.Result) (t : Transaction)
    (h : (afterGate env w sc).loginTran = some t) : Transaction.decode (sc.tokens.headD []) = .ok t := by
  unfold afterGate at h
  cases hd : Transaction.decode (sc.tokens.headD []) with
  | err => rw [hd] at h; simp at h
  | panic => rw [hd] at h; simp at h
  | ok u =>
    rw [hd] at h
    by_cases ha : authenticate env u = true
    · simp [ha] at h; rw [h]
    · simp [ha] at h; rw [h]

/-- Before a successful login the scanner is consulted for its first token only: two token
    sequences with the same head give the same (unauthenticated) result. -/
theorem afterGate_unauth_head {W O : Type} (env : Env W O) (w : W) (sc1 sc2 : Scan.Result)
    (hh : sc1.tokens.headD [] = sc2.tokens.headD [])
    (h : (afterGate env w sc1).loggedIn = false) : afterGate env w sc1 = afterGate env w sc2 := by
  unfold afterGate at h ⊢
  rw [← hh]
  cases hd : Transaction.decode (sc1.tokens.headD []) with
  | err => rfl
  | panic => rfl
  | ok t =>
    rw [hd] at h
    by_cases ha : authenticate env t = true
    · simp [ha] at h
    · simp only [ha]
      rfl

theorem core_unauth_head {W O : Type} (env : Env W O) (w : W) (hs : Bytes) (sc1 sc2 : Unit → Scan.Result)
    (hh : (sc1 ()).tokens.headD [] = (sc2 ()).tokens.headD [])
    (h : (core env w hs sc1).loggedIn = false) : core env w hs sc1 = core env w hs sc2 := by
  unfold core at h ⊢
  by_cases h1 : hs.length ≠ 12
  · simp [h1]
  · simp only [h1, if_false] at h ⊢
    by_cases h2 : handshakeValid hs = false
    · simp [h2]
    · simp only [h2] at h ⊢
      by_cases h3 : BanGate.refused env.bans (BanGate.ipOf env.addr) env.now = true
      · simp [h3]
      · simp only [h3] at h ⊢
        exact afterGate_unauth_head env w (sc1 ()) (sc2 ()) hh h

-- ---------------------------------------------------------------- tokens of a well-formed stream

/-- `transactionScanner` on data that starts with an emitted transaction yields exactly it. -/
theorem tranScanner_encode (t : Transaction) (hp : t.payloadSize + 20 < 4294967296) (rest : Bytes) :
    Scan.tranScanner (t.encode ++ rest) = .token t.encode.length t.encode := by
  have hl := Transaction.encode_length t
  unfold Scan.tranScanner
  rw [Transaction.drop12, rd32_be32_append]
  have e1 : t.payloadSize % 4294967296 = t.payloadSize := by omega
  have e2 : (20 + t.payloadSize) % 4294967296 = 20 + t.payloadSize := by omega
  rw [e1, e2]
  have c1 : ¬ ((t.encode ++ rest).length < 16) := by simp; omega
  have c2 : ¬ (20 + t.payloadSize > (t.encode ++ rest).length) := by simp; omega
  simp only [c1, c2, if_false]
  rw [← hl]; simp

/-- A transaction that fits the scanner's buffer is the first token of any stream it starts. -/
theorem tokensOf_encode_cons (t : Transaction) (hp : t.payloadSize + 20 < 4294967296)
    (hfit : t.encode.length ≤ maxTok) (rest : Bytes) :
    Scan.tokensOf Scan.tranScanner maxTok (t.encode ++ rest) =
      ⟨t.encode :: (Scan.tokensOf Scan.tranScanner maxTok rest).tokens,
       (Scan.tokensOf Scan.tranScanner maxTok rest).status⟩ := by
  have hl := Transaction.encode_length t
  have hps : 2 ≤ t.payloadSize := by simp [Transaction.payloadSize]
  have hw : Scan.tranScanner ((t.encode ++ rest).take maxTok) = .token t.encode.length t.encode := by
    rw [Scan.window_of_pending _ _ _ hfit]
    exact tranScanner_encode t hp _
  rw [Scan.tokensOf_token _ _ _ _ _ hw]
  have h0 : ¬ (t.encode.length = 0) := by omega
  have h1 : t.encode.length ≤ (t.encode ++ rest).length := by simp
  simp only [h0, h1, if_true, if_false, List.drop_left]

theorem tokensOf_nil : Scan.tokensOf Scan.tranScanner maxTok [] = ⟨[], .eof⟩ := by
  have hw : Scan.tranScanner (([] : Bytes).take maxTok) = .needMore := by
    simp [Scan.tranScanner]
  rw [Scan.tokensOf_needMore _ _ _ hw]
  simp [maxTok]

/-- A concatenation of emitted transactions, each fitting the buffer, is tokenised into exactly
    those transactions, and the scanner ends at EOF. -/
theorem tokensOf_encodes (ts : List Transaction)
    (h : ∀ t ∈ ts, t.payloadSize + 20 < 4294967296 ∧ t.encode.length ≤ maxTok) :
    Scan.tokensOf Scan.tranScanner maxTok (ts.map Transaction.encode).flatten =
      ⟨ts.map Transaction.encode, .eof⟩ := by
  induction ts with
  | nil => simpa using tokensOf_nil
  | cons t ts ih =>
    obtain ⟨hp, hfit⟩ := h t (by simp)
    simp only [List.map_cons, List.flatten_cons]
    rw [tokensOf_encode_cons t hp hfit, ih (fun u hu => h u (by simp [hu]))]

theorem loop_cons_ok {W O : Type} (handle : W → Transaction → W × List O) (w : W) (st : Scan.Status)
    (tok : Bytes) (rest : List Bytes) (t : Transaction) (h : Transaction.decode tok = .ok t) :
    loop handle w st (tok :: rest) =
      ⟨(loop handle (handle w t).1 st rest).world, (handle w t).2 ++ (loop handle (handle w t).1 st rest).outs,
       t :: (loop handle (handle w t).1 st rest).dispatched, (loop handle (handle w t).1 st rest).why⟩ := by
  rw [loop]
  split
  · rename_i u hu
    rw [h] at hu
    injection hu with hu
    subst hu
    rfl
  · rename_i hu; rw [h] at hu; cases hu
  · rename_i hu; rw [h] at hu; cases hu

/-- The loop over emitted transactions dispatches every one of them, in order. -/
theorem loop_encodes {W O : Type} (handle : W → Transaction → W × List O) (w : W) (st : Scan.Status)
    (ts : List Transaction) (h : ∀ t ∈ ts, t.WFdec) :
    (loop handle w st (ts.map Transaction.encode)).dispatched = ts ∧
    (loop handle w st (ts.map Transaction.encode)).why = EndReason.ofStatus st := by
  induction ts generalizing w with
  | nil => exact ⟨rfl, rfl⟩
  | cons t ts ih =>
    rw [List.map_cons, loop_cons_ok handle w st _ _ t (Transaction.decode_encode' t (h t (by simp)))]
    obtain ⟨i1, i2⟩ := ih (handle w t).1 (fun u hu => h u (by simp [hu]))
    exact ⟨by rw [i1], i2⟩

/-- A connection that passes handshake and gate continues with the scanner. -/
theorem core_pass {W O : Type} (env : Env W O) (w : W) (hs : Bytes) (sc : Unit → Scan.Result)
    (h1 : hs.length = 12) (h2 : handshakeValid hs = true)
    (h3 : BanGate.refused env.bans (BanGate.ipOf env.addr) env.now = false) :
    core env w hs sc = afterGate env w (sc ()) := by
  unfold core
  simp [h1, h2, h3]

/-- An accepted login: registration, the loop over the remaining tokens, the deferred disconnect. -/
theorem afterGate_accept {W O : Type} (env : Env W O) (w : W) (sc : Scan.Result) (t : Transaction)
    (hd : Transaction.decode (sc.tokens.headD []) = .ok t) (ha : authenticate env t = true) :
    afterGate env w sc =
      ⟨.ended (loop env.handle (env.onLogin w (loginOf t) t).1 sc.status sc.tokens.tail).why, handshakeReply, true, some t,
       (loop env.handle (env.onLogin w (loginOf t) t).1 sc.status sc.tokens.tail).dispatched,
       (env.onDisconnect (loop env.handle (env.onLogin w (loginOf t) t).1 sc.status sc.tokens.tail).world).1,
       (env.onLogin w (loginOf t) t).2 ++ (loop env.handle (env.onLogin w (loginOf t) t).1 sc.status sc.tokens.tail).outs ++
         (env.onDisconnect (loop env.handle (env.onLogin w (loginOf t) t).1 sc.status sc.tokens.tail).world).2⟩ := by
  unfold afterGate
  split
  · rename_i h; rw [hd] at h; cases h
  · rename_i h; rw [hd] at h; cases h
  · rename_i u h
    rw [hd] at h
    injection h with h
    subst h
    simp only [ha, if_true]

theorem core_loginTran {W O : Type} (env : Env W O) (w : W) (hs : Bytes) (sc : Unit → Scan.Result) (t : Transaction)
    (h : (core env w hs sc).loginTran = some t) : Transaction.decode ((sc ()).tokens.headD []) = .ok t := by
  unfold core at h
  by_cases h1 : hs.length ≠ 12
  · simp [h1] at h
  · simp only [h1, if_false] at h
    by_cases h2 : handshakeValid hs = false
    · simp [h2] at h
    · simp only [h2] at h
      by_cases h3 : BanGate.refused env.bans (BanGate.ipOf env.addr) env.now = true
      · simp [h3] at h
      · simp only [h3] at h
        exact afterGate_loginTran env w (sc ()) t h

/-- A logged-in connection was written to by the handler itself exactly once: the handshake reply. -/
theorem core_loggedIn_toPeer {W O : Type} (env : Env W O) (w : W) (hs : Bytes) (sc : Unit → Scan.Result)
    (h : (core env w hs sc).loggedIn = true) : (core env w hs sc).toPeer = handshakeReply := by
  obtain ⟨h1, h2, h3, t, ht, ha⟩ := (core_loggedIn_iff env w hs sc).mp h
  rw [core_pass env w hs sc h1 h2 h3, afterGate_accept env w (sc ()) t ht ha]

/-- A well-formed session — valid handshake, address not refused, accepted login, then emitted
    transactions that each fit the scanner's buffer — is logged in, dispatches exactly the
    transactions sent, in order, and ends at EOF. -/
theorem runStream_wellformed {W O : Type} (env : Env W O) (w : W) (hs : Bytes) (login : Transaction)
    (ts : List Transaction) (hhs : hs.length = 12) (hv : handshakeValid hs = true)
    (hb : BanGate.refused env.bans (BanGate.ipOf env.addr) env.now = false)
    (hl : login.WFdec ∧ login.encode.length ≤ maxTok)
    (hts : ∀ t ∈ ts, t.WFdec ∧ t.encode.length ≤ maxTok)
    (hauth : authenticate env login = true) :
    (runStream env w (hs ++ (login.encode ++ (ts.map Transaction.encode).flatten))).loggedIn = true ∧
    (runStream env w (hs ++ (login.encode ++ (ts.map Transaction.encode).flatten))).dispatched = ts ∧
    (runStream env w (hs ++ (login.encode ++ (ts.map Transaction.encode).flatten))).outcome = .ended .eof ∧
    (runStream env w (hs ++ (login.encode ++ (ts.map Transaction.encode).flatten))).loginTran = some login := by
  have ht : (hs ++ (login.encode ++ (ts.map Transaction.encode).flatten)).take 12 = hs := by
    rw [← hhs]; exact List.take_left
  have hd : (hs ++ (login.encode ++ (ts.map Transaction.encode).flatten)).drop 12
      = login.encode ++ (ts.map Transaction.encode).flatten := by
    rw [← hhs]; exact List.drop_left
  have htok : Scan.tokensOf Scan.tranScanner maxTok (login.encode ++ (ts.map Transaction.encode).flatten)
      = ⟨login.encode :: ts.map Transaction.encode, .eof⟩ := by
    rw [tokensOf_encode_cons login hl.1.2.2.2.2.2 hl.2,
      tokensOf_encodes ts (fun t h => ⟨(hts t h).1.2.2.2.2.2, (hts t h).2⟩)]
  obtain ⟨l1, l2⟩ := loop_encodes env.handle (env.onLogin w (loginOf login) login).1 .eof ts (fun t h => (hts t h).1)
  have hrun : runStream env w (hs ++ (login.encode ++ (ts.map Transaction.encode).flatten))
      = afterGate env w ⟨login.encode :: ts.map Transaction.encode, .eof⟩ := by
    unfold runStream
    rw [ht, core_pass env w hs _ hhs hv hb, hd, htok]
  rw [hrun, afterGate_accept env w _ login (by simpa using Transaction.decode_encode' login hl.1) hauth]
  simp only [List.tail_cons]
  refine ⟨trivial, l1, ?_, trivial⟩
  rw [l2]; rfl

-- ---------------------------------------------------------------- the ban gate inside the session (C17)

/-- A refused address: the outcome is the ban notice whatever follows the handshake — `sc` (the
    scanner, hence the login) is never consulted. -/
theorem core_refused {W O : Type} (env : Env W O) (w : W) (hs : Bytes) (sc : Unit → Scan.Result)
    (h1 : hs.length = 12) (h2 : handshakeValid hs = true)
    (h3 : BanGate.refused env.bans (BanGate.ipOf env.addr) env.now = true) :
    core env w hs sc =
      ⟨.banned (BanGate.permanent env.bans (BanGate.ipOf env.addr)),
       handshakeReply ++ (banNotice env.noticeId (BanGate.permanent env.bans (BanGate.ipOf env.addr))).encode,
       false, none, [], w, []⟩ := by
  unfold core
  simp [h1, h2, h3]

/-- An address the gate lets through is served exactly as if the ban list did not exist. -/
theorem core_not_refused {W O : Type} (env : Env W O) (w : W) (hs : Bytes) (sc : Unit → Scan.Result)
    (h3 : BanGate.refused env.bans (BanGate.ipOf env.addr) env.now = false) :
    core env w hs sc = core { env with bans := BanGate.Store.empty } w hs sc := by
  unfold core
  have he : BanGate.refused BanGate.Store.empty (BanGate.ipOf env.addr) env.now = false := rfl
  simp only [h3, he]
  rfl

-- ---------------------------------------------------------------- the account table under a rename

/-- The account table after `AccountManager.Update(account, newLogin)` with a changed login: the new
    login resolves to the (possibly re-hashed) account, the old login to nothing, every other login
    as before. -/
def renameAcct (accts : Bytes → Option Bytes) (old new newHash : Bytes) : Bytes → Option Bytes :=
  fun l => if l = new then some newHash else if l = old then none else accts l

theorem renameAcct_old (accts : Bytes → Option Bytes) (old new h : Bytes) (hne : old ≠ new) :
    renameAcct accts old new h old = none := by
  simp [renameAcct, hne]

theorem renameAcct_new (accts : Bytes → Option Bytes) (old new h : Bytes) :
    renameAcct accts old new h new = some h := by
  simp [renameAcct]

theorem renameAcct_other (accts : Bytes → Option Bytes) (old new h l : Bytes) (h1 : l ≠ old) (h2 : l ≠ new) :
    renameAcct accts old new h l = accts l := by
  simp [renameAcct, h1, h2]

/-- No account for the named login: never authenticated, whatever the password. -/
theorem authenticate_no_account {W O : Type} (env : Env W O) (t : Transaction) (h : env.accts (loginOf t) = none) :
    authenticate env t = false := by
  simp [authenticate, h]

/-- A stored hash that verifies no password: never authenticated. -/
theorem authenticate_unverifiable {W O : Type} (env : Env W O) (t : Transaction) (hh : Bytes)
    (h : env.accts (loginOf t) = some hh) (hv : env.verify hh (pwOf t) = false) : authenticate env t = false := by
  simp [authenticate, h, hv]

-- ---------------------------------------------------------------- a concrete instance (non-vacuity examples, oracle)

/-- A small concrete environment: world = number of handler invocations, outputs = ids of the
    transactions handled; accounts guest (empty password) and "ab" (password bytes [1,2]);
    `verify` = equality ("hash" = the password bytes: the assumed bcrypt behaviour). -/
def demoEnv (bans : BanGate.Store) (addr : Bytes) (now : Nat) : Env Nat Nat where
  verify := fun h p => h == p
  accts := fun l => if l = guestLogin then some [] else if l = [97, 98] then some [1, 2] else none
  bans := bans
  addr := addr
  now := now
  noticeId := 7
  onLogin := fun w _ t => (w + 1, [t.id])
  handle := fun w t => (w + 1, [t.id])
  onDisconnect := fun w => (w + 1, [0])

/-- TRTP HOTL 0001 0002 -/
def demoHandshake : Bytes := handshakeBytes 1 2

/-- guest login (empty login and password fields), id 1 -/
def demoLogin : Transaction := ⟨0, 0, 107, 1, 0, [⟨105, []⟩, ⟨106, []⟩]⟩

/-- login "ab" with the wrong password [9], id 5 -/
def demoWrongLogin : Transaction := ⟨0, 0, 107, 5, 0, [⟨105, obfuscate [97, 98]⟩, ⟨106, [9]⟩]⟩

/-- keep-alive, id 2 -/
def demoKeepAlive : Transaction := ⟨0, 0, 500, 2, 0, []⟩

end Session

-- ---------------------------------------------------------------- transfer connections

namespace TransferSession

/-- `handleFileTransfer` up to the decoded preamble: `io.ReadFull` of 16 bytes, then
    `transfer.Write` on what was delivered; also the chunks left for the transfer itself. -/
def preamble (chunks : List Bytes) : Res (Nat × Nat) × List Bytes :=
  (transferDecode (readFull chunks 16).1, (readFull chunks 16).2)

/-- The same on the concatenated stream. -/
def preambleStream (s : Bytes) : Res (Nat × Nat) × Bytes := (transferDecode (s.take 16), s.drop 16)

theorem preamble_eq (chunks : List Bytes) :
    (preamble chunks).1 = (preambleStream chunks.flatten).1 ∧
    (preamble chunks).2.flatten = (preambleStream chunks.flatten).2 := by
  obtain ⟨h1, h2⟩ := readFull_spec chunks 16
  simp [preamble, preambleStream, h1, h2]

end TransferSession

end Mobius
