import MobiusModel.GoSem
import MobiusModel.Generated.Translated
import MobiusModel.Bytes
import MobiusModel.Scan
import MobiusModel.Wire
import MobiusModel.Access
/-!
  TranslatedTies: each hand-written model function that the property theorems use EQUALS, for all
  inputs, the Lean translation of the Go function regenerated from /repo's source on every check
  (`Generated/Translated.lean`, written by `/verif/extract/gen_translate.go`; semantics of the
  translated subset in `GoSem.lean`; see docs/Translator.md).

  A semantic change of one of these Go functions changes the generated definition and the theorem
  here stops checking — a broken proof obligation, independent of any sampling.  A harmless rewrite
  (a renamed local, a comment) changes at most bound-variable names / doc comments.

  Go `int` values are `Int` on the translated side and `Nat` in the model; the statements cast.
  `.panic` on the translated side = Go run-time panic, or (slices only) a bound above the length,
  which Go accepts up to the capacity (GoSem header).
-/
set_option linter.unusedSimpArgs false
set_option linter.unusedVariables false
namespace Mobius.TranslatedTies
open Mobius Mobius.GoSem Mobius.Generated

/-! ### helper facts -/

theorem beUint32_some (d : Bytes) (h : 4 ≤ d.length) : beUint32 (some d) = .ok (UInt32.ofNat (rd32 d)) := by
  match d, h with
  | a :: b :: c :: x :: rest, _ => simp [beUint32, rd32]

theorem beUint16_some (d : Bytes) (h : 2 ≤ d.length) : beUint16 (some d) = .ok (UInt16.ofNat (rd16 d)) := by
  match d, h with
  | a :: b :: rest, _ => simp [beUint16, rd16]

theorem beUint32_short (d : Bytes) (h : d.length < 4) : beUint32 (some d) = .panic := by
  match d, h with
  | [], _ => rfl
  | [_], _ => rfl
  | [_, _], _ => rfl
  | [_, _, _], _ => rfl

theorem beUint16_short (d : Bytes) (h : d.length < 2) : beUint16 (some d) = .panic := by
  match d, h with
  | [], _ => rfl
  | [_], _ => rfl

theorem rd32_take (d : Bytes) (n : Nat) (h : 4 ≤ n) : rd32 (d.take n) = rd32 d := by
  match d, n, h with
  | [], _, _ => simp
  | [a], n+4, _ => simp [rd32]
  | [a, b], n+4, _ => simp [rd32]
  | [a, b, c], n+4, _ => simp [rd32]
  | a :: b :: c :: x :: rest, n+4, _ => simp [rd32]

theorem rd16_take (d : Bytes) (n : Nat) (h : 2 ≤ n) : rd16 (d.take n) = rd16 d := by
  match d, n, h with
  | [], _, _ => simp
  | [a], n+2, _ => simp [rd16]
  | a :: b :: rest, n+2, _ => simp [rd16]

theorem idx_headD (d : Bytes) (i : Nat) (h : i < d.length) : idx (some d) (i : Int) = .ok ((d.drop i).headD 0) := by
  rw [idx_some d i (by omega) (by simpa using h)]
  simp [List.headD_eq_head?_getD, List.head?_drop, h]

/-- `int(c + x)` in 32-bit arithmetic -/
theorem int_u32_add (c n : Nat) (hc : c < 4294967296) :
    int ((UInt32.ofNat c) + UInt32.ofNat n) = (((c + n) % 4294967296 : Nat) : Int) := by
  simp [int, GoInt.toZ, UInt32.toNat_add, UInt32.toNat_ofNat']

theorem int_u16 (n : Nat) (h : n < 65536) : int (UInt16.ofNat n) = (n : Int) := by
  simp [int, GoInt.toZ, UInt16.toNat_ofNat']; omega

theorem int_u32 (n : Nat) (h : n < 4294967296) : int (UInt32.ofNat n) = (n : Int) := by
  simp [int, GoInt.toZ, UInt32.toNat_ofNat']; omega

theorem int_u8 (x : UInt8) : int x = (x.toNat : Int) := rfl

/-! ### 1. `transactionScanner` (hotline/transaction.go) = `Scan.tranScanner` = `tranSplit` -/

/-- The translated `transactionScanner` is the model's split function, for every pending buffer
    (the 32-bit wrap of `tranHeaderLen + totalSize` included) and either value of `atEOF`. -/
theorem transactionScanner_translated (d : Bytes) (atEOF : Bool) :
    Translated.transactionScanner (some d) atEOF = .ok (match Scan.tranScanner d with
      | .needMore => (0, none, none)
      | .token adv tok => ((adv : Int), some tok, none)) := by
  unfold Translated.transactionScanner Scan.tranScanner
  by_cases h16 : d.length < 16
  · have : (d.length : Int) < 16 := by omega
    simp [h16, this]
  · have h16' : ¬ (d.length : Int) < 16 := by omega
    have hs := slice_some d 12 16 (by omega)
    have hb := beUint32_some ((d.drop 12).take 4) (by simp; omega)
    simp [h16', h16, hs, hb, rd32_take _ 4 (Nat.le_refl 4)]
    have hi := int_u32_add 20 (rd32 (d.drop 12)) (by omega)
    simp only [show UInt32.ofNat 20 = 20 from rfl] at hi
    rw [hi]
    generalize (20 + rd32 (List.drop 12 d)) % 4294967296 = n
    by_cases hn : d.length < n
    · have : (d.length : Int) < (n : Int) := by omega
      simp [hn, this]
    · have : ¬ (d.length : Int) < (n : Int) := by omega
      have hs2 := slice_some d 0 n (by omega)
      simp [hn, this, hs2]

/-- the same for the copy of the split function that the C01 stream parser uses -/
theorem transactionScanner_translated_tranSplit (d : Bytes) (atEOF : Bool) :
    Translated.transactionScanner (some d) atEOF = .ok (match tranSplit d with
      | none => (0, none, none)
      | some (adv, tok) => ((adv : Int), some tok, none)) := by
  rw [transactionScanner_translated]
  unfold Scan.tranScanner tranSplit
  by_cases h16 : d.length < 16
  · simp [h16]
  · simp only [h16, if_false]
    by_cases hn : (20 + rd32 (List.drop 12 d)) % 4294967296 > d.length <;> simp [hn]

example : Translated.transactionScanner (some ([0, 0, 0, 0, 0, 0, 0, 0, 0, 0, 0, 0] ++ be32 2 ++ be32 2 ++ [0, 0, 9])) false
    = .ok (22, some ([0, 0, 0, 0, 0, 0, 0, 0, 0, 0, 0, 0] ++ be32 2 ++ be32 2 ++ [0, 0]), none) := by decide

/-! ### 2. `FieldScanner` (hotline/field.go) = `fieldSplit` -/

theorem FieldScanner_translated (d : Bytes) (atEOF : Bool) :
    Translated.FieldScanner (some d) atEOF = .ok (match fieldSplit d with
      | none => (0, none, none)
      | some (adv, tok) => ((adv : Int), some tok, none)) := by
  unfold Translated.FieldScanner fieldSplit
  by_cases h4 : d.length < 4
  · have : (d.length : Int) < 4 := by omega
    simp [h4, this]
  · have h4' : ¬ (d.length : Int) < 4 := by omega
    have hs := slice_some d 2 4 (by omega)
    have hb := beUint16_some ((d.drop 2).take 2) (by simp; omega)
    simp [h4', h4, hs, hb, rd16_take _ 2 (Nat.le_refl 2)]
    rw [int_u16 _ (rd16_lt _)]
    have hc : (4 : Int) + ((rd16 (d.drop 2) : Nat) : Int) = ((4 + rd16 (d.drop 2) : Nat) : Int) := by omega
    rw [hc]
    generalize 4 + rd16 (List.drop 2 d) = n
    by_cases hn : d.length < n
    · have : (d.length : Int) < (n : Int) := by omega
      simp [hn, this]
    · have : ¬ (d.length : Int) < (n : Int) := by omega
      have hs2 := slice_some d 0 n (by omega)
      simp [hn, this, hs2]

example : Translated.FieldScanner (some ([0, 105] ++ be16 2 ++ [7, 8, 9])) true
    = .ok (6, some ([0, 105] ++ be16 2 ++ [7, 8]), none) := by decide

/-! ### 3. `(*AccessBitmap).IsSet` / `Set` (hotline/access.go) = `AccessBitmap.isSet` / `set` -/

private theorem shl_mask (k : Nat) (hk : k < 8) :
    shl (1 : UInt8) (uint ((7 : Int) - (k : Int))) = (1 : UInt8) <<< UInt8.ofNat (7 - k) := by
  have h : ∀ k : Nat, k < 8 → shl (1 : UInt8) (uint ((7 : Int) - (k : Int))) = (1 : UInt8) <<< UInt8.ofNat (7 - k) := by
    decide +kernel
  exact h k hk

/-- `1 << uint(7 - i%8)` as a byte is 0 for `-8 < i < 0` (Go's `%` keeps the sign: the count is 8..14) -/
private theorem shl_mask_neg (k : Nat) (hk : 0 < k ∧ k < 8) :
    shl (1 : UInt8) (uint ((7 : Int) - (-(k : Int)))) = 0 := by
  have h : ∀ k : Nat, k < 8 → 0 < k → shl (1 : UInt8) (uint ((7 : Int) - (-(k : Int)))) = 0 := by
    decide +kernel
  exact h k hk.2 hk.1

private theorem tdiv8 (i : Nat) : Int.tdiv (i : Int) 8 = ((i / 8 : Nat) : Int) := by
  rw [Int.tdiv_eq_ediv_of_nonneg (by omega)]; omega

private theorem tmod8 (i : Nat) : Int.tmod (i : Int) 8 = ((i % 8 : Nat) : Int) := by
  rw [Int.tmod_eq_emod_of_nonneg (by omega)]; omega

/-- For every bitmap and every `0 ≤ i < 64` the translated `IsSet` returns what the model's `isSet` says. -/
theorem IsSet_translated (b : AccessBitmap) (i : Nat) (hi : i < 64) :
    Translated.AccessBitmap_IsSet b.bytes (i : Int) = .ok (b.isSet i) := by
  unfold Translated.AccessBitmap_IsSet AccessBitmap.isSet AccessBitmap.byteAt AccessBitmap.bitMask
  have h8 : i / 8 < 8 := by omega
  rw [tdiv8, tmod8, arrIdx_ok _ _ h8, shl_mask _ (by omega)]
  simp [h8, bne]
  cases hx : (b.bytes[i / 8] &&& 1 <<< UInt8.ofNat (7 - i % 8) == 0) <;> simp_all

/-- For every bitmap and every `0 ≤ i < 64` the translated `Set` returns the model's `set`. -/
theorem Set_translated (b : AccessBitmap) (i : Nat) (hi : i < 64) :
    Translated.AccessBitmap_Set b.bytes (i : Int) = .ok (b.set i).bytes := by
  unfold Translated.AccessBitmap_Set AccessBitmap.set AccessBitmap.bitMask
  have h8 : i / 8 < 8 := by omega
  dsimp only
  rw [tdiv8, tmod8, arrIdx_ok _ _ h8, shl_mask _ (by omega)]
  simp only [bind_ok]
  rw [arrSet_ok _ _ _ h8]
  simp [h8]

/-- Outside the bitmap the Go code panics (index out of range): `i ≥ 64`, and `i ≤ -8` (Go's `/`
    truncates towards zero, so `i/8 < 0` only from `-8` down). -/
theorem IsSet_panics (b : AccessBitmap) (i : Int) (h : 64 ≤ i ∨ i ≤ -8) :
    Translated.AccessBitmap_IsSet b.bytes i = .panic := by
  unfold Translated.AccessBitmap_IsSet
  rw [arrIdx_panic _ _ (by
    rcases h with h | h
    · right; have := Int.tdiv_eq_ediv_of_nonneg (a := i) (b := 8) (by omega); omega
    · left; have := Int.tdiv_neg_of_neg_of_pos' i h; exact this)]
  rfl
where
  Int.tdiv_neg_of_neg_of_pos' (i : Int) (h : i ≤ -8) : Int.tdiv i 8 < 0 := by
    have : Int.tdiv i 8 = -(Int.tdiv (-i) 8) := by simp [Int.neg_tdiv]
    rw [this, Int.tdiv_eq_ediv_of_nonneg (by omega)]; omega

theorem Set_panics (b : AccessBitmap) (i : Int) (h : 64 ≤ i ∨ i ≤ -8) :
    Translated.AccessBitmap_Set b.bytes i = .panic := by
  unfold Translated.AccessBitmap_Set
  dsimp only
  rw [arrIdx_panic _ _ (by
    rcases h with h | h
    · right; have := Int.tdiv_eq_ediv_of_nonneg (a := i) (b := 8) (by omega); omega
    · left; exact IsSet_panics.Int.tdiv_neg_of_neg_of_pos' i h)]
  rfl

/-- `-8 < i < 0` does NOT panic in Go: `i/8 = 0` and the mask `1 << uint(7 - i%8)` is 0 as a byte, so
    `IsSet` answers false and `Set` changes nothing.  (No caller passes a negative index.) -/
theorem IsSet_small_negative (b : AccessBitmap) (k : Nat) (hk : 0 < k ∧ k < 8) :
    Translated.AccessBitmap_IsSet b.bytes (-(k : Int)) = .ok false := by
  unfold Translated.AccessBitmap_IsSet
  have e1 : Int.tdiv (-(k : Int)) 8 = ((0 : Nat) : Int) := by
    rw [Int.neg_tdiv, Int.tdiv_eq_ediv_of_nonneg (by omega)]; omega
  have e2 : Int.tmod (-(k : Int)) 8 = -(k : Int) := by
    rw [Int.neg_tmod, Int.tmod_eq_emod_of_nonneg (by omega)]; omega
  rw [e1, e2, arrIdx_ok _ _ (by omega), shl_mask_neg k hk]
  simp

theorem Set_small_negative (b : AccessBitmap) (k : Nat) (hk : 0 < k ∧ k < 8) :
    Translated.AccessBitmap_Set b.bytes (-(k : Int)) = .ok b.bytes := by
  unfold Translated.AccessBitmap_Set
  dsimp only
  have e1 : Int.tdiv (-(k : Int)) 8 = ((0 : Nat) : Int) := by
    rw [Int.neg_tdiv, Int.tdiv_eq_ediv_of_nonneg (by omega)]; omega
  have e2 : Int.tmod (-(k : Int)) 8 = -(k : Int) := by
    rw [Int.neg_tmod, Int.tmod_eq_emod_of_nonneg (by omega)]; omega
  rw [e1, e2, arrIdx_ok _ _ (by omega), shl_mask_neg k hk]
  simp only [bind_ok]
  rw [arrSet_ok _ _ _ (by omega)]
  simp

example : Translated.AccessBitmap_IsSet (AccessBitmap.ofBits [9, 40]).bytes 40 = .ok true := by decide
example : Translated.AccessBitmap_IsSet (AccessBitmap.ofBits [9, 40]).bytes 41 = .ok false := by decide
example : Translated.AccessBitmap_Set AccessBitmap.zero.bytes 22 = .ok (AccessBitmap.ofBits [22]).bytes := by decide
example : Translated.AccessBitmap_IsSet AccessBitmap.ones.bytes 64 = .panic := by decide
example : Translated.AccessBitmap_IsSet AccessBitmap.ones.bytes (-3) = .ok false := by decide

/-! ### 4. `(*Field).DecodeInt` (hotline/field.go) = `decodeInt` -/

theorem DecodeInt_translated (d : Bytes) :
    Translated.Field_DecodeInt (some d) = .ok (match decodeInt d with
      | .ok n => ((n : Int), none)
      | _ => (0, some "unknown byte length")) := by
  unfold Translated.Field_DecodeInt decodeInt
  by_cases h2 : d.length = 2
  · have : (d.length : Int) = 2 := by omega
    simp [h2, this, beUint16_some d (by omega), int_u16 _ (rd16_lt d)]
  · have h2' : ¬ (d.length : Int) = 2 := by omega
    by_cases h4 : d.length = 4
    · have : (d.length : Int) = 4 := by omega
      simp [h4, this, beUint32_some d (by omega), int_u32 _ (rd32_lt d)]
    · have h4' : ¬ (d.length : Int) = 4 := by omega
      simp [h2, h2', h4, h4']

/-- the model never reports a panic for `DecodeInt`, and the translation confirms there is none -/
theorem DecodeInt_never_panics (d : Bytes) : decodeInt d ≠ .panic ∧ Translated.Field_DecodeInt (some d) ≠ .panic := by
  constructor
  · unfold decodeInt; split; · simp
    split <;> simp
  · rw [DecodeInt_translated]; simp

example : Translated.Field_DecodeInt (some (be16 515)) = .ok (515, none) := by decide
example : Translated.Field_DecodeInt (some (be32 70000)) = .ok (70000, none) := by decide
example : Translated.Field_DecodeInt (some [1, 2, 3]) = .ok (0, some "unknown byte length") := by decide

/-! ### 5. `fileItemScanner`, `(*FilePathItem).Write` (hotline/file_path.go), `newsPathScanner` (hotline/news.go)

  The model has no separate definitions for these: `pathDecodeItems` / `newsPathDecodeItems`
  (Wire.lean) are the `bufio.Scanner` loops of `FilePath.Write` / `DecodeNewsPath` with the split
  function inlined.  Closed forms of the translations first, then: the model's loop step IS the
  translated split function (+ the translated `FilePathItem.Write` on the token), where the only
  part the translation does not decide is what `bufio.Scanner` makes of a token slice that overruns
  the data (the translated function's `.panic`: ErrAdvanceTooFar within the buffer capacity, a real
  panic beyond it — `scanBufCap`). -/

/-- the declared name length of the item at the head of `d` (third byte) -/
def itemLen (d : Bytes) : Nat := ((d.drop 2).headD 0).toNat

theorem fileItemScanner_translated (d : Bytes) (atEOF : Bool) :
    Translated.fileItemScanner (some d) atEOF =
      if d.length < 3 then .ok (0, none, none)
      else if 3 + itemLen d ≤ d.length then .ok (((3 + itemLen d : Nat) : Int), some (d.take (3 + itemLen d)), none)
      else .panic := by
  unfold Translated.fileItemScanner itemLen
  by_cases h3 : d.length < 3
  · have : (d.length : Int) < 3 := by omega
    simp [h3, this]
  · have h3' : ¬ (d.length : Int) < 3 := by omega
    have hi : idx (some d) (2 : Int) = .ok ((d.drop 2).headD 0) := idx_headD d 2 (by omega)
    simp only [len_some, h3', h3, if_false, hi, bind_ok, int_u8]
    generalize ((d.drop 2).headD 0).toNat = l
    have hz : ((3 : Int) + (l : Int)).toNat = 3 + l := by omega
    by_cases hl : 3 + l ≤ d.length
    · have hs := slice_some d 0 ((3 : Int) + (l : Int)) (by omega)
      simp [hl, hs, hz]
    · have hs := slice_panic (some d) 0 ((3 : Int) + (l : Int)) (by simp only [len_some]; omega)
      simp [hl, hs]

theorem newsPathScanner_translated (d : Bytes) (atEOF : Bool) :
    Translated.newsPathScanner (some d) atEOF =
      if d.length < 3 then .ok (0, none, none)
      else if 3 + itemLen d ≤ d.length then .ok (((3 + itemLen d : Nat) : Int), some ((d.drop 3).take (itemLen d)), none)
      else .panic := by
  unfold Translated.newsPathScanner itemLen
  by_cases h3 : d.length < 3
  · have : (d.length : Int) < 3 := by omega
    simp [h3, this]
  · have h3' : ¬ (d.length : Int) < 3 := by omega
    have hi : idx (some d) (2 : Int) = .ok ((d.drop 2).headD 0) := idx_headD d 2 (by omega)
    simp only [len_some, h3', h3, if_false, hi, bind_ok, int_u8]
    generalize ((d.drop 2).headD 0).toNat = l
    have hz : ((3 : Int) + (l : Int)).toNat = 3 + l := by omega
    by_cases hl : 3 + l ≤ d.length
    · have hs := slice_some d 3 ((3 : Int) + (l : Int)) (by omega)
      simp [hl, hs, hz]
    · have hs := slice_panic (some d) 3 ((3 : Int) + (l : Int)) (by simp only [len_some]; omega)
      simp [hl, hs]

/-- `FilePathItem.Write` on `b`, whatever the receiver held before (`len0`, `name0`):
    results `(n, err)` followed by the receiver's new `Len` and `Name`. -/
theorem FilePathItem_Write_translated (len0 : UInt8) (name0 : Slice) (b : Bytes) :
    Translated.FilePathItem_Write len0 name0 (some b) =
      if b.length < 3 then .ok (0, some "buflen too small", len0, name0)
      else if 3 + itemLen b ≤ b.length then
        .ok (((itemLen b + 3 : Nat) : Int), none, (b.drop 2).headD 0, some ((b.drop 3).take (itemLen b)))
      else .panic := by
  unfold Translated.FilePathItem_Write itemLen
  by_cases h3 : b.length < 3
  · have : (b.length : Int) < 3 := by omega
    simp [h3, this]
  · have h3' : ¬ (b.length : Int) < 3 := by omega
    have hi : idx (some b) (2 : Int) = .ok ((b.drop 2).headD 0) := idx_headD b 2 (by omega)
    simp only [len_some, h3', h3, if_false, hi, bind_ok, int_u8]
    generalize (b.drop 2).headD 0 = x
    have hz : ((x.toNat : Int) + (3 : Int)).toNat = x.toNat + 3 := by omega
    by_cases hl : 3 + x.toNat ≤ b.length
    · have hs := slice_some b 3 ((x.toNat : Int) + (3 : Int)) (by omega)
      simp [hl, hs, hz]
    · have hs := slice_panic (some b) 3 ((x.toNat : Int) + (3 : Int)) (by simp only [len_some]; omega)
      simp [hl, hs]

private theorem itemLen_drop (d : Bytes) (pos : Nat) : itemLen (d.drop pos) = ((d.drop (pos + 2)).headD 0).toNat := by
  unfold itemLen; rw [List.drop_drop]

private theorem itemLen_take (d : Bytes) (n : Nat) (h : 3 ≤ n) : itemLen (d.take n) = itemLen d := by
  unfold itemLen
  match d, n, h with
  | [], _, _ => simp
  | [a], n+3, _ => simp
  | [a, b], n+3, _ => simp
  | a :: b :: c :: rest, n+3, _ => simp

/-- One step of the model's `FilePath.Write` item loop is: the translated `fileItemScanner` on the
    data from `pos`, then the translated `FilePathItem.Write` on a fresh item with the token. -/
theorem pathDecodeItems_step_translated (d : Bytes) (n pos : Nat) :
    pathDecodeItems d (n + 1) pos =
      match Translated.fileItemScanner (some (d.drop pos)) true with
      | .ok (adv, some tok, _) =>
        (match Translated.FilePathItem_Write 0 none (some tok) with
         | .ok (_, none, _, some name) =>
           (match pathDecodeItems d n (pos + adv.toNat) with
            | .ok is => .ok (name :: is)
            | r => r)
         | _ => .err)
      | .ok (_, none, _) => .err       -- no token at EOF: `Scan` returns false
      | .panic =>                       -- token slice overruns the data: bufio's capacity decides
        if pos + 3 + ((d.drop (pos + 2)).headD 0).toNat > scanBufCap then .panic else .err := by
  rw [fileItemScanner_translated]
  have hstep : pathDecodeItems d (n + 1) pos =
      (if d.length - pos < 3 then .err
       else if 3 + ((d.drop (pos + 2)).headD 0).toNat ≤ d.length - pos then
           match pathDecodeItems d n (pos + 3 + ((d.drop (pos + 2)).headD 0).toNat) with
           | .ok is => .ok ((d.drop (pos + 3)).take ((d.drop (pos + 2)).headD 0).toNat :: is)
           | r => r
         else if pos + 3 + ((d.drop (pos + 2)).headD 0).toNat > scanBufCap then .panic
         else .err) := rfl
  rw [hstep, itemLen_drop, List.length_drop]
  generalize hl : ((d.drop (pos + 2)).headD 0).toNat = l
  by_cases h3 : d.length - pos < 3
  · simp [h3]
  · simp only [h3, if_false]
    by_cases hle : 3 + l ≤ d.length - pos
    · simp only [hle, if_true]
      rw [FilePathItem_Write_translated]
      have htl : ((d.drop pos).take (3 + l)).length = 3 + l := by simp [List.length_take]; omega
      have hil : itemLen ((d.drop pos).take (3 + l)) = l := by
        rw [itemLen_take _ _ (by omega), itemLen_drop, hl]
      have hnm : (((d.drop pos).take (3 + l)).drop 3).take l = (d.drop (pos + 3)).take l := by
        rw [List.drop_take, List.drop_drop]; simp [List.take_take]
      simp only [htl, hil, hnm]
      have : ¬ 3 + l < 3 := by omega
      have hz : ((3 : Int) + (l : Int)).toNat = 3 + l := by omega
      simp [this, Nat.add_assoc, hz]
    · simp [hle]

/-- One step of the model's `DecodeNewsPath` loop is the translated `newsPathScanner` on the data
    from `pos` (a failed `Scan` is ignored by the Go code: the previous token is appended again). -/
theorem newsPathDecodeItems_step_translated (d : Bytes) (n pos : Nat) (prev : Bytes) :
    newsPathDecodeItems d (n + 1) pos prev =
      match Translated.newsPathScanner (some (d.drop pos)) true with
      | .ok (adv, some name, _) =>
        (match newsPathDecodeItems d n (pos + adv.toNat) name with
         | .ok is => .ok (name :: is)
         | r => r)
      | .ok (_, none, _) =>             -- no token at EOF: the token is reset, "" is appended
        (match newsPathDecodeItems d n pos [] with
         | .ok is => .ok ([] :: is)
         | r => r)
      | .panic =>                       -- token slice overruns the data: bufio's capacity decides
        if pos + 3 + ((d.drop (pos + 2)).headD 0).toNat > scanBufCap then .panic
        else (match newsPathDecodeItems d n pos prev with
          | .ok is => .ok (prev :: is)
          | r => r) := by
  rw [newsPathScanner_translated]
  have hstep : newsPathDecodeItems d (n + 1) pos prev =
      (if d.length - pos < 3 then
         match newsPathDecodeItems d n pos [] with
         | .ok is => .ok ([] :: is)
         | r => r
       else if 3 + ((d.drop (pos + 2)).headD 0).toNat ≤ d.length - pos then
           match newsPathDecodeItems d n (pos + 3 + ((d.drop (pos + 2)).headD 0).toNat) ((d.drop (pos + 3)).take ((d.drop (pos + 2)).headD 0).toNat) with
           | .ok is => .ok ((d.drop (pos + 3)).take ((d.drop (pos + 2)).headD 0).toNat :: is)
           | r => r
         else if pos + 3 + ((d.drop (pos + 2)).headD 0).toNat > scanBufCap then .panic
         else
           match newsPathDecodeItems d n pos prev with
           | .ok is => .ok (prev :: is)
           | r => r) := rfl
  rw [hstep, itemLen_drop, List.length_drop]
  generalize hl : ((d.drop (pos + 2)).headD 0).toNat = l
  by_cases h3 : d.length - pos < 3
  · simp [h3]
  · simp only [h3, if_false]
    by_cases hle : 3 + l ≤ d.length - pos
    · have hz : ((3 : Int) + (l : Int)).toNat = 3 + l := by omega
      simp [hle, List.drop_drop, Nat.add_assoc, Nat.add_comm 3 pos, hz]
    · simp [hle]

example : Translated.fileItemScanner (some [0, 0, 2, 65, 66, 0, 0]) false = .ok (5, some [0, 0, 2, 65, 66], none) := by decide
example : Translated.fileItemScanner (some [0, 0, 9, 65]) false = .panic := by decide
example : Translated.newsPathScanner (some [0, 0, 2, 65, 66, 0, 0]) false = .ok (5, some [65, 66], none) := by decide
example : Translated.FilePathItem_Write 0 none (some [0, 0, 2, 65, 66]) = .ok (5, none, 2, some [65, 66]) := by decide
example : pathDecodeItems [0, 0, 2, 65, 66] 1 0 = .ok [[65, 66]] := by decide

/-! ### 6. `(*Transaction).Size` (hotline/transaction.go) = `be32 Transaction.payloadSize`

  The receiver's `Fields` is a slice of structs that the Go code only ranges over, using `field.Data`:
  the translation takes the list of the fields' `Data` slices. -/

theorem Size_loop (l : List Field) (acc : Int) :
    (forIn (m := R) (l.map fun f => (some f.data : Slice)) acc
        (fun field_Data s => R.ok (ForInStep.yield (s + (len field_Data + 4)))))
      = .ok (acc + (((l.map fun f => 4 + f.data.length).sum : Nat) : Int)) := by
  induction l generalizing acc with
  | nil => simp
  | cons f fs ih =>
    simp only [List.map_cons, List.forIn_cons, bind_ok, ih, List.sum_cons, len_some]
    congr 1; omega

/-- `PutUint32` of `uint32(n)` is the model's `be32 n` (both truncate to 32 bits) -/
theorem bePut32_uint32 (n : Nat) : bePut32 (uint32 ((n : Int))) = be32 n := by
  have h : (uint32 (n : Int)).toNat = n % 4294967296 := by
    simp [uint32, GoInt.ofZ, GoInt.toZ, UInt32.toNat_ofNat']
    omega
  simp only [bePut32, be32, b8, h]
  have e1 : n % 4294967296 / 16777216 % 256 = n / 16777216 % 256 := by omega
  have e2 : n % 4294967296 / 65536 % 256 = n / 65536 % 256 := by omega
  have e3 : n % 4294967296 / 256 % 256 = n / 256 % 256 := by omega
  have e4 : n % 4294967296 % 256 = n % 256 := by omega
  rw [e1, e2, e3, e4]

/-- For every transaction the translated `Size` returns the four bytes the model's encoder writes as
    total size / data size (`uint32(2 + Σ (4 + |data|))`, truncation included); it never panics. -/
theorem Size_translated (t : Transaction) :
    Translated.Transaction_Size (t.fields.map fun f => some f.data) = .ok (some (be32 t.payloadSize)) := by
  unfold Translated.Transaction_Size
  simp only [bind_ok, pure_eq]
  rw [Size_loop, bind_ok]
  have hz : (0 : Int) + (((t.fields.map fun f => 4 + f.data.length).sum : Nat) : Int) + 2 = ((t.payloadSize : Nat) : Int) := by
    unfold Transaction.payloadSize; omega
  rw [hz]
  simp [bePutUint32, bePut32_uint32]

example : Translated.Transaction_Size [some [1, 2, 3], some []] = .ok (some [0, 0, 0, 13]) := by decide

end Mobius.TranslatedTies
