/-! Small list facts used by the obligations over regenerated tables. -/
namespace Mobius

theorem mem_of_lookup_eq_some {α β} [BEq α] [LawfulBEq α] (k : α) (v : β) (l : List (α × β))
    (h : l.lookup k = some v) : (k, v) ∈ l := by
  induction l with
  | nil => simp at h
  | cons e l ih =>
    obtain ⟨a, b⟩ := e
    simp only [List.lookup_cons] at h
    by_cases hk : k == a
    · simp only [hk] at h
      have : k = a := by simpa using hk
      cases h; subst this; simp
    · have hk' : (k == a) = false := by simpa using hk
      simp only [hk'] at h
      exact List.mem_cons_of_mem _ (ih h)

end Mobius
