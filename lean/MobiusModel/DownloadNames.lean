import MobiusModel.PathStr
import MobiusModel.DownloadRoots
/-!
  DownloadNames (C08, wave e): WHICH entry of a folder a download is about, when the requested name's wire bytes
  can be read in two ways.

  The file list hands out, for an entry whose on-disk (UTF-8) name is `n`, the Mac Roman bytes `encStr n`
  (entries the encoder rejects are not listed).  A download request carries those bytes back; `ReadPath` decodes
  the joined path with the Mac Roman decoder — for ALL byte strings: Mac Roman is total on bytes, there is no
  "already UTF-8" case — and the file wrapper opens the result.  The wire bytes of a representable name can
  themselves be well-formed UTF-8 (`√©` is C3 A9, which reads as `é`); a folder may hold an entry of that other
  spelling too.  The theorems below say that the entry served for a listed name is the listed entry itself,
  whatever UTF-8 well-formedness its wire bytes happen to have, and whatever else the folder holds.
-/
namespace Mobius.DlNames
open Mobius.PathStr

/-- A folder: on-disk (UTF-8) name ↦ stored file. -/
abbrev Dir := List (Bytes × StoredFile)

def Dir.names (d : Dir) : List Bytes := d.map (·.1)

def Dir.lookup (d : Dir) (n : Bytes) : Option StoredFile := (d.find? (fun e => e.1 == n)).map (·.2)

/-- The names the file list hands out (wire form), with the entry each belongs to. -/
def listed (d : Dir) : List (Bytes × StoredFile) := d.filterMap fun e => (encStr e.1).map fun m => (m, e.2)

/-- `ReadPath` on a requested name: the Mac Roman decode, unconditionally. -/
def resolve (wire : Bytes) : Bytes := decodeStr wire

/-- The entry a download request for the wire name `wire` is about. -/
def serve (d : Dir) (wire : Bytes) : Option StoredFile := d.lookup (resolve wire)

/-- Well-formed UTF-8 (`unicode/utf8.Valid`): the lead byte fixes the length and the range of the second byte. -/
def utf8Valid : Bytes → Bool
  | [] => true
  | b :: rest =>
    let n := b.toNat
    let cont (x : UInt8) : Bool := decide (0x80 ≤ x.toNat ∧ x.toNat ≤ 0xBF)
    if n < 0x80 then utf8Valid rest
    else if 0xC2 ≤ n ∧ n ≤ 0xDF then
      match rest with
      | c1 :: r => cont c1 && utf8Valid r
      | _ => false
    else if 0xE0 ≤ n ∧ n ≤ 0xEF then
      match rest with
      | c1 :: c2 :: r =>
        decide ((if n = 0xE0 then 0xA0 else 0x80) ≤ c1.toNat ∧ c1.toNat ≤ (if n = 0xED then 0x9F else 0xBF)) && cont c2 && utf8Valid r
      | _ => false
    else if 0xF0 ≤ n ∧ n ≤ 0xF4 then
      match rest with
      | c1 :: c2 :: c3 :: r =>
        decide ((if n = 0xF0 then 0x90 else 0x80) ≤ c1.toNat ∧ c1.toNat ≤ (if n = 0xF4 then 0x8F else 0xBF)) && cont c2 && cont c3 && utf8Valid r
      | _ => false
    else false

/-- NOT the code: a resolution that keeps a name that "already is UTF-8" and decodes only the others (the defect
    class the family `download-ambiguous-names` searches for).  Kept as the witness that the theorems below
    distinguish the two. -/
def resolveSkipping (wire : Bytes) : Bytes := if utf8Valid wire then wire else decodeStr wire

def serveSkipping (d : Dir) (wire : Bytes) : Option StoredFile := d.lookup (resolveSkipping wire)

/-- The folder as a `DlRoots.Store` under one root: the request path is the wire name. -/
def storeOf (root : Bytes) (d : Dir) : DlRoots.Store := fun r p => if r = root then serve d p else none

-- ---------------------------------------------------------------- lemmas

theorem lookup_of_mem (d : Dir) (hd : d.names.Nodup) (n : Bytes) (f : StoredFile) (h : (n, f) ∈ d) :
    d.lookup n = some f := by
  induction d with
  | nil => cases h
  | cons e d ih =>
    simp only [Dir.names, List.map_cons, List.nodup_cons] at hd
    rcases List.mem_cons.mp h with h | h
    · subst h; simp [Dir.lookup, List.find?]
    · have hne : (e.1 == n) = false := by
        have : e.1 ≠ n := by
          intro e1
          apply hd.1
          rw [e1]
          exact List.mem_map.mpr ⟨(n, f), h, rfl⟩
        simpa using this
      have := ih hd.2 h
      simp only [Dir.lookup, List.find?, hne] at this ⊢
      exact this

theorem mem_listed (d : Dir) (m : Bytes) (f : StoredFile) (h : (m, f) ∈ listed d) :
    ∃ n, (n, f) ∈ d ∧ encStr n = some m := by
  simp only [listed, List.mem_filterMap, Option.map_eq_some_iff] at h
  obtain ⟨e, he, m', hm', hp⟩ := h
  injection hp with h1 h2
  subst h1; subst h2
  exact ⟨e.1, he, hm'⟩

/-- The decode of a listed name is the entry's on-disk name — no side condition on the wire bytes. -/
theorem resolve_listed (n m : Bytes) (h : encStr n = some m) : resolve m = n := decodeStr_encStr n m h

end Mobius.DlNames
