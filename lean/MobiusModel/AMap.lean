import MobiusModel.Bytes
/-!
  AMap: finite maps as association lists with pairwise distinct keys (the distinctness proof is
  carried by the structure, so "every present entry appears once" needs no side invariant).
  Mirrors a Go `map[K]V`: `get` = index, `set` = assignment, `del` = `delete`, `toList` = an
  iteration in some order.  Used by the Accounts (C15) and News (C18) models.
-/
namespace Mobius

/-- first-match lookup in an association list -/
def alGet {κ α : Type} [DecidableEq κ] (k : κ) : List (κ × α) → Option α
  | [] => none
  | (k', v) :: r => if k' = k then some v else alGet k r

theorem alGet_filter {κ α : Type} [DecidableEq κ] (f : κ → Bool) (k : κ) (l : List (κ × α)) :
    alGet k (l.filter fun e => f e.1) = if f k then alGet k l else none := by
  induction l with
  | nil => simp [alGet]
  | cons e r ih =>
    obtain ⟨k', v⟩ := e
    by_cases hk : k' = k
    · subst hk
      by_cases hf : f k' = true
      · simp [List.filter, hf, alGet]
      · simp only [Bool.not_eq_true] at hf
        simp [List.filter, hf, alGet, ih]
    · by_cases hf : f k' = true
      · simp [List.filter, hf, alGet, hk, ih]
      · simp only [Bool.not_eq_true] at hf
        simp [List.filter, hf, alGet, hk, ih]

theorem alGet_none_of_not_mem {κ α : Type} [DecidableEq κ] (k : κ) (l : List (κ × α))
    (h : k ∉ l.map Prod.fst) : alGet k l = none := by
  induction l with
  | nil => rfl
  | cons e r ih =>
    obtain ⟨k', v⟩ := e
    simp only [List.map_cons, List.mem_cons, not_or] at h
    have : ¬ k' = k := fun e => h.1 e.symm
    simp [alGet, this, ih h.2]

theorem alGet_mem {κ α : Type} [DecidableEq κ] (k : κ) (v : α) (l : List (κ × α))
    (h : alGet k l = some v) : (k, v) ∈ l := by
  induction l with
  | nil => simp [alGet] at h
  | cons e r ih =>
    obtain ⟨k', v'⟩ := e
    by_cases hk : k' = k
    · subst hk; simp [alGet] at h; subst h; simp
    · simp [alGet, hk] at h; exact List.mem_cons_of_mem _ (ih h)

theorem alGet_of_mem_nodup {κ α : Type} [DecidableEq κ] (k : κ) (v : α) (l : List (κ × α))
    (nd : (l.map Prod.fst).Nodup) (h : (k, v) ∈ l) : alGet k l = some v := by
  induction l with
  | nil => simp at h
  | cons e r ih =>
    obtain ⟨k', v'⟩ := e
    simp only [List.map_cons, List.nodup_cons] at nd
    simp only [List.mem_cons, Prod.mk.injEq] at h
    rcases h with ⟨h1, h2⟩ | h
    · subst h1; subst h2; simp [alGet]
    · have hk : ¬ k' = k := by
        intro e; subst e
        exact nd.1 (List.mem_map.mpr ⟨(k', v), h, rfl⟩)
      simp [alGet, hk, ih nd.2 h]

structure AMap (κ α : Type) [DecidableEq κ] where
  l : List (κ × α)
  nd : (l.map Prod.fst).Nodup

namespace AMap
variable {κ α : Type} [DecidableEq κ]

theorem ext_l {a b : AMap κ α} (h : a.l = b.l) : a = b := by
  cases a; cases b; simp at h; subst h; rfl

instance [DecidableEq α] : DecidableEq (AMap κ α) := fun a b =>
  if h : a.l = b.l then isTrue (ext_l h) else isFalse (fun e => h (by rw [e]))

instance [Repr κ] [Repr α] : Repr (AMap κ α) := ⟨fun m n => reprPrec m.l n⟩

def empty : AMap κ α := ⟨[], List.nodup_nil⟩

def get (m : AMap κ α) (k : κ) : Option α := alGet k m.l

def keys (m : AMap κ α) : List κ := m.l.map Prod.fst

def toList (m : AMap κ α) : List (κ × α) := m.l

/-- keep the entries whose key satisfies `f` -/
def filterKeys (f : κ → Bool) (m : AMap κ α) : AMap κ α :=
  ⟨m.l.filter (fun e => f e.1), List.Nodup.sublist (List.filter_sublist.map Prod.fst) m.nd⟩

/-- Go `delete(m, k)` -/
def del (k : κ) (m : AMap κ α) : AMap κ α := filterKeys (fun x => decide (x ≠ k)) m

/-- Go `m[k] = v` -/
def set (k : κ) (v : α) (m : AMap κ α) : AMap κ α :=
  ⟨(k, v) :: (del k m).l, by
    simp only [List.map_cons, List.nodup_cons]
    refine ⟨?_, (del k m).nd⟩
    intro h
    obtain ⟨e, he, hk⟩ := List.mem_map.mp h
    simp [del, filterKeys, List.mem_filter] at he
    exact he.2 hk⟩

@[simp] theorem get_empty (k : κ) : (empty : AMap κ α).get k = none := rfl

theorem get_filterKeys (f : κ → Bool) (m : AMap κ α) (k : κ) :
    (filterKeys f m).get k = if f k then m.get k else none := alGet_filter f k m.l

@[simp] theorem get_del_self (k : κ) (m : AMap κ α) : (del k m).get k = none := by
  simp [del, get_filterKeys]

theorem get_del_ne (k k' : κ) (m : AMap κ α) (h : k' ≠ k) : (del k m).get k' = m.get k' := by
  simp [del, get_filterKeys, h]

@[simp] theorem get_set_self (k : κ) (v : α) (m : AMap κ α) : (set k v m).get k = some v := by
  simp [set, get, alGet]

theorem get_set_ne (k k' : κ) (v : α) (m : AMap κ α) (h : k' ≠ k) : (set k v m).get k' = m.get k' := by
  have h' : ¬ k = k' := fun e => h e.symm
  have := get_del_ne k k' m h
  simp only [get] at this
  simp [set, get, alGet, h', this]

theorem get_set (k k' : κ) (v : α) (m : AMap κ α) :
    (set k v m).get k' = if k' = k then some v else m.get k' := by
  by_cases h : k' = k
  · subst h; simp
  · simp [h, get_set_ne k k' v m h]

theorem get_del (k k' : κ) (m : AMap κ α) :
    (del k m).get k' = if k' = k then none else m.get k' := by
  by_cases h : k' = k
  · subst h; simp
  · simp [h, get_del_ne k k' m h]

/-- an entry is listed iff it is what `get` returns (each key once) -/
theorem mem_toList_iff (m : AMap κ α) (k : κ) (v : α) : (k, v) ∈ m.toList ↔ m.get k = some v :=
  ⟨alGet_of_mem_nodup k v m.l m.nd, alGet_mem k v m.l⟩

theorem get_none_of_not_mem_keys (m : AMap κ α) (k : κ) (h : k ∉ m.keys) : m.get k = none :=
  alGet_none_of_not_mem k m.l h

theorem mem_keys_iff (m : AMap κ α) (k : κ) : k ∈ m.keys ↔ ∃ v, m.get k = some v := by
  constructor
  · intro h
    obtain ⟨e, he, hk⟩ := List.mem_map.mp h
    obtain ⟨k', v⟩ := e
    simp at hk; subst hk
    exact ⟨v, (mem_toList_iff m k' v).mp he⟩
  · intro ⟨v, hv⟩
    exact List.mem_map.mpr ⟨(k, v), (mem_toList_iff m k v).mpr hv, rfl⟩

theorem keys_nodup (m : AMap κ α) : m.keys.Nodup := m.nd

end AMap
end Mobius
