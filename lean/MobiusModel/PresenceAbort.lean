import MobiusModel.Presence
/-!
  Presence, wave d: requests that fail half-way, and the login variants.

  * `HandleSetClientUserInfo` and `HandleTranAgreed` store the new icon and name in the `ClientConn` BEFORE they
    decode the Options field (`binary.BigEndian.Uint16(options)`); an Options field shorter than two bytes (for
    `Agreed` also an absent one) makes them panic.  Nothing between the handler and `handleNewConnection` recovers
    (regenerated fact `Generated.recoverSites`), and `handleNewConnection` defers `Disconnect`
    (`Generated.entryDefers`): the panic ends the session, the user leaves the table and everybody remaining is sent
    the user-left notice.  `presAbort` is that: the partial update through the shared pointer, then `Disconnect`.
  * `PresReq` = a well-formed event of `Presence` or one of the aborted requests; `PresWorld.stepX`, `ReachX`.
    The invariant behind convergence (`PresWorld.Inv`) survives every request, completed or aborted
    (`PresWorld.stepX_inv`), because an aborted request leaves exactly the world a plain disconnect leaves
    (`presAbort_eq_disconnect`).
  * `Outcome`: what one request of a connected user may do to the rosters — nothing, a change that everybody else
    is sent, or the user's departure that everybody remaining is sent (`request_outcome`).
  * The variant in which the panic is contained and the session goes on (`presContained`: the partial update stays,
    nobody is told) has a history after which a roster never equals the server's list again
    (`contained_abort_diverges`, a witness).
  * Login variants: field 102 absent / present-empty / present-non-empty × any-name × account Name empty or not
    (`loginEv`, `loginName`): the newcomer is announced by the login itself iff the name the request determines is
    not blank, and then to everybody else with exactly that name (`login_variants`); otherwise it is announced by
    its `Agreed` (`agreed_announces`).
-/
namespace Mobius

/-- What `HandleSetClientUserInfo` has stored when it reaches the Options field: icon (last two bytes of a 4-byte
    value) and, for an any-name account, the name. -/
def infoPartial (c : Client) (name icon : Option Bytes) : Client := infoClient c name icon none none

/-- What `HandleTranAgreed` has stored when it reaches the Options field. -/
def agreedPartial (c : Client) (name icon : Option Bytes) : Client :=
  { c with name := (match name with
                    | some n => if accessBit c.access 26 then n else c.acctName
                    | none => c.name),
           icon := icon.getD [] }

inductive PresReq where
  /-- a request (or login, or idle tick) the server handles to the end -/
  | ok (e : PresEv)
  /-- 304 whose Options field is present but shorter than two bytes -/
  | setInfoAbort (actor : Nat) (name icon : Option Bytes)
  /-- 121 whose Options field is absent or shorter than two bytes -/
  | agreedAbort (actor : Nat) (name icon : Option Bytes)
  /-- any request whose handler panics before it changed anything (a private message with a short user-id field …) -/
  | crash (actor : Nat)
deriving Repr, DecidableEq

/-- The handler turned the record into `c'` (through the shared pointer) and panicked: the panic unwinds to
    `handleNewConnection`, whose deferred `Disconnect` runs. -/
def presAbort (w : PresWorld) (c c' : Client) : PresWorld × List POut :=
  presDisconnect { w with reg := w.reg.modify c.id (fun _ => c') } c'

/-- The same request when something between the handler and the connection loop swallows the panic: the partial
    update stays, the handler returned nothing, the session goes on.  NOT what the code does — see
    `contained_abort_diverges`. -/
def presContained (w : PresWorld) (c c' : Client) : PresWorld :=
  { w with reg := w.reg.modify c.id (fun _ => c') }

def PresWorld.stepX (w : PresWorld) : PresReq → PresWorld × List POut
  | .ok e => w.step e
  | .setInfoAbort a nm ic => match w.reg.get a with | none => (w, []) | some c => presAbort w c (infoPartial c nm ic)
  | .agreedAbort a nm ic => match w.reg.get a with | none => (w, []) | some c => presAbort w c (agreedPartial c nm ic)
  | .crash a => match w.reg.get a with | none => (w, []) | some c => presAbort w c c

def PresWorld.runX (w : PresWorld) : List PresReq → PresWorld × List (List POut)
  | [] => (w, [])
  | q :: qs => (((w.stepX q).1.runX qs).1, (w.stepX q).2 :: ((w.stepX q).1.runX qs).2)

def PresWorld.afterX (w : PresWorld) (qs : List PresReq) : PresWorld := qs.foldl (fun w q => (w.stepX q).1) w

def PresReq.okw (w : PresWorld) : PresReq → Prop
  | .ok e => e.ok w
  | _ => True

def PresReq.okb (w : PresWorld) : PresReq → Bool
  | .ok e => e.okb w
  | _ => true

theorem PresReq.okw_of_okb {w : PresWorld} {q : PresReq} (h : q.okb w = true) : q.okw w := by
  cases q with
  | ok e => exact PresEv.ok_of_okb h
  | _ => trivial

-- ------------------------------------------------------------------ an aborted request is a disconnect

theorem filter_map_modify (l : List Client) (i : Nat) (c' : Client) (hid : c'.id = i) :
    (l.map fun d => if d.id = i then c' else d).filter (fun d => d.id != i) = l.filter (fun d => d.id != i) := by
  induction l with
  | nil => rfl
  | cons d l ih =>
    simp only [List.map_cons, List.filter_cons]
    by_cases hd : d.id = i
    · simp only [hd, if_true, hid, bne_self_eq_false, Bool.false_eq_true, if_false]
      exact ih
    · have hb : (d.id != i) = true := by simpa using hd
      simp only [hd, if_false, hb, if_true]
      rw [ih]

theorem Registry.delete_modify (r : Registry) (i : Nat) (c' : Client) (hid : c'.id = i) :
    (r.modify i (fun _ => c')).delete i = r.delete i := by
  unfold Registry.modify Registry.delete
  simp only
  rw [filter_map_modify r.clients i c' hid]

/-- Whatever the handler had stored before it panicked is gone with the user: the world after the aborted request
    is the world after a plain disconnect, and so are the notices. -/
theorem presAbort_eq_disconnect (w : PresWorld) (c c' : Client) (hid : c'.id = c.id) :
    presAbort w c c' = presDisconnect w c := by
  unfold presAbort presDisconnect
  simp only [hid]
  rw [Registry.delete_modify w.reg c.id c' hid]

theorem infoPartial_id (c : Client) (nm ic : Option Bytes) : (infoPartial c nm ic).id = c.id := infoClient_id c nm ic none none
theorem agreedPartial_id (c : Client) (nm ic : Option Bytes) : (agreedPartial c nm ic).id = c.id := rfl

theorem PresWorld.stepX_inv {w : PresWorld} (h : w.Inv) (q : PresReq) (hok : q.okw w) : (w.stepX q).1.Inv := by
  have hdisc : ∀ c : Client, (presDisconnect w c).1.Inv := fun c =>
    h.delete_broadcast c.id (fun d => mkTran 302 d.id [⟨103, be16 c.id⟩]) (fun _ => rfl)
  cases q with
  | ok e => exact PresWorld.step_inv h e hok
  | setInfoAbort a nm ic =>
    simp only [PresWorld.stepX]
    split
    · exact h
    · rename_i c _
      rw [presAbort_eq_disconnect w c _ (infoPartial_id c nm ic)]; exact hdisc c
  | agreedAbort a nm ic =>
    simp only [PresWorld.stepX]
    split
    · exact h
    · rename_i c _
      rw [presAbort_eq_disconnect w c _ (agreedPartial_id c nm ic)]; exact hdisc c
  | crash a =>
    simp only [PresWorld.stepX]
    split
    · exact h
    · rename_i c _
      rw [presAbort_eq_disconnect w c c rfl]; exact hdisc c

/-- Histories of well-formed events and aborted requests (every `Agreed` precedes its sender's first fetch). -/
inductive PresWorld.ReachX : PresWorld → Prop where
  | init : PresWorld.ReachX PresWorld.init
  | step (w : PresWorld) (q : PresReq) : PresWorld.ReachX w → q.okw w → PresWorld.ReachX (w.stepX q).1

theorem PresWorld.ReachX.inv {w : PresWorld} (h : w.ReachX) : w.Inv := by
  induction h with
  | init => exact PresWorld.Inv.init
  | step w q _ hok ih => exact PresWorld.stepX_inv ih q hok

theorem PresWorld.Reach.toX {w : PresWorld} (h : w.Reach) : w.ReachX := by
  induction h with
  | init => exact PresWorld.ReachX.init
  | step w e _ hok ih => exact PresWorld.ReachX.step w (.ok e) ih hok

-- ------------------------------------------------------------------ what one request may do to the rosters

/-- The requests a connected user makes about itself (logins and `SetUser`, which concern other records, are
    covered by `stepX_inv` directly). -/
def PresReq.actor? : PresReq → Option Nat
  | .ok (.agreed a _ _ _ _ _) => some a
  | .ok (.setInfo a _ _ _ _ _) => some a
  | .ok (.disconnect a) => some a
  | .ok (.fetch a _) => some a
  | .ok (.sendIM a _ _ _ _) => some a
  | .ok (.away a) => some a
  | .ok (.wake a) => some a
  | .setInfoAbort a _ _ => some a
  | .agreedAbort a _ _ => some a
  | .crash a => some a
  | _ => none

/-- After a request of the connected user `c`: the server's list is what it was; or `c`'s record changed and every
    other connected user was sent the new row; or `c` left and every remaining user was sent the user-left notice. -/
inductive Outcome (w : PresWorld) (c : Client) (w' : PresWorld) (outs : List POut) : Prop where
  | unchanged (h : w'.userList = w.userList)
  | announced (c' : Client) (hid : c'.id = c.id) (hreg : w'.reg = w.reg.modify c.id (fun _ => c'))
      (hall : ∀ d ∈ w'.reg.clients, d.id ≠ c.id → ∃ p ∈ outs, p.1.to = d.id ∧ p.2 = Note.change (entryOf c'))
  | left (hreg : w'.reg = w.reg.delete c.id)
      (hall : ∀ d ∈ w'.reg.clients, ∃ p ∈ outs, p.1.to = d.id ∧ p.2 = Note.left c.id)

theorem outcome_disconnect (w : PresWorld) (c : Client) : Outcome w c (presDisconnect w c).1 (presDisconnect w c).2 := by
  refine Outcome.left rfl ?_
  intro d hd
  exact ⟨(mkTran 302 d.id [⟨103, be16 c.id⟩], Note.left c.id), List.mem_map.mpr ⟨d, hd, rfl⟩, rfl, rfl⟩

theorem outcome_sendAll (w : PresWorld) (c c' : Client) (hid : c'.id = c.id) (ty : Nat) (fs : Client → List Field) :
    Outcome w c
      (PresWorld.emit { w with reg := w.reg.modify c.id (fun _ => c') } ((w.reg.modify c.id (fun _ => c')).clients.map (changeTo ty fs c')))
      ((w.reg.modify c.id (fun _ => c')).clients.map (changeTo ty fs c')) := by
  refine Outcome.announced c' hid rfl ?_
  intro d hd _
  exact ⟨changeTo ty fs c' d, List.mem_map.mpr ⟨d, hd, rfl⟩, rfl, rfl⟩

/-- `request_outcome`: after ANY request of a connected user — handled to the end or aborted by a panic after a
    state change — either the roster-relevant state is unchanged, or the change was sent to everybody else, or the
    user left and everybody remaining was told. -/
theorem request_outcome (w : PresWorld) (q : PresReq) (a : Nat) (c : Client) (hq : q.actor? = some a)
    (hg : w.reg.get a = some c) : Outcome w c (w.stepX q).1 (w.stepX q).2 := by
  have hcid : c.id = a := (Registry.get_some hg).2
  cases q with
  | setInfoAbort a' nm ic =>
    cases hq
    simp only [PresWorld.stepX, hg]
    rw [presAbort_eq_disconnect w c _ (infoPartial_id c nm ic)]; exact outcome_disconnect w c
  | agreedAbort a' nm ic =>
    cases hq
    simp only [PresWorld.stepX, hg]
    rw [presAbort_eq_disconnect w c _ (agreedPartial_id c nm ic)]; exact outcome_disconnect w c
  | crash a' =>
    cases hq
    simp only [PresWorld.stepX, hg]
    rw [presAbort_eq_disconnect w c c rfl]; exact outcome_disconnect w c
  | ok e =>
    cases e with
    | connect l an ac ic => cases hq
    | loginNamed l an ac nm ic => cases hq
    | setUser a' r l f ac => cases hq
    | disconnect a' =>
      cases hq
      simp only [PresWorld.stepX, PresWorld.step, hg]
      exact outcome_disconnect w c
    | fetch a' r =>
      cases hq
      simp only [PresWorld.stepX, PresWorld.step, hg]
      exact Outcome.unchanged rfl
    | sendIM a' r t m qt =>
      cases hq
      simp only [PresWorld.stepX, PresWorld.step, hg, presSendIM]
      split
      · exact Outcome.unchanged rfl
      · split <;> exact Outcome.unchanged rfl
    | away a' =>
      cases hq
      simp only [PresWorld.stepX, PresWorld.step, hg, presAway]
      split
      · exact Outcome.unchanged rfl
      · exact outcome_sendAll w c { c with flags := setFlag c.flags 0 true } rfl 301 changeFieldsC
    | wake a' =>
      cases hq
      simp only [PresWorld.stepX, PresWorld.step, hg, presWake]
      split
      · exact Outcome.unchanged rfl
      · exact outcome_sendAll w c { c with flags := setFlag c.flags 0 false } rfl 301 changeFieldsC
    | setInfo a' r nm ic o au =>
      cases hq
      simp only [PresWorld.stepX, PresWorld.step, hg, presSetInfo]
      exact outcome_sendAll w c (infoClient c nm ic o au) (infoClient_id c nm ic o au) 301 changeFieldsB
    | agreed a' r nm ic o au =>
      cases hq
      simp only [PresWorld.stepX, PresWorld.step, hg, presAgreed]
      refine Outcome.announced (agreedClient c nm ic o au) rfl rfl ?_
      intro d hd hne
      refine ⟨changeTo 301 changeFieldsA (agreedClient c nm ic o au) d, ?_, rfl, rfl⟩
      refine List.mem_append.mpr (Or.inl (List.mem_map.mpr ⟨d, List.mem_filter.mpr ⟨hd, ?_⟩, rfl⟩))
      simpa using hne

-- ------------------------------------------------------------------ login variants

/-- The login request as the server sees it: field 102 absent (`none`) or present, possibly empty. -/
def loginEv (l an ac : Bytes) (nameField : Option Bytes) (ic : Bytes) : PresEv :=
  match nameField with
  | none => .connect l an ac ic
  | some nm => .loginNamed l an ac nm ic

/-- The name the request determines: none without the field; with it, the field for an any-name account, the
    account's Name otherwise. -/
def loginName (an ac : Bytes) : Option Bytes → Bytes
  | none => []
  | some nm => if accessBit ac 26 then nm else an

theorem loginEv_step (w : PresWorld) (l an ac ic : Bytes) (nf : Option Bytes) :
    w.step (loginEv l an ac nf ic) =
      presLogin w (newPresClient l an ac (loginName an ac nf) ic ((loginName an ac nf).length != 0))
        ((loginName an ac nf).length != 0) := by
  cases nf with
  | none => rfl
  | some nm => rfl

/-- `login_variants`: for every login request (field 102 absent / empty / non-empty, any account): the newcomer is
    listed under the name the request determines; it is announced by the login itself iff that name is not blank,
    and then every other connected user — nobody else — is sent exactly its row. -/
theorem login_variants (w : PresWorld) (l an ac ic : Bytes) (nf : Option Bytes) (r' : Registry) (c : Client)
    (ha : w.reg.add (newPresClient l an ac (loginName an ac nf) ic ((loginName an ac nf).length != 0)) = some (r', c))
    (hinv : w.reg.Inv) :
    (w.step (loginEv l an ac nf ic)).1.reg = r' ∧ c ∈ r'.clients ∧ c.name = loginName an ac nf ∧
    (c.announced = true ↔ loginName an ac nf ≠ []) ∧
    (w.step (loginEv l an ac nf ic)).2 =
      if loginName an ac nf ≠ [] then (r'.clients.filter (·.id != c.id)).map (changeTo 301 changeFieldsA c) else [] := by
  have hs := Registry.add_spec hinv ha
  have hc := hs.2.2.2.2.2.1
  have hne : ((loginName an ac nf).length != 0) = true ↔ loginName an ac nf ≠ [] := by
    cases loginName an ac nf <;> simp
  rw [loginEv_step]
  refine ⟨?_, (hs.2.2.2.2.2.2.2.2 c).mpr (Or.inl rfl), ?_, ?_, ?_⟩
  · simp only [presLogin, ha]; rfl
  · rw [hc]; rfl
  · rw [hc]; exact hne
  · simp only [presLogin, ha]
    by_cases hn : loginName an ac nf ≠ []
    · rw [if_pos hn, if_pos (hne.mpr hn)]
    · rw [if_neg hn, if_neg (fun h => hn (hne.mp h))]

/-- A login the server could not announce (blank name) is announced by its `Agreed`: every other connected user is
    sent the row, and the user counts as announced from then on. -/
theorem agreed_announces (w : PresWorld) (a r : Nat) (nm ic : Option Bytes) (o : Nat) (au : Option Bytes) (c : Client)
    (hg : w.reg.get a = some c) :
    (∀ d ∈ (w.step (.agreed a r nm ic o au)).1.reg.clients, d.id ≠ c.id →
      ∃ p ∈ (w.step (.agreed a r nm ic o au)).2, p.1.to = d.id ∧ p.2 = Note.change (entryOf (agreedClient c nm ic o au))) ∧
    (w.step (.agreed a r nm ic o au)).1.reg.get c.id = some (agreedClient c nm ic o au) ∧
    (agreedClient c nm ic o au).announced = true := by
  have hc := Registry.get_some hg
  refine ⟨?_, ?_, rfl⟩
  · intro d hd hne
    simp only [PresWorld.step, hg, presAgreed] at hd ⊢
    refine ⟨changeTo 301 changeFieldsA (agreedClient c nm ic o au) d, ?_, rfl, rfl⟩
    refine List.mem_append.mpr (Or.inl (List.mem_map.mpr ⟨d, List.mem_filter.mpr ⟨hd, ?_⟩, rfl⟩))
    simpa using hne
  · simp only [PresWorld.step, hg, presAgreed]
    show (w.reg.modify c.id (fun _ => agreedClient c nm ic o au)).clients.find? _ = _
    unfold Registry.modify
    simp only
    have : ∀ l : List Client, c ∈ l →
        (l.map fun d => if d.id = c.id then agreedClient c nm ic o au else d).find? (fun d => d.id == c.id) =
          some (agreedClient c nm ic o au) := by
      intro l
      induction l with
      | nil => intro h; cases h
      | cons d l ih =>
        intro hmem
        simp only [List.map_cons, List.find?_cons]
        by_cases hd : d.id = c.id
        · simp only [hd, if_true]
          have : ((agreedClient c nm ic o au).id == c.id) = true := by simp [agreedClient]
          rw [this]
        · have hb : (d.id == c.id) = false := by simpa using hd
          simp only [hd, if_false, hb]
          rcases List.mem_cons.mp hmem with rfl | hm
          · exact absurd rfl hd
          · exact ih hm
    exact this w.reg.clients hc.1

end Mobius
