import MobiusModel.WireLemmas2
/-! Round trips of the remaining fixed-layout objects: information fork, transfer preamble,
    handshake, article-list entries, integer fields. -/
namespace Mobius

-- ---------------------------------------------------------------- handshake / preamble

theorem handshakeValid_bytes (ver sub : Nat) (rest : Bytes) : handshakeValid (handshakeBytes ver sub ++ rest) = true := by
  simp [handshakeValid, handshakeBytes]

theorem transferDecode_preamble (ref size : Nat) (hr : ref < 4294967296) (hs : size < 4294967296) (rest : Bytes) :
    transferDecode (transferPreamble ref size ++ rest) = .ok (ref, size) := by
  have h1 : rd32 (be32 ref ++ (be32 size ++ ([0, 0, 0, 0] ++ rest))) = ref := by
    rw [rd32_be32_append]; omega
  have h2 : rd32 (be32 size ++ ([0, 0, 0, 0] ++ rest)) = size := by
    rw [rd32_be32_append]; omega
  unfold transferDecode transferPreamble
  simp only [List.append_assoc, List.length_append, List.length_cons, List.length_nil, be32_length]
  rw [if_neg (by omega)]
  simp only [List.cons_append, List.nil_append, List.take_succ_cons, List.take_zero, bne_self_eq_false,
    Bool.false_eq_true, if_false, List.drop_succ_cons, List.drop_zero]
  have e8 : List.drop 4 (be32 ref ++ (be32 size ++ (0 :: 0 :: 0 :: 0 :: rest))) = be32 size ++ (0 :: 0 :: 0 :: 0 :: rest) :=
    List.drop_left' (by simp)
  rw [e8]
  simp only [List.cons_append, List.nil_append] at h1 h2
  rw [h1, h2]

-- ---------------------------------------------------------------- DecodeInt

theorem decodeInt_be16 (n : Nat) (h : n < 65536) : decodeInt (be16 n) = .ok n := by
  simp [decodeInt, rd16_be16]; omega

theorem decodeInt_be32 (n : Nat) (h : n < 4294967296) : decodeInt (be32 n) = .ok n := by
  simp [decodeInt, rd32_be32]; omega

/-- Anything that is neither 2 nor 4 bytes long is rejected (never defaulted). -/
theorem decodeInt_other (d : Bytes) (h2 : d.length ≠ 2) (h4 : d.length ≠ 4) : decodeInt d = .err := by
  simp [decodeInt, h2, h4]

-- ---------------------------------------------------------------- information fork


theorem drop_app_ge (a r : Bytes) (n : Nat) (h : a.length ≤ n) : (a ++ r).drop n = r.drop (n - a.length) := by
  rw [List.drop_append, List.drop_eq_nil_of_le h, List.nil_append]

@[simp] theorem drop2_be16 (n : Nat) (r : Bytes) : (be16 n ++ r).drop 2 = r := List.drop_left' (be16_length n)

theorem InfoFork.encode_length (i : InfoFork) (h : i.fixedWF) : i.encode.length = 74 + i.name.length + i.comment.length := by
  obtain ⟨h1, h2, h3, h4, h5, h6, h7, h8, h9⟩ := h
  simp [InfoFork.encode, *]; omega

/-- Decoding an emitted information fork gives the fork back.  The bound on the name is the
    decoder's own: it computes `72 + nameSize` in 16-bit arithmetic. -/
theorem InfoFork.decode_encode' (i : InfoFork) (h : i.WF) (hn : i.name.length + 74 < 65536) :
    InfoFork.decode i.encode = .ok i := by
  obtain ⟨⟨h1, h2, h3, h4, h5, h6, h7, h8, h9⟩, hnl, hcl⟩ := h
  have hlen := InfoFork.encode_length i ⟨h1, h2, h3, h4, h5, h6, h7, h8, h9⟩
  obtain ⟨pl, ty, cr, fl, pf, rs, cd, md, sc, nm, cm⟩ := i
  simp only at h1 h2 h3 h4 h5 h6 h7 h8 h9 hnl hcl hn hlen
  unfold InfoFork.decode
  rw [hlen]
  have henc : InfoFork.encode ⟨pl, ty, cr, fl, pf, rs, cd, md, sc, nm, cm⟩ =
      pl ++ (ty ++ (cr ++ (fl ++ (pf ++ (rs ++ (cd ++ (md ++ (sc ++ (be16 nm.length ++ (nm ++ (be16 cm.length ++ cm))))))))))) := by
    simp only [InfoFork.encode, List.append_assoc]
  rw [henc]
  have hd70 : (pl ++ (ty ++ (cr ++ (fl ++ (pf ++ (rs ++ (cd ++ (md ++ (sc ++ (be16 nm.length ++ (nm ++ (be16 cm.length ++ cm))))))))))) ).drop 70 = be16 nm.length ++ (nm ++ (be16 cm.length ++ cm)) := by
    simp [drop_app_ge, *]
  rw [if_neg (by omega)]
  simp only [hd70, rd16_be16_append]
  have e1 : nm.length % 65536 = nm.length := by omega
  have e2 : (72 + nm.length) % 65536 = 72 + nm.length := by omega
  simp only [e1, e2]
  rw [if_neg (by omega), if_pos (by omega), if_neg (by omega)]
  have hdt : (pl ++ (ty ++ (cr ++ (fl ++ (pf ++ (rs ++ (cd ++ (md ++ (sc ++ (be16 nm.length ++ (nm ++ (be16 cm.length ++ cm))))))))))) ).drop (72 + nm.length) = be16 cm.length ++ cm := by
    rw [← List.drop_drop]
    have : (pl ++ (ty ++ (cr ++ (fl ++ (pf ++ (rs ++ (cd ++ (md ++ (sc ++ (be16 nm.length ++ (nm ++ (be16 cm.length ++ cm))))))))))) ).drop 72 = nm ++ (be16 cm.length ++ cm) := by
      simp [drop_app_ge, *]
    rw [this, List.drop_left]
  have hdc : (pl ++ (ty ++ (cr ++ (fl ++ (pf ++ (rs ++ (cd ++ (md ++ (sc ++ (be16 nm.length ++ (nm ++ (be16 cm.length ++ cm))))))))))) ).drop (72 + nm.length + 2) = cm := by
    rw [← List.drop_drop, hdt]; exact drop2_be16 _ _
  have hdn : (pl ++ (ty ++ (cr ++ (fl ++ (pf ++ (rs ++ (cd ++ (md ++ (sc ++ (be16 nm.length ++ (nm ++ (be16 cm.length ++ cm))))))))))) ).drop 72 = nm ++ (be16 cm.length ++ cm) := by
    simp [drop_app_ge, *]
  simp only [hdt, hdc, hdn, rd16_be16_append]
  have e3 : cm.length % 65536 = cm.length := by omega
  rw [e3, if_neg (by omega)]
  simp [drop_app_ge, *]

-- ---------------------------------------------------------------- flattened file header


theorem ffoDecode_header (fc : Nat) (i : InfoFork) (ds : Nat) (h : i.WF) (hn : i.name.length + 74 < 65536)
    (hfc : fc < 65536) (hds : ds < 4294967296) (rest : Bytes) :
    ffoDecode (ffoHeader fc i ds ++ rest) = .ok (fc, i, ds) := by
  have hil := InfoFork.encode_length i h.1
  have hsz : i.size = 74 + i.name.length + i.comment.length := rfl
  have hcl := h.2.2
  generalize hE : i.encode = E at hil
  have hdec : InfoFork.decode E = .ok i := hE ▸ InfoFork.decode_encode' i h hn
  have hP : ffoHeader fc i ds ++ rest =
      [0x46, 0x49, 0x4C, 0x50, 0, 1, 0,0,0,0,0,0,0,0,0,0,0,0,0,0,0,0] ++ (be16 fc ++ ([0x49, 0x4E, 0x46, 0x4F, 0, 0, 0, 0, 0, 0, 0, 0] ++ (be32 i.size ++
        (E ++ ([0x44, 0x41, 0x54, 0x41, 0, 0, 0, 0, 0, 0, 0, 0] ++ (be32 ds ++ rest)))))) := by
    simp [ffoHeader, hE, be16, List.replicate]; decide
  rw [hP]
  generalize hQ : [0x46, 0x49, 0x4C, 0x50, 0, 1, 0,0,0,0,0,0,0,0,0,0,0,0,0,0,0,0] ++ (be16 fc ++ ([0x49, 0x4E, 0x46, 0x4F, 0, 0, 0, 0, 0, 0, 0, 0] ++ (be32 i.size ++
        (E ++ ([0x44, 0x41, 0x54, 0x41, 0, 0, 0, 0, 0, 0, 0, 0] ++ (be32 ds ++ rest)))))) = Q
  have hQl : Q.length = 40 + i.size + 16 + rest.length := by
    subst hQ; simp [hil, hsz]; omega
  have d22 : Q.drop 22 = be16 fc ++ ([0x49, 0x4E, 0x46, 0x4F, 0, 0, 0, 0, 0, 0, 0, 0] ++ (be32 i.size ++
        (E ++ ([0x44, 0x41, 0x54, 0x41, 0, 0, 0, 0, 0, 0, 0, 0] ++ (be32 ds ++ rest))))) := by
    subst hQ; exact List.drop_left' rfl
  have d36 : Q.drop 36 = be32 i.size ++ (E ++ ([0x44, 0x41, 0x54, 0x41, 0, 0, 0, 0, 0, 0, 0, 0] ++ (be32 ds ++ rest))) := by
    have : 36 = 22 + 14 := rfl
    rw [this, ← List.drop_drop, d22]; simp [be16]
  have d40 : Q.drop 40 = E ++ ([0x44, 0x41, 0x54, 0x41, 0, 0, 0, 0, 0, 0, 0, 0] ++ (be32 ds ++ rest)) := by
    have : 40 = 36 + 4 := rfl
    rw [this, ← List.drop_drop, d36]; exact List.drop_left' (be32_length _)
  have dE : Q.drop (40 + i.size + 12) = be32 ds ++ rest := by
    have : 40 + i.size + 12 = 40 + (E.length + 12) := by omega
    rw [this, ← List.drop_drop, d40, ← List.drop_drop, List.drop_left]; rfl
  have hsz32 : i.size % 4294967296 = i.size := by omega
  unfold ffoDecode
  simp only [d36, rd32_be32_append, hsz32, d40, d22, rd16_be16_append, dE]
  rw [if_neg (by omega), if_neg (by omega), if_neg (by omega)]
  have ht : (E ++ ([0x44, 0x41, 0x54, 0x41, 0, 0, 0, 0, 0, 0, 0, 0] ++ (be32 ds ++ rest))).take i.size = E :=
    List.take_left' (by omega)
  rw [ht, hdec]
  simp only
  rw [if_neg (by omega)]
  have : fc % 65536 = fc := by omega
  have : ds % 4294967296 = ds := by omega
  simp [*]

-- ---------------------------------------------------------------- article list entries


theorem ArtEntry.encode_length (a : ArtEntry) (h : a.WF) : a.encode.length = 37 + a.title.length + a.poster.length := by
  obtain ⟨_, hd, _, _, _, _⟩ := h
  simp [ArtEntry.encode, textPlain, hd]; omega

theorem ArtEntry.parse_encode (a : ArtEntry) (h : a.WF) (rest : Bytes) :
    ArtEntry.parse (a.encode ++ rest) = some (a, rest) := by
  have hlen := ArtEntry.encode_length a h
  obtain ⟨hid, hd, hp, ht, hpo, hs⟩ := h
  obtain ⟨id, date, parent, title, poster, size⟩ := a
  simp only at hid hd hp ht hpo hs hlen
  have henc : ArtEntry.encode ⟨id, date, parent, title, poster, size⟩ ++ rest =
      be32 id ++ (date ++ (be32 parent ++ ([0, 0, 0, 0] ++ (be16 1 ++ ([b8 title.length] ++ (title ++ ([b8 poster.length] ++ (poster ++ (([10] ++ textPlain) ++ (be16 size ++ rest)))))))))) := by
    simp only [ArtEntry.encode, List.append_assoc]
  unfold ArtEntry.parse
  have hl : (ArtEntry.encode ⟨id, date, parent, title, poster, size⟩ ++ rest).length = 37 + title.length + poster.length + rest.length := by
    rw [List.length_append, hlen]
  rw [hl, henc]
  generalize hP : be32 id ++ (date ++ (be32 parent ++ ([0, 0, 0, 0] ++ (be16 1 ++ ([b8 title.length] ++ (title ++ ([b8 poster.length] ++ (poster ++ (([10] ++ textPlain) ++ (be16 size ++ rest)))))))))) = P
  have d4 : P.drop 4 = date ++ (be32 parent ++ ([0, 0, 0, 0] ++ (be16 1 ++ ([b8 title.length] ++ (title ++ ([b8 poster.length] ++ (poster ++ (([10] ++ textPlain) ++ (be16 size ++ rest))))))))) := by
    subst hP; exact List.drop_left' (be32_length id)
  have d12 : P.drop 12 = be32 parent ++ ([0, 0, 0, 0] ++ (be16 1 ++ ([b8 title.length] ++ (title ++ ([b8 poster.length] ++ (poster ++ (([10] ++ textPlain) ++ (be16 size ++ rest)))))))) := by
    have : 12 = 4 + 8 := rfl
    rw [this, ← List.drop_drop, d4]; exact List.drop_left' hd
  have d20 : P.drop 20 = be16 1 ++ ([b8 title.length] ++ (title ++ ([b8 poster.length] ++ (poster ++ (([10] ++ textPlain) ++ (be16 size ++ rest)))))) := by
    have : 20 = 12 + 8 := rfl
    rw [this, ← List.drop_drop, d12]; simp [be32]
  have d22 : P.drop 22 = [b8 title.length] ++ (title ++ ([b8 poster.length] ++ (poster ++ (([10] ++ textPlain) ++ (be16 size ++ rest))))) := by
    have : 22 = 20 + 2 := rfl
    rw [this, ← List.drop_drop, d20]; exact drop2_be16 _ _
  have d23 : P.drop 23 = title ++ ([b8 poster.length] ++ (poster ++ (([10] ++ textPlain) ++ (be16 size ++ rest)))) := by
    have : 23 = 22 + 1 := rfl
    rw [this, ← List.drop_drop, d22]; rfl
  have d23t : P.drop (23 + title.length) = [b8 poster.length] ++ (poster ++ (([10] ++ textPlain) ++ (be16 size ++ rest))) := by
    rw [← List.drop_drop, d23, List.drop_left]
  have d24t : P.drop (24 + title.length) = poster ++ (([10] ++ textPlain) ++ (be16 size ++ rest)) := by
    have : 24 + title.length = (23 + title.length) + 1 := by omega
    rw [this, ← List.drop_drop, d23t]; rfl
  have d24tp : P.drop (24 + title.length + poster.length) = ([10] ++ textPlain) ++ (be16 size ++ rest) := by
    rw [← List.drop_drop, d24t, List.drop_left]
  have htl : ((P.drop 22).headD 0).toNat = title.length := by
    rw [d22]; simp; omega
  simp only [htl]
  have hpl : ((P.drop (23 + title.length)).headD 0).toNat = poster.length := by
    rw [d23t]; simp; omega
  simp only [hpl, d24tp, d20, d12, d4, d23, d24t]
  rw [if_neg (by omega), if_neg (by omega), if_neg (by omega)]
  have hid' : rd32 P = id := by subst hP; rw [rd32_be32_append]; omega
  have hp' : rd32 (be32 parent ++ ([0, 0, 0, 0] ++ (be16 1 ++ ([b8 title.length] ++ (title ++ ([b8 poster.length] ++ (poster ++ (([10] ++ textPlain) ++ (be16 size ++ rest))))))))) = parent := by
    rw [rd32_be32_append]; omega
  have hs' : rd16 (be16 size ++ rest) = size := by rw [rd16_be16_append]; omega
  have q11 : (([10] ++ textPlain) ++ (be16 size ++ rest)).take 11 = [10] ++ textPlain := List.take_left' rfl
  have q11d : (([10] ++ textPlain) ++ (be16 size ++ rest)).drop 11 = be16 size ++ rest := List.drop_left' rfl
  have q13d : (([10] ++ textPlain) ++ (be16 size ++ rest)).drop 13 = rest := by
    have : 13 = 11 + 2 := rfl
    rw [this, ← List.drop_drop, q11d]; exact drop2_be16 _ _
  rw [q11, q11d, q13d, hid', hp', hs', rd16_be16_append]
  simp [List.take_left' hd]
def artEntriesEncode (as : List ArtEntry) : Bytes := (as.map ArtEntry.encode).flatten

/-- The entries of an emitted article list parse back to exactly the entries, in order, with nothing left over. -/
theorem parseArtEntries_encode (as : List ArtEntry) (h : ∀ a ∈ as, a.WF) :
    parseArtEntries as.length (artEntriesEncode as) = some as := by
  induction as with
  | nil => simp [parseArtEntries, artEntriesEncode]
  | cons a as ih =>
    have e : artEntriesEncode (a :: as) = a.encode ++ artEntriesEncode as := by simp [artEntriesEncode]
    rw [e]
    simp only [List.length_cons, parseArtEntries]
    rw [ArtEntry.parse_encode a (h a (List.mem_cons_self ..))]
    simp only
    rw [ih (fun x hx => h x (List.mem_cons_of_mem _ hx))]

-- ---------------------------------------------------------------- news path, account record


theorem newsPathDecodeItems_succ (d : Bytes) (n pos : Nat) (prev : Bytes) :
    newsPathDecodeItems d (n + 1) pos prev =
      (let rem := d.length - pos
       if rem < 3 then
         match newsPathDecodeItems d n pos [] with
         | .ok is => .ok ([] :: is)
         | r => r
       else
         let l := ((d.drop (pos + 2)).headD 0).toNat
         if 3 + l ≤ rem then
           let name := (d.drop (pos + 3)).take l
           match newsPathDecodeItems d n (pos + 3 + l) name with
           | .ok is => .ok (name :: is)
           | r => r
         else if pos + 3 + l > scanBufCap then .panic
         else
           match newsPathDecodeItems d n pos prev with
           | .ok is => .ok (prev :: is)
           | r => r) := rfl

theorem newsPathDecodeItems_encode (items : List Bytes) (h : ∀ it ∈ items, it.length < 256)
    (pre prev : Bytes) :
    newsPathDecodeItems (pre ++ itemsEncode items) items.length pre.length prev = .ok items := by
  induction items generalizing pre prev with
  | nil => simp [newsPathDecodeItems]
  | cons it items ih =>
    have hit : it.length < 256 := h it (by simp)
    rw [itemsEncode_cons, List.length_cons, newsPathDecodeItems_succ]
    have hlen : (pre ++ ([0, 0, b8 it.length] ++ it ++ itemsEncode items)).length - pre.length
        = 3 + it.length + (itemsEncode items).length := by simp; omega
    have hd2 : (pre ++ ([0, 0, b8 it.length] ++ it ++ itemsEncode items)).drop (pre.length + 2)
        = b8 it.length :: (it ++ itemsEncode items) := by
      rw [List.drop_append]
      simp
    have hd3 : (pre ++ ([0, 0, b8 it.length] ++ it ++ itemsEncode items)).drop (pre.length + 3)
        = it ++ itemsEncode items := by
      rw [List.drop_append]
      simp
    dsimp only
    rw [hlen, hd2, hd3]
    have hb : (b8 it.length).toNat = it.length := by simp; omega
    simp only [List.headD_cons, hb]
    have c1 : ¬ (3 + it.length + (itemsEncode items).length < 3) := by omega
    have c2 : 3 + it.length ≤ 3 + it.length + (itemsEncode items).length := by omega
    simp only [c1, c2, if_false, if_true]
    have htake : (it ++ itemsEncode items).take it.length = it := by simp
    rw [htake]
    have hpre : pre ++ ([0, 0, b8 it.length] ++ it ++ itemsEncode items)
        = (pre ++ [0, 0, b8 it.length] ++ it) ++ itemsEncode items := by simp
    have hpl : pre.length + 3 + it.length = (pre ++ [0, 0, b8 it.length] ++ it).length := by simp; omega
    rw [hpre, hpl, ih (fun x hx => h x (by simp [hx]))]

/-- `DecodeNewsPath` on an encoded news path (same item layout as file paths) yields the items. -/
theorem newsPathDecode_encode (items : List Bytes) (h : ∀ it ∈ items, it.length < 256) (hn : items.length < 65536) :
    newsPathDecode (pathEncode items) = .ok items := by
  unfold newsPathDecode
  rw [pathEncode_eq]
  have hl : (be16 items.length ++ itemsEncode items).length = 2 + (itemsEncode items).length := by simp
  have c1 : ¬ ((be16 items.length ++ itemsEncode items).length = 0) := by omega
  have c2 : ¬ ((be16 items.length ++ itemsEncode items).length < 2) := by omega
  simp only [c1, c2, if_false]
  rw [rd16_be16_append]
  have : items.length % 65536 = items.length := by omega
  rw [this]
  have hd : (be16 items.length ++ itemsEncode items).drop 2 = itemsEncode items := by simp [be16]
  rw [hd]
  have := newsPathDecodeItems_encode items h [] []
  simpa using this

/-- Account record: the field count prefix equals the number of fields and the fields parse back. -/
theorem AccountRec.fields_parse (a : AccountRec) (h : ∀ f ∈ a.fields, f.Scannable) (hn : a.fields.length < 65536) :
    rd16 a.encode = a.fields.length ∧ parseFields a.fields.length (a.encode.drop 2) = .ok a.fields := by
  unfold AccountRec.encode
  refine ⟨by rw [rd16_be16_append]; omega, ?_⟩
  rw [drop2_be16]
  have := parseFields_encode a.fields h []
  simpa using this

theorem obfuscate_involutive (b : Bytes) : obfuscate (obfuscate b) = b := by
  unfold obfuscate
  rw [List.map_map]
  have : ((fun x : UInt8 => 255 - x) ∘ fun x => 255 - x) = id := by
    funext x; simp only [Function.comp, id]
    apply UInt8.toNat_inj.mp
    have := x.toNat_lt
    simp [UInt8.toNat_sub]; omega
  rw [this, List.map_id]

theorem AccountRec.roundtrip (a : AccountRec) (h1 : a.name.length < 65536) (h2 : a.login.length < 65536) (h3 : a.access.length < 65536) :
    rd16 a.encode = a.fields.length ∧ parseFields a.fields.length (a.encode.drop 2) = .ok a.fields := by
  apply AccountRec.fields_parse
  · intro f hf
    unfold AccountRec.fields at hf
    have ho : (obfuscate a.login).length = a.login.length := by simp [obfuscate]
    cases hp : a.hasPassword <;> simp [hp] at hf
    · rcases hf with rfl | rfl | rfl <;> simp [Field.Scannable, Field.WF, *]
    · rcases hf with rfl | rfl | rfl | rfl <;> simp [Field.Scannable, Field.WF, *]
  · unfold AccountRec.fields; split <;> simp

end Mobius
