import MobiusModel.Session
/-!
  The accept loops (`Server.Serve`, `Server.ServeFileTransfers`): what happens to an accepted connection BEFORE
  `handleNewConnection` / `handleFileTransfer` gets it.

  As written, `Serve` consults the per-address rate limiter (a decision that does not look at the stream) and
  then hands the connection on UNREAD; `ServeFileTransfers` hands it on at once.  So the accept loop adds
  nothing to the segmentation question: `serve` below is `Session.run` behind a gate.

  Two variants of an accept loop that looks at the opening bytes first are modelled as well:
    * `servePreread n`: read EXACTLY `n` bytes (`io.ReadFull`), decide on them, replay them in front of the
      connection (`io.MultiReader`) — transparent for every chunking (theorem in `Props/C02`);
    * `servePeek n`: ONE `Read` of up to `n` bytes, decide on what it returned, replay — depends on where the
      first read boundary falls (the class of seeded change C02d-3): the witness that the theorem is not vacuous.
-/
namespace Mobius.AcceptLoop
open Mobius.Session

/-- What the accept loop did with one connection. -/
inductive Served (α : Type) where
  | rateLimited            -- closed without reading or writing anything
  | dropped                -- closed after looking at the opening bytes
  | handled (r : α)
deriving Repr

/-- `Server.Serve` for one accepted connection: `allowed` = the rate limiter's answer for the peer's address. -/
def serve {W O : Type} (allowed : Bool) (env : Env W O) (w : W) (chunks : List Bytes) : Served (Result W O) :=
  if allowed then .handled (Session.run env w chunks) else .rateLimited

/-- `Server.ServeFileTransfers` for one accepted connection: the transfer preamble is read by the handler. -/
def serveTransfer (chunks : List Bytes) : Res (Nat × Nat) × List Bytes := TransferSession.preamble chunks

/-- An accept loop that reads exactly `n` opening bytes, keeps the connection when `keep` accepts them, and
    replays them in front of the rest. -/
def servePreread {W O : Type} (n : Nat) (keep : Bytes → Bool) (env : Env W O) (w : W) (chunks : List Bytes) :
    Served (Result W O) :=
  let r := readFull chunks n
  if keep r.1 then .handled (Session.run env w (r.1 :: r.2)) else .dropped

/-- One `Read` of up to `n` bytes: the first non-empty chunk, at most `n` bytes of it; the rest of that chunk
    stays queued. -/
def readOnce : List Bytes → Nat → Bytes × List Bytes
  | [], _ => ([], [])
  | c :: cs, n => if c = [] then readOnce cs n else (c.take n, c.drop n :: cs)

/-- An accept loop that looks at the opening bytes with ONE `Read`. -/
def servePeek {W O : Type} (n : Nat) (keep : Bytes → Bool) (env : Env W O) (w : W) (chunks : List Bytes) :
    Served (Result W O) :=
  let r := readOnce chunks n
  if keep r.1 then .handled (Session.run env w (r.1 :: r.2)) else .dropped

/-- "starts with TRTP" -/
def startsTRTP (b : Bytes) : Bool := b.take 4 == [0x54, 0x52, 0x54, 0x50]

def Served.isHandled {α : Type} : Served α → Bool
  | .handled _ => true
  | _ => false

end Mobius.AcceptLoop
