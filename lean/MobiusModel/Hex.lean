import MobiusModel.Bytes
/-! Hex helpers for the oracle's line protocol (not part of any theorem). -/
namespace Mobius

def hexDigit (n : Nat) : Char :=
  if n < 10 then Char.ofNat (48 + n) else Char.ofNat (87 + n)

def toHex (b : Bytes) : String :=
  if b.isEmpty then "-" else
  String.ofList (b.flatMap fun x => [hexDigit (x.toNat / 16), hexDigit (x.toNat % 16)])

def hexVal (c : Char) : Option Nat :=
  if '0' ≤ c ∧ c ≤ '9' then some (c.toNat - 48)
  else if 'a' ≤ c ∧ c ≤ 'f' then some (c.toNat - 87)
  else if 'A' ≤ c ∧ c ≤ 'F' then some (c.toNat - 55)
  else none

def fromHexAux : List Char → Bytes → Option Bytes
  | [], acc => some acc.reverse
  | [_], _ => none
  | a :: b :: rest, acc =>
    match hexVal a, hexVal b with
    | some x, some y => fromHexAux rest (UInt8.ofNat (x * 16 + y) :: acc)
    | _, _ => none

def fromHex (s : String) : Option Bytes :=
  if s = "-" then some [] else fromHexAux s.toList []

def natList (l : List Nat) : String := " ".intercalate (l.map toString)

end Mobius
