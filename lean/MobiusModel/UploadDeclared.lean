import MobiusModel.Transfers
/-!
  C09, wave e — the DECLARED data-fork size as an explicit parameter.

  `uploadAttempt` (Transfers) always declares the length of the list it then sends.  Here the attempt takes the
  declared size `ds` (a 32-bit header field, read as an UNSIGNED number by `receiveFile` — `rd32`) and the bytes
  that actually arrived, `sent`, separately: the client announces `ds` bytes, `sent` arrives, the connection dies.
  Nothing of size `ds` exists anywhere: `ds` is a number.
-/
namespace Mobius

/-- One attempt declaring `ds` data-fork bytes on which exactly `sent` arrives after the complete header. -/
def uploadDeclared (ref fc : Nat) (i : InfoFork) (st : UpState) (ds : Nat) (sent : Bytes) : UpState :=
  uploadConn st (transferPreamble ref (56 + i.size + ds) ++ (ffoHeader fc i ds ++ sent))

/-- The upload parser on a complete header declaring `ds` followed by fewer than `ds` bytes: everything that
    arrived is appended, and the stream is NOT complete — for every `ds` up to 2^32 − 1. -/
theorem receiveFile_declared (fc : Nat) (i : InfoFork) (ds : Nat) (sent : Bytes)
    (hi : i.WFup) (hds : ds < 4294967296) (hcut : sent.length < ds) :
    receiveFile (ffoHeader fc i ds ++ sent) = { appended := sent, complete := false } := by
  obtain ⟨hf, hn, hc⟩ := hi
  have hl : (ffoHeader fc i ds ++ sent).length = 56 + i.size + sent.length := by
    rw [List.length_append, ffoHeader_length fc i ds hf]
  have hisz : i.size < 65536 + 65536 := by simp [InfoFork.size]; omega
  unfold receiveFile
  have e1 : ¬ ((ffoHeader fc i ds ++ sent).length < 40) := by omega
  rw [if_neg e1]
  have hil : rd32 ((ffoHeader fc i ds ++ sent).drop 36) = i.size := by
    rw [ffoHeader_drop36, rd32_be32_append]; omega
  simp only [hil]
  have e2 : ¬ ((ffoHeader fc i ds ++ sent).length < 40 + i.size) := by omega
  rw [if_neg e2]
  have hinfo : ((ffoHeader fc i ds ++ sent).drop 40).take i.size = i.encode := by
    rw [ffoHeader_drop40]; exact List.take_left' (InfoFork.encode_length i hf)
  rw [hinfo, InfoFork.decode_encode_ok i ⟨hf, hn, hc⟩]
  have e3 : ¬ (i.size ≠ 0 ∧ true = false) := by simp
  rw [if_neg e3]
  have e4 : ¬ ((ffoHeader fc i ds ++ sent).length < 56 + i.size) := by omega
  rw [if_neg e4]
  have hd : rd32 ((ffoHeader fc i ds ++ sent).drop (52 + i.size)) = ds := by
    rw [ffoHeader_drop_dsize _ _ _ _ hf, rd32_be32_append]; omega
  simp only [hd]
  rw [ffoHeader_drop_all _ _ _ _ hf]
  have ht : sent.take ds = sent := List.take_of_length_le (by omega)
  rw [ht, if_pos hcut]

/-- **Nothing is published before the declared data fork arrived — for every declared size.**  Whatever 32-bit
    size `ds` the header announces (0x7FFFFFFF, 0x80000000, 0xFFFFFFFF, …) and whatever shorter `sent` arrived before
    the connection died: the final name stays absent and the partial file is what was held plus exactly `sent`. -/
theorem uploadDeclared_cut (ref fc : Nat) (i : InfoFork) (inc : Option Bytes) (ds : Nat) (sent : Bytes)
    (hi : i.WFup) (hds : ds ≤ 4294967295) (hcut : sent.length < ds) :
    uploadDeclared ref fc i { final := none, inc := inc } ds sent =
      { final := none, inc := some (inc.getD [] ++ sent) } := by
  unfold uploadDeclared uploadConn
  have hp : (transferPreamble ref (56 + i.size + ds) ++ (ffoHeader fc i ds ++ sent)).take 16
      = transferPreamble ref (56 + i.size + ds) := List.take_left' (transferPreamble_length _ _)
  have hd : (transferPreamble ref (56 + i.size + ds) ++ (ffoHeader fc i ds ++ sent)).drop 16
      = ffoHeader fc i ds ++ sent := List.drop_left' (transferPreamble_length _ _)
  rw [hp, hd, transferDecode_preamble]
  simp only [uploadTransfer]
  rw [receiveFile_declared fc i ds sent hi (by omega) hcut]
  simp

/-- … hence the reply to the next resume request is the number of bytes held. -/
theorem uploadDeclared_resume_offset (ref fc : Nat) (i : InfoFork) (inc : Option Bytes) (ds : Nat) (sent : Bytes)
    (hi : i.WFup) (hds : ds ≤ 4294967295) (hcut : sent.length < ds)
    (hsmall : (inc.getD []).length + sent.length < 4294967296) :
    handleUploadFile (uploadDeclared ref fc i { final := none, inc := inc } ds sent) true
      = .ok (some ((inc.getD []).length + sent.length)) := by
  rw [uploadDeclared_cut ref fc i inc ds sent hi hds hcut]
  simp only [handleUploadFile, List.length_append]
  rw [Nat.mod_eq_of_lt hsmall]
  simp

/-- A history of such attempts (each declaring its own size, each cut before that many bytes arrived) never
    publishes, and the partial file is the concatenation of everything that arrived. -/
def declaredRun (ref fc : Nat) (i : InfoFork) (st : UpState) : List (Nat × Bytes) → UpState
  | [] => st
  | (ds, sent) :: rest => declaredRun ref fc i (uploadDeclared ref fc i st ds sent) rest

theorem declaredRun_cut (ref fc : Nat) (i : InfoFork) (hi : i.WFup) (atts : List (Nat × Bytes))
    (hall : ∀ a ∈ atts, a.1 ≤ 4294967295 ∧ a.2.length < a.1) (inc : Option Bytes) (hne : atts ≠ []) :
    declaredRun ref fc i { final := none, inc := inc } atts =
      { final := none, inc := some (inc.getD [] ++ (atts.map (·.2)).flatten) } := by
  induction atts generalizing inc with
  | nil => exact absurd rfl hne
  | cons a rest ih =>
    obtain ⟨ds, sent⟩ := a
    have ha := hall (ds, sent) (List.mem_cons_self ..)
    simp only [declaredRun]
    rw [uploadDeclared_cut ref fc i inc ds sent hi ha.1 ha.2]
    by_cases hr : rest = []
    · subst hr; simp [declaredRun]
    · rw [ih (fun a h => hall a (List.mem_cons_of_mem _ h)) _ hr]
      simp

/-- **Negative witness**: a parser that reads the size field as a SIGNED 32-bit number copies nothing for
    `ds ≥ 2^31` and reports success — the (empty) partial file would be published.  `receiveFileSigned` differs from
    `receiveFile` only in that reading. -/
def signed32 (n : Nat) : Int := if n < 2147483648 then (n : Int) else (n : Int) - 4294967296

/-- `io.CopyN(dst, src, n)` for `n ≤ 0` copies nothing and returns nil. -/
def copyNSigned (avail : Bytes) (n : Int) : Bytes × Bool :=
  if n ≤ 0 then ([], true) else (avail.take n.toNat, decide (n.toNat ≤ avail.length))

theorem signed_reading_publishes_empty (avail : Bytes) (ds : Nat) (h : 2147483648 ≤ ds) (h2 : ds < 4294967296) :
    copyNSigned avail (signed32 ds) = ([], true) := by
  unfold copyNSigned signed32
  have : ¬ ds < 2147483648 := by omega
  rw [if_neg this, if_pos (by omega)]

end Mobius
