import MobiusModel.Bytes
/-! Scan: `bufio.Scanner` over a segmented stream; segmentation independence (DESIGN §6.3, §15). -/
set_option linter.unusedVariables false
namespace Mobius.Scan

inductive SplitRes where
  | needMore
  | token (adv : Nat) (tok : Bytes)
deriving DecidableEq, Repr

abbrev Split := Bytes → SplitRes

structure PrefixDetermined (sp : Split) : Prop where
  stable : ∀ d e adv tok, sp d = .token adv tok → sp (d ++ e) = .token adv tok
  adv_le : ∀ d adv tok, sp d = .token adv tok → adv ≤ d.length

inductive Status where | eof | tooLong | noProgress
deriving DecidableEq, Repr

structure Result where
  tokens : List Bytes
  status : Status
deriving DecidableEq, Repr

/-- Specification on the whole remaining stream. -/
def tokensOf (sp : Split) (maxTok : Nat) (rest : Bytes) : Result :=
  match _h : sp (rest.take maxTok) with
  | .token adv tok =>
    if _hz : adv = 0 then ⟨[tok], .noProgress⟩
    else if _hle : adv ≤ rest.length then
      let r := tokensOf sp maxTok (rest.drop adv)
      ⟨tok :: r.tokens, r.status⟩
    else ⟨[tok], .noProgress⟩
  | .needMore => if maxTok ≤ rest.length then ⟨[], .tooLong⟩ else ⟨[], .eof⟩
termination_by rest.length
decreasing_by simp; omega

/-- Operational model: pending buffer + remaining chunks. -/
def scan (sp : Split) (maxTok : Nat) (pending : Bytes) (chunks : List Bytes) : Result :=
  match h : sp pending with
  | .token adv tok =>
    if hz : adv = 0 then ⟨[tok], .noProgress⟩
    else if hle : adv ≤ pending.length then
      let r := scan sp maxTok (pending.drop adv) chunks
      ⟨tok :: r.tokens, r.status⟩
    else ⟨[tok], .noProgress⟩
  | .needMore =>
    if hfull : maxTok ≤ pending.length then ⟨[], .tooLong⟩
    else
      match chunks with
      | [] => ⟨[], .eof⟩
      | c :: cs =>
        if hc : c = [] then scan sp maxTok pending cs
        else
          let room := maxTok - pending.length
          let rem := c.drop room
          scan sp maxTok (pending ++ c.take room) (if rem = [] then cs else rem :: cs)
termination_by (pending.length + chunks.flatten.length, chunks.flatten.length + chunks.length)
decreasing_by
  · simp [Prod.lex_def]; omega
  · subst hc; simp [Prod.lex_def]
  · simp only [Prod.lex_def]
    have hcl : 0 < c.length := by cases c <;> simp_all
    split <;> rename_i hr
    · simp [List.drop_eq_nil_iff] at hr
      simp [List.take_of_length_le hr]; omega
    · simp [List.length_take]; omega

theorem window_of_pending (pending flat : Bytes) (maxTok : Nat) (h : pending.length ≤ maxTok) :
    (pending ++ flat).take maxTok = pending ++ flat.take (maxTok - pending.length) := by
  rw [List.take_append]
  congr 1
  exact List.take_of_length_le h

theorem tokensOf_token (sp : Split) (maxTok : Nat) (rest : Bytes) (adv : Nat) (tok : Bytes)
    (h : sp (rest.take maxTok) = .token adv tok) :
    tokensOf sp maxTok rest =
      if adv = 0 then ⟨[tok], .noProgress⟩
      else if adv ≤ rest.length then
        ⟨tok :: (tokensOf sp maxTok (rest.drop adv)).tokens, (tokensOf sp maxTok (rest.drop adv)).status⟩
      else ⟨[tok], .noProgress⟩ := by
  rw [tokensOf]
  split
  · rename_i adv' tok' h'
    rw [h] at h'
    injection h' with h1 h2
    subst h1; subst h2
    rfl
  · rename_i h'
    rw [h] at h'
    cases h'

theorem tokensOf_needMore (sp : Split) (maxTok : Nat) (rest : Bytes)
    (h : sp (rest.take maxTok) = .needMore) :
    tokensOf sp maxTok rest = if maxTok ≤ rest.length then ⟨[], .tooLong⟩ else ⟨[], .eof⟩ := by
  rw [tokensOf]
  split
  · rename_i h'
    rw [h] at h'
    cases h'
  · rfl


theorem scan_eq_tokensOf (sp : Split) (hp : PrefixDetermined sp) (maxTok : Nat)
    (pending : Bytes) (chunks : List Bytes) (hlen : pending.length ≤ maxTok) :
    scan sp maxTok pending chunks = tokensOf sp maxTok (pending ++ chunks.flatten) := by
  fun_induction scan sp maxTok pending chunks with
  | case1 pending chunks tok h =>
    have hw := hp.stable pending (chunks.flatten.take (maxTok - pending.length)) 0 tok h
    rw [← window_of_pending _ _ _ hlen] at hw
    rw [tokensOf_token _ _ _ _ _ hw]
    simp
  | case2 pending chunks adv tok h hz hle r ih =>
    have hw := hp.stable pending (chunks.flatten.take (maxTok - pending.length)) adv tok h
    rw [← window_of_pending _ _ _ hlen] at hw
    rw [tokensOf_token _ _ _ _ _ hw]
    have hle' : adv ≤ (pending ++ chunks.flatten).length := by simp; omega
    simp only [hz, hle', if_true, if_false]
    have hd : (pending ++ chunks.flatten).drop adv = pending.drop adv ++ chunks.flatten :=
      List.drop_append_of_le_length hle
    rw [hd, ← ih (by simp; omega)]
  | case3 pending chunks adv tok h hz hle =>
    exact absurd (hp.adv_le pending adv tok h) hle
  | case4 pending chunks h hfull =>
    have hpl : pending.length = maxTok := by omega
    have hw : (pending ++ chunks.flatten).take maxTok = pending := by
      rw [window_of_pending _ _ _ hlen]; simp [hpl]
    rw [tokensOf_needMore _ _ _ (by rw [hw]; exact h)]
    have : maxTok ≤ (pending ++ chunks.flatten).length := by simp; omega
    rw [if_pos this]
  | case5 pending h hfull =>
    have hw : (pending ++ ([] : List Bytes).flatten).take maxTok = pending := by
      simp [List.take_of_length_le hlen]
    rw [tokensOf_needMore _ _ _ (by rw [hw]; exact h)]
    have : ¬ maxTok ≤ (pending ++ ([] : List Bytes).flatten).length := by simp; omega
    rw [if_neg this]
  | case6 pending h hfull cs ih =>
    simpa using ih hlen
  | case7 pending h hfull c cs hc room rem ih =>
    have hlen' : (pending ++ c.take room).length ≤ maxTok := by
      simp [room]; omega
    simp only [dite_eq_ite] at ih
    rw [ih hlen']
    congr 1
    simp only [List.append_assoc, List.flatten_cons]
    congr 1
    by_cases hr : rem = []
    · simp only [hr, if_true]
      have : c.take room = c := by
        have := hr; simp [rem, List.drop_eq_nil_iff] at this
        exact List.take_of_length_le this
      rw [this]
    · simp only [hr, if_false, List.flatten_cons]
      rw [← List.append_assoc, List.take_append_drop]

/-- Segmentation independence: any two chunkings of the same byte stream scan identically. -/
theorem segmentation_independent (sp : Split) (hp : PrefixDetermined sp) (maxTok : Nat)
    (c1 c2 : List Bytes) (h : c1.flatten = c2.flatten) :
    scan sp maxTok [] c1 = scan sp maxTok [] c2 := by
  rw [scan_eq_tokensOf sp hp maxTok [] c1 (by simp), scan_eq_tokensOf sp hp maxTok [] c2 (by simp), h]


/-- transactionScanner modelled with the 32-bit wrap of 20 + totalSize -/
def tranScanner : Split := fun data =>
  if data.length < 16 then .needMore
  else
    let tranLen := (20 + rd32 (data.drop 12)) % 4294967296
    if tranLen > data.length then .needMore else .token tranLen (data.take tranLen)


theorem tranScanner_pd : PrefixDetermined tranScanner := by
  constructor
  · intro d e adv tok h
    unfold tranScanner at h ⊢
    by_cases h16 : d.length < 16
    · simp [h16] at h
    · have h16' : ¬ (d ++ e).length < 16 := by simp; omega
      simp only [h16, h16', if_false] at h ⊢
      have hd : (d ++ e).drop 12 = d.drop 12 ++ e := List.drop_append_of_le_length (by omega)
      rw [hd, rd32_append _ _ (by simp; omega)]
      split at h
      · cases h
      · rename_i hle
        injection h with h1 h2
        have : ¬ ((20 + rd32 (d.drop 12)) % 4294967296 > (d ++ e).length) := by simp; omega
        simp only [this, if_false]
        subst h1
        congr 1
        rw [← h2]
        exact List.take_append_of_le_length (by omega)
  · intro d adv tok h
    unfold tranScanner at h
    split at h
    · cases h
    · dsimp only at h
      split at h
      · cases h
      · injection h with h1 h2; omega

end Mobius.Scan
