import MobiusModel.Bytes
/-!
  BanGate: the ban list (`internal/mobius/ban.go`), the decision taken at the door by
  `handleNewConnection` (`hotline/server.go`, between the handshake and the login), and the ban part
  of `HandleDisconnectUser` (`internal/mobius/transaction_handlers.go`).

  * store: `address ↦ not listed | permanent | until instant` (a Go `map[string]*time.Time`; the
    newest `Add` for an address wins, modelled by an association list searched from the front);
  * instants are natural numbers of nanoseconds (any linear order would do); `time.Now()` is an
    input of every decision, never read by the model;
  * the YAML library is a parameter (`Codec`) with the assumed round-trip property.
-/
namespace Mobius.BanGate

/-- The text of `remoteAddr` before the first `:` (`strings.Split(remoteAddr, ":")[0]`). -/
def ipOf (remoteAddr : Bytes) : Bytes := remoteAddr.takeWhile (· != 58)

/-- `none` = permanent ban (`nil` pointer in Go), `some u` = banned until instant `u`. -/
abbrev Entry := Option Nat

structure Store where
  entries : List (Bytes × Entry)
deriving Repr, DecidableEq

def Store.empty : Store := ⟨[]⟩

/-- `banList[ip]` with the `ok` flag: `none` = not listed. -/
def Store.lookup (s : Store) (a : Bytes) : Option Entry := s.entries.lookup a

/-- `banList[ip] = until`. -/
def Store.add (s : Store) (a : Bytes) (e : Entry) : Store := ⟨(a, e) :: s.entries⟩

/-- The decision at the door (after a valid handshake):
    listed with nil → refused; listed with `until` → refused iff `now.Before(until)`. -/
def refused (s : Store) (a : Bytes) (now : Nat) : Bool :=
  match s.lookup a with
  | none => false
  | some none => true
  | some (some u) => decide (now < u)

/-- Which notice a refused peer gets: `true` = "permanently", `false` = "temporarily". -/
def permanent (s : Store) (a : Bytes) : Bool :=
  match s.lookup a with
  | some none => true
  | _ => false

theorem lookup_add_same (s : Store) (a : Bytes) (e : Entry) : (s.add a e).lookup a = some e := by
  simp [Store.add, Store.lookup]

theorem lookup_add_other (s : Store) (a b : Bytes) (e : Entry) (h : b ≠ a) :
    (s.add a e).lookup b = s.lookup b := by
  have : (b == a) = false := by simpa using h
  simp [Store.add, Store.lookup, List.lookup, this]

theorem refused_add_other (s : Store) (a b : Bytes) (e : Entry) (now : Nat) (h : b ≠ a) :
    refused (s.add a e) b now = refused s b now := by
  simp [refused, lookup_add_other s a b e h]

/-- Two stores that answer every lookup alike take the same decisions. -/
def LookupEq (s1 s2 : Store) : Prop := ∀ a, s1.lookup a = s2.lookup a

theorem refused_congr {s1 s2 : Store} (h : LookupEq s1 s2) (a : Bytes) (now : Nat) :
    refused s1 a now = refused s2 a now := by
  simp [refused, h a]

theorem LookupEq.add {s1 s2 : Store} (h : LookupEq s1 s2) (a : Bytes) (e : Entry) :
    LookupEq (s1.add a e) (s2.add a e) := by
  intro b
  by_cases hb : b = a
  · subst hb; rw [lookup_add_same, lookup_add_same]
  · rw [lookup_add_other _ _ _ _ hb, lookup_add_other _ _ _ _ hb]; exact h b

-- ---------------------------------------------------------------- persistence

/-- The YAML library as a parameter: what `yaml.Marshal` writes for a ban map and what
    `yaml.Decoder.Decode` makes of it.  Assumed (trusted base, exercised by the harness through a
    fresh `NewBanFile` on every run): a decoded file answers every lookup like the map written. -/
structure Codec where
  ser : Store → Bytes
  deser : Bytes → Option Store
  roundtrip : ∀ s, ∃ s', deser (ser s) = some s' ∧ LookupEq s' s

/-- The ban file object plus the file on disk (`none` = the file does not exist). -/
structure Sys where
  mem : Store
  disk : Option Bytes

def Sys.init : Sys := ⟨Store.empty, none⟩

inductive Op where
  | add (a : Bytes) (e : Entry)    -- `BanFile.Add`: update the map, write the whole map to disk
  | reload                         -- a fresh `NewBanFile` on the same path (server restart)
deriving Repr, DecidableEq

/-- One step; `none` = `NewBanFile` fails (undecodable file: the server does not start). -/
def step (c : Codec) (s : Sys) : Op → Option Sys
  | .add a e => let m := s.mem.add a e; some ⟨m, some (c.ser m)⟩
  | .reload =>
    match s.disk with
    | none => some ⟨Store.empty, none⟩
    | some b =>
      match c.deser b with
      | some m => some ⟨m, some b⟩
      | none => none

def run (c : Codec) : Sys → List Op → Option Sys
  | s, [] => some s
  | s, op :: ops =>
    match step c s op with
    | some s' => run c s' ops
    | none => none

/-- The reference: restarts are invisible, the newest `Add` per address decides. -/
def specStore : Store → List Op → Store
  | s, [] => s
  | s, .add a e :: ops => specStore (s.add a e) ops
  | s, .reload :: ops => specStore s ops

/-- Memory and disk agree. -/
def Sys.Consistent (c : Codec) (s : Sys) : Prop :=
  (s.disk = none ∧ LookupEq s.mem Store.empty) ∨ (∃ m, s.disk = some (c.ser m) ∧ LookupEq m s.mem)

theorem run_spec (c : Codec) (ops : List Op) (s : Sys) (ref : Store)
    (hc : s.Consistent c) (hr : LookupEq s.mem ref) :
    ∃ s', run c s ops = some s' ∧ s'.Consistent c ∧ LookupEq s'.mem (specStore ref ops) := by
  induction ops generalizing s ref with
  | nil => exact ⟨s, rfl, hc, hr⟩
  | cons op ops ih =>
    cases op with
    | add a e =>
      simp only [run, step, specStore]
      apply ih
      · exact Or.inr ⟨s.mem.add a e, rfl, fun _ => rfl⟩
      · exact hr.add a e
    | reload =>
      simp only [run, step, specStore]
      rcases hc with ⟨hd, he⟩ | ⟨m, hd, hm⟩
      · simp only [hd]
        apply ih
        · exact Or.inl ⟨rfl, fun _ => rfl⟩
        · intro a; rw [← hr a, he a]
      · rw [hd]
        obtain ⟨m', hdec, hm'⟩ := c.roundtrip m
        simp only [hdec]
        apply ih
        · exact Or.inr ⟨m, rfl, fun a => (hm' a).symm⟩
        · intro a; rw [hm' a, hm a, hr a]

theorem specStore_append (s : Store) (o1 o2 : List Op) :
    specStore s (o1 ++ o2) = specStore (specStore s o1) o2 := by
  induction o1 generalizing s with
  | nil => rfl
  | cons op o1 ih =>
    cases op with
    | add a e => simp only [List.cons_append, specStore]; exact ih _
    | reload => simp only [List.cons_append, specStore]; exact ih _

/-- Operations that do not add an entry for `a` leave `a`'s entry alone. -/
theorem specStore_lookup_of_no_add (s : Store) (ops : List Op) (a : Bytes)
    (h : ∀ e, Op.add a e ∉ ops) : (specStore s ops).lookup a = s.lookup a := by
  induction ops generalizing s with
  | nil => rfl
  | cons op ops ih =>
    have ht : ∀ e, Op.add a e ∉ ops := fun e hm => h e (List.mem_cons_of_mem _ hm)
    cases op with
    | add b e =>
      simp only [specStore]
      rw [ih _ ht]
      apply lookup_add_other
      intro hab
      subst hab
      exact h e (by simp)
    | reload => simp only [specStore]; exact ih _ ht

theorem consistent_init (c : Codec) : Sys.init.Consistent c := Or.inl ⟨rfl, fun _ => rfl⟩

-- ---------------------------------------------------------------- the disconnect handler's ban

def banDurationMinutes : Nat := 30

/-- `hotline.BanDuration` in nanoseconds. -/
def banDuration : Nat := banDurationMinutes * 60 * 1000000000

/-- The ban part of `HandleDisconnectUser`: `opt` is `FieldOptions.Data[1]` when the field is
    present (`none` = field absent): 1 → temporary (`now + BanDuration`), 2 → permanent,
    anything else → no ban entry. -/
def disconnectBan (s : Store) (opt : Option Nat) (now : Nat) (ip : Bytes) : Store :=
  match opt with
  | some 1 => s.add ip (some (now + banDuration))
  | some 2 => s.add ip none
  | _ => s

-- ---------------------------------------------------------------- ClientConn.Disconnect: who is told

/-- A registered connection as the client manager lists it: its user name may still be empty
    (a 1.5+ client that has logged in but not yet sent its name / agreed). -/
structure Client where
  id : Nat
  name : Bytes
  agreed : Bool
deriving Repr, DecidableEq

/-- `ClientConn.Disconnect` (called by the delayed goroutine of the disconnect handler and by the
    deferred cleanup of every connection): the client leaves the registry and *every other*
    registered client is sent a "user left" notice `(to, id that left)` — whatever the name or
    agreement state of the one that leaves. -/
def disconnect (live : List Client) (c : Client) : List Client × List (Nat × Nat) :=
  (live.filter (fun o => o.id != c.id), (live.filter (fun o => o.id != c.id)).map (fun o => (o.id, c.id)))

theorem disconnect_tells_all_others (live : List Client) (c : Client) (o : Client)
    (ho : o ∈ live) (hne : o.id ≠ c.id) : (o.id, c.id) ∈ (disconnect live c).2 := by
  simp only [disconnect, List.mem_map, List.mem_filter]
  exact ⟨o, ⟨ho, by simpa using hne⟩, rfl⟩

theorem disconnect_removes (live : List Client) (c : Client) :
    ∀ o ∈ (disconnect live c).1, o.id ≠ c.id := by
  intro o ho
  simp only [disconnect, List.mem_filter] at ho
  simpa using ho.2

end Mobius.BanGate
