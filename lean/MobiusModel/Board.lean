import MobiusModel.Drain
import MobiusModel.Interleave
/-!
  Board: the message board (`mobius.FlatNews`) and the agreement (`mobius.Agreement`) as the server
  uses them.

  * `Store` = (data, cursor, file): the in-memory text, the ONE read cursor shared by all clients,
    and the persisted copy (`MessageBoard.txt`).
  * `Raw` = the calls the server makes on the store: `Seek off`, `Read n` (buffer of n bytes),
    `Write p` (prepend + persist).  `rawStep` mirrors `FlatNews.Seek/Read/Write`.
  * `Op` = the server-level operations `hotline.Server.ReadMessageBoard` / `ReadAgreement`
    (`Seek(0,0); io.ReadAll` – i.e. `Read` with buffer sizes chosen by `io.ReadAll`, an *input* here,
    until the first EOF) and `PostMessageBoard` (`Write`).  `Op.trace` is the list of raw calls the
    operation makes; `execOp` runs them *contiguously* – that is what holding `boardMu` /
    `agreementMu` for the whole body gives (obligation over the regenerated lock facts in Props/C19).
  * `runOps` = a schedule of operations, one critical section after the other;
    `runRaw` = a schedule of raw calls tagged with the operation that makes them (no lock assumed).
  * `formatPost` = the text `HandleTranOldPostNews` builds.
-/
namespace Mobius.Board

structure Store where
  data : Bytes
  cursor : Nat
  file : Bytes
deriving DecidableEq, Repr

inductive Raw where
  | seek (off : Nat)
  | read (n : Nat)
  | write (p : Bytes)
deriving DecidableEq, Repr

/-- One call on the store: (new state, bytes delivered, EOF reported). -/
def rawStep (s : Store) : Raw → Store × Bytes × Bool
  | .seek off => ({ s with cursor := off }, [], false)
  | .read n =>
    if s.data.length ≤ s.cursor then (s, [], true)
    else ({ s with cursor := s.cursor + ((s.data.drop s.cursor).take n).length },
          (s.data.drop s.cursor).take n, false)
  | .write p => ({ s with data := p ++ s.data, file := p ++ s.data }, [], false)

/-- A run of calls made by one client with nobody in between: final state and the bytes it collected. -/
def runSteps (s : Store) : List Raw → Store × Bytes
  | [] => (s, [])
  | r :: rs =>
    let x := rawStep s r
    let y := runSteps x.1 rs
    (y.1, x.2.1 ++ y.2)

/-- The `Read` calls `io.ReadAll` makes from state `s`: buffer sizes `sz i, sz (i+1), …`, stopping
    after the first call that reports EOF.  `fuel` bounds the loop (never reached, see `readTrace_run`). -/
def readTrace (sz : Nat → Nat) : Nat → Nat → Store → List Raw
  | 0, _, _ => []
  | fuel + 1, i, s =>
    let x := rawStep s (.read (sz i))
    if x.2.2 then [.read (sz i)] else .read (sz i) :: readTrace sz fuel (i + 1) x.1

/-- Server-level operations. `read sz`: `Seek(0,0)` then `io.ReadAll` whose i-th buffer has `sz i` bytes. -/
inductive Op where
  | read (sz : Nat → Nat)
  | post (p : Bytes)

/-- `io.ReadAll` never calls `Read` with an empty buffer. -/
def Op.WF : Op → Prop
  | .read sz => ∀ i, 1 ≤ sz i
  | .post _ => True

/-- The raw calls an operation makes when it starts in state `s`. -/
def Op.trace (s : Store) : Op → List Raw
  | .read sz => .seek 0 :: readTrace sz (s.data.length + 1) 0 { s with cursor := 0 }
  | .post p => [.write p]

/-- An operation executed as one critical section. Result: what the caller obtains. -/
def execOp (s : Store) (op : Op) : Store × Bytes := runSteps s (op.trace s)

/-- A schedule of operations (the order in which they get the mutex): final state, result of each. -/
def runOps (s : Store) : List Op → Store × List Bytes
  | [] => (s, [])
  | op :: ops =>
    let x := execOp s op
    let y := runOps x.1 ops
    (y.1, x.2 :: y.2)

def postsOf (ops : List Op) : List Bytes :=
  ops.filterMap fun | .post p => some p | .read _ => none

/-- The board after the posts among `ops` (in that order) were applied to `init`: newest first. -/
def boardAfter (init : Bytes) (ops : List Op) : Bytes := (postsOf ops).reverse.flatten ++ init

/-! ### one critical section -/

theorem runSteps_append (s : Store) (a b : List Raw) :
    runSteps s (a ++ b) = ((runSteps (runSteps s a).1 b).1, (runSteps s a).2 ++ (runSteps (runSteps s a).1 b).2) := by
  induction a generalizing s with
  | nil => simp [runSteps]
  | cons r rs ih => simp [runSteps, ih, List.append_assoc]

theorem readTrace_run (sz : Nat → Nat) (hsz : ∀ i, 1 ≤ sz i) :
    ∀ (fuel i : Nat) (s : Store), s.cursor ≤ s.data.length → s.data.length - s.cursor < fuel →
      runSteps s (readTrace sz fuel i s) = ({ s with cursor := s.data.length }, s.data.drop s.cursor) := by
  intro fuel
  induction fuel with
  | zero => intro i s _ h; omega
  | succ fuel ih =>
    intro i s hle hfuel
    unfold readTrace
    by_cases hend : s.data.length ≤ s.cursor
    · have hc : s.cursor = s.data.length := by omega
      simp only [rawStep, hend, if_true, runSteps]
      have : s.data.drop s.cursor = [] := by simp [hc]
      rw [this]
      cases s; simp_all
    · simp only [rawStep, hend, if_false]
      have hn := hsz i
      have hlen : ((s.data.drop s.cursor).take (sz i)).length = min (sz i) (s.data.length - s.cursor) := by
        simp [List.length_take]
      have hpos : 1 ≤ ((s.data.drop s.cursor).take (sz i)).length := by rw [hlen]; omega
      have hle' : s.cursor + ((s.data.drop s.cursor).take (sz i)).length ≤ s.data.length := by rw [hlen]; omega
      have := ih (i + 1) { s with cursor := s.cursor + ((s.data.drop s.cursor).take (sz i)).length } hle'
        (by simp only; omega)
      simp only [Bool.false_eq_true, if_false, runSteps, rawStep, hend] at this ⊢
      rw [this]
      refine Prod.ext rfl ?_
      simp only
      rw [← List.drop_drop, drop_length_take]
      exact List.take_append_drop (sz i) (s.data.drop s.cursor)

/-- `ReadMessageBoard` / `ReadAgreement` as one critical section returns the complete current text,
    whatever buffer sizes `io.ReadAll` uses and wherever the shared cursor was left. -/
theorem execOp_read (s : Store) (sz : Nat → Nat) (hsz : ∀ i, 1 ≤ sz i) :
    execOp s (.read sz) = ({ s with cursor := s.data.length }, s.data) := by
  have := readTrace_run sz hsz (s.data.length + 1) 0 { s with cursor := 0 } (by simp) (by simp)
  simp only [execOp, Op.trace, runSteps, rawStep]
  rw [this]
  simp

theorem execOp_post (s : Store) (p : Bytes) :
    execOp s (.post p) = ({ s with data := p ++ s.data, file := p ++ s.data }, []) := by
  simp [execOp, Op.trace, runSteps, rawStep]

/-! ### schedules of critical sections -/

theorem boardAfter_nil (d : Bytes) : boardAfter d [] = d := by simp [boardAfter, postsOf]

theorem boardAfter_read (d : Bytes) (sz : Nat → Nat) (ops : List Op) :
    boardAfter d (.read sz :: ops) = boardAfter d ops := by simp [boardAfter, postsOf]

theorem boardAfter_post (d p : Bytes) (ops : List Op) :
    boardAfter d (.post p :: ops) = boardAfter (p ++ d) ops := by
  simp [boardAfter, postsOf, List.append_assoc]

theorem boardAfter_snoc_post (d p : Bytes) (ops : List Op) :
    boardAfter d (ops ++ [.post p]) = p ++ boardAfter d ops := by
  simp [boardAfter, postsOf, List.filterMap_append, List.append_assoc]

theorem boardAfter_snoc_read (d : Bytes) (sz : Nat → Nat) (ops : List Op) :
    boardAfter d (ops ++ [.read sz]) = boardAfter d ops := by
  simp [boardAfter, postsOf, List.filterMap_append]

theorem execOp_data (s : Store) (op : Op) (h : op.WF) :
    (execOp s op).1.data = boardAfter s.data [op] := by
  cases op with
  | read sz => rw [execOp_read s sz h, boardAfter_read, boardAfter_nil]
  | post p => rw [execOp_post, boardAfter_post, boardAfter_nil]

theorem runOps_data (ops : List Op) : ∀ (s : Store), (∀ op ∈ ops, op.WF) →
    (runOps s ops).1.data = boardAfter s.data ops := by
  induction ops with
  | nil => intro s _; simp [runOps, boardAfter_nil]
  | cons op ops ih =>
    intro s h
    have hop := h op (by simp)
    simp only [runOps]
    rw [ih _ (fun o ho => h o (by simp [ho]))]
    cases op with
    | read sz => rw [execOp_read s sz hop, boardAfter_read]
    | post p => rw [execOp_post, boardAfter_post]

theorem runOps_append (a b : List Op) (s : Store) :
    runOps s (a ++ b) = ((runOps (runOps s a).1 b).1, (runOps s a).2 ++ (runOps (runOps s a).1 b).2) := by
  induction a generalizing s with
  | nil => simp [runOps]
  | cons op ops ih => simp [runOps, ih]

theorem runOps_length (ops : List Op) (s : Store) : (runOps s ops).2.length = ops.length := by
  induction ops generalizing s with
  | nil => simp [runOps]
  | cons op ops ih => simp [runOps, ih]

/-- The result of the i-th operation of a schedule: a read obtains the board as of its position. -/
theorem runOps_result (ops : List Op) : ∀ (s : Store) (i : Nat), (∀ op ∈ ops, op.WF) →
    ∀ sz, ops[i]? = some (.read sz) → (runOps s ops).2[i]? = some (boardAfter s.data (ops.take i)) := by
  induction ops with
  | nil => intro s i _ sz h; simp at h
  | cons op ops ih =>
    intro s i hwf sz h
    have hop := hwf op (by simp)
    cases i with
    | zero =>
      simp at h; subst h
      simp [runOps, execOp_read s sz hop, boardAfter_nil]
    | succ i =>
      have h' : ops[i]? = some (.read sz) := by simpa using h
      have := ih (execOp s op).1 i (fun o ho => hwf o (by simp [ho])) sz h'
      simp only [runOps, List.getElem?_cons_succ, List.take_succ_cons]
      rw [this]
      cases op with
      | read sz' => rw [execOp_read s sz' hop, boardAfter_read]
      | post p => rw [execOp_post, boardAfter_post]

/-- After a post has returned, the file holds exactly the in-memory board, which starts with the post. -/
theorem runOps_post_persisted (pre : List Op) (p : Bytes) (s : Store) (h : ∀ op ∈ pre, op.WF) :
    (runOps s (pre ++ [.post p])).1.file = (runOps s (pre ++ [.post p])).1.data ∧
    (runOps s (pre ++ [.post p])).1.data = p ++ boardAfter s.data pre := by
  rw [runOps_append]
  simp only [runOps, execOp_post]
  rw [runOps_data pre s h]
  exact ⟨trivial, rfl⟩

/-- file = data is an invariant of the operations. -/
theorem runOps_file_inv (ops : List Op) : ∀ (s : Store), (∀ op ∈ ops, op.WF) → s.file = s.data →
    (runOps s ops).1.file = (runOps s ops).1.data := by
  induction ops with
  | nil => intro s _ h; simpa [runOps] using h
  | cons op ops ih =>
    intro s hwf h
    simp only [runOps]
    apply ih _ (fun o ho => hwf o (by simp [ho]))
    cases op with
    | read sz =>
      have hop : (Op.read sz).WF := hwf (.read sz) (by simp)
      rw [execOp_read s sz hop]; exact h
    | post p => rw [execOp_post]

/-! ### raw schedules (no lock assumed) -/

/-- A schedule of raw calls, each tagged with the operation making it: final state and the
    deliveries (tag, bytes, eof) in order. -/
def runRaw (s : Store) : List (Nat × Raw) → Store × List (Nat × Bytes × Bool)
  | [] => (s, [])
  | (c, r) :: rest =>
    let x := rawStep s r
    let y := runRaw x.1 rest
    (y.1, (c, x.2.1, x.2.2) :: y.2)

/-- What operation `c` collected. -/
def got (c : Nat) (evs : List (Nat × Bytes × Bool)) : Bytes :=
  ((evs.filter (·.1 == c)).map (·.2.1)).flatten

/-- EOF flags operation `c` saw, call by call. -/
def eofs (c : Nat) (evs : List (Nat × Bytes × Bool)) : List Bool :=
  (evs.filter (·.1 == c)).map (·.2.2)

/-- The raw schedule produced when every operation runs under the mutex: operation `i + j` is the
    j-th of `ops`, its calls are contiguous. -/
def lockedTrace (s : Store) : List Op → Nat → List (Nat × Raw)
  | [], _ => []
  | op :: ops, i => (op.trace s).map (fun r => (i, r)) ++ lockedTrace (execOp s op).1 ops (i + 1)

theorem runRaw_append (s : Store) (a b : List (Nat × Raw)) :
    runRaw s (a ++ b) = ((runRaw (runRaw s a).1 b).1, (runRaw s a).2 ++ (runRaw (runRaw s a).1 b).2) := by
  induction a generalizing s with
  | nil => simp [runRaw]
  | cons r rs ih => obtain ⟨c, r⟩ := r; simp [runRaw, ih]

theorem got_append (c : Nat) (a b : List (Nat × Bytes × Bool)) : got c (a ++ b) = got c a ++ got c b := by
  simp [got, List.filter_append]

theorem runRaw_block (s : Store) (c : Nat) (steps : List Raw) :
    (runRaw s (steps.map fun r => (c, r))).1 = (runSteps s steps).1 ∧
    got c (runRaw s (steps.map fun r => (c, r))).2 = (runSteps s steps).2 ∧
    ∀ d, d ≠ c → got d (runRaw s (steps.map fun r => (c, r))).2 = [] := by
  induction steps generalizing s with
  | nil => simp [runRaw, runSteps, got]
  | cons r rs ih =>
    obtain ⟨h1, h2, h3⟩ := ih (rawStep s r).1
    refine ⟨by simpa [runRaw, runSteps] using h1, ?_, ?_⟩
    · simp only [List.map_cons, runRaw, runSteps]
      have : got c ((c, (rawStep s r).2.1, (rawStep s r).2.2) :: (runRaw (rawStep s r).1 (rs.map fun r => (c, r))).2)
          = (rawStep s r).2.1 ++ got c (runRaw (rawStep s r).1 (rs.map fun r => (c, r))).2 := by
        simp [got]
      rw [this, h2]
    · intro d hd
      simp only [List.map_cons, runRaw]
      have : got d ((c, (rawStep s r).2.1, (rawStep s r).2.2) :: (runRaw (rawStep s r).1 (rs.map fun r => (c, r))).2)
          = got d (runRaw (rawStep s r).1 (rs.map fun r => (c, r))).2 := by
        have hcd : (c == d) = false := by simpa using (Ne.symm hd)
        simp [got, hcd]
      rw [this, h3 d hd]

/-- Deliveries of a locked trace starting at tag `i` never go to a tag below `i`. -/
theorem lockedTrace_got_lt (ops : List Op) : ∀ (s : Store) (i d : Nat), d < i →
    got d (runRaw s (lockedTrace s ops i)).2 = [] := by
  induction ops with
  | nil => intro s i d _; simp [lockedTrace, runRaw, got]
  | cons op ops ih =>
    intro s i d hd
    simp only [lockedTrace]
    rw [runRaw_append, got_append]
    obtain ⟨h1, _, h3⟩ := runRaw_block s i (op.trace s)
    rw [h3 d (by omega), h1]
    simpa [execOp] using ih (runSteps s (op.trace s)).1 (i + 1) d (by omega)

/-- Refinement: at the level of raw `Seek/Read/Write` calls, a schedule in which every operation's
    calls are contiguous leaves the store as `runOps` says and gives every operation the result
    `runOps` says. -/
theorem lockedTrace_refines (ops : List Op) : ∀ (s : Store) (i : Nat),
    (runRaw s (lockedTrace s ops i)).1 = (runOps s ops).1 ∧
    ∀ j, j < ops.length → some (got (i + j) (runRaw s (lockedTrace s ops i)).2) = (runOps s ops).2[j]? := by
  induction ops with
  | nil => intro s i; simp [lockedTrace, runRaw, runOps]
  | cons op ops ih =>
    intro s i
    obtain ⟨h1, h2, h3⟩ := runRaw_block s i (op.trace s)
    obtain ⟨ih1, ih2⟩ := ih (execOp s op).1 (i + 1)
    simp only [execOp] at ih1 ih2
    simp only [lockedTrace, execOp]
    rw [runRaw_append, h1]
    refine ⟨by simpa [runOps, execOp] using ih1, ?_⟩
    intro j hj
    simp only [got_append]
    cases j with
    | zero =>
      have hz := lockedTrace_got_lt ops (execOp s op).1 (i + 1) i (by omega)
      simp only [execOp] at hz
      simp [runOps, h2, hz, execOp]
    | succ j =>
      have := ih2 j (by simpa using hj)
      have hne : i + (j + 1) ≠ i := by omega
      rw [h3 _ hne]
      simp only [runOps, execOp, List.getElem?_cons_succ, List.nil_append]
      rw [← this]
      congr 2
      omega

/-! ### the post text -/

/-- `strings.ReplaceAll(s, "\n", "\r")` on bytes. -/
def nl2cr (b : Bytes) : Bytes := b.map fun c => if c = 10 then 13 else c

/-- Split a format string at every `%s` verb. -/
def splitVerbs : Bytes → List Bytes
  | [] => [[]]
  | 37 :: 115 :: t => [] :: splitVerbs t
  | c :: t =>
    match splitVerbs t with
    | [] => [[c]]
    | p :: ps => (c :: p) :: ps

/-- `fmt.Sprintf` for a format whose only verbs are `%s`, given byte-string / string arguments
    (as many as verbs; a missing argument prints Go's `%!s(MISSING)`). -/
def fill : List Bytes → List Bytes → Bytes
  | [], _ => []
  | [p], _ => p
  | p :: ps, a :: as => p ++ a ++ fill ps as
  | p :: ps, [] => p ++ "%!s(MISSING)".toUTF8.toList ++ fill ps []

/-- The text `HandleTranOldPostNews` prepends:
    `ReplaceAll(Sprintf(template + "\r", userName, date, body), "\n", "\r")`; the date is an input. -/
def formatPost (template name date body : Bytes) : Bytes :=
  nl2cr (fill (splitVerbs (template ++ [13])) [name, date, body])

theorem fill_four (a b c d n t y : Bytes) :
    fill [a, b, c, d] [n, t, y] = a ++ n ++ (b ++ t ++ (c ++ y ++ d)) := by
  simp [fill]

/-- `HandleTranOldPostNews` for a poster allowed to post: build the text, `PostMessageBoard`, then `SendAll`
    (one transaction 102 carrying the text per connected client, `clients` = `ClientMgr.List()`).
    Result: new store, notifications (addressee, text). -/
def handlePost (template : Bytes) (clients : List Nat) (name date body : Bytes) (s : Store) :
    Store × List (Nat × Bytes) :=
  ((execOp s (.post (formatPost template name date body))).1,
   clients.map fun c => (c, formatPost template name date body))

/-- `FlatNews.Write` when persisting fails (the temp file cannot be written or renamed): the in-memory text
    already holds the post (`f.data = Concat(p, f.data)` comes first), the file is unchanged, an error is returned. -/
def failedWrite (s : Store) (p : Bytes) : Store := { s with data := p ++ s.data }

structure PostOutcome where
  store : Store
  acked : Bool
  notes : List (Nat × Bytes)

/-- `HandleTranOldPostNews` with the outcome of the persist step as an input: on an error the handler ends at
    once – no transaction 102, no reply. -/
def handlePostF (persistOk : Bool) (template : Bytes) (clients : List Nat) (name date body : Bytes) (s : Store) :
    PostOutcome :=
  if persistOk then
    ⟨(handlePost template clients name date body s).1, true, (handlePost template clients name date body s).2⟩
  else ⟨failedWrite s (formatPost template name date body), false, []⟩

/-- `FlatNews.Reload` (operator reload, SIGHUP / API): with the store's lock held from before the file is read,
    the whole reload is one step: memory := the file's text with `\n`→`\r`. -/
def reloadStep (s : Store) : Store := { s with data := nl2cr s.file }

theorem nl2cr_id (b : Bytes) (h : (10 : UInt8) ∉ b) : nl2cr b = b := by
  induction b with
  | nil => rfl
  | cons c cs ih =>
    have hc : c ≠ 10 := fun e => h (by simp [e])
    have hcs : (10 : UInt8) ∉ cs := fun m => h (by simp [m])
    simp only [nl2cr, List.map_cons, hc, if_false] at ih ⊢
    rw [ih hcs]

theorem boardAfter_no_nl (init : Bytes) (ops : List Op) (h0 : (10 : UInt8) ∉ init)
    (hp : ∀ p ∈ postsOf ops, (10 : UInt8) ∉ p) : (10 : UInt8) ∉ boardAfter init ops := by
  simp only [boardAfter, List.mem_append, List.mem_flatten, List.mem_reverse, not_or, not_exists, not_and]
  exact ⟨fun l hl => hp l hl, h0⟩

def ascii (s : String) : Bytes := s.toList.map fun c => UInt8.ofNat c.toNat

theorem nl2cr_no_nl (b : Bytes) : (10 : UInt8) ∉ nl2cr b := by
  simp only [nl2cr, List.mem_map, not_exists, not_and]
  intro c _
  split
  · decide
  · rename_i h; exact fun e => h e

theorem nl2cr_append (a b : Bytes) : nl2cr (a ++ b) = nl2cr a ++ nl2cr b := by simp [nl2cr]

theorem nl2cr_length (b : Bytes) : (nl2cr b).length = b.length := by simp [nl2cr]

end Mobius.Board
