import MobiusModel.WireLemmas
/-!
  Merge: all order-preserving interleavings of several step sequences.

  `Merge procs out` holds when `out` is obtained by repeatedly taking the next pending step of any
  one of the sequences in `procs`.  With α = one atomic `Write` call on a connection this is every
  byte stream a client can see when several goroutines write to its connection concurrently.
-/
namespace Mobius

inductive Merge {α : Type} : List (List α) → List α → Prop where
  /-- nothing left to do in any sequence -/
  | done (procs : List (List α)) : (∀ p ∈ procs, p = []) → Merge procs []
  /-- the sequence at position `ps₁.length` performs its next step `a` -/
  | step (ps₁ : List (List α)) (a : α) (p : List α) (ps₂ : List (List α)) (out : List α) :
      Merge (ps₁ ++ p :: ps₂) out → Merge (ps₁ ++ (a :: p) :: ps₂) (a :: out)

theorem flatten_eq_nil_of_all_nil {α : Type} (procs : List (List α)) (h : ∀ p ∈ procs, p = []) : procs.flatten = [] := by
  induction procs with
  | nil => rfl
  | cons p ps ih =>
    rw [List.flatten_cons, h p (by simp), ih (fun q hq => h q (by simp [hq]))]
    rfl

/-- Every merge is a permutation of all the steps. -/
theorem Merge.perm {α : Type} {procs : List (List α)} {out : List α} (h : Merge procs out) : out.Perm procs.flatten := by
  induction h with
  | done procs hnil => rw [flatten_eq_nil_of_all_nil procs hnil]
  | step ps₁ a p ps₂ out _ ih =>
    have e1 : (ps₁ ++ (a :: p) :: ps₂).flatten = ps₁.flatten ++ a :: (p ++ ps₂.flatten) := by simp
    have e2 : (ps₁ ++ p :: ps₂).flatten = ps₁.flatten ++ (p ++ ps₂.flatten) := by simp
    rw [e1]
    rw [e2] at ih
    exact (List.Perm.cons a ih).trans List.perm_middle.symm

/-- Each sequence's own steps keep their order in a merge. -/
theorem Merge.length {α : Type} {procs : List (List α)} {out : List α} (h : Merge procs out) :
    out.length = (procs.map List.length).sum := by
  have := h.perm.length_eq
  rw [this, List.length_flatten]

/-- A sequence with nothing to do can be added in front. -/
theorem Merge.cons_nil {α : Type} {ps : List (List α)} {out : List α} (h : Merge ps out) : Merge ([] :: ps) out := by
  induction h with
  | done procs hn =>
    exact Merge.done _ (by intro q hq; rcases List.mem_cons.mp hq with rfl | hq; rfl; exact hn q hq)
  | step ps₁ a q ps₂ out _ ih2 => exact Merge.step ([] :: ps₁) a q ps₂ out ih2

/-- Sequential execution (one sequence after the other) is one of the merges. -/
theorem Merge.sequential {α : Type} (procs : List (List α)) : Merge procs procs.flatten := by
  induction procs with
  | nil => exact Merge.done [] (by intro p h; cases h)
  | cons p ps ih =>
    induction p with
    | nil => simpa using ih.cons_nil
    | cons a p ihp =>
      have := Merge.step [] a p ps (p ++ ps.flatten) (by simpa using ihp)
      simpa using this

/-- If `out` is a permutation of `ts.map f`, it is `f` mapped over a permutation of `ts`. -/
theorem perm_map_inv {α β : Type} [DecidableEq α] (f : α → β) (ts : List α) (out : List β) (h : out.Perm (ts.map f)) :
    ∃ p : List α, p.Perm ts ∧ out = p.map f := by
  induction out generalizing ts with
  | nil =>
    have : ts.map f = [] := List.Perm.eq_nil (h.symm)
    have : ts = [] := by simpa using this
    subst this
    exact ⟨[], List.Perm.refl _, rfl⟩
  | cons b out ih =>
    have hb : b ∈ ts.map f := h.subset (by simp)
    obtain ⟨t, ht, rfl⟩ := List.mem_map.mp hb
    have hp : ts.Perm (t :: ts.erase t) := List.perm_cons_erase ht
    have h2 : (f t :: out).Perm (f t :: (ts.erase t).map f) := h.trans (by simpa using hp.map f)
    obtain ⟨p, hp1, hp2⟩ := ih (ts.erase t) h2.cons_inv
    exact ⟨t :: p, (List.Perm.cons t hp1).trans hp.symm, by rw [hp2]; rfl⟩

end Mobius

namespace Mobius

-- ------------------------------------------------------------------ writers of the outbox

/-- `sendTransaction` after fix e98cbb5: `io.ReadAll(&t)` then ONE `client.Connection.Write(b)`. -/
def singleWrite (t : Transaction) : List Bytes := [t.encode]

/-- Cut a byte string into pieces of at most `n` bytes (fuel = length). -/
def chunksAux (n : Nat) : Nat → Bytes → List Bytes
  | 0, _ => []
  | _ + 1, [] => []
  | fuel + 1, b@(_ :: _) => b.take (max n 1) :: chunksAux n fuel (b.drop (max n 1))

/-- `io.Copy(conn, &t)` through a buffer of `n` bytes (32 KiB in the library): one `Write` per piece. -/
def copyWrite (n : Nat) (t : Transaction) : List Bytes := chunksAux n t.encode.length t.encode

theorem chunksAux_flatten (n fuel : Nat) (b : Bytes) (h : b.length ≤ fuel) : (chunksAux n fuel b).flatten = b := by
  induction fuel generalizing b with
  | zero =>
    have : b = [] := List.eq_nil_of_length_eq_zero (by omega)
    subst this; simp [chunksAux]
  | succ fuel ih =>
    cases b with
    | nil => simp [chunksAux]
    | cons a b =>
      unfold chunksAux
      rw [List.flatten_cons, ih _ (by simp only [List.length_drop, List.length_cons] at *; omega)]
      exact List.take_append_drop _ _

/-- A chunked writer emits the same bytes — only the number of `Write` calls differs. -/
theorem copyWrite_flatten (n : Nat) (t : Transaction) : (copyWrite n t).flatten = t.encode :=
  chunksAux_flatten n _ _ (Nat.le_refl _)

end Mobius
