import MobiusModel.FileOps
/-!
  AcctLoader (C07, wave d): what `NewYAMLAccountManager` does to the accounts directory at start-up, and
  histories of account requests that include restarts.

  For every file matched by `<accountDir>/*.yaml`, in the order of the glob:
    * the login stored INSIDE the file prescribes the file's name — `Join(accountDir, path.Join("/", login)+".yaml")`,
      the same anchored builder `Update` uses; when the file has another name (a rename interrupted by a crash) and
      nothing exists under the prescribed name, the file is moved there;
    * a file in the legacy access format is re-saved through `Update(account, account.Login)`.
  The logins inside the files are whatever a client once supplied to create / rename (an account created with login
  `../../evil` is stored as `evil.yaml` holding `Login: ../../evil`), so the loader is one more place where client
  bytes become a path — reached only after a restart.
-/
namespace Mobius.FileOps
open Mobius.PathAlg Mobius.FS

/-- One matched file as the loader sees it: its base name, the login inside, whether its contents are in the legacy
    access format (re-saved), and the YAML the re-save writes. -/
structure LoadEntry where
  name : Comp
  login : Bytes
  migrate : Bool := false
  yaml : Bytes := []
deriving Repr, DecidableEq

/-- Path arguments of the loader for one matched file: the file, the prescribed name, and the re-save's arguments. -/
def acctLoadPaths (dir : Path) (e : LoadEntry) : List Path :=
  [dir ++ [e.name], acctFile2 dir e.login] ++ (if e.migrate then acctUpdatePaths dir e.login e.login else [])

/-- The loader's work for one matched file. -/
def acctLoadOne (fs : FS) (dir : Path) (e : LoadEntry) : FS :=
  let file := dir ++ [e.name]
  let want := acctFile2 dir e.login
  let fs1 := if want ≠ file ∧ statMissing fs want = true then (FS.rename fs file want).2 else fs
  if e.migrate then acctUpdate fs1 dir e.login e.login e.yaml else fs1

/-- `NewYAMLAccountManager` over the matched files, in glob order. -/
def acctLoad (fs : FS) (dir : Path) (es : List LoadEntry) : FS := es.foldl (fun f e => acctLoadOne f dir e) fs

/-- Account requests and restarts. -/
inductive AcctOp where
  | create (login yaml : Bytes)
  | update (old new yaml : Bytes)
  | delete (login : Bytes)
  | restart (matched : List LoadEntry)
deriving Repr

def AcctOp.apply (fs : FS) (dir : Path) : AcctOp → FS
  | .create l y => acctCreate fs dir l y
  | .update o n y => acctUpdate fs dir o n y
  | .delete l => acctDelete fs dir l
  | .restart es => acctLoad fs dir es

def acctHistory (fs : FS) (dir : Path) (ops : List AcctOp) : FS := ops.foldl (fun f o => o.apply f dir) fs

-- ---------------------------------------------------------------- containment

theorem acctFile2_under (dir : Path) (l : Bytes) : dir <+: acctFile2 dir l ∧ acctFile2 dir l ≠ dir :=
  strict_under_of_append dir _ (addSfx_ne_nil _ _)

/-- Every path the loader touches for a matched file lies strictly below the accounts directory, whatever login
    the file holds. -/
theorem acctLoadPaths_under (dir : Path) (e : LoadEntry) : ∀ q ∈ acctLoadPaths dir e, dir <+: q ∧ q ≠ dir := by
  intro q hq
  unfold acctLoadPaths at hq
  rcases List.mem_append.mp hq with h | h
  · simp only [List.mem_cons, List.mem_nil_iff, or_false] at h
    rcases h with rfl | rfl
    · exact strict_under_of_append dir [e.name] (by simp)
    · exact acctFile2_under dir e.login
  · split at h
    · exact (acctPaths_under dir e.login e.login).2.1 q h
    · cases h

theorem acctLoadOne_keeps (dir : Path) (fs : FS) (e : LoadEntry) (x : Path) (hx : ¬ dir <+: x) :
    lookup (acctLoadOne fs dir e) x = lookup fs x := by
  have hfile : ¬ (dir ++ [e.name]) <+: x := not_under_of dir _ x (List.prefix_append _ _) hx
  have hwant : ¬ acctFile2 dir e.login <+: x := not_under_of dir _ x (acctFile2_under dir e.login).1 hx
  have h1 : lookup (if acctFile2 dir e.login ≠ dir ++ [e.name] ∧ statMissing fs (acctFile2 dir e.login) = true
      then (FS.rename fs (dir ++ [e.name]) (acctFile2 dir e.login)).2 else fs) x = lookup fs x := by
    split
    · exact rename_frame fs _ _ x hfile hwant
    · rfl
  unfold acctLoadOne
  dsimp only
  split
  · rw [(acct_keeps dir _ e.login e.login e.yaml).2.1 x hx]; exact h1
  · exact h1

/-- The loader changes nothing outside the accounts directory, for every list of matched files. -/
theorem acctLoad_keeps (dir : Path) (es : List LoadEntry) (fs : FS) (x : Path) (hx : ¬ dir <+: x) :
    lookup (acctLoad fs dir es) x = lookup fs x := by
  induction es generalizing fs with
  | nil => rfl
  | cons e r ih =>
    unfold acctLoad at *
    rw [List.foldl_cons, ih, acctLoadOne_keeps dir fs e x hx]

theorem AcctOp.keeps (dir : Path) (fs : FS) (op : AcctOp) (x : Path) (hx : ¬ dir <+: x) :
    lookup (op.apply fs dir) x = lookup fs x := by
  cases op with
  | create l y => exact (acct_keeps dir fs l l y).1 x hx
  | update o n y => exact (acct_keeps dir fs o n y).2.1 x hx
  | delete l => exact (acct_keeps dir fs l l []).2.2 x hx
  | restart es => exact acctLoad_keeps dir es fs x hx

theorem acctHistory_keeps (dir : Path) (ops : List AcctOp) (fs : FS) (x : Path) (hx : ¬ dir <+: x) :
    lookup (acctHistory fs dir ops) x = lookup fs x := by
  induction ops generalizing fs with
  | nil => rfl
  | cons o r ih =>
    unfold acctHistory at *
    rw [List.foldl_cons, ih, AcctOp.keeps dir fs o x hx]

/-- The shape the loader must NOT have: the prescribed name built from the raw login, `Join(accountDir, login+".yaml")`. -/
def acctFileRaw (dir : Path) (login : Bytes) : Path := joinRaw dir (PathAlg.splitSlash (login ++ yamlSfx))

end Mobius.FileOps
