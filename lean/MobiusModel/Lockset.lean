/-!
  Lockset (C03): if every access to a shared table happens while holding its mutex, then in every
  schedule of any number of goroutines no two accesses overlap.

  Go's runtime aborts the whole process on an overlapping map read/write
  (`fatal error: concurrent map read and map write` — not recoverable), so mutual exclusion of
  the accesses is what keeps hostile connection patterns from terminating the server.
-/
namespace Mobius.Lockset

inductive Act where
  | acq        -- mu.Lock() returns
  | rel        -- mu.Unlock()
  | beginAcc   -- a map access starts
  | endAcc     -- … and ends
deriving DecidableEq, Repr

structure LState where
  holder : Option Nat          -- the mutex
  holding : Nat → Bool         -- goroutine-local: between its Lock and Unlock
  inAcc : Nat → Bool           -- goroutine is in the middle of a map access

def upd (f : Nat → Bool) (t : Nat) (v : Bool) : Nat → Bool := fun u => if u = t then v else f u

def init : LState := ⟨none, fun _ => false, fun _ => false⟩

/-- One step of goroutine `t`.  `none` = not a schedule the discipline / the mutex allows:
    `acq` needs the mutex free (otherwise the goroutine is blocked, i.e. the step does not happen);
    accesses and `rel` need the goroutine to be inside its critical section (the discipline that the
    generated `mapAccesses` / `lockSites` facts assert of the source). -/
def lstep (s : LState) (t : Nat) : Act → Option LState
  | .acq => if s.holder = none ∧ s.holding t = false then
      some ⟨some t, upd s.holding t true, s.inAcc⟩ else none
  | .rel => if s.holding t = true ∧ s.inAcc t = false then
      some ⟨none, upd s.holding t false, s.inAcc⟩ else none
  | .beginAcc => if s.holding t = true then some ⟨s.holder, s.holding, upd s.inAcc t true⟩ else none
  | .endAcc => if s.holding t = true then some ⟨s.holder, s.holding, upd s.inAcc t false⟩ else none

def run (s : LState) : List (Nat × Act) → Option LState
  | [] => some s
  | (t, a) :: r => match lstep s t a with
    | some s' => run s' r
    | none => none

def Inv (s : LState) : Prop :=
  (∀ t, s.holding t = true ↔ s.holder = some t) ∧ (∀ t, s.inAcc t = true → s.holding t = true)

theorem inv_init : Inv init := by
  constructor <;> intro t <;> simp [init]

theorem inv_step (s s' : LState) (t : Nat) (a : Act) (h : Inv s) (hs : lstep s t a = some s') : Inv s' := by
  obtain ⟨h1, h2⟩ := h
  cases a with
  | acq =>
    simp only [lstep] at hs
    split at hs
    · rename_i hc
      injection hs with hs; subst hs
      constructor
      · intro u
        simp only [upd]
        by_cases hu : u = t
        · simp [hu]
        · simp only [hu, if_false]
          constructor
          · intro hh; have := (h1 u).mp hh; rw [hc.1] at this; cases this
          · intro hh; injection hh with hh; exact absurd hh.symm hu
      · intro u hu
        simp only [upd]
        by_cases hut : u = t
        · simp [hut]
        · simp only [hut, if_false]; exact h2 u hu
    · cases hs
  | rel =>
    simp only [lstep] at hs
    split at hs
    · rename_i hc
      injection hs with hs; subst hs
      have hholder : s.holder = some t := (h1 t).mp hc.1
      constructor
      · intro u
        simp only [upd]
        by_cases hu : u = t
        · simp [hu]
        · simp only [hu, if_false]
          constructor
          · intro hh; have := (h1 u).mp hh; rw [hholder] at this; injection this with this; exact absurd this.symm hu
          · intro hh; cases hh
      · intro u hu
        simp only [upd]
        by_cases hut : u = t
        · subst hut; rw [hc.2] at hu; cases hu
        · simp only [hut, if_false]; exact h2 u hu
    · cases hs
  | beginAcc =>
    simp only [lstep] at hs
    split at hs
    · rename_i hc
      injection hs with hs; subst hs
      refine ⟨h1, ?_⟩
      intro u hu
      simp only [upd] at hu
      by_cases hut : u = t
      · subst hut; exact hc
      · simp only [hut, if_false] at hu; exact h2 u hu
    · cases hs
  | endAcc =>
    simp only [lstep] at hs
    split at hs
    · rename_i hc
      injection hs with hs; subst hs
      refine ⟨h1, ?_⟩
      intro u hu
      simp only [upd] at hu
      by_cases hut : u = t
      · subst hut; exact hc
      · simp only [hut, if_false] at hu; exact h2 u hu
    · cases hs

theorem inv_run (s s' : LState) (sched : List (Nat × Act)) (h : Inv s) (hr : run s sched = some s') : Inv s' := by
  induction sched generalizing s with
  | nil => simp [run] at hr; subst hr; exact h
  | cons st r ih =>
    obtain ⟨t, a⟩ := st
    simp only [run] at hr
    cases hst : lstep s t a with
    | none => rw [hst] at hr; cases hr
    | some s1 => rw [hst] at hr; exact ih s1 (inv_step s s1 t a h hst) hr

/-- Two goroutines are never inside a map access at the same time. -/
theorem exclusive_of_inv (s : LState) (h : Inv s) (t u : Nat)
    (ht : s.inAcc t = true) (hu : s.inAcc u = true) : t = u := by
  obtain ⟨h1, h2⟩ := h
  have a := (h1 t).mp (h2 t ht)
  have b := (h1 u).mp (h2 u hu)
  rw [a] at b; injection b

end Mobius.Lockset
