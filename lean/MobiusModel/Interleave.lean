/-!
  Interleave: all order-preserving interleavings ("merges") of several step sequences.

  `Interleave procs out` holds when `out` can be produced by repeatedly taking the first pending
  step of one of the sequences in `procs`.  Used by C19 with `α` = server-level board operations
  (each one critical section) and, for the negative witness, `α` = raw `Seek/Read/Write` calls.
  Self-contained on purpose (no dependency on other interleaving modules).
-/
namespace Mobius

inductive Interleave {α : Type} : List (List α) → List α → Prop
  | done {procs : List (List α)} : (∀ p ∈ procs, p = []) → Interleave procs []
  | step {procs : List (List α)} {out : List α} (i : Nat) (a : α) (rest : List α) :
      procs[i]? = some (a :: rest) → Interleave (procs.set i rest) out → Interleave procs (a :: out)

namespace Interleave
variable {α : Type}

theorem flatten_eq_nil_of_all_nil : ∀ (procs : List (List α)), (∀ p ∈ procs, p = []) → procs.flatten = []
  | [], _ => rfl
  | p :: ps, h => by
    have hp : p = [] := h p (by simp)
    have := flatten_eq_nil_of_all_nil ps (fun q hq => h q (by simp [hq]))
    simp [hp, this]

/-- Taking the head of the `i`-th sequence permutes the concatenation accordingly. -/
theorem flatten_perm_take : ∀ (procs : List (List α)) (i : Nat) (a : α) (rest : List α),
    procs[i]? = some (a :: rest) → (procs.flatten).Perm (a :: (procs.set i rest).flatten)
  | [], i, a, rest, h => by simp at h
  | p :: ps, 0, a, rest, h => by
    simp at h; subst h; simp
  | p :: ps, i + 1, a, rest, h => by
    have h' : ps[i]? = some (a :: rest) := by simpa using h
    have ih := flatten_perm_take ps i a rest h'
    simp only [List.set_cons_succ, List.flatten_cons]
    exact (List.Perm.append_left p ih).trans List.perm_middle

/-- Every step of every sequence occurs exactly once in an interleaving (it is a permutation of the
    concatenation of the sequences): nothing is lost, nothing duplicated. -/
theorem perm {procs : List (List α)} {out : List α} (h : Interleave procs out) :
    out.Perm procs.flatten := by
  induction h with
  | done hnil => rw [flatten_eq_nil_of_all_nil _ hnil]
  | step i a rest hi _ ih => exact (List.Perm.cons a ih).trans (flatten_perm_take _ i a rest hi).symm

theorem length_eq {procs : List (List α)} {out : List α} (h : Interleave procs out) :
    out.length = procs.flatten.length := h.perm.length_eq

/-- Program order is preserved: every sequence is a subsequence of the interleaving. -/
theorem sublist {procs : List (List α)} {out : List α} (h : Interleave procs out) :
    ∀ (j : Nat) (p : List α), procs[j]? = some p → p.Sublist out := by
  induction h with
  | done hnil =>
    intro j p hj
    have : p ∈ _ := List.mem_of_getElem? hj
    rw [hnil p this]; exact List.Sublist.slnil
  | @step procs out i a rest hi _ ih =>
    intro j p hj
    by_cases hji : j = i
    · subst hji
      rw [hi] at hj
      have hp : p = a :: rest := by simpa using hj.symm
      subst hp
      have hlt : j < procs.length := by
        have := List.getElem?_eq_some_iff.mp hi
        exact this.1
      have : (procs.set j rest)[j]? = some rest := by simp [hlt]
      exact List.Sublist.cons_cons a (ih j rest this)
    · have : (procs.set i rest)[j]? = some p := by
        rw [List.getElem?_set_ne (Ne.symm hji)]; exact hj
      exact List.Sublist.cons a (ih j p this)

/-- A single sequence interleaves only to itself. -/
theorem single : ∀ (p : List α), Interleave [p] p
  | [] => .done (by simp)
  | a :: rest => .step 0 a rest rfl (by simpa using single rest)

/-- Running the sequences one after the other is an interleaving. -/
theorem sequential : ∀ (procs : List (List α)), Interleave procs procs.flatten
  | [] => .done (by simp)
  | [] :: ps => by
    have ih := sequential ps
    -- an empty first sequence never moves
    have lift : ∀ {qs : List (List α)} {out : List α}, Interleave qs out → Interleave ([] :: qs) out := by
      intro qs out h
      induction h with
      | done hn => exact .done (by intro p hp; simp at hp; rcases hp with rfl | hp; rfl; exact hn p hp)
      | step i a rest hi _ ih2 => exact .step (i + 1) a rest (by simpa using hi) (by simpa using ih2)
    simpa using lift ih
  | (a :: rest) :: ps => by
    have ih := sequential (rest :: ps)
    exact .step 0 a rest rfl (by simpa using ih)

end Interleave
end Mobius
