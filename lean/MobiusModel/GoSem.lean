/-!
  GoSem: the meaning of the Go subset ("MiniGo") that `/verif/extract/gen_translate.go` translates
  into `MobiusModel/Generated/Translated.lean`.  Hand-written, core Lean, imports nothing.  This file
  and the translator are the trusted base of the "translated function = model function" theorems in
  `MobiusModel/TranslatedTies.lean`; everything else about those theorems is kernel-checked.

  Representation of Go values
  * `uint8`/`byte`, `uint16`, `uint32`  ↦ Lean `UInt8`, `UInt16`, `UInt32`: `+ - *` and the bit
    operations wrap modulo 2^n *by the definition of these types*, which is where Go wraps.  The
    translator gives every literal and every named constant an explicit Lean type (Go's rule for
    untyped constants: the type of the other operand), and the Lean elaborator re-checks it, so
    `tranHeaderLen + totalSize` is `(20 : UInt32) + totalSize` (32-bit wrap) and
    `int(tranHeaderLen) + int(totalSize)` is `(20 : Int) + int totalSize` (no wrap).
  * `uint` ↦ `UInt64` (ASSUMPTION: 64-bit platform, as the deployed server is).
  * `int` ↦ unbounded `Int`.  ASSUMPTION: in the translated functions `int` operands are slice
    lengths, bytes, 16/32-bit values and sums of a few of them, so 64-bit signed overflow is
    unreachable; on a 32-bit platform `int(uint32)` would differ.  `/` and `%` on `int` are Go's
    truncated division: the translator emits `Int.tdiv` / `Int.tmod`.
  * `bool` ↦ `Bool`; comparisons are `decide (…)`.
  * `[]byte` ↦ `Slice = Option (List UInt8)`: `none` is the nil slice (a `bufio.SplitFunc`
    returning a nil token and one returning an empty token mean different things).  A slice is
    modelled by its visible elements only: Go permits re-slicing up to the *capacity*
    (`data[0:n]` with `len(data) < n ≤ cap(data)`); the model has no capacity and treats every
    bound above the length as a panic.  A theorem "the function panics" therefore reads
    "panics, or — when the caller's buffer has spare capacity — returns bytes outside the data it was
    given"; both are outside what the model functions specify.
  * `[n]byte` (and named types declared as such, e.g. `AccessBitmap`) ↦ `Vector UInt8 n`.
    A method with a pointer receiver of such a type takes the value and returns the new value.
  * `make([]byte, n)` ↦ `some (List.replicate n 0)`; `for _, v := range s` ↦ `for v in s.getD []`;
    `for i := a; i < b; i++` (constant bounds) ↦ `for k in List.range (b-a)` with `i := a + k`;
    a receiver field that is a slice of structs and is only ranged over, with one field `G` of the
    element used, ↦ the list of the elements' `G` values.
  * `error` ↦ `Err = Option String`: `nil` ↦ `none`, `errors.New("s")` ↦ `some "s"`,
    `fmt.Errorf("f", …)` ↦ `some "f"` (the format string; arguments are not modelled).
  * a function result is `R α`: `.ok results` or `.panic` (index / slice bounds out of range).
    Multiple results are a tuple, followed by the receiver fields the method assigns.

  Not modelled: aliasing (a returned sub-slice shares memory with its argument — irrelevant for the
  pure functions translated), goroutines, anything outside the subset (the translator refuses).
-/
namespace Mobius.GoSem

abbrev Slice := Option (List UInt8)
abbrev Err := Option String

/-- Outcome of a Go call: normal return or run-time panic. -/
inductive R (α : Type) where
  | ok (a : α)
  | panic
deriving DecidableEq, Repr

instance : Monad R where
  pure := R.ok
  bind x f := match x with
    | .ok a => f a
    | .panic => .panic

@[simp] theorem bind_ok {α β : Type} (a : α) (f : α → R β) : (R.ok a >>= f) = f a := rfl
@[simp] theorem bind_panic {α β : Type} (f : α → R β) : ((R.panic : R α) >>= f) = R.panic := rfl
@[simp] theorem pure_eq {α : Type} (a : α) : (pure a : R α) = R.ok a := rfl

/-- Go integer types: mathematical value, and conversion from a mathematical value (wrapping). -/
class GoInt (α : Type) where
  toZ : α → Int
  ofZ : Int → α

instance : GoInt Int := ⟨id, id⟩
instance : GoInt UInt8 := ⟨fun x => (x.toNat : Int), fun z => UInt8.ofNat (z % 256).toNat⟩
instance : GoInt UInt16 := ⟨fun x => (x.toNat : Int), fun z => UInt16.ofNat (z % 65536).toNat⟩
instance : GoInt UInt32 := ⟨fun x => (x.toNat : Int), fun z => UInt32.ofNat (z % 4294967296).toNat⟩
instance : GoInt UInt64 := ⟨fun x => (x.toNat : Int), fun z => UInt64.ofNat (z % 18446744073709551616).toNat⟩

/-! Conversions `T(x)` between integer types. -/
def int {α : Type} [GoInt α] (x : α) : Int := GoInt.toZ x
def uint8 {α : Type} [GoInt α] (x : α) : UInt8 := GoInt.ofZ (GoInt.toZ x)
def uint16 {α : Type} [GoInt α] (x : α) : UInt16 := GoInt.ofZ (GoInt.toZ x)
def uint32 {α : Type} [GoInt α] (x : α) : UInt32 := GoInt.ofZ (GoInt.toZ x)
def uint {α : Type} [GoInt α] (x : α) : UInt64 := GoInt.ofZ (GoInt.toZ x)

/-- `x << n` on an unsigned fixed-width `x`; `n` unsigned (any width).  Counts ≥ 64 give 0, as for every
    Go unsigned type of at most 64 bits. -/
def shl {α β : Type} [GoInt α] [GoInt β] (x : α) (n : β) : α :=
  if GoInt.toZ n < 64 then GoInt.ofZ (GoInt.toZ x * 2 ^ (GoInt.toZ n).toNat) else GoInt.ofZ 0

/-- `x >> n` on an unsigned fixed-width `x`; `n` unsigned. -/
def shr {α β : Type} [GoInt α] [GoInt β] (x : α) (n : β) : α :=
  if GoInt.toZ n < 64 then GoInt.ofZ (GoInt.toZ x / 2 ^ (GoInt.toZ n).toNat) else GoInt.ofZ 0

/-- `len(s)` -/
def len (s : Slice) : Int := ((s.getD []).length : Int)

/-- `s[i]`: panics unless `0 ≤ i < len(s)`. -/
def idx (s : Slice) (i : Int) : R UInt8 :=
  if 0 ≤ i ∧ i < len s then
    match (s.getD [])[i.toNat]? with
    | some b => .ok b
    | none => .panic
  else .panic

/-- `s[a:b]`: panics unless `0 ≤ a ≤ b ≤ len(s)` (capacity is not modelled, see the header).
    Re-slicing the nil slice `[0:0]` gives nil. -/
def slice (s : Slice) (a b : Int) : R Slice :=
  if 0 ≤ a ∧ a ≤ b ∧ b ≤ len s then
    match s with
    | none => .ok none
    | some d => .ok (some ((d.drop a.toNat).take (b.toNat - a.toNat)))
  else .panic

/-- `a[i]` on an array: panics unless `0 ≤ i < n`. -/
def arrIdx {n : Nat} (a : Vector UInt8 n) (i : Int) : R UInt8 :=
  if h : 0 ≤ i ∧ i.toNat < n then .ok (a[i.toNat]'h.2) else .panic

/-- `a[i] = v` on an array: panics unless `0 ≤ i < n`. -/
def arrSet {n : Nat} (a : Vector UInt8 n) (i : Int) (v : UInt8) : R (Vector UInt8 n) :=
  if h : 0 ≤ i ∧ i.toNat < n then .ok (a.set i.toNat v h.2) else .panic

/-- `binary.BigEndian.Uint16(b)`: panics when `len(b) < 2`. -/
def beUint16 (s : Slice) : R UInt16 :=
  match s.getD [] with
  | a :: b :: _ => .ok (UInt16.ofNat (a.toNat * 256 + b.toNat))
  | _ => .panic

/-- `binary.BigEndian.Uint32(b)`: panics when `len(b) < 4`. -/
def beUint32 (s : Slice) : R UInt32 :=
  match s.getD [] with
  | a :: b :: c :: d :: _ => .ok (UInt32.ofNat (a.toNat * 16777216 + b.toNat * 65536 + c.toNat * 256 + d.toNat))
  | _ => .panic

/-- the two / four big-endian bytes of `v` -/
def bePut16 (v : UInt16) : List UInt8 := [UInt8.ofNat (v.toNat / 256 % 256), UInt8.ofNat (v.toNat % 256)]
def bePut32 (v : UInt32) : List UInt8 :=
  [UInt8.ofNat (v.toNat / 16777216 % 256), UInt8.ofNat (v.toNat / 65536 % 256),
   UInt8.ofNat (v.toNat / 256 % 256), UInt8.ofNat (v.toNat % 256)]

/-- `binary.BigEndian.PutUint16(b, v)` / `PutUint32(b, v)`: panics when `b` is too short; the translator only
    emits it for a local slice made by `make` in the same function (nothing else can observe the write). -/
def bePutUint16 (s : Slice) (v : UInt16) : R Slice :=
  match s with
  | some d => if 2 ≤ d.length then .ok (some (bePut16 v ++ d.drop 2)) else .panic
  | none => .panic

def bePutUint32 (s : Slice) (v : UInt32) : R Slice :=
  match s with
  | some d => if 4 ≤ d.length then .ok (some (bePut32 v ++ d.drop 4)) else .panic
  | none => .panic

/-! ### facts used by the tie proofs -/

@[simp] theorem len_some (d : List UInt8) : len (some d) = (d.length : Int) := rfl
@[simp] theorem len_none : len none = 0 := rfl

theorem slice_some (d : List UInt8) (a b : Int) (h : 0 ≤ a ∧ a ≤ b ∧ b ≤ (d.length : Int)) :
    slice (some d) a b = .ok (some ((d.drop a.toNat).take (b.toNat - a.toNat))) := by
  unfold slice
  simp [h]

theorem slice_panic (s : Slice) (a b : Int) (h : ¬ (0 ≤ a ∧ a ≤ b ∧ b ≤ len s)) : slice s a b = .panic := by
  unfold slice; simp [h]

theorem idx_some (d : List UInt8) (i : Int) (h0 : 0 ≤ i) (h : i.toNat < d.length) :
    idx (some d) i = .ok d[i.toNat] := by
  unfold idx
  have h1 : i < (d.length : Int) := by omega
  simp [h0, h1, h]

theorem idx_panic (s : Slice) (i : Int) (h : ¬ (0 ≤ i ∧ i < len s)) : idx s i = .panic := by
  unfold idx; simp [h]

theorem arrIdx_ok {n : Nat} (a : Vector UInt8 n) (i : Nat) (h : i < n) : arrIdx a (i : Int) = .ok a[i] := by
  unfold arrIdx
  have : (0 : Int) ≤ (i : Int) ∧ (i : Int).toNat < n := by simp; omega
  simp [h]

theorem arrIdx_panic {n : Nat} (a : Vector UInt8 n) (i : Int) (h : i < 0 ∨ (n : Int) ≤ i) : arrIdx a i = .panic := by
  unfold arrIdx
  have : ¬ (0 ≤ i ∧ i.toNat < n) := by omega
  simp [this]

theorem arrSet_ok {n : Nat} (a : Vector UInt8 n) (i : Nat) (v : UInt8) (h : i < n) :
    arrSet a (i : Int) v = .ok (a.set i v h) := by
  unfold arrSet
  have : (0 : Int) ≤ (i : Int) ∧ (i : Int).toNat < n := by simp; omega
  simp [h]

theorem arrSet_panic {n : Nat} (a : Vector UInt8 n) (i : Int) (v : UInt8) (h : i < 0 ∨ (n : Int) ≤ i) :
    arrSet a i v = .panic := by
  unfold arrSet
  have : ¬ (0 ≤ i ∧ i.toNat < n) := by omega
  simp [this]

end Mobius.GoSem
