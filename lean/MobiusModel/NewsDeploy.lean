import MobiusModel.News
import MobiusModel.WireLemmas
/-!
  News (C18), wave d: what an OPERATOR does between two requests, and how a request reaches the handlers.

  * `Synced`: the file holds exactly the tree in memory.  Every request keeps it (`step_synced`) except a reply
    whose thread parent is missing (`OrphanReply`: the code has already overwritten the previously newest article's
    `next` link in memory when the nil parent makes it panic, and nothing is persisted).
  * `WithReloads h h'`: `h'` is the history `h` with reload steps inserted at arbitrary points.  `reloads_erasable`
    (Props/C18): under the YAML hypothesis both histories end in the same state.
  * `Deploy` / `start`: the configuration directory as the real binary's `main()` sees it — is `config.yaml` there
    (the `-init` guard), and the state of the news — and a (re)start of the binary with or without `-init`.  On an
    initialised directory a start IS a reload, whatever the flag (`start_initialised`); `-init` never touches the
    file of an initialised directory (`start_keeps_file`).
  * `reqField` / `postRequest`: `Transaction.GetField` and the five fields of a post as a client sends them; with
    C01's `Transaction.decode_encode'` the handler reads the values sent whatever the field order and body size.
-/
namespace Mobius.News

variable {F : Type}

-- ---------------------------------------------------------------- the file follows memory

/-- the file is the serialisation of the tree in memory -/
def Synced (cd : Codec F) (st : State F) : Prop := st.disk = cd.ser st.mem

theorem reload_synced (cd : Codec F) (hrt : cd.RoundTrip) (st : State F) (h : Synced cd st) :
    reload cd st = .ok st := by
  obtain ⟨m, d⟩ := st
  simp only [Synced] at h
  subst h
  unfold reload
  simp only [hrt m]

/-- a reply whose thread parent is not in the (existing) item: `PostArticle` panics on the nil parent AFTER it
    has overwritten the previously newest article's `next` link in memory — the one request that leaves memory
    ahead of the file -/
def OrphanReply (st : State F) : Op → Prop
  | .post p par _ => p ≠ [] ∧ par ≠ 0 ∧ (st.mem.get p).isSome ∧ getArticle st.mem p par = none
  | _ => False

instance (st : State F) (op : Op) : Decidable (OrphanReply st op) := by
  cases op <;> unfold OrphanReply <;> infer_instance

theorem step_synced (cd : Codec F) (hrt : cd.RoundTrip) (st : State F) (op : Op) (h : Synced cd st)
    (hno : ¬ OrphanReply st op) : Synced cd (step cd st op).state := by
  have cg : ∀ (p : Path) (n : Bytes) (ty : Nat), Synced cd (createGrouping cd p n ty st).state := by
    intro p n ty
    unfold createGrouping
    cases hm : mapExists st.mem p with
    | false => exact h
    | true => rfl
  cases op with
  | newBundle p n => exact cg p n 2
  | newCategory p n => exact cg p n 3
  | delItem p =>
    show Synced cd (deleteItem cd p st).state
    unfold deleteItem
    by_cases hp : p = []
    · rw [if_pos hp]; exact h
    · rw [if_neg hp]; rfl
  | delArticle p id =>
    show Synced cd (deleteArticle cd p id st).state
    unfold deleteArticle
    by_cases hp : p = []
    · rw [if_pos hp]; exact h
    · rw [if_neg hp]
      cases hc : st.mem.get p with
      | none => exact h
      | some c => rfl
  | reload =>
    show Synced cd (reload cd st).state
    rw [reload_synced cd hrt st h]; exact h
  | post p par a =>
    show Synced cd (post cd p par a st).state
    unfold post
    by_cases hp : p = []
    · rw [if_pos hp]; exact h
    · rw [if_neg hp]
      cases hc : st.mem.get p with
      | none => exact h
      | some c =>
        cases hok : (postArts c.arts par a).2 with
        | true => simp only [hok, if_true]; rfl
        | false =>
          exfalso
          apply hno
          have hn : ¬ (par = 0 ∨ (c.arts.get par).isSome) := by
            intro hh
            have := (postArts_ok_iff c.arts par a).mpr hh
            rw [hok] at this; cases this
          refine ⟨hp, fun e => hn (Or.inl e), by rw [hc]; rfl, ?_⟩
          unfold getArticle
          rw [hc]
          cases hg : c.arts.get par with
          | none => simp [hg]
          | some x => exact absurd (Or.inr (by rw [hg]; rfl)) hn

/-- no request of the history, run from `st`, is a reply to a missing parent -/
def NoOrphan (cd : Codec F) : State F → List Op → Prop
  | _, [] => True
  | st, o :: rest => ¬ OrphanReply st o ∧ NoOrphan cd (step cd st o).state rest

instance decNoOrphan (cd : Codec F) : (st : State F) → (ops : List Op) → Decidable (NoOrphan cd st ops)
  | _, [] => isTrue trivial
  | st, o :: rest =>
    have := decNoOrphan cd (step cd st o).state rest
    show Decidable (¬ OrphanReply st o ∧ NoOrphan cd (step cd st o).state rest) from inferInstance

/-- `h'` is the history `h` with reload steps inserted at arbitrary points -/
inductive WithReloads : List Op → List Op → Prop
  | nil : WithReloads [] []
  | keep (o : Op) {h h' : List Op} : WithReloads h h' → WithReloads (o :: h) (o :: h')
  | ins {h h' : List Op} : WithReloads h h' → WithReloads h (Op.reload :: h')

theorem run_cons (cd : Codec F) (st : State F) (o : Op) (rest : List Op) :
    run cd st (o :: rest) = run cd (step cd st o).state rest := by
  simp [run]

theorem run_synced (cd : Codec F) (hrt : cd.RoundTrip) (ops : List Op) (st : State F) (h : Synced cd st)
    (hno : NoOrphan cd st ops) : Synced cd (run cd st ops) := by
  induction ops generalizing st with
  | nil => exact h
  | cons o rest ih =>
    rw [run_cons]
    exact ih _ (step_synced cd hrt st o h hno.1) hno.2

-- ---------------------------------------------------------------- the deployed binary

/-- the configuration directory as `main()` sees it: the news (memory of the running process + ThreadedNews.yaml)
    and whether `config.yaml` exists there (what the `-init` guard looks at) -/
structure Deploy (F : Type) where
  st : State F
  initialised : Bool

/-- a (re)start of the binary on the directory.  `init` = the `-init` flag, `template` = the embedded
    ThreadedNews.yaml.  Without `-init` on a directory that holds no `config.yaml` the process exits
    ("Error loading config"); with `-init` the template is copied ONLY when `config.yaml` is missing; then the
    news file is loaded. -/
def start (cd : Codec F) (template : F) (init : Bool) (d : Deploy F) : R (Deploy F) :=
  if !init && !d.initialised then .err d
  else
    let disk := if d.initialised then d.st.disk else template
    match cd.deser disk with
    | some t => .ok ⟨⟨t, disk⟩, true⟩
    | none => .err ⟨⟨d.st.mem, disk⟩, true⟩

/-- what an operator (or the client) does to a deployment -/
inductive DOp where
  | req (o : Op)
  | restart (init : Bool)

def dstep (cd : Codec F) (template : F) (d : Deploy F) : DOp → Deploy F
  | .req o => ⟨(step cd d.st o).state, d.initialised⟩
  | .restart i => (start cd template i d).state

def drun (cd : Codec F) (template : F) (d : Deploy F) (ops : List DOp) : Deploy F :=
  ops.foldl (dstep cd template) d

/-- the requests of a deployment history -/
def requests : List DOp → List Op
  | [] => []
  | .req o :: rest => o :: requests rest
  | .restart _ :: rest => requests rest

theorem start_initialised (cd : Codec F) (template : F) (init : Bool) (d : Deploy F) (h : d.initialised = true) :
    (start cd template init d).state.st = (reload cd d.st).state ∧
    (start cd template init d).kind = (reload cd d.st).kind ∧
    (start cd template init d).state.initialised = true := by
  unfold start reload
  simp only [h, Bool.not_true, Bool.and_false, if_true]
  cases hd : cd.deser d.st.disk <;> simp [R.state, R.kind]

theorem start_keeps_file (cd : Codec F) (template : F) (init : Bool) (d : Deploy F) (h : d.initialised = true) :
    (start cd template init d).state.st.disk = d.st.disk := by
  unfold start
  simp only [h, Bool.not_true, Bool.and_false, if_true]
  cases hd : cd.deser d.st.disk <;> simp [R.state]

theorem start_first (cd : Codec F) (template : F) (t0 : Tree) (d : Deploy F) (h : d.initialised = false)
    (ht : cd.deser template = some t0) :
    start cd template true d = .ok ⟨⟨t0, template⟩, true⟩ := by
  unfold start
  simp [h, ht]

theorem start_synced (cd : Codec F) (hrt : cd.RoundTrip) (template : F) (init : Bool) (d : Deploy F)
    (h : d.initialised = true) (hs : Synced cd d.st) : (start cd template init d).state = d := by
  obtain ⟨⟨m, dk⟩, ini⟩ := d
  simp only at h
  subst h
  simp only [Synced] at hs
  subst hs
  unfold start
  simp [hrt m, R.state]

-- ---------------------------------------------------------------- a request as the handler reads it

/-- `Transaction.GetField(type).Data`: the first field of that type -/
def reqField (ty : Nat) (fs : List Field) : Option Bytes := (fs.find? fun f => f.ty = ty).map (·.data)

theorem reqField_cons (ty : Nat) (f : Field) (fs : List Field) :
    reqField ty (f :: fs) = if f.ty = ty then some f.data else reqField ty fs := by
  unfold reqField
  by_cases h : f.ty = ty <;> simp [List.find?, h]

theorem reqField_none_of_not_mem (ty : Nat) (fs : List Field) (h : ty ∉ fs.map (·.ty)) : reqField ty fs = none := by
  induction fs with
  | nil => rfl
  | cons f fs ih =>
    rw [reqField_cons]
    simp only [List.map_cons, List.mem_cons, not_or] at h
    rw [if_neg (fun e => h.1 e.symm)]
    exact ih h.2

/-- with pairwise distinct field types, the order of the fields does not matter to `GetField` -/
theorem reqField_perm (ty : Nat) (fs fs' : List Field) (hp : fs.Perm fs') (hnd : (fs.map (·.ty)).Nodup) :
    reqField ty fs' = reqField ty fs := by
  induction hp with
  | nil => rfl
  | cons x _ ih =>
    rw [reqField_cons, reqField_cons]
    simp only [List.map_cons, List.nodup_cons] at hnd
    rw [ih hnd.2]
  | swap x y l =>
    simp only [List.map_cons, List.nodup_cons, List.mem_cons, not_or] at hnd
    rw [reqField_cons, reqField_cons, reqField_cons, reqField_cons]
    by_cases hx : x.ty = ty
    · by_cases hy : y.ty = ty
      · exact absurd (hy.trans hx.symm) hnd.1.1
      · simp [hx, hy]
    · by_cases hy : y.ty = ty <;> simp [hx, hy]
  | trans p1 _ ih1 ih2 =>
    rw [ih2 ((p1.map (·.ty)).nodup_iff.mp hnd), ih1 hnd]

/-- the fields of a post / reply as a client sends them: news path 325, article id 326, title 328,
    flavor 327, body 333 -/
def postRequest (path idf title body : Bytes) : List Field :=
  [⟨325, path⟩, ⟨326, idf⟩, ⟨328, title⟩, ⟨327, textPlain⟩, ⟨333, body⟩]

end Mobius.News
