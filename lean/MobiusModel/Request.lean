import MobiusModel.Crash
/-!
  C20 at the level of a REQUEST (one client transaction handled by one handler).

  A handler composes store-level updates: `HandleUpdateUser` (the batched account editor) runs one
  `AccountManager.Create / Update / Delete` per record of the request; `HandleSetUser`, `HandleNewUser`,
  `HandleDeleteUser`, `HandleDisconnectUser` (+ ban), the board and news handlers run exactly one.
  The system calls of the request are the CONCATENATION of the programs of its store calls, each decided in the
  directory state its predecessors left (`reqProg`).  A kill can land at any call boundary of the concatenation –
  in particular BETWEEN two store calls.

  Reading of "complete old or complete new value" for a batched request: a record is one change; the request is a
  sequence of changes.  Every crash state must load as the state after some PREFIX of the request's records
  (each record whole or not at all, in order) – and as the state after all of them once every call was made.
  For a request of one record this is "old or new".

  `seq_crash_prefix` is the composition theorem: if every step's program is atomic for an observation (under an
  invariant the steps preserve), every crash prefix of the concatenation observes as the state after a prefix of the
  steps.  It is instantiated for the account store with `acct_step_atomic` (`request_crash_prefix`).  The hypothesis
  that matters is "one record = one atomic program": a rename carried out as Create(new) followed by Delete(old) is
  two programs, and the state between them is neither the old nor the new account set
  (`rename_as_create_delete_torn`).
-/
namespace Mobius.Crash

/-- the directory after the request's store operations have all run to completion, in order -/
def runReq (fs : FS) : List AcctOp → FS
  | [] => fs
  | op :: r => runReq (runOp fs op none) r

/-- the system calls of the whole request: each record's program is decided in the state its predecessors left -/
def reqProg (fs : FS) : List AcctOp → List Sys
  | [] => []
  | op :: r => acctProg fs op ++ reqProg (runOp fs op none) r

/-- every record is an operation the handler performs in the state it meets (creates only free logins, updates
    only existing accounts – the handler's `Get` decides which branch a record takes) -/
def ReqValid (fs : FS) : List AcctOp → Prop
  | [] => True
  | op :: r => op.Valid fs ∧ ReqValid (runOp fs op none) r

theorem runOp_none (fs : FS) (op : AcctOp) :
    runOp fs op none = crash (acctProg fs op) (acctProg fs op).length fs := by
  simp [runOp]

theorem reqProg_done (fs : FS) (ops : List AcctOp) :
    crash (reqProg fs ops) (reqProg fs ops).length fs = runReq fs ops := by
  induction ops generalizing fs with
  | nil => simp [reqProg, runReq, crash]
  | cons op r ih =>
    simp only [reqProg, runReq, List.length_append]
    rw [crash_append_ge, ← runOp_none, ih]

theorem runReq_take_succ (fs : FS) (op : AcctOp) (r : List AcctOp) (j : Nat) :
    runReq fs ((op :: r).take (j + 1)) = runReq (runOp fs op none) (r.take j) := by
  simp [runReq]

/-- COMPOSITION.  Every crash prefix of a request's concatenated program loads as the state after a prefix of its
    records: `∃ j ≤ #records, obs (crash …) = obs (state after the first j records)`; the directory stays well
    formed.  Once every call was made (`k ≥ length`) it is the state after all records. -/
theorem request_crash_prefix (fs : FS) (hwf : WF fs) (ops : List AcctOp) (hv : ReqValid fs ops) (k : Nat) :
    (∃ j, j ≤ ops.length ∧ obs (crash (reqProg fs ops) k fs) = obs (runReq fs (ops.take j))) ∧
    WF (crash (reqProg fs ops) k fs) ∧
    ((reqProg fs ops).length ≤ k → crash (reqProg fs ops) k fs = runReq fs ops) := by
  induction ops generalizing fs k with
  | nil =>
    refine ⟨⟨0, Nat.le_refl _, by simp [reqProg, crash, runReq]⟩, by simpa [reqProg, crash] using hwf, ?_⟩
    intro _; simp [reqProg, crash, runReq]
  | cons op r ih =>
    obtain ⟨hvo, hvr⟩ := hv
    have hdone : (reqProg fs (op :: r)).length ≤ k → crash (reqProg fs (op :: r)) k fs = runReq fs (op :: r) := by
      intro hk
      rw [crash_ge _ _ _ hk, reqProg_done]
    refine ⟨?_, wf_crash _ _ fs hwf, hdone⟩
    by_cases hk : k ≤ (acctProg fs op).length
    · -- the kill lands inside (or right after) the first record's program
      have hc : crash (reqProg fs (op :: r)) k fs = runOp fs op (some k) := by
        simp only [reqProg]
        rw [crash_append_le _ _ _ _ hk]
        simp [runOp]
      rcases (acct_step_atomic fs hwf op hvo (some k)).1 with h | h
      · exact ⟨0, Nat.zero_le _, by rw [hc, h]; simp [runReq]⟩
      · exact ⟨1, by simp, by rw [hc, h]; simp [runReq]⟩
    · -- the first record is complete; the rest is a request in the state it left
      have hk' : k = (acctProg fs op).length + (k - (acctProg fs op).length) := by omega
      have hc : crash (reqProg fs (op :: r)) k fs =
          crash (reqProg (runOp fs op none) r) (k - (acctProg fs op).length) (runOp fs op none) := by
        simp only [reqProg]
        rw [hk', crash_append_ge, ← runOp_none]
        simp
      have hwf' : WF (runOp fs op none) := (acct_step_atomic fs hwf op hvo none).2
      obtain ⟨⟨j, hj, hobs⟩, _, _⟩ := ih (runOp fs op none) hwf' hvr (k - (acctProg fs op).length)
      refine ⟨j + 1, by simpa using hj, ?_⟩
      rw [hc, hobs, runReq_take_succ]

/-- A request of ONE record (set-user, new-user, delete-user; a one-record update-user, e.g. a rename): every crash
    state loads as the old or as the new account set. -/
theorem single_record_request_old_or_new (fs : FS) (hwf : WF fs) (op : AcctOp) (hv : op.Valid fs) (k : Nat) :
    obs (crash (reqProg fs [op]) k fs) = obs fs ∨ obs (crash (reqProg fs [op]) k fs) = obs (runReq fs [op]) := by
  obtain ⟨⟨j, hj, h⟩, _, _⟩ := request_crash_prefix fs hwf [op] ⟨hv, trivial⟩ k
  have : j = 0 ∨ j = 1 := by simp at hj; omega
  rcases this with rfl | rfl
  · left; simpa [runReq] using h
  · right; simpa using h

/-! ### the same composition for ANY store: steps that are atomic for an observation -/

/-- a step = the program it runs in the state it meets -/
abbrev Step := FS → List Sys

def runSteps (fs : FS) : List Step → FS
  | [] => fs
  | p :: r => runSteps (crash (p fs) (p fs).length fs) r

def stepsProg (fs : FS) : List Step → List Sys
  | [] => []
  | p :: r => p fs ++ stepsProg (crash (p fs) (p fs).length fs) r

/-- `p` is atomic for the observation `o` under the invariant `I`: every crash prefix observes as before or as after
    the whole program, and the invariant holds again after the whole program. -/
def AtomicStep {β : Type} (o : FS → β) (I : FS → Prop) (p : Step) : Prop :=
  ∀ fs, I fs → (∀ k, o (crash (p fs) k fs) = o fs ∨ o (crash (p fs) k fs) = o (crash (p fs) (p fs).length fs)) ∧
    I (crash (p fs) (p fs).length fs)

theorem stepsProg_done (fs : FS) (ps : List Step) :
    crash (stepsProg fs ps) (stepsProg fs ps).length fs = runSteps fs ps := by
  induction ps generalizing fs with
  | nil => simp [stepsProg, runSteps, crash]
  | cons p r ih =>
    simp only [stepsProg, runSteps, List.length_append]
    rw [crash_append_ge, ih]

/-- COMPOSITION, store-independent: a request whose steps are each atomic for `o` leaves, at every call boundary of
    the whole request, a state that observes as the state after a prefix of its steps. -/
theorem seq_crash_prefix {β : Type} (o : FS → β) (I : FS → Prop) (ps : List Step)
    (hat : ∀ p ∈ ps, AtomicStep o I p) (fs : FS) (hI : I fs) (k : Nat) :
    ∃ j, j ≤ ps.length ∧ o (crash (stepsProg fs ps) k fs) = o (runSteps fs (ps.take j)) := by
  induction ps generalizing fs k with
  | nil => exact ⟨0, Nat.le_refl _, by simp [stepsProg, crash, runSteps]⟩
  | cons p r ih =>
    have hp := hat p (by simp) fs hI
    by_cases hk : k ≤ (p fs).length
    · have hc : crash (stepsProg fs (p :: r)) k fs = crash (p fs) k fs := by
        simp only [stepsProg]; exact crash_append_le _ _ _ _ hk
      rcases hp.1 k with h | h
      · exact ⟨0, Nat.zero_le _, by rw [hc, h]; simp [runSteps]⟩
      · exact ⟨1, by simp, by rw [hc, h]; simp [runSteps]⟩
    · have hk' : k = (p fs).length + (k - (p fs).length) := by omega
      have hc : crash (stepsProg fs (p :: r)) k fs =
          crash (stepsProg (crash (p fs) (p fs).length fs) r) (k - (p fs).length) (crash (p fs) (p fs).length fs) := by
        simp only [stepsProg]
        rw [hk', crash_append_ge]
        simp
      obtain ⟨j, hj, hobs⟩ := ih (fun q hq => hat q (by simp [hq])) (crash (p fs) (p fs).length fs) hp.2
        (k - (p fs).length)
      exact ⟨j + 1, by simpa using hj, by rw [hc, hobs]; simp [runSteps]⟩

/-- write-temp-then-rename on a single-file store (board post, news update, ban) is an atomic step for "what the file
    holds", under the invariant "well formed, temp name private". -/
theorem tempRename_atomicStep (tmp p : Name) (hne : tmp ≠ p) (new : FS → Bytes) :
    AtomicStep (fun fs => get fs p) (fun fs => WF fs ∧ TmpPrivate fs tmp) (fun fs => tempRename tmp p (new fs)) := by
  intro fs hI
  have h := fun k => tempRename_get fs hI.1 tmp p (new fs) hne hI.2 k
  refine ⟨fun k => ?_, (h _).2.2.2.1, (h _).2.2.2.2⟩
  show get (crash (tempRename tmp p (new fs)) k fs) p = get fs p ∨
    get (crash (tempRename tmp p (new fs)) k fs) p =
      get (crash (tempRename tmp p (new fs)) (tempRename tmp p (new fs)).length fs) p
  rcases (h k).1 with h1 | h1
  · left; exact h1
  · right; rw [h1, (h (tempRename tmp p (new fs)).length).2.1 (by simp [tempRename, writeFile])]

/-! ### why a record must be ONE program -/

/-- NEGATIVE WITNESS: a rename `old → new` carried out as `Create(new)` followed by `Delete(old)` (two store calls,
    each atomic on its own).  After the six calls of the Create and before the unlink of the Delete the loader sees
    BOTH accounts: neither the old set (`[old]`) nor the new set (`[new]`).  The composition theorem still holds for
    the two-step request – the state is "after the first of its two steps" – which is exactly why the request-level
    property needs the rename to be a single step (`Update`: `account_rename_crash_safe`). -/
theorem rename_as_create_delete_torn :
    ∃ (fs : FS) (old new : Name) (d : Bytes) (k : Nat),
      let ops := [AcctOp.create new d, AcctOp.delete old]
      ReqValid fs ops ∧ k ≤ (reqProg fs ops).length ∧
      obs (crash (reqProg fs ops) k fs) ≠ obs fs ∧
      obs (crash (reqProg fs ops) k fs) ≠ obs (runReq fs ops) ∧
      -- the same rename as ONE Update: that crash point (and every other) is old or new
      (∀ k', obs (crash (reqProg fs [AcctOp.update old new d]) k' fs) = obs fs ∨
             obs (crash (reqProg fs [AcctOp.update old new d]) k' fs) = obs (runReq fs [AcctOp.update old new d])) := by
  refine ⟨ofList [("al.yaml".toList, [1]), ("bob.yaml".toList, [2])], "bob".toList, "rob".toList, [9], 6, ?_⟩
  refine ⟨⟨by simp only [AcctOp.Valid]; decide, trivial, trivial⟩, by decide, by decide, by decide, ?_⟩
  intro k'
  exact single_record_request_old_or_new _ (by unfold WF; decide) _ (by simp only [AcctOp.Valid]; decide) k'

end Mobius.Crash
