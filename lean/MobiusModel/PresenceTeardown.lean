import MobiusModel.PresenceAbort
/-!
  Presence, wave e: faults at connection teardown.

  `ClientConn.Disconnect` (inside `disconnectOnce.Do`, fix d658b12) has three effects, in this order:
  the user is removed from the client table, everybody still in the table is sent the user-left notice
  (`NotifyOthers` lists the table and skips the leaver's id), the connection is closed.  `Connection.Close()` can
  fail (close(2) reporting EIO / ECONNRESET, a wrapping connection that cannot flush, a connection already closed);
  the code logs that and goes on.

  * `TdCall` / `tdCall` / `tdRun`: the body as a program of the three calls, run with the close outcome `cr` as an
    input and a policy `retOnErr` (leave the body when Close fails — NOT what the code does, it only logs).
  * `disconnectProg` = the order in the source (tied to the regenerated `Generated.disconnectCalls` in Props/C13).
  * `presTeardown w c cr` = world and outputs of the body for close outcome `cr`.
  * `PresReqT` = `PresReq` plus `teardown actor cr`; `stepT` / `runT` / `ReachT` (oracle op `c13runt`).
-/
namespace Mobius

/-- What `Connection.Close()` reported. -/
inductive CloseRes where
  | ok
  | err
deriving Repr, DecidableEq

/-- The three effects of `ClientConn.Disconnect`. -/
inductive TdCall where
  | delete
  | notify
  | close
deriving Repr, DecidableEq

structure TdState where
  w : PresWorld
  outs : List POut
  /-- how often `Connection.Close` was called -/
  closeCalls : Nat
  /-- "error closing client connection" was logged -/
  logged : Bool
  /-- the body was left early -/
  returned : Bool

def leftNotice (c d : Client) : POut := (mkTran 302 d.id [⟨103, be16 c.id⟩], Note.left c.id)

/-- One call of the body for leaver `c`. -/
def tdCall (c : Client) (cr : CloseRes) (retOnErr : Bool) (s : TdState) : TdCall → TdState
  | .delete => if s.returned then s else { s with w := { s.w with reg := s.w.reg.delete c.id } }
  | .notify => if s.returned then s else
      let outs := (s.w.reg.clients.filter (·.id != c.id)).map (leftNotice c)
      { s with w := s.w.emit outs, outs := s.outs ++ outs }
  | .close => if s.returned then s else
      { s with closeCalls := s.closeCalls + 1, logged := s.logged || cr == .err, returned := retOnErr && cr == .err }

def tdRun (prog : List TdCall) (c : Client) (cr : CloseRes) (retOnErr : Bool) (w : PresWorld) : TdState :=
  prog.foldl (tdCall c cr retOnErr) ⟨w, [], 0, false, false⟩

/-- The order of the calls in the source. -/
def disconnectProg : List TdCall := [.delete, .notify, .close]

def tdCallOfName : String → Option TdCall
  | "ClientMgr.Delete" => some .delete
  | "cc.NotifyOthers" => some .notify
  | "Connection.Close" => some .close
  | _ => none

/-- `Disconnect` with the close outcome as an input (the code: log and go on). -/
def presTeardown (w : PresWorld) (c : Client) (cr : CloseRes) : PresWorld × List POut :=
  ((tdRun disconnectProg c cr false w).w, (tdRun disconnectProg c cr false w).outs)

theorem filter_ne_delete (r : Registry) (i : Nat) :
    (r.delete i).clients.filter (·.id != i) = (r.delete i).clients := by
  unfold Registry.delete
  simp only [List.filter_filter, Bool.and_self]

/-- With Close as the LAST call the table removal and the notices are those of `presDisconnect`, whatever Close
    reports and even for a body that returns on a Close error; Close is called exactly once. -/
theorem tdRun_close_last (w : PresWorld) (c : Client) (cr : CloseRes) (retOnErr : Bool) :
    ((tdRun disconnectProg c cr retOnErr w).w, (tdRun disconnectProg c cr retOnErr w).outs) = presDisconnect w c ∧
    (tdRun disconnectProg c cr retOnErr w).closeCalls = 1 := by
  unfold tdRun disconnectProg presDisconnect
  simp only [List.foldl, tdCall, Bool.false_eq_true, if_false, List.nil_append, Nat.zero_add]
  have h := filter_ne_delete w.reg c.id
  simp only [h]
  refine ⟨?_, trivial⟩
  rfl

theorem presTeardown_eq_disconnect (w : PresWorld) (c : Client) (cr : CloseRes) :
    presTeardown w c cr = presDisconnect w c := (tdRun_close_last w c cr false).1

/-- A failed Close is logged, nothing else. -/
theorem tdRun_logs_failure (w : PresWorld) (c : Client) (cr : CloseRes) (retOnErr : Bool) :
    (tdRun disconnectProg c cr retOnErr w).logged = (cr == .err) := by
  unfold tdRun disconnectProg
  simp only [List.foldl, tdCall, Bool.false_eq_true, if_false, Bool.false_or]

-- ------------------------------------------------------------------ histories with close outcomes

inductive PresReqT where
  | base (q : PresReq)
  /-- the session of `actor` ends (peer gone, kicked, account deleted) and its `Close` reports `cr` -/
  | teardown (actor : Nat) (cr : CloseRes)
deriving Repr, DecidableEq

def PresReqT.erase : PresReqT → PresReq
  | .base q => q
  | .teardown a _ => .ok (.disconnect a)

def PresWorld.stepT (w : PresWorld) : PresReqT → PresWorld × List POut
  | .base q => w.stepX q
  | .teardown a cr => match w.reg.get a with | none => (w, []) | some c => presTeardown w c cr

def PresWorld.runT (w : PresWorld) : List PresReqT → PresWorld × List (List POut)
  | [] => (w, [])
  | q :: qs => (((w.stepT q).1.runT qs).1, (w.stepT q).2 :: ((w.stepT q).1.runT qs).2)

theorem PresWorld.stepT_eq (w : PresWorld) (q : PresReqT) : w.stepT q = w.stepX q.erase := by
  cases q with
  | base q => rfl
  | teardown a cr =>
    simp only [PresWorld.stepT, PresReqT.erase, PresWorld.stepX, PresWorld.step]
    cases w.reg.get a with
    | none => rfl
    | some c => exact presTeardown_eq_disconnect w c cr

theorem PresWorld.runT_eq (w : PresWorld) (qs : List PresReqT) : w.runT qs = w.runX (qs.map PresReqT.erase) := by
  induction qs generalizing w with
  | nil => rfl
  | cons q qs ih =>
    simp only [PresWorld.runT, List.map_cons, PresWorld.runX, PresWorld.stepT_eq, ih]

inductive PresWorld.ReachT : PresWorld → Prop where
  | init : PresWorld.ReachT PresWorld.init
  | step (w : PresWorld) (q : PresReqT) : PresWorld.ReachT w → q.erase.okw w → PresWorld.ReachT (w.stepT q).1

theorem PresWorld.ReachT.toX {w : PresWorld} (h : w.ReachT) : w.ReachX := by
  induction h with
  | init => exact PresWorld.ReachX.init
  | step w q _ hok ih =>
    rw [PresWorld.stepT_eq]
    exact PresWorld.ReachX.step w q.erase ih hok

end Mobius
