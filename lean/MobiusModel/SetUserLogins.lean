import MobiusModel.Bytes
/-!
  Logins as byte-string keys: the account store, the live sessions and the single-account editor (`HandleSetUser`).

  `YAMLAccountManager` keys accounts by the login exactly as given (`am.accounts[login]`; one `<login>.yaml` each), so
  `bob` and `Bob` are two accounts.  A session takes a copy of its account at login (`c.Account`).  `HandleSetUser`
  (a) looks the named login up — an unknown login is refused ("Account not found.") and nothing changes —, (b) stores
  the new access under that key, (c) pushes the new access into every connected session with
  `c.Account.Login == login` (byte-wise).  The access type `α` is a parameter (the oracle instantiates it with the
  8 bitmap bytes, Props/C06 with `AccessBitmap`).
-/
namespace Mobius.SetUserLogins

structure Sess (α : Type) where
  id : Nat
  login : Bytes
  access : α
deriving DecidableEq, Repr

structure World (α : Type) where
  accts : List (Bytes × α)
  sess : List (Sess α)
deriving Repr

/-- `am.accounts[login]` -/
def lookup {α : Type} (l : Bytes) : List (Bytes × α) → Option α
  | [] => none
  | (k, a) :: r => if k = l then some a else lookup l r

/-- `am.accounts[login] = account` for a login that is a key -/
def update {α : Type} (l : Bytes) (a : α) : List (Bytes × α) → List (Bytes × α)
  | [] => []
  | (k, b) :: r => if k = l then (k, a) :: update l a r else (k, b) :: update l a r

/-- the propagation loop of `HandleSetUser`: `if c.Account.Login == login { c.Account.Access = newAccess }` -/
def push {α : Type} (l : Bytes) (a : α) (ss : List (Sess α)) : List (Sess α) :=
  ss.map fun s => if s.login = l then { s with access := a } else s

/-- the single-account editor; the flag = the request was acknowledged (not answered "Account not found.") -/
def setUser {α : Type} (w : World α) (l : Bytes) (a : α) : World α × Bool :=
  match lookup l w.accts with
  | none => (w, false)
  | some _ => ({ accts := update l a w.accts, sess := push l a w.sess }, true)

/-- a login: the new session carries a copy of the stored account; an unknown login gets no session -/
def login {α : Type} (w : World α) (id : Nat) (l : Bytes) : World α :=
  match lookup l w.accts with
  | none => w
  | some a => { w with sess := w.sess ++ [⟨id, l, a⟩] }

/-- account creation: refused when the login is already a key -/
def create {α : Type} (w : World α) (l : Bytes) (a : α) : World α :=
  match lookup l w.accts with
  | none => { w with accts := w.accts ++ [(l, a)] }
  | some _ => w

inductive Ev (α : Type) where
  | create (l : Bytes) (a : α)
  | login (id : Nat) (l : Bytes)
  | setUser (l : Bytes) (a : α)

def step {α : Type} (w : World α) : Ev α → World α
  | .create l a => create w l a
  | .login id l => login w id l
  | .setUser l a => (setUser w l a).1

def run {α : Type} (w : World α) (es : List (Ev α)) : World α := es.foldl step w

def World.init {α : Type} : World α := ⟨[], []⟩

/-- every session carries exactly what ITS OWN account (the key equal to its login, byte-wise) stores -/
def Coherent {α : Type} (w : World α) : Prop := ∀ s ∈ w.sess, lookup s.login w.accts = some s.access

/-! ### lemmas -/

theorem lookup_update {α : Type} (l l' : Bytes) (a : α) (m : List (Bytes × α)) :
    lookup l' (update l a m) = if l' = l then (lookup l m).map (fun _ => a) else lookup l' m := by
  induction m with
  | nil => simp [update, lookup]
  | cons p r ih =>
    obtain ⟨k, b⟩ := p
    by_cases hk : k = l
    · subst hk
      by_cases hl : l' = k
      · subst hl; simp [update, lookup]
      · have : ¬ k = l' := fun h => hl h.symm
        simp [update, lookup, hl, this, ih]
    · by_cases hl : l' = l
      · subst hl; simp [update, lookup, hk, ih]
      · by_cases hk' : k = l'
        · subst hk'; simp [update, lookup, hk]
        · simp [update, lookup, hk, hl, hk', ih]

theorem lookup_append_new {α : Type} (l l' : Bytes) (a : α) (m : List (Bytes × α)) (h : lookup l m = none) :
    lookup l' (m ++ [(l, a)]) = if l' = l then some a else lookup l' m := by
  induction m with
  | nil => by_cases hl : l' = l
           · subst hl; simp [lookup]
           · have : ¬ l = l' := fun h => hl h.symm
             simp [lookup, hl, this]
  | cons p r ih =>
    obtain ⟨k, b⟩ := p
    by_cases hk : k = l
    · subst hk; simp [lookup] at h
    · have hr : lookup l r = none := by simpa [lookup, hk] using h
      by_cases hk' : k = l'
      · subst hk'; simp [lookup, hk]
      · simp [lookup, hk', ih hr]

theorem mem_push {α : Type} (l : Bytes) (a : α) (ss : List (Sess α)) (t : Sess α) (h : t ∈ push l a ss) :
    ∃ s ∈ ss, t = if s.login = l then { s with access := a } else s := by
  unfold push at h
  obtain ⟨s, hs, rfl⟩ := List.mem_map.mp h
  exact ⟨s, hs, rfl⟩

theorem setUser_refused {α : Type} (w : World α) (l : Bytes) (a : α) (h : lookup l w.accts = none) :
    setUser w l a = (w, false) := by
  simp [setUser, h]

theorem setUser_ack_iff {α : Type} (w : World α) (l : Bytes) (a : α) :
    (setUser w l a).2 = true ↔ (lookup l w.accts).isSome = true := by
  unfold setUser
  cases h : lookup l w.accts <;> simp

theorem setUser_ack_world {α : Type} (w : World α) (l : Bytes) (a : α) (h : (setUser w l a).2 = true) :
    (setUser w l a).1 = { accts := update l a w.accts, sess := push l a w.sess } := by
  unfold setUser at h ⊢
  cases h' : lookup l w.accts <;> simp_all

theorem coherent_setUser {α : Type} (w : World α) (l : Bytes) (a : α) (hc : Coherent w) :
    Coherent (setUser w l a).1 := by
  unfold setUser
  cases h : lookup l w.accts with
  | none => exact hc
  | some b =>
    intro t ht
    obtain ⟨s, hs, rfl⟩ := mem_push l a w.sess t ht
    by_cases hl : s.login = l
    · simp [hl, lookup_update, h]
    · simp [hl, lookup_update, hc s hs]

theorem coherent_login {α : Type} (w : World α) (id : Nat) (l : Bytes) (hc : Coherent w) : Coherent (login w id l) := by
  unfold login
  cases h : lookup l w.accts with
  | none => exact hc
  | some b =>
    intro t ht
    rcases List.mem_append.mp ht with ht | ht
    · exact hc t ht
    · simp at ht; subst ht; exact h

theorem coherent_create {α : Type} (w : World α) (l : Bytes) (a : α) (hc : Coherent w) : Coherent (create w l a) := by
  unfold create
  cases h : lookup l w.accts with
  | some b => exact hc
  | none =>
    intro t ht
    have := hc t ht
    show lookup t.login (w.accts ++ [(l, a)]) = some t.access
    rw [lookup_append_new l t.login a w.accts h]
    by_cases hl : t.login = l
    · rw [hl, h] at this; cases this
    · simp [hl, this]

theorem coherent_step {α : Type} (w : World α) (e : Ev α) (hc : Coherent w) : Coherent (step w e) := by
  cases e with
  | create l a => exact coherent_create w l a hc
  | login id l => exact coherent_login w id l hc
  | setUser l a => exact coherent_setUser w l a hc

theorem coherent_run {α : Type} (es : List (Ev α)) (w : World α) (hc : Coherent w) : Coherent (run w es) := by
  induction es generalizing w with
  | nil => exact hc
  | cons e r ih => exact ih (step w e) (coherent_step w e hc)

theorem coherent_init {α : Type} : Coherent (World.init : World α) := by
  intro s hs; cases hs

end Mobius.SetUserLogins
