import MobiusModel.LoginHistory
/-!
  SetUserPw (C04): the single-account editor `HandleSetUser` (transaction 353) in the account table a
  login attempt is checked against, and histories mixing it with `HandleUpdateUser` requests.

  `HandleSetUser` looks the account of the (obfuscated) login field up — absent: error reply, nothing
  changes — and stores it back with the password rule: field 106 absent → the empty password; the
  field equal to the ONE byte 0 → the stored hash is kept; anything else (an empty field, a field
  that merely BEGINS with a zero byte — passwords travel as 255-b, so a clear text starting with
  0xFF does — …) → that value is hashed and stored.  The request is acknowledged.

  Abstractions as in LoginHistory: bcrypt is `hash` / `Session.Env.verify`; the editor is authorised.
-/
set_option linter.unusedVariables false
set_option linter.unusedSimpArgs false
namespace Mobius.LoginHistory
open Mobius

/-- The login `HandleSetUser` names: the de-obfuscated login field, "" when absent. -/
def setUserLogin (fs : List Field) : Bytes :=
  match getF 105 fs with
  | some lg => obfuscate lg
  | none => []

/-- `HandleSetUser`; the flag = acknowledged with a success reply. -/
def applySetUser (hash : Bytes → Bytes) (fs : List Field) (t : Table) : Table × Bool :=
  match t (setUserLogin fs) with
  | none => (t, false)
  | some h => (t.set (setUserLogin fs) (pwUpdate hash h (getF 106 fs)), true)

/-- One request of the administrator. -/
inductive Edit where
  | setUser (fs : List Field)
  | batch (recs : List (List Field))

def applyEdit (hash : Bytes → Bytes) (e : Edit) (t : Table) : Table × Bool :=
  match e with
  | .setUser fs => applySetUser hash fs t
  | .batch recs => applyBatch hash recs t

/-- A history of requests: the table afterwards and the acknowledgements in order. -/
def applyEdits (hash : Bytes → Bytes) : List Edit → Table → Table × List Bool
  | [], t => (t, [])
  | e :: rest, t =>
    let r := applyEdit hash e t
    let r' := applyEdits hash rest r.1
    (r'.1, r.2 :: r'.2)

def Edit.touches (e : Edit) (l : Bytes) : Prop :=
  match e with
  | .setUser fs => setUserLogin fs = l
  | .batch recs => ∃ fs ∈ recs, LoginHistory.touches fs l

/-- **An acknowledged set-user with password field `p ≠ [0]` stores exactly `p`** — for ALL `p`: empty,
    beginning with the wire byte 0, containing zero bytes, of any length. -/
theorem setUser_sets_password (hash : Bytes → Bytes) (fs : List Field) (t : Table) (h p : Bytes)
    (hex : t (setUserLogin fs) = some h) (hp : getF 106 fs = some p) (hp0 : p ≠ [0]) :
    (applySetUser hash fs t).2 = true ∧ (applySetUser hash fs t).1 (setUserLogin fs) = some (hash p) := by
  simp [applySetUser, hex, hp, pwUpdate, hp0, set_same]

/-- The marker (exactly the one byte 0) keeps the stored hash. -/
theorem setUser_marker_keeps (hash : Bytes → Bytes) (fs : List Field) (t : Table) (h : Bytes)
    (hex : t (setUserLogin fs) = some h) (hp : getF 106 fs = some [0]) :
    (applySetUser hash fs t).2 = true ∧ (applySetUser hash fs t).1 (setUserLogin fs) = some h := by
  simp [applySetUser, hex, hp, pwUpdate, set_same]

/-- An absent password field stores the empty password. -/
theorem setUser_absent_clears (hash : Bytes → Bytes) (fs : List Field) (t : Table) (h : Bytes)
    (hex : t (setUserLogin fs) = some h) (hp : getF 106 fs = none) :
    (applySetUser hash fs t).2 = true ∧ (applySetUser hash fs t).1 (setUserLogin fs) = some (hash []) := by
  simp [applySetUser, hex, hp, pwUpdate, set_same]

/-- No such account: refused, nothing changes. -/
theorem setUser_unknown_login (hash : Bytes → Bytes) (fs : List Field) (t : Table)
    (hex : t (setUserLogin fs) = none) : applySetUser hash fs t = (t, false) := by
  simp [applySetUser, hex]

/-- A set-user changes the entry of the login it names only. -/
theorem setUser_untouched (hash : Bytes → Bytes) (fs : List Field) (t : Table) (l : Bytes)
    (h : setUserLogin fs ≠ l) : (applySetUser hash fs t).1 l = t l := by
  unfold applySetUser
  cases t (setUserLogin fs) with
  | none => rfl
  | some hh => exact set_other _ _ _ _ (Ne.symm h)

theorem applyEdit_untouched (hash : Bytes → Bytes) (e : Edit) (t : Table) (l : Bytes)
    (h : ¬ e.touches l) : (applyEdit hash e t).1 l = t l := by
  cases e with
  | setUser fs => exact setUser_untouched hash fs t l h
  | batch recs => exact applyBatch_untouched hash recs t l (fun fs hfs ht => h ⟨fs, hfs, ht⟩)

theorem applyEdits_untouched (hash : Bytes → Bytes) (es : List Edit) (t : Table) (l : Bytes)
    (h : ∀ e ∈ es, ¬ e.touches l) : (applyEdits hash es t).1 l = t l := by
  induction es generalizing t with
  | nil => rfl
  | cons e rest ih =>
    simp only [applyEdits]
    rw [ih _ (fun x hx => h x (by simp [hx]))]
    exact applyEdit_untouched hash e t l (h e (by simp))

theorem applyEdits_append (hash : Bytes → Bytes) (a b : List Edit) (t : Table) :
    (applyEdits hash (a ++ b) t).1 = (applyEdits hash b (applyEdits hash a t).1).1 := by
  induction a generalizing t with
  | nil => rfl
  | cons e rest ih => simp only [List.cons_append, applyEdits]; exact ih _

/-- **The last edit naming a login decides its entry**, in every history of set-user and update-user requests. -/
theorem history_last_edit_decides (hash : Bytes → Bytes) (pre post : List Edit) (e : Edit) (t : Table) (l : Bytes)
    (hpost : ∀ x ∈ post, ¬ x.touches l) :
    (applyEdits hash (pre ++ e :: post) t).1 l = (applyEdit hash e (applyEdits hash pre t).1).1 l := by
  rw [applyEdits_append]
  simp only [applyEdits]
  exact applyEdits_untouched hash post _ l hpost

/-- The environment of a login attempt made after the history. -/
def envAfterEdits {W O : Type} (env : Session.Env W O) (hash : Bytes → Bytes) (es : List Edit) : Session.Env W O :=
  { env with accts := (applyEdits hash es env.accts).1 }

/-- **Login after a set-user**: when the last request naming the login is a set-user on an existing
    account with password field `p ≠ [0]`, the login gate verifies the presented password against
    `hash p` — exactly `p`'s clear text, for all `p` (also those whose first wire byte is 0). -/
theorem authenticate_after_setUser {W O : Type} (env : Session.Env W O) (hash : Bytes → Bytes)
    (pre post : List Edit) (fs : List Field) (tr : Transaction) (h p : Bytes)
    (hl : setUserLogin fs = loginOf tr)
    (hex : (applyEdits hash pre env.accts).1 (loginOf tr) = some h)
    (hp : getF 106 fs = some p) (hp0 : p ≠ [0])
    (hpost : ∀ x ∈ post, ¬ x.touches (loginOf tr)) :
    Session.authenticate (envAfterEdits env hash (pre ++ .setUser fs :: post)) tr = env.verify (hash p) (pwOf tr) := by
  simp only [Session.authenticate, envAfterEdits]
  rw [history_last_edit_decides hash pre post (.setUser fs) env.accts (loginOf tr) hpost]
  simp only [applyEdit]
  have := (setUser_sets_password hash fs (applyEdits hash pre env.accts).1 h p (by rw [hl]; exact hex) hp hp0).2
  rw [hl] at this
  rw [this]

/-- … and with the marker the gate verifies against the hash the account had before. -/
theorem authenticate_after_setUser_marker {W O : Type} (env : Session.Env W O) (hash : Bytes → Bytes)
    (pre post : List Edit) (fs : List Field) (tr : Transaction) (h : Bytes)
    (hl : setUserLogin fs = loginOf tr)
    (hex : (applyEdits hash pre env.accts).1 (loginOf tr) = some h)
    (hp : getF 106 fs = some [0])
    (hpost : ∀ x ∈ post, ¬ x.touches (loginOf tr)) :
    Session.authenticate (envAfterEdits env hash (pre ++ .setUser fs :: post)) tr = env.verify h (pwOf tr) := by
  simp only [Session.authenticate, envAfterEdits]
  rw [history_last_edit_decides hash pre post (.setUser fs) env.accts (loginOf tr) hpost]
  simp only [applyEdit]
  have := (setUser_marker_keeps hash fs (applyEdits hash pre env.accts).1 h (by rw [hl]; exact hex) hp).2
  rw [hl] at this
  rw [this]

end Mobius.LoginHistory
