import MobiusModel.Wire
import MobiusModel.WireLemmas
/-!
  The send path of the server (`Server.sendTransaction`, reached from `processOutbox`): how a transaction
  becomes bytes on a client's connection, over whole HISTORIES of sends in which some `Write` calls fail.

  `sendTransaction t`: look the addressee up in the client table; unknown → nothing; otherwise serialise the
  whole transaction and hand it to the connection in ONE `Write`.  The connection answers each `Write` with an
  outcome: everything accepted, or an error after `k` bytes (`k` < the bytes offered: a broken pipe, a short
  write).  The model is deliberately a function of the transaction alone: there is no buffer, no cursor, no
  per-client or per-server residue that one send could leave for the next — that IS the property (C01: what is
  emitted for a protocol object is its wire layout, whatever was sent, or failed to be sent, before).

  `Pooled` below is the contrasting model of a send path that serialises into a recycled buffer which is reset
  only after a successful write: the witness that the theorems of `Props/C01` are not vacuous (they fail for it).
-/
namespace Mobius.SendPath

/-- What the connection answers to one `Write`. -/
inductive Outcome where
  | ok                       -- all bytes accepted, nil error
  | fail (accepted : Nat)    -- error after `accepted` bytes (clamped below the number offered)
deriving Repr, DecidableEq

/-- One step of a history: a transaction addressed to `client`; whether that client is in the client table at
    that moment; the outcome its connection will give to a `Write` (irrelevant when nothing is written). -/
structure Step where
  client : Nat
  registered : Bool
  outcome : Outcome
  t : Transaction
deriving Repr

/-- One `Write` call observed on a connection. -/
structure Call where
  client : Nat
  bytes : Bytes
  outcome : Outcome
deriving Repr, DecidableEq

/-- `Server.sendTransaction`. -/
def send (s : Step) : List Call :=
  if s.registered then [⟨s.client, s.t.encode, s.outcome⟩] else []

/-- A history of sends: every `Write` call made, in order. -/
def run : List Step → List Call
  | [] => []
  | s :: rest => send s ++ run rest

/-- The bytes a connection took from one call. -/
def Call.accepted (c : Call) : Bytes :=
  match c.outcome with
  | .ok => c.bytes
  | .fail k => c.bytes.take (min k (c.bytes.length - 1))

/-- The byte stream client `c` has received. -/
def received (c : Nat) (calls : List Call) : Bytes :=
  ((calls.filter (·.client == c)).map Call.accepted).flatten

/-- The steps that concern client `c`. -/
def stepsOf (c : Nat) (h : List Step) : List Step := h.filter (·.client == c)

/-- The transactions that were written in full to client `c`. -/
def delivered (c : Nat) (h : List Step) : List Transaction :=
  ((stepsOf c h).filter (fun s => s.registered && s.outcome == .ok)).map (·.t)

theorem run_append (a b : List Step) : run (a ++ b) = run a ++ run b := by
  induction a with
  | nil => rfl
  | cons s a ih => simp [run, ih]

theorem run_calls (h : List Step) :
    run h = (h.filter (·.registered)).map (fun s => ⟨s.client, s.t.encode, s.outcome⟩) := by
  induction h with
  | nil => rfl
  | cons s h ih =>
    cases hr : s.registered <;> simp [run, send, hr, ih]

theorem filter_run (c : Nat) (h : List Step) :
    (run h).filter (·.client == c) = run (stepsOf c h) := by
  induction h with
  | nil => rfl
  | cons s h ih =>
    unfold stepsOf at ih ⊢
    cases hc : (s.client == c) <;> cases hr : s.registered <;>
      simp [run, send, hr, hc, ih]

/-- When every write to `c` succeeded, what `c` received is the concatenation of the layouts of the
    transactions addressed to it while it was registered. -/
theorem received_all_ok (c : Nat) (h : List Step)
    (hok : ∀ s ∈ h, s.client = c → s.registered = true → s.outcome = .ok) :
    received c (run h) = ((delivered c h).map Transaction.encode).flatten := by
  unfold received delivered
  rw [filter_run]
  unfold stepsOf
  induction h with
  | nil => rfl
  | cons s h ih =>
    have ih' := ih (fun u hu => hok u (by simp [hu]))
    cases hc : (s.client == c)
    · simpa [List.filter_cons, hc] using ih'
    · cases hr : s.registered
      · simpa [List.filter_cons, hc, hr, run, send] using ih'
      · have ho : s.outcome = .ok := hok s (by simp) (by simpa using hc) hr
        simp only [List.filter_cons, hc, hr, ho, run, send, if_true, Bool.true_and, beq_self_eq_true,
          List.singleton_append, List.map_cons, List.flatten_cons, Call.accepted]
        rw [ih']

-- ---------------------------------------------------------------- the contrasting, stateful send path

namespace Pooled

/-- A send path with one recycled serialisation buffer: append the layout to whatever the buffer holds, write
    the buffer, reset it only when the write succeeded. -/
def send (buf : Bytes) (s : Step) : List Call × Bytes :=
  if s.registered then
    let b := buf ++ s.t.encode
    ([⟨s.client, b, s.outcome⟩], if s.outcome == .ok then [] else b)
  else ([], buf)

def run (buf : Bytes) : List Step → List Call
  | [] => []
  | s :: rest => (send buf s).1 ++ run (send buf s).2 rest

end Pooled

/-- A history with a failed write to client 1 between two sends to client 2, and a send to an unknown client. -/
def demoT (id : Nat) : Transaction := ⟨0, 0, 106, id, 0, [⟨101, [104, 105]⟩]⟩
def demoHist : List Step :=
  [⟨2, true, .ok, demoT 1⟩, ⟨1, true, .fail 7, demoT 2⟩, ⟨9, false, .ok, demoT 3⟩, ⟨2, true, .ok, demoT 4⟩, ⟨1, true, .ok, demoT 5⟩]

end Mobius.SendPath
