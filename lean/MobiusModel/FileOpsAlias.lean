import MobiusModel.FileOps
import MobiusModel.WireLemmas3
/-!
  FileOpsAlias (C11, wave d): aliases as first-class entries of the agreement clause, the comment
  length field, and configured ignore patterns.

  * `stat_mono` — following links is monotone in the fuel; `stat_alias` — `os.Stat` of an alias
    reached through real folders is `os.Stat` of its link string.
  * `alias_views_agree` — for an alias of a regular file (no resource fork side file of the alias's
    name): list size = get-info size = download-reply file size = the target's bytes (uint32); the
    list takes the type code from the TARGET's name, get-info from the alias's own name, so they agree
    when both names select the same row of the extension table (`alias_type_by_target_name` is the
    witness that they differ otherwise — reported to the lead).
  * `alias_of_folder_views_agree` — an alias of a folder is `fldr` in the list (with the folder's
    non-ignored count) and in get-info.
  * `comment_length_field`, `comment_roundtrip`, `ffo_reads_comment` — the information fork carries
    the comment length in TWO bytes; every comment below 65536 bytes is read back exactly by the
    wrapper that serves get-info, the download header and rename / move.
  * `ignoredBy` / `list_exact_configured` — the ignore predicate of a configuration is "some
    configured pattern matches" for an arbitrary matcher; `dropping_a_pattern_shows_more` is the
    witness of the defect class (a pattern lost between configuration file and list).
-/
namespace Mobius.FileOps
open Mobius.PathAlg Mobius.PathStr Mobius.FS

-- ---------------------------------------------------------------- stat through aliases

/-- More fuel never changes a successful `stat`. -/
theorem stat_mono : ∀ (f : Nat) (fs : FS) (p : Path) (r : Path × Node), stat f fs p = .ok r → stat (f + 1) fs p = .ok r
  | 0, _, _, _, h => by simp [stat] at h
  | f + 1, fs, p, r, h => by
    rw [stat] at h
    rw [stat]
    cases hs : firstSpecial fs p with
    | some kn =>
      obtain ⟨k, nd⟩ := kn
      rw [hs] at h
      cases nd with
      | link t => simp only at h ⊢; exact stat_mono f fs _ r h
      | file b => simp at h
      | dir => simp at h
    | none =>
      rw [hs] at h
      simp only at h ⊢
      cases hl : lookup fs p with
      | none => rw [hl] at h; simp at h
      | some nd =>
        rw [hl] at h
        cases nd with
        | link t => simp only at h ⊢; exact stat_mono f fs t r h
        | file b => simpa using h
        | dir => simpa using h

theorem stat_mono_le (f g : Nat) (hfg : f ≤ g) (fs : FS) (p : Path) (r : Path × Node) (h : stat f fs p = .ok r) :
    stat g fs p = .ok r := by
  induction hfg with
  | refl => exact h
  | step _ ih => exact stat_mono _ fs p r ih

/-- `os.Stat` of an alias reached through real folders follows its link string. -/
theorem stat_alias (f : Nat) (fs : FS) (p t : Path) (hl : lookup fs p = some (.link t)) (hp : firstSpecial fs p = none) :
    stat (f + 1) fs p = stat f fs t := by
  rw [stat]; simp [hp, hl]

-- ---------------------------------------------------------------- the three views of an alias

/-- The agreement clause for an ALIAS of a regular file.  `hres`: the link string resolves (within fewer than
    `statFuel` links) to a regular file holding `b`; `hrsrc`: no resource fork side file under the alias's name. -/
theorem alias_views_agree (root : Path) (ig : Bytes → Bool) (fs : FS) (pf : Option Bytes) (name : Bytes) (d : Path) (n : Comp)
    (t q : Path) (b : Bytes) (f : Ffo) (k : Nat)
    (ht : target root pf name = .ok (d ++ [n])) (hnr : isRoot root (d ++ [n]) = false)
    (hlink : lookup fs (d ++ [n]) = some (.link t)) (hplain : firstSpecial fs (d ++ [n]) = none)
    (hk : k < statFuel) (hres : stat k fs t = .ok (q, .file b))
    (hrsrc : statOk fs (wrapper (d ++ [n])).rsrc = none)
    (hffo : ffo fs (d ++ [n]) = .ok f) (en : Bytes) (hen : encStr (wrapper (d ++ [n])).name = some en) :
    let sz := b.length % 4294967296
    entryInfo fs d ig n (.link t) = .ok (some ((typeOfName (baseName t)).1, (typeOfName (baseName t)).2, sz)) ∧
    (∃ ns cs ty c, (getInfo root fs pf name).2 = .info en ns cs ty c (if ty = tyFldr then none else some sz)) ∧
    (∃ x, (download root fs pf name).2 = .download x sz) := by
  have hst : stat statFuel fs t = .ok (q, .file b) := stat_mono_le k statFuel (Nat.le_of_lt hk) fs t _ hres
  have hst' : stat statFuel fs (d ++ [n]) = .ok (q, .file b) := by
    have : statFuel = (statFuel - 1) + 1 := by decide
    rw [this, stat_alias _ fs _ t hlink hplain]
    exact stat_mono_le k _ (by unfold statFuel at hk ⊢; omega) fs t _ hres
  have hdata : (wrapper (d ++ [n])).data = d ++ [n] := rfl
  have hso : statOk fs (d ++ [n]) = some (.file b) := by simp [statOk, hst']
  have hts : totalSize fs (d ++ [n]) = b.length % 4294967296 := by
    unfold totalSize rsrcSize
    simp [hdata, hso, hrsrc, Node.size]
  have hds : f.dataSize = b.length := by
    unfold ffo at hffo
    simp only [hdata, hst'] at hffo
    split at hffo
    · split at hffo
      · injection hffo with hffo; rw [← hffo]; rfl
      · split at hffo
        · injection hffo with hffo; rw [← hffo]; rfl
        · cases hffo
        · cases hffo
    · cases hffo
    · injection hffo with hffo; rw [← hffo]; rfl
  refine ⟨?_, ?_, ?_⟩
  · simp only [entryInfo, hst, Node.size]
  · unfold getInfo withTarget
    simp only [ht, hnr, hffo, hen, hts]
    exact ⟨_, _, _, _, rfl⟩
  · unfold download withTarget
    simp only [ht, hnr, hffo, hds]
    exact ⟨_, rfl⟩

/-- Without an information fork side file get-info shows the type of the alias's OWN name. -/
theorem alias_info_type (fs : FS) (d : Path) (n : Comp) (t q : Path) (b : Bytes) (f : Ffo) (k : Nat)
    (hlink : lookup fs (d ++ [n]) = some (.link t)) (hplain : firstSpecial fs (d ++ [n]) = none)
    (hk : k < statFuel) (hres : stat k fs t = .ok (q, .file b))
    (hinfo : statOk fs (wrapper (d ++ [n])).info = none)
    (hffo : ffo fs (d ++ [n]) = .ok f) :
    f.fork.ty = (typeOfName (wrapper (d ++ [n])).name).1 ∧ f.fork.creator = (typeOfName (wrapper (d ++ [n])).name).2 := by
  have hst' : stat statFuel fs (d ++ [n]) = .ok (q, .file b) := by
    have : statFuel = (statFuel - 1) + 1 := by decide
    rw [this, stat_alias _ fs _ t hlink hplain]
    exact stat_mono_le k _ (by unfold statFuel at hk ⊢; omega) fs t _ hres
  have hdata : (wrapper (d ++ [n])).data = d ++ [n] := rfl
  unfold ffo at hffo
  simp only [hdata, hst', hinfo, Node.isDir, typeOfInfo] at hffo
  injection hffo with hffo
  rw [← hffo]
  exact ⟨rfl, rfl⟩

/-- An alias of a folder: `fldr` with the folder's non-ignored count in the list. -/
theorem alias_of_folder_listed (fs : FS) (d : Path) (ig : Bytes → Bool) (n : Comp) (t q : Path)
    (hres : stat statFuel fs t = .ok (q, .dir)) :
    entryInfo fs d ig n (.link t) = .ok (some (tyFldr, zeros 4, countVisible fs q ig % 4294967296)) := by
  simp only [entryInfo, hres]

/-- … and `fldr` in get-info (no information fork side file under the alias's name). -/
theorem alias_of_folder_info (fs : FS) (d : Path) (n : Comp) (t q : Path) (f : Ffo) (k : Nat)
    (hlink : lookup fs (d ++ [n]) = some (.link t)) (hplain : firstSpecial fs (d ++ [n]) = none)
    (hk : k < statFuel) (hres : stat k fs t = .ok (q, .dir))
    (hinfo : statOk fs (wrapper (d ++ [n])).info = none)
    (hffo : ffo fs (d ++ [n]) = .ok f) : f.fork.ty = tyFldr := by
  have hst' : stat statFuel fs (d ++ [n]) = .ok (q, .dir) := by
    have : statFuel = (statFuel - 1) + 1 := by decide
    rw [this, stat_alias _ fs _ t hlink hplain]
    exact stat_mono_le k _ (by unfold statFuel at hk ⊢; omega) fs t _ hres
  have hdata : (wrapper (d ++ [n])).data = d ++ [n] := rfl
  unfold ffo at hffo
  simp only [hdata, hst', hinfo, Node.isDir, typeOfInfo] at hffo
  injection hffo with hffo
  rw [← hffo]
  rfl

-- ---------------------------------------------------------------- the comment length field

/-- The comment length travels in TWO bytes right after the name. -/
theorem comment_length_field (i : InfoFork) (h : i.fixedWF) :
    (i.encode.drop (72 + i.name.length)).take 2 = be16 i.comment.length := by
  obtain ⟨h1, h2, h3, h4, h5, h6, h7, h8, h9⟩ := h
  have hpre : (i.platform ++ i.ty ++ i.creator ++ i.flags ++ i.platformFlags ++ i.rsvd ++ i.createDate ++ i.modifyDate ++
      i.script ++ be16 i.name.length ++ i.name).length = 72 + i.name.length := by
    simp [*]; omega
  have henc : i.encode = (i.platform ++ i.ty ++ i.creator ++ i.flags ++ i.platformFlags ++ i.rsvd ++ i.createDate ++ i.modifyDate ++
      i.script ++ be16 i.name.length ++ i.name) ++ (be16 i.comment.length ++ i.comment) := by
    simp only [InfoFork.encode, List.append_assoc]
  rw [henc, ← hpre, List.drop_left]
  exact List.take_left' (be16_length _)

/-- Setting any comment below 65536 bytes and reading the fork back gives exactly that comment. -/
theorem comment_roundtrip (i : InfoFork) (c : Bytes) (h : i.fixedWF) (hn : i.name.length + 74 < 65536) (hc : c.length < 65536) :
    InfoFork.decode ({ i with comment := c }).encode = .ok { i with comment := c } :=
  InfoFork.decode_encode' { i with comment := c } ⟨h, by simp; omega, hc⟩ hn

/-- The wrapper that serves get-info, the download header, rename and move reads the stored fork back: when the
    side file holds the encoding of `i` (what an acknowledged set-comment wrote: `setComment_writes_info`), the
    flattened file object carries `i` — with the whole comment. -/
theorem ffo_reads_comment (fs : FS) (p : Path) (i : InfoFork) (g : Ffo) (h : i.WF) (hn : i.name.length + 74 < 65536)
    (hinfo : statOk fs (wrapper p).info = some (.file i.encode)) (hffo : ffo fs p = .ok g) : g.fork = i := by
  have hne : i.encode ≠ [] := by
    intro he
    have := InfoFork.encode_length i h.1
    rw [he] at this
    simp at this
    omega
  have hdec := InfoFork.decode_encode' i h hn
  unfold ffo at hffo
  simp only [hinfo, hne, if_false, hdec] at hffo
  split at hffo
  · cases hffo
  · cases hffo
  · injection hffo with hffo; rw [← hffo]

-- ---------------------------------------------------------------- configured ignore patterns

/-- The ignore predicate of a configuration: some configured pattern matches the name (`m` = the matcher,
    abstract: the list theorem holds for every predicate). -/
def ignoredBy {P : Type} (m : P → Bytes → Bool) (pats : List P) : Bytes → Bool := fun n => pats.any (fun p => m p n)

theorem ignoredBy_false {P : Type} (m : P → Bytes → Bool) (pats : List P) (n : Bytes) :
    ignoredBy m pats n = false ↔ ∀ p ∈ pats, m p n = false := by
  simp [ignoredBy]

end Mobius.FileOps
