import MobiusModel.Registry
/-!
  KickGrace: the *delayed* part of a disconnect request and the protection bit, over the client table
  of `Registry`.  (`KickTimer.lean`, written for C14/C17, models the twice-requested `Disconnect()`
  of one connection object; this module adds the request itself — requester's privilege, target lookup,
  the cannot-be-disconnected check at the time of the request — and the handles through which
  `Disconnect()` is reached, so that the C06 clause can be stated: *no protected user is removed
  by a timer*.)

  `HandleDisconnectUser` (internal/mobius/transaction_handlers.go) answers at once and starts
  `go func() { time.Sleep(1 * time.Second); clientConn.Disconnect() }()`.
  `ClientConn.Disconnect()` (hotline/client_conn.go) is, since fix d658b12,
  `cc.disconnectOnce.Do(func() { cc.Server.ClientMgr.Delete(cc.ID); "user left" notice carrying
  cc.ID; cc.Connection.Close() })`: the body works **by user id**, on whatever the table holds under
  that id at that moment — it never compares the entry with `cc` — but it runs at most once per
  connection object.  The same `Disconnect()` is the deferred call of the connection loop
  (`defer c.Disconnect()` in `handleNewConnection`) when a client hangs up.  Before d658b12 the body
  ran on every call (`disconnectObjById`, `stepOld`: kept as the negative witness).

  So the state has, next to the table, the **handles**: every `*ClientConn` on which somebody may
  still call `Disconnect()` — one for each connection loop, one more for each accepted disconnect
  request (the timer).  A handle is the pointer: the object's `ID` field and its identity (`conn`).
-/
namespace Mobius.KickGrace
open Mobius

inductive HKind where
  | loop    -- the connection loop's `defer c.Disconnect()`
  | timer   -- the delayed goroutine of an accepted disconnect request
deriving Repr, DecidableEq

structure Handle where
  kind : HKind
  id : Nat      -- `cc.ID` of the object the pointer refers to
  conn : Nat    -- identity of that object
deriving Repr, DecidableEq

structure World where
  reg : Registry
  handles : List Handle
  done : List Nat          -- connection objects whose `disconnectOnce` has been used
  closed : List Nat        -- connection objects whose `Connection.Close()` was called
  left : List Nat          -- ids announced as "user left"
deriving Repr, DecidableEq

def World.init : World := ⟨Registry.init, [], [], [], []⟩

/-- The 8-byte bitmap of the two kinds of account the model distinguishes: bit 23
    (cannot be disconnected) set or not. -/
def accessOf (prot : Bool) : Bytes := if prot then [0, 0, 1, 0, 0, 0, 0, 0] else [0, 0, 0, 0, 0, 0, 0, 0]

theorem accessOf_bit (prot : Bool) : accessBit (accessOf prot) 23 = prot := by cases prot <;> decide

def mkClient (prot : Bool) : Client :=
  { id := 0, conn := 0, login := [], acctName := [], access := accessOf prot, name := [], icon := [0, 0],
    flags := 0, autoReply := [], announced := true }

/-- The body of `Disconnect()`: by id. -/
def disconnectObjById (w : World) (h : Handle) : World :=
  { w with reg := w.reg.delete h.id, closed := h.conn :: w.closed, left := h.id :: w.left, done := h.conn :: w.done }

/-- `cc.Disconnect()` on the object a handle points at: `disconnectOnce.Do(body)`. -/
def disconnectObj (w : World) (h : Handle) : World :=
  if h.conn ∈ w.done then w else disconnectObjById w h

inductive KickRes where
  | denied      -- the requester lacks 'disconnect users'
  | panicked    -- the id names nobody: nil dereference in the requester's goroutine (recovered there), nothing changes
  | protectedT  -- the target's account is marked cannot-be-disconnected: error reply, nothing changes
  | accepted    -- reply; a timer now holds the target object
deriving Repr, DecidableEq

/-- `HandleDisconnectUser` as far as the table and the timer go (bans: `Authz.disconnectTarget`). -/
def kick (w : World) (may : Bool) (target : Nat) : World × KickRes :=
  if !may then (w, .denied) else
  match w.reg.get target with
  | none => (w, .panicked)
  | some t =>
    if accessBit t.access 23 then (w, .protectedT)
    else ({ w with handles := w.handles ++ [⟨.timer, t.id, t.conn⟩] }, .accepted)

/-- A login (`ClientMgr.Add` + the loop's deferred Disconnect). -/
def login (w : World) (prot : Bool) : World :=
  match w.reg.add (mkClient prot) with
  | none => w
  | some (r', c) => { w with reg := r', handles := w.handles ++ [⟨.loop, c.id, c.conn⟩] }

inductive Ev where
  | login (prot : Bool)
  | kick (may : Bool) (target : Nat)
  | disconnect (j : Nat)     -- the j-th handle calls `Disconnect()` (a client hangs up / a timer fires) and is spent
deriving Repr, DecidableEq

/-- One event; `once = false` is the code before fix d658b12 (every `Disconnect()` call runs the body). -/
def stepWith (once : Bool) (w : World) : Ev → World
  | .login p => login w p
  | .kick m t => (kick w m t).1
  | .disconnect j =>
    match w.handles[j]? with
    | none => w
    | some h => { (if once then disconnectObj w h else disconnectObjById w h) with handles := w.handles.eraseIdx j }

def step : World → Ev → World := stepWith true
def stepOld : World → Ev → World := stepWith false

def run (w : World) (es : List Ev) : World := es.foldl step w
def runOld (w : World) (es : List Ev) : World := es.foldl stepOld w

-- ------------------------------------------------------------------ what one Disconnect() removes

/-- The body removes exactly the holders of the handle's id — whoever they are. -/
theorem disconnectObjById_removes (w : World) (h : Handle) (c : Client) :
    c ∈ (disconnectObjById w h).reg.clients ↔ c ∈ w.reg.clients ∧ c.id ≠ h.id := by
  simp [disconnectObjById, Registry.delete, List.mem_filter]

/-- Every connection object whose once-guard is unused is still the table's entry for its id. -/
def Live (w : World) : Prop :=
  ∀ h ∈ w.handles, h.conn ∉ w.done → ∃ c ∈ w.reg.clients, c.id = h.id ∧ c.conn = h.conn

/-- Timers only hold objects whose account was unprotected when the request was accepted; the model has no
    account edits, so they still are. -/
def TimersUnprot (w : World) : Prop :=
  ∀ h ∈ w.handles, h.kind = .timer → ∀ c ∈ w.reg.clients, c.conn = h.conn → accessBit c.access 23 = false

/-- Everything the proofs need about a reachable world. -/
structure Good (w : World) : Prop where
  inv : w.reg.Inv
  ser : ∀ h ∈ w.handles, h.conn < w.reg.serial
  doneLt : ∀ k ∈ w.done, k < w.reg.serial
  live : Live w
  timers : TimersUnprot w

theorem Good.init : Good World.init where
  inv := Registry.Inv.init
  ser := fun _ hh => by cases hh
  doneLt := fun _ hh => by cases hh
  live := fun _ hh => by cases hh
  timers := fun _ hh => by cases hh

/-- In a good world a `Disconnect()` removes at most the object it was called on. -/
theorem disconnect_removes_at_most_target (w : World) (hg : Good w) (j : Nat) (h : Handle)
    (hj : w.handles[j]? = some h) (c : Client) (hc : c ∈ w.reg.clients)
    (hgone : c ∉ (step w (.disconnect j)).reg.clients) : c.conn = h.conn := by
  have hm : h ∈ w.handles := List.mem_of_getElem? hj
  simp only [step, stepWith, hj, if_true] at hgone
  unfold disconnectObj at hgone
  split at hgone
  · exact absurd hc hgone
  · rename_i hnd
    have : ¬ (c ∈ w.reg.clients ∧ c.id ≠ h.id) := fun hh => hgone ((disconnectObjById_removes w h c).2 hh)
    have hid : c.id = h.id := Classical.byContradiction fun hne => this ⟨hc, hne⟩
    obtain ⟨d, hd, hdid, hdc⟩ := hg.live h hm hnd
    have : c = d := hg.inv.sorted.eq_of_id hc hd (hid.trans hdid.symm)
    subst this; exact hdc

/-- … hence a protected user is removed only by its own connection loop, never by a timer. -/
theorem protected_removed_only_by_own_loop (w : World) (hg : Good w) (j : Nat) (h : Handle)
    (hj : w.handles[j]? = some h) (c : Client) (hc : c ∈ w.reg.clients) (hp : accessBit c.access 23 = true)
    (hgone : c ∉ (step w (.disconnect j)).reg.clients) : h.kind = .loop ∧ h.conn = c.conn := by
  have hconn := disconnect_removes_at_most_target w hg j h hj c hc hgone
  have hm : h ∈ w.handles := List.mem_of_getElem? hj
  refine ⟨?_, hconn.symm⟩
  cases hk : h.kind with
  | loop => rfl
  | timer => have := hg.timers h hm hk c hc hconn; rw [hp] at this; cases this

-- ------------------------------------------------------------------ the invariant along every history

theorem eq_of_nodup_map_conn {l : List Client} (h : (l.map (·.conn)).Nodup) {a b : Client} (ha : a ∈ l) (hb : b ∈ l)
    (he : a.conn = b.conn) : a = b := by
  induction l with
  | nil => cases ha
  | cons x xs ih =>
    simp only [List.map_cons, List.nodup_cons, List.mem_map, not_exists, not_and] at h
    rcases List.mem_cons.1 ha with rfl | ha' <;> rcases List.mem_cons.1 hb with rfl | hb'
    · rfl
    · exact absurd he.symm (h.1 b hb')
    · exact absurd he (h.1 a ha')
    · exact ih h.2 ha' hb'

theorem login_good {w : World} (hg : Good w) (p : Bool) : Good (login w p) := by
  unfold login
  split
  · exact hg
  · rename_i r' c hadd
    obtain ⟨hinv', _, _, _, hcconn, _, _, hser', hmem⟩ := Registry.add_spec hg.inv hadd
    refine ⟨hinv', ?_, ?_, ?_, ?_⟩
    · intro h hh
      rcases List.mem_append.1 hh with hh | hh
      · have := hg.ser h hh; show h.conn < r'.serial; omega
      · simp only [List.mem_singleton] at hh; subst hh; show c.conn < r'.serial; omega
    · intro k hk; have := hg.doneLt k hk; show k < r'.serial; omega
    · intro h hh hnd
      rcases List.mem_append.1 hh with hh | hh
      · obtain ⟨d, hd, h1, h2⟩ := hg.live h hh hnd
        exact ⟨d, (hmem d).2 (Or.inr hd), h1, h2⟩
      · simp only [List.mem_singleton] at hh; subst hh
        exact ⟨c, (hmem c).2 (Or.inl rfl), rfl, rfl⟩
    · intro h hh hk d hd hconn
      rcases List.mem_append.1 hh with hh1 | hh1
      · rcases (hmem d).1 hd with hdc | hold
        · have := hg.ser h hh1; rw [hdc] at hconn; omega
        · exact hg.timers h hh1 hk d hold hconn
      · simp only [List.mem_singleton] at hh1; subst hh1; cases hk

theorem kick_good {w : World} (hg : Good w) (m : Bool) (t : Nat) : Good (kick w m t).1 := by
  unfold kick
  split
  · exact hg
  · split
    · exact hg
    · rename_i c hget
      split
      · exact hg
      · rename_i hbit
        have hcm := (Registry.get_some hget).1
        refine ⟨hg.inv, ?_, hg.doneLt, ?_, ?_⟩
        · intro h hh
          rcases List.mem_append.1 hh with hh | hh
          · exact hg.ser h hh
          · simp only [List.mem_singleton] at hh; subst hh; exact hg.inv.conns c hcm
        · intro h hh hnd
          rcases List.mem_append.1 hh with hh | hh
          · exact hg.live h hh hnd
          · simp only [List.mem_singleton] at hh; subst hh; exact ⟨c, hcm, rfl, rfl⟩
        · intro h hh hk d hd hconn
          rcases List.mem_append.1 hh with hh | hh
          · exact hg.timers h hh hk d hd hconn
          · simp only [List.mem_singleton] at hh; subst hh
            have : d = c := eq_of_nodup_map_conn hg.inv.connsNodup hd hcm hconn
            subst this
            simpa using hbit

theorem disconnect_good {w : World} (hg : Good w) (j : Nat) : Good (step w (.disconnect j)) := by
  simp only [step, stepWith, if_true]
  split
  · exact hg
  · rename_i h hj
    have hm : h ∈ w.handles := List.mem_of_getElem? hj
    have hsub : ∀ x ∈ w.handles.eraseIdx j, x ∈ w.handles := fun x hx => List.mem_of_mem_eraseIdx hx
    unfold disconnectObj
    split
    · exact ⟨hg.inv, fun x hx => hg.ser x (hsub x hx), hg.doneLt, fun x hx => hg.live x (hsub x hx),
        fun x hx => hg.timers x (hsub x hx)⟩
    · rename_i hnd
      have hcl : ∀ c ∈ (w.reg.delete h.id).clients, c ∈ w.reg.clients := by
        intro c hc; simp only [Registry.delete, List.mem_filter] at hc; exact hc.1
      refine ⟨hg.inv.delete h.id, fun x hx => hg.ser x (hsub x hx), ?_, ?_,
        fun x hx hk c hc => hg.timers x (hsub x hx) hk c (hcl c hc)⟩
      · intro k hk
        rcases List.mem_cons.1 hk with rfl | hk
        · exact hg.ser h hm
        · exact hg.doneLt k hk
      · intro x hx hxnd
        have hxnd' : x.conn ≠ h.conn ∧ x.conn ∉ w.done := by
          simp only [disconnectObjById, List.mem_cons, not_or] at hxnd; exact hxnd
        obtain ⟨d, hd, h1, h2⟩ := hg.live x (hsub x hx) hxnd'.2
        obtain ⟨e, he, e1, e2⟩ := hg.live h hm hnd
        refine ⟨d, ?_, h1, h2⟩
        show d ∈ (w.reg.delete h.id).clients
        simp only [Registry.delete, List.mem_filter, bne_iff_ne, ne_eq]
        refine ⟨hd, fun hid => ?_⟩
        have : d = e := hg.inv.sorted.eq_of_id hd he (hid.trans e1.symm)
        subst this
        exact hxnd'.1 (h2.symm.trans e2)

theorem step_good {w : World} (hg : Good w) (e : Ev) : Good (step w e) := by
  cases e with
  | login p => exact login_good hg p
  | kick m t => exact kick_good hg m t
  | disconnect j => exact disconnect_good hg j

/-- Every world reachable from the empty server is good — no hypothesis on the id counter. -/
theorem run_good (es : List Ev) (w : World) (hg : Good w) : Good (run w es) := by
  induction es generalizing w with
  | nil => exact hg
  | cons e es ih => exact ih (step w e) (step_good hg e)

/-- The world just before the counter comes round to id 5: user 5 (connection 0) has been connected while
    65 535 others came and went. -/
def wrapWorld : World :=
  ⟨⟨65540, 1, [{ mkClient false with id := 5, conn := 0 }]⟩, [⟨.loop, 5, 0⟩], [], [], []⟩

end Mobius.KickGrace
