import MobiusModel.Accounts
import MobiusModel.WireLemmas
import MobiusModel.WireLemmas3
/-!
  Accounts, from the BYTES of a request (C15 / C16, wave d).

  `Accounts.step` works on the parsed fields of a request.  What reaches a handler in the server has been
  through two parsers: `Transaction.Write` (model: `Transaction.decode`, Wire.lean — the C01 theorems) and,
  for update-user (349), the scanner loop of `HandleUpdateUser` over each data field
  (`count(2) ++ sub-fields`; model: `subRecDecode`).  `stepWire` is the server's path from request bytes to
  the account store; `stepWire_encode` / `updateUserWire_encode` state that on the encoding of a request it
  is exactly `step` on the fields that were sent — whatever their order, number and sizes (up to the 65535
  bytes a field can carry); `*_perm` state that the handlers do not depend on the order of the fields.

  Scope note: the inner scanner of `HandleUpdateUser` has the default 64 KiB token limit while
  `parseFields` models the 65539-byte limit of `Transaction.Write`; a sub-record lives inside one field
  (≤ 65535 bytes), so no sub-field token can reach either limit and the two agree on every input that exists.
-/
namespace Mobius.Accounts
variable {H : Type}

/-- an update-user sub-record as the client sends it: field count, then the sub-fields -/
def recEncode (fs : List Field) : Bytes := be16 fs.length ++ fieldsEncode fs

/-- … carried in a data field (101) of the request (the handler does not look at the field's type) -/
def recField (fs : List Field) : Field := ⟨101, recEncode fs⟩

/-- The scanner loop of `HandleUpdateUser` over one field's data: `field.Data[2:]` panics below two
    bytes; a sub-field that does not scan ends the request (`.err`: the handler returns nothing). -/
def subRecDecode (d : Bytes) : Res (List Field) :=
  if d.length < 2 then .panic else parseFields (rd16 d) (d.drop 2)

/-- HandleUpdateUser on the request's fields as they arrive: each field is decoded, then applied. -/
def updateUserWire (env : Env H) : List Field → State H → State H × Out H
  | [], st => (st, .done)
  | f :: rest, st =>
    match subRecDecode f.data with
    | .ok fs =>
      match updateRec env fs st with
      | (st', none) => updateUserWire env rest st'
      | (st', some o) => (st', o)
    | .err => (st, .silent)
    | .panic => (st, .panic)

/-- the handler table, restricted to the six account transactions -/
def dispatch (env : Env H) (ty : Nat) (fs : List Field) (st : State H) : State H × Out H :=
  if ty = 350 then handleNewUser env fs st
  else if ty = 353 then handleSetUser env fs st
  else if ty = 351 then handleDeleteUser env fs st
  else if ty = 352 then handleGetUser fs st
  else if ty = 348 then (st, .users (listAccts st))
  else if ty = 349 then updateUserWire env fs st
  else (st, .silent)

/-- From the bytes of one scanned transaction to the account store. -/
def stepWire (env : Env H) (st : State H) (p : Bytes) : State H × Out H :=
  match Transaction.decode p with
  | .ok t => dispatch env t.ty t.fields st
  | .err => (st, .silent)
  | .panic => (st, .panic)

theorem subRecDecode_encode (fs : List Field) (h : ∀ f ∈ fs, f.WF) (hn : fs.length < 65536) :
    subRecDecode (recEncode fs) = .ok fs := by
  unfold subRecDecode recEncode
  have hl : ¬ (be16 fs.length ++ fieldsEncode fs).length < 2 := by simp [be16_length]
  rw [if_neg hl, rd16_be16_append, drop2_be16, Nat.mod_eq_of_lt hn]
  have := parseFields_encode fs h []
  simpa using this

/-- A request whose data fields are encoded sub-records is processed as the fold over those records. -/
theorem updateUserWire_encode (env : Env H) (recs : List (List Field)) (st : State H)
    (h : ∀ fs ∈ recs, (∀ f ∈ fs, f.WF) ∧ fs.length < 65536) :
    updateUserWire env (recs.map recField) st = handleUpdateUser env recs st := by
  induction recs generalizing st with
  | nil => rfl
  | cons fs rest ih =>
    have h1 := h fs (by simp)
    simp only [List.map_cons, updateUserWire, recField, subRecDecode_encode fs h1.1 h1.2, handleUpdateUser]
    cases hr : updateRec env fs st with
    | mk st' o =>
      cases o with
      | none => simpa [recField] using ih st' (fun g hg => h g (by simp [hg]))
      | some o => rfl

/-- On the encoding of a (decodable) transaction the path from bytes is the handler on the fields sent. -/
theorem stepWire_of_decode (env : Env H) (st : State H) (p : Bytes) (t : Transaction)
    (h : Transaction.decode p = .ok t) : stepWire env st p = dispatch env t.ty t.fields st := by
  unfold stepWire
  rw [h]

theorem stepWire_encode (env : Env H) (st : State H) (t : Transaction) (h : t.WFdec) :
    stepWire env st t.encode = dispatch env t.ty t.fields st :=
  stepWire_of_decode env st _ t (Transaction.decode_encode' t h)

-- ---------------------------------------------------------------- requests as the client builds them

/-- the request transaction of an operation (`none`: not a request — login attempts, restarts) -/
def Op.tran (id : Nat) : Op → Option Transaction
  | .newUser fs => some ⟨0, 0, 350, id, 0, fs⟩
  | .setUser fs => some ⟨0, 0, 353, id, 0, fs⟩
  | .updateUser recs => some ⟨0, 0, 349, id, 0, recs.map recField⟩
  | .deleteUser fs => some ⟨0, 0, 351, id, 0, fs⟩
  | .getUser fs => some ⟨0, 0, 352, id, 0, fs⟩
  | .listUsers => some ⟨0, 0, 348, id, 0, []⟩
  | .login _ _ => none
  | .restart => none

/-- every sub-record is a list of well-formed fields -/
def Op.RecsWF : Op → Prop
  | .updateUser recs => ∀ fs ∈ recs, (∀ f ∈ fs, f.WF) ∧ fs.length < 65536
  | _ => True

/-- one step of a history whose requests arrive as bytes -/
inductive WStep where
  | req (p : Bytes)
  | login (l : Login) (pw : Bytes)
  | restart

def stepW (env : Env H) (st : State H) : WStep → State H × Out H
  | .req p => stepWire env st p
  | .login l pw => (st, .auth (canLogin env st l pw))
  | .restart => (⟨load st.disk, st.disk⟩, .done)

def runW (env : Env H) (st : State H) (ws : List WStep) : State H := ws.foldl (fun s w => (stepW env s w).1) st

/-- how a client sends an operation -/
def Op.wire (id : Nat) (o : Op) : WStep :=
  match o.tran id with
  | some t => .req t.encode
  | none => match o with
    | .login l pw => .login l pw
    | _ => .restart

/-- an operation whose request can be sent: the transaction is decodable (field sizes < 65536, at most
    65535 fields, payload below 4 GiB) and its sub-records are well-formed -/
def Op.Sendable (id : Nat) (o : Op) : Prop :=
  (∀ t, o.tran id = some t → t.WFdec) ∧ o.RecsWF

/-- MAIN TIE: sending an operation's request as bytes and taking it through both parsers is the
    operation on the fields that were sent. -/
theorem stepW_wire (env : Env H) (st : State H) (id : Nat) (o : Op) (h : o.Sendable id) :
    stepW env st (o.wire id) = step env st o := by
  obtain ⟨hw, hr⟩ := h
  cases o with
  | newUser fs =>
    have := stepWire_encode env st _ (hw _ rfl)
    simpa [Op.wire, Op.tran, stepW, step, dispatch] using this
  | setUser fs =>
    have := stepWire_encode env st _ (hw _ rfl)
    simpa [Op.wire, Op.tran, stepW, step, dispatch] using this
  | updateUser recs =>
    have := stepWire_encode env st _ (hw _ rfl)
    simp only [Op.wire, Op.tran, stepW, step]
    rw [this]
    simp only [dispatch]
    exact updateUserWire_encode env recs st hr
  | deleteUser fs =>
    have := stepWire_encode env st _ (hw _ rfl)
    simpa [Op.wire, Op.tran, stepW, step, dispatch] using this
  | getUser fs =>
    have := stepWire_encode env st _ (hw _ rfl)
    simpa [Op.wire, Op.tran, stepW, step, dispatch] using this
  | listUsers =>
    have := stepWire_encode env st _ (hw _ rfl)
    simpa [Op.wire, Op.tran, stepW, step, dispatch] using this
  | login l pw => rfl
  | restart => rfl

theorem runW_wire (env : Env H) (st : State H) (id : Nat) (ops : List Op) (h : ∀ o ∈ ops, o.Sendable id) :
    runW env st (ops.map (Op.wire id)) = run env st ops := by
  induction ops generalizing st with
  | nil => rfl
  | cons o rest ih =>
    simp only [List.map_cons, runW, run, List.foldl_cons]
    rw [stepW_wire env st id o (h o (by simp))]
    exact ih _ (fun p hp => h p (by simp [hp]))

-- ---------------------------------------------------------------- the order of the fields does not matter

theorem find_perm {α : Type} (p : α → Bool) {l l' : List α} (hp : l.Perm l')
    (hu : ∀ a ∈ l, ∀ b ∈ l, p a = true → p b = true → a = b) : l.find? p = l'.find? p := by
  induction hp with
  | nil => rfl
  | cons x _ ih =>
    simp only [List.find?_cons]
    cases hx : p x with
    | true => rfl
    | false => exact ih (fun a ha b hb => hu a (by simp [ha]) b (by simp [hb]))
  | swap x y l =>
    simp only [List.find?_cons]
    cases hx : p x <;> cases hy : p y <;> simp
    exact (hu x (by simp) y (by simp) hx hy).symm
  | trans h1 _ ih1 ih2 =>
    rw [ih1 hu]
    exact ih2 (fun a ha b hb => hu a (h1.mem_iff.mpr ha) b (h1.mem_iff.mpr hb))

theorem nodup_map_inj {α β : Type} (f : α → β) : ∀ {l : List α}, (l.map f).Nodup →
    ∀ a ∈ l, ∀ b ∈ l, f a = f b → a = b
  | [], _, a, ha, _, _, _ => by cases ha
  | x :: l, hn, a, ha, b, hb, e => by
    simp only [List.map_cons, List.nodup_cons, List.mem_map, not_exists, not_and] at hn
    simp only [List.mem_cons] at ha hb
    rcases ha with ha | ha <;> rcases hb with hb | hb
    · rw [ha, hb]
    · subst ha; exact absurd e.symm (hn.1 b hb)
    · subst hb; exact absurd e (hn.1 a ha)
    · exact nodup_map_inj f hn.2 a ha b hb e

/-- With pairwise different field types, `GetField` finds the same field in every order. -/
theorem getField_perm {fs fs' : List Field} (hp : fs.Perm fs') (hn : (fs.map (·.ty)).Nodup) (id : Nat) :
    getField id fs = getField id fs' := by
  unfold getField
  rw [find_perm (fun f => decide (f.ty = id)) hp]
  intro a ha b hb pa pb
  simp only [decide_eq_true_eq] at pa pb
  exact nodup_map_inj (·.ty) hn a ha b hb (by rw [pa, pb])

theorem handleNewUser_perm (env : Env H) {fs fs' : List Field} (hp : fs.Perm fs') (hn : (fs.map (·.ty)).Nodup)
    (st : State H) : handleNewUser env fs st = handleNewUser env fs' st := by
  have h := getField_perm hp hn
  unfold handleNewUser fieldData
  simp only [h]

theorem handleSetUser_perm (env : Env H) {fs fs' : List Field} (hp : fs.Perm fs') (hn : (fs.map (·.ty)).Nodup)
    (st : State H) : handleSetUser env fs st = handleSetUser env fs' st := by
  have h := getField_perm hp hn
  unfold handleSetUser fieldData
  simp only [h]

theorem handleDeleteUser_perm (env : Env H) {fs fs' : List Field} (hp : fs.Perm fs') (hn : (fs.map (·.ty)).Nodup)
    (st : State H) : handleDeleteUser env fs st = handleDeleteUser env fs' st := by
  have h := getField_perm hp hn
  unfold handleDeleteUser fieldData
  simp only [h]

theorem updateRec_perm (env : Env H) {fs fs' : List Field} (hp : fs.Perm fs') (hn : (fs.map (·.ty)).Nodup)
    (st : State H) : updateRec env fs st = updateRec env fs' st := by
  have h := getField_perm hp hn
  have hl : fs.length = fs'.length := hp.length_eq
  unfold updateRec accountToUpdate loginToRename
  simp only [h, hl]

/-- `copy(access[:], data)` with the 8 bytes a client sends replaces the whole (8-byte) bitmap. -/
theorem copyAccess_eight (old ac : Bytes) (ho : old.length ≤ 8) (h : ac.length = 8) : copyAccess old ac = ac := by
  unfold copyAccess
  rw [h, List.take_of_length_le (Nat.le_of_eq h), List.drop_eq_nil_of_le (by simpa using ho)]
  simp

end Mobius.Accounts
