import MobiusModel.Bytes
/-!
  Containment (C03): the bookkeeping a connection does on shared server state, as effect traces.

  The Go entry points acquire and release in `defer` pairs:

    handleNewConnection:  … authenticate …                         (exit before: nothing acquired)
                          ClientMgr.Add(c);            defer c.Disconnect()                  -- A1
                          Stats.Increment(counter, connected); defer Stats.Decrement(connected) -- A2
                          loop { handle transaction }   (may return or panic anywhere; `defer dontPanic` first)
    handleFileTransfer:   FileTransferMgr.Get(ref) (nil → return)
                          defer FileTransferMgr.Delete(ref)                                   -- T1
                          Stats.Increment(dlCounter, dlInProgress); defer Decrement(dlInProgress) -- T2 (or upload)
                          transfer body (may return or panic anywhere)

  A session's trace of watched effects is a function of *where it exits* only — hostile bytes can
  choose the exit point and nothing else about this bookkeeping.
-/
namespace Mobius.Containment

/-- Watched counters: 0 = CurrentlyConnected, 1 = DownloadsInProgress, 2 = UploadsInProgress. -/
inductive Eff where
  | regAdd (id : Nat)
  | regDel (id : Nat)
  | inc (k : Nat)
  | dec (k : Nat)
  | tDel (ref : Nat)        -- pending-transfer table entry removed
deriving DecidableEq, Repr

/-- Where a control connection leaves `handleNewConnection` (by return or by recovered panic). -/
inductive CtlExit where
  | beforeRegister      -- bad handshake, banned, undecodable login, wrong password, account vanished
  | afterRegister       -- between ClientMgr.Add and Stats.Increment (e.g. a send fails/panics)
  | inLoop              -- anywhere in the transaction loop: EOF, decode error, handler panic
deriving DecidableEq, Repr

def ctlTrace (id : Nat) : CtlExit → List Eff
  | .beforeRegister => []
  | .afterRegister => [.regAdd id, .regDel id]
  | .inLoop => [.regAdd id, .inc 0, .dec 0, .regDel id]

/-- Where a transfer connection leaves `handleFileTransfer`. `kind`: 1 = download-type, 2 = upload-type, 0 = banner. -/
inductive XferExit where
  | beforeLookup        -- short / invalid preamble, unknown reference number
  | afterLookup         -- ReadPath error, banner: transfer entry deleted, no counter touched
  | inBody (kind : Nat) -- download / upload body: returns or panics anywhere
deriving DecidableEq, Repr

def xferTrace (ref : Nat) : XferExit → List Eff
  | .beforeLookup => []
  | .afterLookup => [.tDel ref]
  | .inBody k => [.inc k, .dec k, .tDel ref]

/-- Net change of counter `k` over a trace. -/
def net (k : Nat) : List Eff → Int
  | [] => 0
  | .inc j :: r => (if j = k then 1 else 0) + net k r
  | .dec j :: r => (if j = k then -1 else 0) + net k r
  | _ :: r => net k r

theorem net_append (k : Nat) (a b : List Eff) : net k (a ++ b) = net k a + net k b := by
  induction a with
  | nil => simp [net]
  | cons e a ih => cases e <;> simp [net, ih] <;> omega

/-- Registry membership of `x` after a trace, starting from membership `m`. -/
def memAfter (x : Nat) (m : Bool) : List Eff → Bool
  | [] => m
  | .regAdd i :: r => memAfter x (if i = x then true else m) r
  | .regDel i :: r => memAfter x (if i = x then false else m) r
  | _ :: r => memAfter x m r

/-- effects that mention registry id `x` -/
def mentions (x : Nat) : Eff → Bool
  | .regAdd i => i == x
  | .regDel i => i == x
  | _ => false

theorem memAfter_filter (x : Nat) (m : Bool) (t : List Eff) :
    memAfter x m t = memAfter x m (t.filter (mentions x)) := by
  induction t generalizing m with
  | nil => rfl
  | cons e t ih =>
    cases e with
    | regAdd i =>
      by_cases h : i = x
      · have hm : mentions x (.regAdd i) = true := by simp [mentions, h]
        rw [List.filter_cons_of_pos hm]; simp only [memAfter]; exact ih _
      · have hm : mentions x (.regAdd i) = false := by simp [mentions, h]
        rw [List.filter_cons_of_neg (by simp [hm])]; simp only [memAfter, h, if_false]; exact ih _
    | regDel i =>
      by_cases h : i = x
      · have hm : mentions x (.regDel i) = true := by simp [mentions, h]
        rw [List.filter_cons_of_pos hm]; simp only [memAfter]; exact ih _
      · have hm : mentions x (.regDel i) = false := by simp [mentions, h]
        rw [List.filter_cons_of_neg (by simp [hm])]; simp only [memAfter, h, if_false]; exact ih _
    | inc k => rw [List.filter_cons_of_neg (by simp [mentions])]; simp only [memAfter]; exact ih _
    | dec k => rw [List.filter_cons_of_neg (by simp [mentions])]; simp only [memAfter]; exact ih _
    | tDel r => rw [List.filter_cons_of_neg (by simp [mentions])]; simp only [memAfter]; exact ih _

/-- Order-preserving interleavings of two step sequences. -/
inductive Interleave {α : Type} : List α → List α → List α → Prop where
  | nil : Interleave [] [] []
  | left (x : α) {a b c : List α} : Interleave a b c → Interleave (x :: a) b (x :: c)
  | right (x : α) {a b c : List α} : Interleave a b c → Interleave a (x :: b) (x :: c)

/-- All order-preserving interleavings of several step sequences (any number of goroutines). -/
inductive MergeAll {α : Type} : List (List α) → List α → Prop where
  | nil : MergeAll [] []
  | cons {l m out : List α} {ls : List (List α)} : MergeAll ls m → Interleave l m out → MergeAll (l :: ls) out

theorem net_cons (k : Nat) (x : Eff) (r : List Eff) : net k (x :: r) = net k [x] + net k r := by
  have := net_append k [x] r; simpa using this

theorem net_interleave (k : Nat) {a b c : List Eff} (h : Interleave a b c) : net k c = net k a + net k b := by
  induction h with
  | nil => rfl
  | @left x a b c _ ih => rw [net_cons k x c, net_cons k x a, ih]; omega
  | @right x a b c _ ih => rw [net_cons k x c, net_cons k x b, ih]; omega

/-- An additive measure of a merged trace is the sum of the measures of its parts. -/
theorem net_mergeAll (k : Nat) {ls : List (List Eff)} {out : List Eff} (h : MergeAll ls out) :
    net k out = (ls.map (net k)).sum := by
  induction h with
  | nil => rfl
  | cons _ hi ih => rw [net_interleave k hi, ih]; simp

theorem mem_interleave {α : Type} {a b c : List α} (h : Interleave a b c) : ∀ x ∈ c, x ∈ a ∨ x ∈ b := by
  induction h with
  | nil => intro x hx; cases hx
  | left y _ ih =>
    intro x hx
    rcases List.mem_cons.mp hx with rfl | hx
    · exact Or.inl (by simp)
    · rcases ih x hx with h | h
      · exact Or.inl (by simp [h])
      · exact Or.inr h
  | right y _ ih =>
    intro x hx
    rcases List.mem_cons.mp hx with rfl | hx
    · exact Or.inr (by simp)
    · rcases ih x hx with h | h
      · exact Or.inl h
      · exact Or.inr (by simp [h])

theorem mem_mergeAll {α : Type} {ls : List (List α)} {out : List α} (h : MergeAll ls out) :
    ∀ x ∈ out, ∃ l ∈ ls, x ∈ l := by
  induction h with
  | nil => intro x hx; cases hx
  | cons _ hi ih =>
    intro x hx
    rcases mem_interleave hi x hx with h | h
    · exact ⟨_, by simp, h⟩
    · obtain ⟨l, hl, hxl⟩ := ih x h
      exact ⟨l, by simp [hl], hxl⟩

theorem filter_interleave_left {α : Type} (p : α → Bool) {a b c : List α} (h : Interleave a b c)
    (hb : ∀ x ∈ b, p x = false) : c.filter p = a.filter p := by
  induction h with
  | nil => rfl
  | left x _ ih => simp only [List.filter_cons]; rw [ih hb]
  | right x _ ih =>
    have hx : p x = false := hb x (by simp)
    simp only [List.filter_cons, hx]
    exact ih (fun y hy => hb y (by simp [hy]))

theorem filter_interleave_right {α : Type} (p : α → Bool) {a b c : List α} (h : Interleave a b c)
    (ha : ∀ x ∈ a, p x = false) : c.filter p = b.filter p := by
  induction h with
  | nil => rfl
  | right x _ ih => simp only [List.filter_cons]; rw [ih ha]
  | left x _ ih =>
    have hx : p x = false := ha x (by simp)
    simp only [List.filter_cons, hx]
    exact ih (fun y hy => ha y (by simp [hy]))

/-- Filtering a merge by a predicate only one component can satisfy gives that component's filter. -/
theorem filter_mergeAll {α : Type} (p : α → Bool) (pre : List (List α)) (l : List α) (post : List (List α))
    (out : List α) (h : MergeAll (pre ++ l :: post) out)
    (hothers : ∀ l' ∈ pre ++ post, ∀ a ∈ l', p a = false) : out.filter p = l.filter p := by
  induction pre generalizing out with
  | nil =>
    cases h with
    | cons hm hi =>
      apply filter_interleave_left p hi
      intro x hx
      obtain ⟨l', hl', hxl'⟩ := mem_mergeAll hm x hx
      exact hothers l' (by simp [hl']) x hxl'
  | cons q pre ih =>
    cases h with
    | cons hm hi =>
      rw [filter_interleave_right p hi (fun x hx => hothers q (by simp) x hx)]
      exact ih _ hm (fun l' hl' => hothers l' (by
        rcases List.mem_append.mp hl' with h | h
        · simp [h]
        · simp [h]))

end Mobius.Containment
