import MobiusModel.PathAlg
/-!
  Spec.Governing — what the Hotline protocol says, independent of the Go code:

  * the privilege numbering and the account-file name of every privilege;
  * the request classes (`Req`): one constructor per registered transaction type, carrying the
    *target-kind facts* the protocol's access rule depends on (file / folder / missing, category /
    bundle, upload folder / drop box / plain folder, which optional fields are present, the
    sub-requests of the multi-user editor);
  * `requested : Req → List Effect` and `Effect.priv` — the governing-privilege table: which
    privileged effects a request of that type on that kind of target asks for, and the privilege
    ("Access:" line of the transaction in docs/HLProtocol, refined by the property statement: folder
    transfers are bits 38/39, send-message is bit 40) that governs each;
  * the expected registration table and the expected guard skeleton of the handlers
    (= the expected value of `Generated.registered` / `Generated.authSites`).
-/
namespace Mobius.Spec

/-! ### privileges -/

namespace Priv
def deleteFile := 0
def uploadFile := 1
def downloadFile := 2
def renameFile := 3
def moveFile := 4
def createFolder := 5
def deleteFolder := 6
def renameFolder := 7
def moveFolder := 8
def readChat := 9
def sendChat := 10
def openChat := 11
def closeChat := 12
def showInList := 13
def createUser := 14
def deleteUser := 15
def openUser := 16
def modifyUser := 17
def changeOwnPass := 18
def newsReadArt := 20
def newsPostArt := 21
def disconUser := 22
def cannotBeDiscon := 23
def getClientInfo := 24
def uploadAnywhere := 25
def anyName := 26
def noAgreement := 27
def setFileComment := 28
def setFolderComment := 29
def viewDropBoxes := 30
def makeAlias := 31
def broadcast := 32
def newsDeleteArt := 33
def newsCreateCat := 34
def newsDeleteCat := 35
def newsCreateFldr := 36
def newsDeleteFldr := 37
def uploadFolder := 38
def downloadFolder := 39
def sendPrivMsg := 40
end Priv

/-- the 40 privileges the protocol defines: 0..18 and 20..40 (19 and 41..63 are unassigned) -/
def definedBits : List Nat := List.range 19 ++ (List.range 21).map (· + 20)

/-- name of each privilege in the account file (`Access:` map of `Users/<login>.yaml`) -/
def accessYamlNames : List (String × Nat) := [
  ("DeleteFile", 0), ("UploadFile", 1), ("DownloadFile", 2), ("RenameFile", 3), ("MoveFile", 4),
  ("CreateFolder", 5), ("DeleteFolder", 6), ("RenameFolder", 7), ("MoveFolder", 8),
  ("ReadChat", 9), ("SendChat", 10), ("OpenChat", 11), ("CloseChat", 12), ("ShowInList", 13),
  ("CreateUser", 14), ("DeleteUser", 15), ("OpenUser", 16), ("ModifyUser", 17), ("ChangeOwnPass", 18),
  ("NewsReadArt", 20), ("NewsPostArt", 21), ("DisconnectUser", 22), ("CannotBeDisconnected", 23),
  ("GetClientInfo", 24), ("UploadAnywhere", 25), ("AnyName", 26), ("NoAgreement", 27),
  ("SetFileComment", 28), ("SetFolderComment", 29), ("ViewDropBoxes", 30), ("MakeAlias", 31),
  ("Broadcast", 32), ("NewsDeleteArt", 33), ("NewsCreateCat", 34), ("NewsDeleteCat", 35),
  ("NewsCreateFldr", 36), ("NewsDeleteFldr", 37), ("UploadFolder", 38), ("DownloadFolder", 39),
  ("SendPrivMsg", 40)
]

/-- the Go constant that must carry each privilege number (ties `Priv.*` to `Generated.accessConsts`) -/
def privConstNames : List (String × Nat) := [
  ("AccessDeleteFile", Priv.deleteFile), ("AccessUploadFile", Priv.uploadFile), ("AccessDownloadFile", Priv.downloadFile),
  ("AccessRenameFile", Priv.renameFile), ("AccessMoveFile", Priv.moveFile), ("AccessCreateFolder", Priv.createFolder),
  ("AccessDeleteFolder", Priv.deleteFolder), ("AccessRenameFolder", Priv.renameFolder), ("AccessMoveFolder", Priv.moveFolder),
  ("AccessReadChat", Priv.readChat), ("AccessSendChat", Priv.sendChat), ("AccessOpenChat", Priv.openChat),
  ("AccessCloseChat", Priv.closeChat), ("AccessShowInList", Priv.showInList), ("AccessCreateUser", Priv.createUser),
  ("AccessDeleteUser", Priv.deleteUser), ("AccessOpenUser", Priv.openUser), ("AccessModifyUser", Priv.modifyUser),
  ("AccessChangeOwnPass", Priv.changeOwnPass), ("AccessNewsReadArt", Priv.newsReadArt), ("AccessNewsPostArt", Priv.newsPostArt),
  ("AccessDisconUser", Priv.disconUser), ("AccessCannotBeDiscon", Priv.cannotBeDiscon), ("AccessGetClientInfo", Priv.getClientInfo),
  ("AccessUploadAnywhere", Priv.uploadAnywhere), ("AccessAnyName", Priv.anyName), ("AccessNoAgreement", Priv.noAgreement),
  ("AccessSetFileComment", Priv.setFileComment), ("AccessSetFolderComment", Priv.setFolderComment),
  ("AccessViewDropBoxes", Priv.viewDropBoxes), ("AccessMakeAlias", Priv.makeAlias), ("AccessBroadcast", Priv.broadcast),
  ("AccessNewsDeleteArt", Priv.newsDeleteArt), ("AccessNewsCreateCat", Priv.newsCreateCat), ("AccessNewsDeleteCat", Priv.newsDeleteCat),
  ("AccessNewsCreateFldr", Priv.newsCreateFldr), ("AccessNewsDeleteFldr", Priv.newsDeleteFldr),
  ("AccessUploadFolder", Priv.uploadFolder), ("AccessDownloadFolder", Priv.downloadFolder), ("AccessSendPrivMsg", Priv.sendPrivMsg)
]

/-! ### privileged effects -/

/-- An effect the protocol puts under a privilege: a change of server state, a disclosure of protected
    data, or something that reaches other users. -/
inductive Effect
  | deleteFile | deleteFolder | renameFile | renameFolder | moveFile | moveFolder
  | commentFile | commentFolder | createFolder | makeAlias
  | downloadFile | downloadFolder | uploadFile | uploadFolder
  | uploadAnywhere      -- an upload whose destination is neither an upload folder nor a drop box
  | viewDropBox         -- listing a drop box
  | createUser | deleteUser | modifyUser | openUser
  | postNews | readNews | deleteArticle | createCategory | createBundle | deleteCategory | deleteBundle
  | sendChat | openChat | sendPrivMsg | broadcast | getClientInfo | disconnectUser
  | useAnyName          -- appearing under a self-chosen display name
deriving DecidableEq, Repr

def Effect.priv : Effect → Nat
  | .deleteFile => Priv.deleteFile | .deleteFolder => Priv.deleteFolder
  | .renameFile => Priv.renameFile | .renameFolder => Priv.renameFolder
  | .moveFile => Priv.moveFile | .moveFolder => Priv.moveFolder
  | .commentFile => Priv.setFileComment | .commentFolder => Priv.setFolderComment
  | .createFolder => Priv.createFolder | .makeAlias => Priv.makeAlias
  | .downloadFile => Priv.downloadFile | .downloadFolder => Priv.downloadFolder
  | .uploadFile => Priv.uploadFile | .uploadFolder => Priv.uploadFolder
  | .uploadAnywhere => Priv.uploadAnywhere | .viewDropBox => Priv.viewDropBoxes
  | .createUser => Priv.createUser | .deleteUser => Priv.deleteUser
  | .modifyUser => Priv.modifyUser | .openUser => Priv.openUser
  | .postNews => Priv.newsPostArt | .readNews => Priv.newsReadArt | .deleteArticle => Priv.newsDeleteArt
  | .createCategory => Priv.newsCreateCat | .createBundle => Priv.newsCreateFldr
  | .deleteCategory => Priv.newsDeleteCat | .deleteBundle => Priv.newsDeleteFldr
  | .sendChat => Priv.sendChat | .openChat => Priv.openChat | .sendPrivMsg => Priv.sendPrivMsg
  | .broadcast => Priv.broadcast | .getClientInfo => Priv.getClientInfo | .disconnectUser => Priv.disconUser
  | .useAnyName => Priv.anyName

def Effect.name (e : Effect) : String := (reprStr e).replace "Mobius.Spec.Effect." ""

/-! ### request classes -/

/-- what a (file name, file path) pair addresses -/
inductive FileTarget
  | badPath   -- the path bytes do not decode
  | root      -- empty name and empty path: nothing is named
  | missing
  | file      -- a regular file, or an alias (symlink) whose target is a file: an alias is governed like its target
  | folder    -- a folder, or an alias whose target is a folder
deriving DecidableEq, Repr

/-- what a news path addresses (at any depth) -/
inductive NewsTarget
  | badPath   -- undecodable or empty path
  | category
  | bundle
  | missing   -- names nothing; the protocol treats every non-category item as a bundle ("news folder")
deriving DecidableEq, Repr

/-- kind of the destination folder of an upload / the folder being listed, by the name of its last component -/
inductive Place
  | badPath
  | uploads   -- name contains "upload"
  | dropBox   -- name contains "drop box"
  | plain     -- any other folder, including the root
deriving DecidableEq, Repr

/-! #### which folder a path field addresses, and what kind of folder that is

  A request acts on the folder `ReadPath` resolves the path items to: every item is joined to the rooted path
  so far and the result is cleaned (an item may itself contain `/`, `.`, `..` or be empty).  The kind of folder
  that governs uploads and listings is the kind of THAT folder — not of the last raw item. -/

/-- the components (below the file root) of the folder a list of path items addresses -/
def addressedFolder (items : List Bytes) : List PathAlg.Comp := items.foldl PathAlg.joinRooted []

/-- ASCII lower-casing (the two folder-kind patterns are ASCII; no non-ASCII rune lower-cases into them) -/
def lowerByte (b : UInt8) : UInt8 := if 65 ≤ b.toNat ∧ b.toNat ≤ 90 then b + 32 else b

/-- `strings.Contains` on bytes -/
def hasSub (pat : Bytes) : Bytes → Bool
  | [] => pat.isEmpty
  | b :: bs => pat.isPrefixOf (b :: bs) || hasSub pat bs

def patDropBox : Bytes := "drop box".toUTF8.toList
def patUpload : Bytes := "upload".toUTF8.toList

/-- kind of a folder by its own name: contains "drop box" / "upload" (any case), else plain -/
def placeOfName (name : Bytes) : Place :=
  if hasSub patDropBox (name.map lowerByte) then .dropBox
  else if hasSub patUpload (name.map lowerByte) then .uploads
  else .plain

/-- kind of the folder a path field addresses; the file root itself is a plain folder -/
def placeOfItems (items : List Bytes) : Place :=
  match (addressedFolder items).getLast? with
  | none => .plain
  | some name => placeOfName name

/-- one sub-request of the multi-user editor (transaction 349) -/
inductive UserItem
  | delete (fails : Bool)                      -- one sub-field: delete that login (`fails`: no such account file)
  | modify (fails : Bool)                      -- names an existing account
  | create (access : List UInt8) (fails : Bool)  -- names no existing account; `access` = the access sub-field's bytes
deriving DecidableEq, Repr

/-- ban option of a disconnect request (field 113) -/
inductive BanOpt
  | absent | temporary | permanent | other
deriving DecidableEq, Repr

/-- One constructor per registered transaction type, with the facts its access rule depends on. -/
inductive Req
  | agreed (nameField : Bool)
  | chatSend
  | delNewsArt
  | delNewsItem (t : NewsTarget)
  | deleteFile (t : FileTarget)
  | deleteUser (fails : Bool)
  | disconnectUser (targetProtected : Bool) (opt : BanOpt)
  | downloadBanner
  | downloadFile (t : FileTarget)
  | downloadFldr (t : FileTarget)
  | getClientInfoText (targetExists : Bool)
  | getFileInfo (t : FileTarget)
  | getFileNameList (p : Place)
  | getMsgs
  | getNewsArtData
  | getNewsArtNameList
  | getNewsCatNameList
  | getUser (exists_ : Bool)
  | getUserNameList
  | inviteNewChat
  | inviteToChat
  | joinChat
  | keepAlive
  | leaveChat
  | listUsers
  | makeFileAlias
  | moveFile (t : FileTarget)
  | newFolder (exists_ : Bool)
  | newNewsCat
  | newNewsFldr
  | newUser (exists_ : Bool) (access : List UInt8) (fails : Bool)
  | oldPostNews
  | postNewsArt
  | rejectChatInvite
  | sendInstantMsg (targetExists : Bool)
  | setChatSubject
  | setClientUserInfo
  | setFileInfo (t : FileTarget) (comment rename : Bool)
  | setUser (exists_ : Bool)
  | updateUser (items : List UserItem)
  | uploadFile (p : Place) (exists_ : Bool)
  | uploadFldr (p : Place)
  | userBroadcast
deriving DecidableEq, Repr

/-- transaction-type constant of a request class -/
def Req.tranName : Req → String
  | .agreed _ => "TranAgreed" | .chatSend => "TranChatSend" | .delNewsArt => "TranDelNewsArt"
  | .delNewsItem _ => "TranDelNewsItem" | .deleteFile _ => "TranDeleteFile" | .deleteUser _ => "TranDeleteUser"
  | .disconnectUser _ _ => "TranDisconnectUser" | .downloadBanner => "TranDownloadBanner"
  | .downloadFile _ => "TranDownloadFile" | .downloadFldr _ => "TranDownloadFldr"
  | .getClientInfoText _ => "TranGetClientInfoText" | .getFileInfo _ => "TranGetFileInfo"
  | .getFileNameList _ => "TranGetFileNameList" | .getMsgs => "TranGetMsgs" | .getNewsArtData => "TranGetNewsArtData"
  | .getNewsArtNameList => "TranGetNewsArtNameList" | .getNewsCatNameList => "TranGetNewsCatNameList"
  | .getUser _ => "TranGetUser" | .getUserNameList => "TranGetUserNameList" | .inviteNewChat => "TranInviteNewChat"
  | .inviteToChat => "TranInviteToChat" | .joinChat => "TranJoinChat" | .keepAlive => "TranKeepAlive"
  | .leaveChat => "TranLeaveChat" | .listUsers => "TranListUsers" | .makeFileAlias => "TranMakeFileAlias"
  | .moveFile _ => "TranMoveFile" | .newFolder _ => "TranNewFolder" | .newNewsCat => "TranNewNewsCat"
  | .newNewsFldr => "TranNewNewsFldr" | .newUser _ _ _ => "TranNewUser" | .oldPostNews => "TranOldPostNews"
  | .postNewsArt => "TranPostNewsArt" | .rejectChatInvite => "TranRejectChatInvite"
  | .sendInstantMsg _ => "TranSendInstantMsg" | .setChatSubject => "TranSetChatSubject"
  | .setClientUserInfo => "TranSetClientUserInfo" | .setFileInfo _ _ _ => "TranSetFileInfo" | .setUser _ => "TranSetUser"
  | .updateUser _ => "TranUpdateUser" | .uploadFile _ _ => "TranUploadFile" | .uploadFldr _ => "TranUploadFldr"
  | .userBroadcast => "TranUserBroadcast"

/-- one representative request per class constructor, in the order of the registration table -/
def reqRepresentatives : List Req := [
  .agreed true, .chatSend, .delNewsArt, .delNewsItem .category, .deleteFile .file, .deleteUser false,
  .disconnectUser false .absent, .downloadBanner, .downloadFile .file, .downloadFldr .folder,
  .getClientInfoText true, .getFileInfo .file, .getFileNameList .plain, .getMsgs, .getNewsArtData,
  .getNewsArtNameList, .getNewsCatNameList, .getUser true, .getUserNameList, .inviteNewChat, .inviteToChat,
  .joinChat, .keepAlive, .leaveChat, .listUsers, .makeFileAlias, .moveFile .file, .newFolder false,
  .newNewsCat, .newNewsFldr, .newUser false [] false, .oldPostNews, .postNewsArt, .rejectChatInvite,
  .sendInstantMsg true, .setChatSubject, .setClientUserInfo, .setFileInfo .file true true, .setUser true,
  .updateUser [], .uploadFile .uploads false, .uploadFldr .uploads, .userBroadcast
]

/-! ### the governing-privilege table -/

def UserItem.effect : UserItem → Effect
  | .delete _ => .deleteUser
  | .modify _ => .modifyUser
  | .create _ _ => .createUser

/-- The privileged effects a request asks for, by transaction type and target kind. -/
def requested : Req → List Effect
  | .agreed nameField => if nameField then [.useAnyName] else []
  | .setClientUserInfo => [.useAnyName]
  | .chatSend => [.sendChat]
  | .sendInstantMsg _ => [.sendPrivMsg]
  | .inviteNewChat => [.openChat]
  | .inviteToChat => [.openChat]
  | .userBroadcast => [.broadcast]
  | .getClientInfoText _ => [.getClientInfo]
  | .disconnectUser _ _ => [.disconnectUser]
  -- files
  | .deleteFile .file => [.deleteFile]
  | .deleteFile .folder => [.deleteFolder]
  | .deleteFile _ => []
  | .moveFile .file => [.moveFile]
  | .moveFile .folder => [.moveFolder]
  | .moveFile _ => []
  | .setFileInfo .file comment rename => (if comment then [.commentFile] else []) ++ (if rename then [.renameFile] else [])
  | .setFileInfo .folder comment rename => (if comment then [.commentFolder] else []) ++ (if rename then [.renameFolder] else [])
  | .setFileInfo _ _ _ => []
  | .newFolder _ => [.createFolder]
  | .makeFileAlias => [.makeAlias]
  | .downloadFile _ => [.downloadFile]
  | .downloadFldr _ => [.downloadFolder]
  | .uploadFile .plain _ => [.uploadFile, .uploadAnywhere]
  | .uploadFile _ _ => [.uploadFile]
  | .uploadFldr .plain => [.uploadFolder, .uploadAnywhere]
  | .uploadFldr _ => [.uploadFolder]
  | .getFileNameList .dropBox => [.viewDropBox]
  | .getFileNameList _ => []
  | .getFileInfo _ => []
  | .downloadBanner => []
  -- accounts
  | .newUser _ _ _ => [.createUser]
  | .deleteUser _ => [.deleteUser]
  | .setUser _ => [.modifyUser]
  | .getUser _ => [.openUser]
  | .listUsers => [.openUser]
  | .updateUser items => items.map UserItem.effect
  -- news
  | .oldPostNews => [.postNews]
  | .postNewsArt => [.postNews]
  | .getMsgs => [.readNews]
  | .getNewsCatNameList => [.readNews]
  | .getNewsArtNameList => [.readNews]
  | .getNewsArtData => [.readNews]
  | .delNewsArt => [.deleteArticle]
  | .newNewsCat => [.createCategory]
  | .newNewsFldr => [.createBundle]
  | .delNewsItem .category => [.deleteCategory]
  | .delNewsItem .bundle => [.deleteBundle]
  | .delNewsItem .missing => [.deleteBundle]
  | .delNewsItem .badPath => []
  -- no governing privilege in the protocol
  | .joinChat => [] | .leaveChat => [] | .rejectChatInvite => [] | .setChatSubject => []
  | .keepAlive => [] | .getUserNameList => []

/-- the privileges governing a request -/
def governing (r : Req) : List Nat := (requested r).map Effect.priv

/-! ### expected registration table and guard skeleton (the expected values of the regenerated facts) -/

def expectedRegistered : List (String × String) := [
  ("TranAgreed", "HandleTranAgreed"),
  ("TranChatSend", "HandleChatSend"),
  ("TranDelNewsArt", "HandleDelNewsArt"),
  ("TranDelNewsItem", "HandleDelNewsItem"),
  ("TranDeleteFile", "HandleDeleteFile"),
  ("TranDeleteUser", "HandleDeleteUser"),
  ("TranDisconnectUser", "HandleDisconnectUser"),
  ("TranDownloadBanner", "HandleDownloadBanner"),
  ("TranDownloadFile", "HandleDownloadFile"),
  ("TranDownloadFldr", "HandleDownloadFolder"),
  ("TranGetClientInfoText", "HandleGetClientInfoText"),
  ("TranGetFileInfo", "HandleGetFileInfo"),
  ("TranGetFileNameList", "HandleGetFileNameList"),
  ("TranGetMsgs", "HandleGetMsgs"),
  ("TranGetNewsArtData", "HandleGetNewsArtData"),
  ("TranGetNewsArtNameList", "HandleGetNewsArtNameList"),
  ("TranGetNewsCatNameList", "HandleGetNewsCatNameList"),
  ("TranGetUser", "HandleGetUser"),
  ("TranGetUserNameList", "HandleGetUserNameList"),
  ("TranInviteNewChat", "HandleInviteNewChat"),
  ("TranInviteToChat", "HandleInviteToChat"),
  ("TranJoinChat", "HandleJoinChat"),
  ("TranKeepAlive", "HandleKeepAlive"),
  ("TranLeaveChat", "HandleLeaveChat"),
  ("TranListUsers", "HandleListUsers"),
  ("TranMakeFileAlias", "HandleMakeAlias"),
  ("TranMoveFile", "HandleMoveFile"),
  ("TranNewFolder", "HandleNewFolder"),
  ("TranNewNewsCat", "HandleNewNewsCat"),
  ("TranNewNewsFldr", "HandleNewNewsFldr"),
  ("TranNewUser", "HandleNewUser"),
  ("TranOldPostNews", "HandleTranOldPostNews"),
  ("TranPostNewsArt", "HandlePostNewsArt"),
  ("TranRejectChatInvite", "HandleRejectChatInvite"),
  ("TranSendInstantMsg", "HandleSendInstantMsg"),
  ("TranSetChatSubject", "HandleSetChatSubject"),
  ("TranSetClientUserInfo", "HandleSetClientUserInfo"),
  ("TranSetFileInfo", "HandleSetFileInfo"),
  ("TranSetUser", "HandleSetUser"),
  ("TranUpdateUser", "HandleUpdateUser"),
  ("TranUploadFile", "HandleUploadFile"),
  ("TranUploadFldr", "HandleUploadFolder"),
  ("TranUserBroadcast", "HandleUserBroadcast")
]

/-- Expected guard skeleton: every `Authorize` call site of every registered handler, in source order:
    (handler, receiver, access constant, form, enclosing branch conditions, state-changing calls that
    precede it in the function body).

    `deny-guard` = `if !X.Authorize(c) { return cc.NewErrReply(…) }`; `deny-guard:<cond>` = the same with
    a compound condition; `cond:<cond>` = the result selects a branch without an error reply.

    Non-empty `before` lists are the three places where one request carries several separately governed
    effects (set-file-info: comment then rename; the multi-user editor: one sub-request after another) and
    the re-computation of the admin flag of the *edited* users after `HandleSetUser` saved the account. -/
def expectedAuthSites : List (String × String × String × String × String × List String) := [
  ("HandleChatSend", "cc", "AccessSendChat", "deny-guard", "", []),
  ("HandleChatSend", "c", "AccessReadChat", "cond:c.Authorize(AccessReadChat)", "range cc.Server.ClientMgr.List()", []),
  ("HandleDelNewsArt", "cc", "AccessNewsDeleteArt", "deny-guard", "", []),
  ("HandleDelNewsItem", "cc", "AccessNewsDeleteCat", "deny-guard", "item.Type == [2]byte{0, 3}", []),
  ("HandleDelNewsItem", "cc", "AccessNewsDeleteFldr", "deny-guard", "!(item.Type == [2]byte{0, 3})", []),
  ("HandleDeleteFile", "cc", "AccessDeleteFolder", "deny-guard", "case mode.IsDir()", []),
  ("HandleDeleteFile", "cc", "AccessDeleteFile", "deny-guard", "case mode.IsRegular()", []),
  ("HandleDeleteUser", "cc", "AccessDeleteUser", "deny-guard", "", []),
  ("HandleDisconnectUser", "cc", "AccessDisconUser", "deny-guard", "", []),
  ("HandleDisconnectUser", "clientConn", "AccessCannotBeDiscon", "deny-guard:clientConn.Authorize(AccessCannotBeDiscon)", "", []),
  ("HandleDownloadFile", "cc", "AccessDownloadFile", "deny-guard", "", []),
  ("HandleDownloadFolder", "cc", "AccessDownloadFolder", "deny-guard", "", []),
  ("HandleGetClientInfoText", "cc", "AccessGetClientInfo", "deny-guard", "", []),
  ("HandleGetFileNameList", "cc", "AccessViewDropBoxes", "deny-guard:fp.IsDropbox() && !cc.Authorize(AccessViewDropBoxes)", "", []),
  ("HandleGetMsgs", "cc", "AccessNewsReadArt", "deny-guard", "", []),
  ("HandleGetNewsArtData", "cc", "AccessNewsReadArt", "deny-guard", "", []),
  ("HandleGetNewsArtNameList", "cc", "AccessNewsReadArt", "deny-guard", "", []),
  ("HandleGetNewsCatNameList", "cc", "AccessNewsReadArt", "deny-guard", "", []),
  ("HandleGetUser", "cc", "AccessOpenUser", "deny-guard", "", []),
  ("HandleInviteNewChat", "cc", "AccessOpenChat", "deny-guard", "", []),
  ("HandleInviteToChat", "cc", "AccessOpenChat", "deny-guard", "", []),
  ("HandleListUsers", "cc", "AccessOpenUser", "deny-guard", "", []),
  ("HandleMakeAlias", "cc", "AccessMakeAlias", "deny-guard", "", []),
  ("HandleMoveFile", "cc", "AccessMoveFolder", "deny-guard", "case mode.IsDir()", []),
  ("HandleMoveFile", "cc", "AccessMoveFile", "deny-guard", "case mode.IsRegular()", []),
  ("HandleNewFolder", "cc", "AccessCreateFolder", "deny-guard", "", []),
  ("HandleNewNewsCat", "cc", "AccessNewsCreateCat", "deny-guard", "", []),
  ("HandleNewNewsFldr", "cc", "AccessNewsCreateFldr", "deny-guard", "", []),
  ("HandleNewUser", "cc", "AccessCreateUser", "deny-guard", "", []),
  ("HandleNewUser", "cc", "i", "deny-guard", "for && newAccess.IsSet(i)", []),
  ("HandlePostNewsArt", "cc", "AccessNewsPostArt", "deny-guard", "", []),
  ("HandleSendInstantMsg", "cc", "AccessSendPrivMsg", "deny-guard", "", []),
  ("HandleSetClientUserInfo", "cc", "AccessAnyName", "cond:cc.Authorize(AccessAnyName)", "", []),
  ("HandleSetFileInfo", "cc", "AccessSetFolderComment", "deny-guard", "t.GetField(FieldFileComment).Data != nil && case mode.IsDir()", []),
  ("HandleSetFileInfo", "cc", "AccessSetFileComment", "deny-guard", "t.GetField(FieldFileComment).Data != nil && case mode.IsRegular()", []),
  ("HandleSetFileInfo", "cc", "AccessRenameFolder", "deny-guard", "fileNewName != nil && case mode.IsDir()", ["hlFile.InfoForkWriter"]),
  ("HandleSetFileInfo", "cc", "AccessRenameFile", "deny-guard", "fileNewName != nil && case mode.IsRegular()", ["hlFile.InfoForkWriter", "os.Rename", "os.Rename"]),
  ("HandleSetUser", "cc", "AccessModifyUser", "deny-guard", "", []),
  ("HandleSetUser", "c", "AccessDisconUser", "cond:c.Authorize(AccessDisconUser)", "range cc.Server.ClientMgr.List() && c.Account.Login == login", ["AccountManager.Update"]),
  ("HandleTranAgreed", "cc", "AccessAnyName", "cond:cc.Authorize(AccessAnyName)", "t.GetField(FieldUserName).Data != nil", []),
  ("HandleTranOldPostNews", "cc", "AccessNewsPostArt", "deny-guard", "", []),
  ("HandleUpdateUser", "cc", "AccessDeleteUser", "deny-guard", "range t.Fields && len(subFields) == 1", []),
  ("HandleUpdateUser", "cc", "AccessModifyUser", "deny-guard", "range t.Fields && acc != nil", ["AccountManager.Delete", "Disconnect"]),
  ("HandleUpdateUser", "cc", "AccessCreateUser", "deny-guard", "range t.Fields && !(acc != nil)", ["AccountManager.Delete", "Disconnect", "AccountManager.Update"]),
  ("HandleUpdateUser", "cc", "i", "deny-guard", "range t.Fields && !(acc != nil) && for && newAccess.IsSet(i)", ["AccountManager.Delete", "Disconnect", "AccountManager.Update"]),
  ("HandleUploadFile", "cc", "AccessUploadFile", "deny-guard", "", []),
  ("HandleUploadFile", "cc", "AccessUploadAnywhere", "cond:!cc.Authorize(AccessUploadAnywhere)", "", []),
  ("HandleUploadFolder", "cc", "AccessUploadFolder", "deny-guard", "", []),
  ("HandleUploadFolder", "cc", "AccessUploadAnywhere", "cond:!cc.Authorize(AccessUploadAnywhere)", "", []),
  ("HandleUserBroadcast", "cc", "AccessBroadcast", "deny-guard", "", [])
]

/-- For every guard of the skeleton that protects an effect: (handler, access constant, effect it governs).
    Ties the constant *names* used at the guard sites, through the constant table, to the governing table. -/
def siteEffects : List (String × String × Effect) := [
  ("HandleChatSend", "AccessSendChat", .sendChat),
  ("HandleDelNewsArt", "AccessNewsDeleteArt", .deleteArticle),
  ("HandleDelNewsItem", "AccessNewsDeleteCat", .deleteCategory),
  ("HandleDelNewsItem", "AccessNewsDeleteFldr", .deleteBundle),
  ("HandleDeleteFile", "AccessDeleteFolder", .deleteFolder),
  ("HandleDeleteFile", "AccessDeleteFile", .deleteFile),
  ("HandleDeleteUser", "AccessDeleteUser", .deleteUser),
  ("HandleDisconnectUser", "AccessDisconUser", .disconnectUser),
  ("HandleDownloadFile", "AccessDownloadFile", .downloadFile),
  ("HandleDownloadFolder", "AccessDownloadFolder", .downloadFolder),
  ("HandleGetClientInfoText", "AccessGetClientInfo", .getClientInfo),
  ("HandleGetFileNameList", "AccessViewDropBoxes", .viewDropBox),
  ("HandleGetMsgs", "AccessNewsReadArt", .readNews),
  ("HandleGetNewsArtData", "AccessNewsReadArt", .readNews),
  ("HandleGetNewsArtNameList", "AccessNewsReadArt", .readNews),
  ("HandleGetNewsCatNameList", "AccessNewsReadArt", .readNews),
  ("HandleGetUser", "AccessOpenUser", .openUser),
  ("HandleInviteNewChat", "AccessOpenChat", .openChat),
  ("HandleInviteToChat", "AccessOpenChat", .openChat),
  ("HandleListUsers", "AccessOpenUser", .openUser),
  ("HandleMakeAlias", "AccessMakeAlias", .makeAlias),
  ("HandleMoveFile", "AccessMoveFolder", .moveFolder),
  ("HandleMoveFile", "AccessMoveFile", .moveFile),
  ("HandleNewFolder", "AccessCreateFolder", .createFolder),
  ("HandleNewNewsCat", "AccessNewsCreateCat", .createCategory),
  ("HandleNewNewsFldr", "AccessNewsCreateFldr", .createBundle),
  ("HandleNewUser", "AccessCreateUser", .createUser),
  ("HandlePostNewsArt", "AccessNewsPostArt", .postNews),
  ("HandleSendInstantMsg", "AccessSendPrivMsg", .sendPrivMsg),
  ("HandleSetClientUserInfo", "AccessAnyName", .useAnyName),
  ("HandleSetFileInfo", "AccessSetFolderComment", .commentFolder),
  ("HandleSetFileInfo", "AccessSetFileComment", .commentFile),
  ("HandleSetFileInfo", "AccessRenameFolder", .renameFolder),
  ("HandleSetFileInfo", "AccessRenameFile", .renameFile),
  ("HandleSetUser", "AccessModifyUser", .modifyUser),
  ("HandleTranAgreed", "AccessAnyName", .useAnyName),
  ("HandleTranOldPostNews", "AccessNewsPostArt", .postNews),
  ("HandleUpdateUser", "AccessDeleteUser", .deleteUser),
  ("HandleUpdateUser", "AccessModifyUser", .modifyUser),
  ("HandleUpdateUser", "AccessCreateUser", .createUser),
  ("HandleUploadFile", "AccessUploadFile", .uploadFile),
  ("HandleUploadFile", "AccessUploadAnywhere", .uploadAnywhere),
  ("HandleUploadFolder", "AccessUploadFolder", .uploadFolder),
  ("HandleUploadFolder", "AccessUploadAnywhere", .uploadAnywhere),
  ("HandleUserBroadcast", "AccessBroadcast", .broadcast)
]

/-- guard sites that are not governing-privilege checks of the requester: the chat audience filter,
    the admin-flag refresh, the protected-target check and the two amplification loops -/
def otherSites : List (String × String) := [
  ("HandleChatSend", "AccessReadChat"), ("HandleSetUser", "AccessDisconUser"),
  ("HandleDisconnectUser", "AccessCannotBeDiscon"), ("HandleNewUser", "i"), ("HandleUpdateUser", "i")
]

end Mobius.Spec
