/-!
  Expected concurrency skeleton of the server (hand-maintained; compared with the facts regenerated
  from /repo's source by `decide` in Props/C03).
-/
namespace Mobius.Spec

/-- Every `go` statement in the two packages, and what its goroutine runs first.
    Client-driven goroutines: `Serve` #0 and `ServeFileTransfers` #0 run the two connection entry
    points (which defer `dontPanic` as their first statement); `processOutbox` #0 writes one
    transaction; the three handler goroutines call `Disconnect` after a delay.  The latter four do
    not recover: their panic-freedom on any client input is an inspected fact (trusted base) and is
    exercised by the hostile-stream runs. -/
def goStmts : List (String × Nat × Bool × String × Nat) := [
  ("hotline.Client.Connect", 0, false, "_ = c.keepalive()", 1),
  ("hotline.Server.ListenAndServe", 0, false, "s.registerWithTrackers", 0),
  ("hotline.Server.ListenAndServe", 1, false, "s.keepaliveHandler", 0),
  ("hotline.Server.ListenAndServe", 2, false, "s.processOutbox", 0),
  ("hotline.Server.ListenAndServe", 3, false, "ln, err := net.Listen(\"tcp\", fmt.Sprintf(\"%s:%v\", s.NetInterface, s.Port))", 3),
  ("hotline.Server.ListenAndServe", 4, false, "ln, err := net.Listen(\"tcp\", fmt.Sprintf(\"%s:%v\", s.NetInterface, s.Port+1))", 3),
  ("hotline.Server.ServeFileTransfers", 0, false, "entry:handleFileTransfer", 0),
  ("hotline.Server.processOutbox", 0, false, "if err := s.sendTransaction(t); err != nil {", 1),
  ("hotline.Server.Serve", 0, false, "entry:handleNewConnection", 8),
  ("mobius.APIServer.ShutdownHandler", 0, false, "srv.hlServer.Shutdown", 0),
  ("mobius.HandleUpdateUser", 0, false, "time.Sleep(3 * time.Second)", 2),
  ("mobius.HandleDeleteUser", 0, false, "time.Sleep(2 * time.Second)", 2),
  ("mobius.HandleDisconnectUser", 0, false, "time.Sleep(1 * time.Second)", 2)
]

/-- Each acquisition in an entry point is immediately followed by the `defer` that releases it. -/
def acquireRelease : List (String × String × String) := [
  ("handleNewConnection", "s.ClientMgr.Add(c)", "defer c.Disconnect()"),
  ("handleNewConnection", "c.Server.Stats.Increment(StatConnectionCounter, StatCurrentlyConnected)", "defer c.Server.Stats.Decrement(StatCurrentlyConnected)"),
  ("handleFileTransfer", "fileTransfer := s.FileTransferMgr.Get(t.ReferenceNumber)", "defer func() { s.FileTransferMgr.Delete(t.ReferenceNumber) time.Sleep(3 * time.Second) }()"),
  ("handleFileTransfer", "s.Stats.Increment(StatDownloadCounter, StatDownloadsInProgress)", "defer func() { s.Stats.Decrement(StatDownloadsInProgress) }()"),
  ("handleFileTransfer", "s.Stats.Increment(StatUploadCounter, StatUploadsInProgress)", "defer func() { s.Stats.Decrement(StatUploadsInProgress) }()"),
  ("handleFileTransfer", "s.Stats.Increment(StatDownloadCounter, StatDownloadsInProgress)", "defer func() { s.Stats.Decrement(StatDownloadsInProgress) }()"),
  ("handleFileTransfer", "s.Stats.Increment(StatUploadCounter, StatUploadsInProgress)", "defer func() { s.Stats.Decrement(StatUploadsInProgress) }()")
]

def entryDefers : List (String × String) := [
  ("handleNewConnection", "dontPanic"),
  ("handleNewConnection", "Disconnect"),
  ("handleNewConnection", "Stats.Decrement(StatCurrentlyConnected)"),
  ("handleFileTransfer", "dontPanic"),
  ("handleFileTransfer", "FileTransferMgr.Delete"),
  ("handleFileTransfer", "Decrement(StatDownloadsInProgress)"),
  ("handleFileTransfer", "Decrement(StatUploadsInProgress)"),
  ("handleFileTransfer", "Decrement(StatDownloadsInProgress)"),
  ("handleFileTransfer", "Decrement(StatUploadsInProgress)")
]

/-- Shared maps that may be touched without a lock, with the reason:
    `Server.handlers` is written only during start-up registration, before any connection is served;
    `Client.*` belongs to the partial client (not part of the server);
    `NewsCategoryListData15.*` methods run on values copied under the news store's lock and only
    take `len` of the maps. -/
def unlockedAllowed : List String := [
  "hotline.Server.handlers", "hotline.Client.Handlers", "hotline.Client.activeTasks",
  "hotline.NewsCategoryListData15.Articles", "hotline.NewsCategoryListData15.SubCats"
]

end Mobius.Spec
