import MobiusModel.Transfers
/-!
  Tree: directory trees, `filepath.Walk` order, folder download and folder upload (C10).

  * `Node` — a directory tree; children are kept in *any* order (as created); `Node.walk` visits in
    `filepath.Walk` order: a directory before its children, the children in byte-lexical order of
    their names (`os.ReadDir` sorts by name).  The definition sorts the children's *results* so that
    it is structurally recursive; `walk_dir` shows it is the usual recursive definition.
  * The dot rule is exactly the code's: an entry is skipped iff its OWN name starts with '.'; the
    walk still descends into dot-directories, so visible entries below them are counted and sent.
  * `downloadFolder` mirrors `DownloadFolderHandler`'s dialogue: per visible non-root entry one item
    header, then — depending on the client's action — nothing, or size prefix + flattened file.
  * `Fs`, `upItem`, `uploadFolder` mirror `UploadFolderHandler` over a path-indexed store.
-/
namespace Mobius

-- ---------------------------------------------------------------- trees and the walk

inductive Node where
  | file (f : StoredFile)
  | dir (name : Bytes) (kids : List Node)

def Node.name : Node → Bytes
  | .file f => f.name
  | .dir n _ => n

/-- One callback of `filepath.Walk`: the path relative to the requested folder (components), the
    entry's own name, and the file (none = directory). -/
structure Entry where
  path : List Bytes
  name : Bytes
  file : Option StoredFile

def Entry.isDir (e : Entry) : Bool := e.file.isNone

/-- Byte-lexical order of names (Go's string `<=`). -/
def bytesLe : Bytes → Bytes → Bool
  | [], _ => true
  | _ :: _, [] => false
  | a :: as, b :: bs => if a < b then true else if b < a then false else bytesLe as bs

def segLe (a b : Bytes × List Entry) : Bool := bytesLe a.1 b.1
def nodeLe (a b : Node) : Bool := bytesLe a.name b.name

mutual
/-- `filepath.Walk` from a node whose relative path is `p`. -/
def Node.walk : Node → List Bytes → List Entry
  | .file f, p => [⟨p, f.name, some f⟩]
  | .dir n kids, p => ⟨p, n, none⟩ :: ((Node.walkKids kids p).mergeSort segLe).flatMap (·.2)
def Node.walkKids : List Node → List Bytes → List (Bytes × List Entry)
  | [], _ => []
  | k :: ks, p => (k.name, k.walk (p ++ [k.name])) :: Node.walkKids ks p
end

theorem walkKids_eq_map (kids : List Node) (p : List Bytes) :
    Node.walkKids kids p = kids.map fun k => (k.name, k.walk (p ++ [k.name])) := by
  induction kids with
  | nil => simp [Node.walkKids]
  | cons k ks ih => simp [Node.walkKids, ih]

/-- The walk of a directory: the directory itself, then the walks of its children in byte-lexical
    order of their names, each child's path being the directory's path extended by the child's name. -/
theorem walk_dir (n : Bytes) (kids : List Node) (p : List Bytes) :
    (Node.dir n kids).walk p =
      ⟨p, n, none⟩ :: ((kids.mergeSort nodeLe).flatMap fun k => k.walk (p ++ [k.name])) := by
  rw [Node.walk, walkKids_eq_map]
  congr 1
  rw [← List.map_mergeSort (r := nodeLe) (s := segLe) (f := fun k => (k.name, k.walk (p ++ [k.name])))]
  · simp [List.flatMap_map]
  · intro a _ b _; rfl

theorem walk_file (f : StoredFile) (p : List Bytes) : (Node.file f).walk p = [⟨p, f.name, some f⟩] := by
  rw [Node.walk]

/-- The walk starts with the node itself. -/
theorem walk_head (t : Node) (p : List Bytes) :
    ∃ e rest, t.walk p = e :: rest ∧ e.path = p ∧ e.name = t.name := by
  cases t with
  | file f => exact ⟨_, [], walk_file f p, rfl, rfl⟩
  | dir n kids => exact ⟨_, _, walk_dir n kids p, rfl, rfl⟩

mutual
/-- Plain preorder traversal in stored order: visits every node exactly once by construction. -/
def Node.preorder : Node → List Bytes → List Entry
  | .file f, p => [⟨p, f.name, some f⟩]
  | .dir n kids, p => ⟨p, n, none⟩ :: Node.preorderKids kids p
def Node.preorderKids : List Node → List Bytes → List Entry
  | [], _ => []
  | k :: ks, p => k.preorder (p ++ [k.name]) ++ Node.preorderKids ks p
end

theorem flatMap_snd_walkKids_cons (k : Node) (ks : List Node) (p : List Bytes) :
    (Node.walkKids (k :: ks) p).flatMap (·.2) = k.walk (p ++ [k.name]) ++ (Node.walkKids ks p).flatMap (·.2) := by
  simp [Node.walkKids]

mutual
/-- **Every node is visited exactly once**: the walk is a permutation of the plain preorder traversal. -/
theorem walk_perm_preorder : ∀ (t : Node) (p : List Bytes), (t.walk p).Perm (t.preorder p)
  | .file f, p => by rw [Node.walk, Node.preorder]
  | .dir n kids, p => by
    rw [Node.walk, Node.preorder]
    apply List.Perm.cons
    exact ((List.mergeSort_perm _ _).flatMap_right _).trans (walkKids_perm_preorder kids p)
theorem walkKids_perm_preorder : ∀ (ks : List Node) (p : List Bytes),
    ((Node.walkKids ks p).flatMap (·.2)).Perm (Node.preorderKids ks p)
  | [], p => by simp [Node.walkKids, Node.preorderKids]
  | k :: ks, p => by
    rw [flatMap_snd_walkKids_cons, Node.preorderKids]
    exact (walk_perm_preorder k _).append (walkKids_perm_preorder ks p)
end

-- ---------------------------------------------------------------- the dot rule, items, item count

/-- `strings.HasPrefix(name, ".")`. -/
def dotName (n : Bytes) : Bool := n.head? == some 46

def Entry.visible (e : Entry) : Bool := !dotName e.name

/-- The entries `DownloadFolderHandler` sends a header for: every callback except the first (the
    requested folder itself) whose own name does not start with a dot. -/
def Node.items (t : Node) : List Entry := ((t.walk []).drop 1).filter Entry.visible

/-- `CalcItemCount`: its own walk, counting entries whose own name does not start with a dot, minus
    one, in uint16 arithmetic (reply field 220). -/
def Node.itemCount (t : Node) : Nat := (((t.walk []).filter Entry.visible).length + 65535) % 65536

/-- `CalcTotalSize`: the sizes of all non-directory entries (dot files included). -/
def Node.totalSize (t : Node) : Nat :=
  (((t.walk []).map fun e => match e.file with | some f => f.data.length | none => 0).sum) % 4294967296

/-- `path[basePathLen+1:]`: the components joined by '/'. -/
def joinSlash : List Bytes → Bytes
  | [] => []
  | [c] => c
  | c :: c2 :: cs => c ++ 47 :: joinSlash (c2 :: cs)

/-- The item header of an entry (`NewFileHeader(subPath, isDir)`). -/
def Entry.header (e : Entry) : Bytes := fileHeader (joinSlash e.path) e.isDir

-- ---------------------------------------------------------------- folder download dialogue

/-- The client's answer to an item header (anything other than 2 or 3 acts like 1). -/
inductive Action where
  | send
  | resume (k : Nat)   -- 2, followed by resume data whose first fork entry carries offset `k`
  | next               -- 3
deriving Repr, DecidableEq

/-- What the server writes for a file after the client's action: the 4-byte `TransferSize(offset)`,
    the flattened-file header (always announcing the full data size), the data fork from the offset
    (`Seek`), and — unless resuming — for fork count 3 the MACR fork header and the stored resource fork. -/
def fileBody (f : StoredFile) : Action → Bytes
  | .next => []
  | .send => be32 (f.transferSize 0 0) ++ (f.header 0 ++ (f.data ++
      (if f.forkCount = 3 then forkHeader macr f.rsrcSize ++ f.rsrc.getD [] else [])))
  | .resume k => be32 (f.transferSize 0 k) ++ (f.header 0 ++ f.data.drop k)

structure ItemOut where
  header : Bytes
  body : Bytes
deriving Repr, DecidableEq

def itemOut (e : Entry) (a : Action) : ItemOut :=
  { header := e.header, body := match e.file with | some f => fileBody f a | none => [] }

/-- The dialogue over the items: each header is answered by one action; if the client stops
    answering, the header of the next item is the last thing sent. -/
def downloadItems : List Entry → List Action → List ItemOut
  | [], _ => []
  | e :: _, [] => [{ header := e.header, body := [] }]
  | e :: es, a :: as => itemOut e a :: downloadItems es as

def downloadFolder (t : Node) (acts : List Action) : List ItemOut := downloadItems t.items acts

theorem downloadItems_headers (es : List Entry) (acts : List Action) (h : es.length ≤ acts.length) :
    (downloadItems es acts).map (·.header) = es.map Entry.header := by
  induction es generalizing acts with
  | nil => simp [downloadItems]
  | cons e es ih =>
    cases acts with
    | nil => simp at h
    | cons a as =>
      simp only [downloadItems, List.map_cons, itemOut]
      rw [ih as (by simpa using h)]

theorem downloadItems_bodies (es : List Entry) (acts : List Action) (h : es.length ≤ acts.length) :
    (downloadItems es acts) = (es.zip acts).map fun p => itemOut p.1 p.2 := by
  induction es generalizing acts with
  | nil => simp [downloadItems]
  | cons e es ih =>
    cases acts with
    | nil => simp at h
    | cons a as =>
      simp only [downloadItems, List.zip_cons_cons, List.map_cons]
      rw [ih as (by simpa using h)]

-- ---------------------------------------------------------------- splitSlash ∘ joinSlash

theorem splitSlash_noslash (c : Bytes) (h : (47 : UInt8) ∉ c) : splitSlash c = [c] := by
  induction c with
  | nil => rfl
  | cons b bs ih =>
    have hb : b ≠ 47 := fun e => h (by simp [e])
    have hbs : (47 : UInt8) ∉ bs := fun e => h (by simp [e])
    simp [splitSlash, hb, ih hbs]

theorem splitSlash_append_slash (c rest : Bytes) (h : (47 : UInt8) ∉ c) :
    splitSlash (c ++ 47 :: rest) = c :: splitSlash rest := by
  induction c with
  | nil => simp [splitSlash]
  | cons b bs ih =>
    have hb : b ≠ 47 := fun e => h (by simp [e])
    have hbs : (47 : UInt8) ∉ bs := fun e => h (by simp [e])
    simp [splitSlash, hb, ih hbs]

/-- The encoded path of an item header lists exactly the entry's components. -/
theorem splitSlash_joinSlash (cs : List Bytes) (hne : cs ≠ []) (h : ∀ c ∈ cs, (47 : UInt8) ∉ c) :
    splitSlash (joinSlash cs) = cs := by
  induction cs with
  | nil => exact absurd rfl hne
  | cons c cs ih =>
    cases cs with
    | nil => simpa [joinSlash] using splitSlash_noslash c (h c (by simp))
    | cons c2 cs2 =>
      rw [joinSlash, splitSlash_append_slash c _ (h c (by simp)), ih (List.cons_ne_nil _ _) (fun x hx => h x (by simp [hx]))]

-- ---------------------------------------------------------------- folder upload

/-- What a name holds under the upload folder. -/
inductive Final where
  | dir
  | file (d : Bytes)
deriving Repr, DecidableEq

/-- `<path>` and `<path>.incomplete`. -/
structure Slot where
  final : Option Final := none
  inc : Option Bytes := none
deriving Repr, DecidableEq

/-- The store below the upload folder, indexed by cleaned relative path (most recent binding first). -/
abbrev Fs := List (List Bytes × Slot)

def Fs.get : Fs → List Bytes → Slot
  | [], _ => {}
  | (q, s) :: r, p => if q = p then s else Fs.get r p

def Fs.set (fs : Fs) (p : List Bytes) (s : Slot) : Fs := (p, s) :: fs

@[simp] theorem Fs.get_set_same (fs : Fs) (p : List Bytes) (s : Slot) : (fs.set p s).get p = s := by
  simp [Fs.set, Fs.get]

theorem Fs.get_set_other (fs : Fs) (p q : List Bytes) (s : Slot) (h : p ≠ q) : (fs.set p s).get q = fs.get q := by
  simp [Fs.set, Fs.get, h]

/-- `os.Mkdir` / `os.OpenFile(O_CREATE)` succeed only below an existing directory (the upload folder
    itself exists: it is created first). -/
def Fs.parentOK (fs : Fs) (p : List Bytes) : Bool :=
  p.dropLast == [] || (fs.get p.dropLast).final == some .dir

/-- One item of the client's stream. -/
structure UpItem where
  path : List Bytes            -- cleaned components (`FormattedPath`), non-empty
  isDir : Bool
  fc : Nat := 2                -- fork count the client announces for a file
  info : InfoFork := defaultInfo [] (List.replicate 8 0) [0, 0, 0, 0] [0, 0, 0, 0]
  data : Bytes := []
  rsrc : Bytes := []

/-- The server's answer to an item header. -/
inductive Answer where
  | next                 -- [0,3]
  | send                 -- [0,1]
  | resume (off : Nat)   -- [0,2], 2-byte length, resume data carrying the size of the partial file
deriving Repr, DecidableEq

def Answer.bytes : Answer → Bytes
  | .next => [0, 3]
  | .send => [0, 1]
  | .resume off => [0, 2] ++ be16 (uploadResumeData (off % 4294967296)).length ++ uploadResumeData (off % 4294967296)

/-- The answer to a *file* item: skip when the name exists, resume when a partial file exists (this
    test comes second and wins), otherwise send. -/
def Fs.answer (fs : Fs) (p : List Bytes) : Answer :=
  match (fs.get p).inc with
  | some part => .resume part.length
  | none => if (fs.get p).final.isSome then .next else .send

structure ItemRes where
  fs : Fs
  wrote : Bytes    -- what the server writes while handling the item
  ok : Bool        -- false: the handler returned an error (the loop ends)

/-- What arrives of the flattened file the client sends after a "send"/"resume" answer.
    `cut = some n`: the connection dies after `n` bytes of (4-byte size, flattened file); `none` when not
    even the size arrived.  `cut = none`: everything arrives. -/
def clientDelivery (it : UpItem) (off : Nat) (cut : Option Nat) : Option Bytes :=
  let s := uploadStream it.fc it.info (it.data.drop off) it.rsrc
  match cut with
  | none => some s
  | some n => if n < 4 then none else some (s.take (n - 4))

/-- The file branch after the answer `ans` (send or resume) was written. -/
def upFile (fs : Fs) (p : List Bytes) (ans : Answer) (del : Option Bytes) : ItemRes :=
  match del with
  | none => { fs := fs, wrote := ans.bytes, ok := false }           -- reading the 4-byte size fails
  | some recv =>
    if fs.parentOK p = false ∧ ans = .send then { fs := fs, wrote := ans.bytes, ok := false }  -- opening `.incomplete` fails
    else
      let r := receiveFile recv
      let inc1 := ((fs.get p).inc.getD []) ++ r.appended
      if r.complete then
        { fs := fs.set p { final := some (.file inc1), inc := none }, wrote := ans.bytes ++ [0, 3], ok := true }
      else
        { fs := fs.set p { (fs.get p) with inc := some inc1 }, wrote := ans.bytes, ok := false }

/-- One iteration of `UploadFolderHandler`'s loop. -/
def upItem (fs : Fs) (it : UpItem) (cut : Option Nat) : ItemRes :=
  if it.isDir then
    if (fs.get it.path).final.isSome then { fs := fs, wrote := [0, 3], ok := true }
    else if fs.parentOK it.path then
      { fs := fs.set it.path { (fs.get it.path) with final := some .dir }, wrote := [0, 3], ok := true }
    else { fs := fs, wrote := [], ok := false }
  else
    match fs.answer it.path with
    | .next => { fs := fs, wrote := [0, 3], ok := true }
    | .send => upFile fs it.path .send (clientDelivery it 0 cut)
    | .resume off => upFile fs it.path (.resume off) (clientDelivery it off cut)

/-- The loop: stops at the first error. -/
def uploadItems (fs : Fs) : List (UpItem × Option Nat) → Fs × List Bytes × Bool
  | [] => (fs, [], true)
  | (it, cut) :: rest =>
    let r := upItem fs it cut
    if r.ok then
      let (fs', ws, ok) := uploadItems r.fs rest
      (fs', r.wrote :: ws, ok)
    else (r.fs, [r.wrote], false)

/-- An entry of a walk as the item a client streams for it. -/
def Entry.toItem (e : Entry) : UpItem :=
  match e.file with
  | none => { path := e.path, isDir := true }
  | some f => { path := e.path, isDir := false, fc := f.forkCount, info := f.effInfo, data := f.data, rsrc := f.rsrc.getD [] }

/-- What the client's file items must satisfy (sizes fit the size fields, decodable information fork). -/
def UpItem.OK (it : UpItem) : Prop :=
  it.isDir = true ∨ (it.info.WFup ∧ it.fc < 65536 ∧ it.data.length < 4294967296 ∧ it.rsrc.length < 4294967296)

/-- The slot an item leaves behind when it is delivered completely. -/
def UpItem.slot (it : UpItem) : Slot :=
  if it.isDir then { final := some .dir } else { final := some (.file it.data) }

theorem receiveFile_whole (fc : Nat) (i : InfoFork) (d r : Bytes)
    (hi : i.WFup) (hfc : fc < 65536) (hd : d.length < 4294967296) (hr : r.length < 4294967296) :
    (receiveFile (uploadStream fc i d r)).appended = d ∧ (receiveFile (uploadStream fc i d r)).complete = true := by
  have h := receiveFile_prefix fc i d r (uploadStream fc i d r).length hi hfc hd hr
  simp only [List.take_length, Nat.le_refl, decide_true] at h
  have hl := uploadStream_length fc i d r hi.1
  refine ⟨?_, h.2⟩
  rw [h.1]; apply List.take_of_length_le
  split at hl <;> omega

theorem upFile_frame (fs : Fs) (p : List Bytes) (ans : Answer) (del : Option Bytes) (q : List Bytes) (hq : p ≠ q) :
    (upFile fs p ans del).fs.get q = fs.get q := by
  unfold upFile
  split
  · rfl
  · split
    · rfl
    · dsimp only
      split
      · exact Fs.get_set_other _ _ _ _ hq
      · exact Fs.get_set_other _ _ _ _ hq

/-- A file item whose name is free, delivered completely: answered "send", published with exactly the
    client's bytes; nothing else changes. -/
theorem upItem_fresh_file (fs : Fs) (it : UpItem) (hf : it.isDir = false) (hok : it.OK)
    (hfree : fs.get it.path = {}) (hpar : fs.parentOK it.path = true) :
    (upItem fs it none).ok = true ∧ (upItem fs it none).wrote = [0, 1] ++ [0, 3] ∧
    (upItem fs it none).fs = fs.set it.path { final := some (.file it.data) } := by
  rcases hok with hd | ⟨hi, hfc, hd, hr⟩
  · rw [hf] at hd; cases hd
  have hans : fs.answer it.path = .send := by simp [Fs.answer, hfree]
  obtain ⟨ha, hc⟩ := receiveFile_whole it.fc it.info it.data it.rsrc hi hfc hd hr
  have hup : upItem fs it none = upFile fs it.path .send (some (uploadStream it.fc it.info it.data it.rsrc)) := by
    unfold upItem; rw [hans]; simp [hf, clientDelivery]
  rw [hup]; unfold upFile
  simp [hpar, ha, hc, hfree, Answer.bytes]

/-- A file item whose partial file holds the first `k` bytes, delivered completely from that offset:
    answered "resume k", published with exactly the client's bytes, the partial file is gone. -/
theorem upItem_resume_file (fs : Fs) (it : UpItem) (k : Nat) (hf : it.isDir = false) (hok : it.OK)
    (hk : k ≤ it.data.length) (hinc : (fs.get it.path).inc = some (it.data.take k)) :
    fs.answer it.path = .resume k ∧ (upItem fs it none).ok = true ∧
    (upItem fs it none).wrote = (Answer.resume k).bytes ++ [0, 3] ∧
    (upItem fs it none).fs = fs.set it.path { final := some (.file it.data) } := by
  rcases hok with hd | ⟨hi, hfc, hd, hr⟩
  · rw [hf] at hd; cases hd
  have hlen : (it.data.take k).length = k := by rw [List.length_take]; omega
  have hans : fs.answer it.path = .resume k := by simp [Fs.answer, hinc, hlen]
  have hdk : (it.data.drop k).length < 4294967296 := by rw [List.length_drop]; omega
  obtain ⟨ha, hc⟩ := receiveFile_whole it.fc it.info (it.data.drop k) it.rsrc hi hfc hdk hr
  refine ⟨hans, ?_⟩
  have hup : upItem fs it none = upFile fs it.path (.resume k) (some (uploadStream it.fc it.info (it.data.drop k) it.rsrc)) := by
    unfold upItem; rw [hans]; simp [hf, clientDelivery]
  rw [hup]; unfold upFile
  simp [ha, hc, hinc]

/-- A file item whose name already exists (and has no partial file): answered "next", nothing changes. -/
theorem upItem_existing_file (fs : Fs) (it : UpItem) (cut : Option Nat) (hf : it.isDir = false)
    (x : Final) (hx : (fs.get it.path).final = some x) (hinc : (fs.get it.path).inc = none) :
    (upItem fs it cut).ok = true ∧ (upItem fs it cut).wrote = [0, 3] ∧ (upItem fs it cut).fs = fs := by
  have hans : fs.answer it.path = .next := by simp [Fs.answer, hinc, hx]
  unfold upItem
  rw [hans]; simp [hf]

/-- A folder item: created if absent (below an existing folder), answered "next". -/
theorem upItem_folder (fs : Fs) (it : UpItem) (cut : Option Nat) (hd : it.isDir = true)
    (hfree : fs.get it.path = {}) (hpar : fs.parentOK it.path = true) :
    (upItem fs it cut).ok = true ∧ (upItem fs it cut).wrote = [0, 3] ∧
    (upItem fs it cut).fs = fs.set it.path { final := some .dir } := by
  unfold upItem
  simp [hd, hfree, hpar]

/-- A folder item whose name exists already: answered "next", nothing changes. -/
theorem upItem_existing_folder (fs : Fs) (it : UpItem) (cut : Option Nat) (hd : it.isDir = true)
    (x : Final) (hx : (fs.get it.path).final = some x) :
    (upItem fs it cut).ok = true ∧ (upItem fs it cut).wrote = [0, 3] ∧ (upItem fs it cut).fs = fs := by
  unfold upItem
  simp [hd, hx]

/-- Frame: an item touches only its own path. -/
theorem upItem_frame (fs : Fs) (it : UpItem) (cut : Option Nat) (q : List Bytes) (hq : it.path ≠ q) :
    (upItem fs it cut).fs.get q = fs.get q := by
  unfold upItem
  split
  · split
    · rfl
    · split
      · exact Fs.get_set_other _ _ _ _ hq
      · rfl
  · split
    · rfl
    · exact upFile_frame _ _ _ _ _ hq
    · exact upFile_frame _ _ _ _ _ hq

/-- A cut inside a fresh file item leaves exactly the received prefix in the partial file and no final name. -/
theorem upItem_cut_file (fs : Fs) (it : UpItem) (n : Nat) (hf : it.isDir = false) (hok : it.OK)
    (hfree : fs.get it.path = {}) (hpar : fs.parentOK it.path = true) (h4 : 4 ≤ n)
    (hcut : n < 4 + (uploadStream it.fc it.info it.data it.rsrc).length) :
    (upItem fs it (some n)).ok = false ∧
    (upItem fs it (some n)).fs.get it.path = { final := none, inc := some (it.data.take (n - 4 - (56 + it.info.size))) } := by
  rcases hok with hd | ⟨hi, hfc, hd, hr⟩
  · rw [hf] at hd; cases hd
  have hans : fs.answer it.path = .send := by simp [Fs.answer, hfree]
  obtain ⟨ha, hc⟩ := receiveFile_prefix it.fc it.info it.data it.rsrc (n - 4) hi hfc hd hr
  have hnc : ¬ ((uploadStream it.fc it.info it.data it.rsrc).length ≤ n - 4) := by omega
  simp only [hnc, decide_false] at hc
  have hup : upItem fs it (some n) = upFile fs it.path .send (some ((uploadStream it.fc it.info it.data it.rsrc).take (n - 4))) := by
    unfold upItem; rw [hans]
    have : ¬ (n < 4) := by omega
    simp [hf, clientDelivery, this]
  rw [hup]; unfold upFile
  simp [hpar, ha, hc, hfree]

end Mobius
