import MobiusModel.Transfers
/-!
  Tree: directory trees, `filepath.Walk` order, folder download and folder upload (C10).

  * `Node` — a directory tree; children are kept in *any* order (as created); `Node.walk` visits in
    `filepath.Walk` order: a directory before its children, the children in byte-lexical order of
    their names (`os.ReadDir` sorts by name).  The definition sorts the children's *results* so that
    it is structurally recursive; `walk_dir` shows it is the usual recursive definition.
  * The dot rule is exactly the code's: an entry is skipped iff its OWN name starts with '.'; the
    walk still descends into dot-directories, so visible entries below them are counted and sent.
  * `downloadFolder` mirrors `DownloadFolderHandler`'s dialogue: per visible non-root entry one item
    header, then — depending on the client's action — nothing, or size prefix + flattened file.
  * `Fs`, `upItem`, `uploadFolder` mirror `UploadFolderHandler` over a path-indexed store.
-/
namespace Mobius

-- ---------------------------------------------------------------- trees and the walk

inductive Node where
  | file (f : StoredFile)
  | dir (name : Bytes) (kids : List Node)

def Node.name : Node → Bytes
  | .file f => f.name
  | .dir n _ => n

/-- One callback of `filepath.Walk`: the path relative to the requested folder (components), the
    entry's own name, and the file (none = directory). -/
structure Entry where
  path : List Bytes
  name : Bytes
  file : Option StoredFile

def Entry.isDir (e : Entry) : Bool := e.file.isNone

/-- Byte-lexical order of names (Go's string `<=`). -/
def bytesLe : Bytes → Bytes → Bool
  | [], _ => true
  | _ :: _, [] => false
  | a :: as, b :: bs => if a < b then true else if b < a then false else bytesLe as bs

/-- Insertion sort (structurally recursive, so that concrete walks evaluate by `decide`): the order
    `os.ReadDir` returns — entries sorted by name; names within a directory are distinct. -/
def insertBy {α : Type} (le : α → α → Bool) (a : α) : List α → List α
  | [] => [a]
  | b :: bs => if le a b then a :: b :: bs else b :: insertBy le a bs

def sortBy {α : Type} (le : α → α → Bool) : List α → List α
  | [] => []
  | a :: as => insertBy le a (sortBy le as)

theorem insertBy_perm {α : Type} (le : α → α → Bool) (a : α) (l : List α) : (insertBy le a l).Perm (a :: l) := by
  induction l with
  | nil => simp [insertBy]
  | cons b bs ih =>
    unfold insertBy
    split
    · exact List.Perm.refl _
    · exact (List.Perm.cons b ih).trans (List.Perm.swap a b bs)

theorem sortBy_perm {α : Type} (le : α → α → Bool) (l : List α) : (sortBy le l).Perm l := by
  induction l with
  | nil => simp [sortBy]
  | cons a as ih => exact (insertBy_perm le a _).trans (List.Perm.cons a ih)

theorem mem_sortBy {α : Type} (le : α → α → Bool) (l : List α) (a : α) : a ∈ sortBy le l ↔ a ∈ l :=
  (sortBy_perm le l).mem_iff

theorem map_insertBy {α β : Type} (r : α → α → Bool) (s : β → β → Bool) (f : α → β) (a : α) (l : List α)
    (h : ∀ b ∈ l, r a b = s (f a) (f b)) : (insertBy r a l).map f = insertBy s (f a) (l.map f) := by
  induction l with
  | nil => simp [insertBy]
  | cons b bs ih =>
    have hb := h b (by simp)
    simp only [insertBy, List.map_cons, ← hb]
    split
    · simp
    · simp [ih (fun x hx => h x (by simp [hx]))]

theorem map_sortBy {α β : Type} (r : α → α → Bool) (s : β → β → Bool) (f : α → β) (l : List α)
    (h : ∀ a ∈ l, ∀ b ∈ l, r a b = s (f a) (f b)) : (sortBy r l).map f = sortBy s (l.map f) := by
  induction l with
  | nil => simp [sortBy]
  | cons a as ih =>
    simp only [sortBy, List.map_cons]
    rw [map_insertBy r s f a _ (fun b hb => h a (by simp) b (by simp [(mem_sortBy r as b).1 hb])),
        ih (fun x hx y hy => h x (by simp [hx]) y (by simp [hy]))]

def segLe (a b : Bytes × List Entry) : Bool := bytesLe a.1 b.1
def nodeLe (a b : Node) : Bool := bytesLe a.name b.name

mutual
/-- `filepath.Walk` from a node whose relative path is `p`. -/
def Node.walk : Node → List Bytes → List Entry
  | .file f, p => [⟨p, f.name, some f⟩]
  | .dir n kids, p => ⟨p, n, none⟩ :: (sortBy segLe (Node.walkKids kids p)).flatMap (·.2)
def Node.walkKids : List Node → List Bytes → List (Bytes × List Entry)
  | [], _ => []
  | k :: ks, p => (k.name, k.walk (p ++ [k.name])) :: Node.walkKids ks p
end

theorem walkKids_eq_map (kids : List Node) (p : List Bytes) :
    Node.walkKids kids p = kids.map fun k => (k.name, k.walk (p ++ [k.name])) := by
  induction kids with
  | nil => simp [Node.walkKids]
  | cons k ks ih => simp [Node.walkKids, ih]

/-- The walk of a directory: the directory itself, then the walks of its children in byte-lexical
    order of their names, each child's path being the directory's path extended by the child's name. -/
theorem walk_dir (n : Bytes) (kids : List Node) (p : List Bytes) :
    (Node.dir n kids).walk p =
      ⟨p, n, none⟩ :: ((sortBy nodeLe kids).flatMap fun k => k.walk (p ++ [k.name])) := by
  rw [Node.walk, walkKids_eq_map]
  congr 1
  rw [← map_sortBy nodeLe segLe (fun k => (k.name, k.walk (p ++ [k.name]))) kids (fun a _ b _ => rfl)]
  simp [List.flatMap_map]

theorem walk_file (f : StoredFile) (p : List Bytes) : (Node.file f).walk p = [⟨p, f.name, some f⟩] := by
  rw [Node.walk]

/-- The walk starts with the node itself. -/
theorem walk_head (t : Node) (p : List Bytes) :
    ∃ e rest, t.walk p = e :: rest ∧ e.path = p ∧ e.name = t.name := by
  cases t with
  | file f => exact ⟨_, [], walk_file f p, rfl, rfl⟩
  | dir n kids => exact ⟨_, _, walk_dir n kids p, rfl, rfl⟩

/-- An alias of a folder.  `filepath.Walk` lstat's it (not a directory: it does not descend) and the download
    handler, seeing that the link resolves to a folder, announces it as a folder: in the tree it is a folder
    without children, whatever the target holds. -/
def Node.folderAlias (name : Bytes) : Node := .dir name []

theorem walk_folderAlias (n : Bytes) (p : List Bytes) : (Node.folderAlias n).walk p = [⟨p, n, none⟩] := by
  simp [Node.folderAlias, walk_dir, sortBy]


/-- An alias whose target is gone.  Nothing can be stat'ed through it: the file wrapper yields an empty data
    fork, zero dates and the default type / creator ("TEXT" / "TTXT"), no side files; the walk lstat's the link
    itself, so it is a file entry, and the download handler sends it as the empty file it announced. -/
def danglingFile (name : Bytes) : StoredFile :=
  { name := name, data := [], mtime := List.replicate 8 0, ty := [0x54, 0x45, 0x58, 0x54], creator := [0x54, 0x54, 0x58, 0x54] }

def Node.danglingAlias (name : Bytes) : Node := .file (danglingFile name)

theorem danglingFile_WF (n : Bytes) (h : n.length < 65536) : (danglingFile n).WF := by
  refine ⟨?_, ?_, ?_, ?_⟩
  · simp [danglingFile, StoredFile.effInfo, defaultInfo, InfoFork.fixedWF]
  · simpa [danglingFile, StoredFile.effInfo, defaultInfo] using h
  · simp [danglingFile, StoredFile.effInfo, defaultInfo]
  · simp [danglingFile, StoredFile.rsrcSize, StoredFile.hdrLen, StoredFile.effInfo, defaultInfo, InfoFork.size]; omega

mutual
/-- Plain preorder traversal in stored order: visits every node exactly once by construction. -/
def Node.preorder : Node → List Bytes → List Entry
  | .file f, p => [⟨p, f.name, some f⟩]
  | .dir n kids, p => ⟨p, n, none⟩ :: Node.preorderKids kids p
def Node.preorderKids : List Node → List Bytes → List Entry
  | [], _ => []
  | k :: ks, p => k.preorder (p ++ [k.name]) ++ Node.preorderKids ks p
end

theorem flatMap_snd_walkKids_cons (k : Node) (ks : List Node) (p : List Bytes) :
    (Node.walkKids (k :: ks) p).flatMap (·.2) = k.walk (p ++ [k.name]) ++ (Node.walkKids ks p).flatMap (·.2) := by
  simp [Node.walkKids]

mutual
/-- **Every node is visited exactly once**: the walk is a permutation of the plain preorder traversal. -/
theorem walk_perm_preorder : ∀ (t : Node) (p : List Bytes), (t.walk p).Perm (t.preorder p)
  | .file f, p => by rw [Node.walk, Node.preorder]
  | .dir n kids, p => by
    rw [Node.walk, Node.preorder]
    apply List.Perm.cons
    exact ((sortBy_perm _ _).flatMap_right _).trans (walkKids_perm_preorder kids p)
theorem walkKids_perm_preorder : ∀ (ks : List Node) (p : List Bytes),
    ((Node.walkKids ks p).flatMap (·.2)).Perm (Node.preorderKids ks p)
  | [], p => by simp [Node.walkKids, Node.preorderKids]
  | k :: ks, p => by
    rw [flatMap_snd_walkKids_cons, Node.preorderKids]
    exact (walk_perm_preorder k _).append (walkKids_perm_preorder ks p)
end

-- ---------------------------------------------------------------- the dot rule, items, item count

/-- `strings.HasPrefix(name, ".")`. -/
def dotName (n : Bytes) : Bool := n.head? == some 46

def Entry.visible (e : Entry) : Bool := !dotName e.name

/-- The entries `DownloadFolderHandler` sends a header for: every callback except the first (the
    requested folder itself) whose own name does not start with a dot. -/
def Node.items (t : Node) : List Entry := ((t.walk []).drop 1).filter Entry.visible

/-- `CalcItemCount`: its own walk, counting entries whose own name does not start with a dot, minus
    one, in uint16 arithmetic (reply field 220). -/
def Node.itemCount (t : Node) : Nat := (((t.walk []).filter Entry.visible).length + 65535) % 65536

/-- `CalcTotalSize`: the sizes of all non-directory entries (dot files included). -/
def Node.totalSize (t : Node) : Nat :=
  (((t.walk []).map fun e => match e.file with | some f => f.data.length | none => 0).sum) % 4294967296

/-- `path[basePathLen+1:]`: the components joined by '/'. -/
def joinSlash : List Bytes → Bytes
  | [] => []
  | [c] => c
  | c :: c2 :: cs => c ++ 47 :: joinSlash (c2 :: cs)

/-- The item header of an entry (`NewFileHeader(subPath, isDir)`). -/
def Entry.header (e : Entry) : Bytes := fileHeader (joinSlash e.path) e.isDir

-- ---------------------------------------------------------------- folder download dialogue

/-- The client's answer to an item header (anything other than 2 or 3 acts like 1). -/
inductive Action where
  | send
  | resume (k : Nat)   -- 2, followed by resume data whose first fork entry carries offset `k`
  | next               -- 3
deriving Repr, DecidableEq

/-- What the server writes for a file after the client's action: the 4-byte `TransferSize(offset)`,
    the flattened-file header (always announcing the full data size), the data fork from the offset
    (`Seek`), and — unless resuming — for fork count 3 the MACR fork header and the stored resource fork. -/
def fileBody (f : StoredFile) : Action → Bytes
  | .next => []
  | .send => be32 (f.transferSize 0 0) ++ (f.header 0 ++ (f.data ++
      (if f.forkCount = 3 then forkHeader macr f.rsrcSize ++ f.rsrc.getD [] else [])))
  | .resume k => be32 (f.transferSize 0 k) ++ (f.header 0 ++ f.data.drop k)

structure ItemOut where
  header : Bytes
  body : Bytes
deriving Repr, DecidableEq

def itemOut (e : Entry) (a : Action) : ItemOut :=
  { header := e.header, body := match e.file with | some f => fileBody f a | none => [] }

/-- The dialogue over the items: each header is answered by one action; if the client stops
    answering, the header of the next item is the last thing sent. -/
def downloadItems : List Entry → List Action → List ItemOut
  | [], _ => []
  | e :: _, [] => [{ header := e.header, body := [] }]
  | e :: es, a :: as => itemOut e a :: downloadItems es as

def downloadFolder (t : Node) (acts : List Action) : List ItemOut := downloadItems t.items acts

theorem downloadItems_headers (es : List Entry) (acts : List Action) (h : es.length ≤ acts.length) :
    (downloadItems es acts).map (·.header) = es.map Entry.header := by
  induction es generalizing acts with
  | nil => simp [downloadItems]
  | cons e es ih =>
    cases acts with
    | nil => simp at h
    | cons a as =>
      simp only [downloadItems, List.map_cons, itemOut]
      rw [ih as (by simpa using h)]

theorem downloadItems_bodies (es : List Entry) (acts : List Action) (h : es.length ≤ acts.length) :
    (downloadItems es acts) = (es.zip acts).map fun p => itemOut p.1 p.2 := by
  induction es generalizing acts with
  | nil => simp [downloadItems]
  | cons e es ih =>
    cases acts with
    | nil => simp at h
    | cons a as =>
      simp only [downloadItems, List.zip_cons_cons, List.map_cons]
      rw [ih as (by simpa using h)]

-- ---------------------------------------------------------------- splitSlash ∘ joinSlash

theorem splitSlash_noslash (c : Bytes) (h : (47 : UInt8) ∉ c) : splitSlash c = [c] := by
  induction c with
  | nil => rfl
  | cons b bs ih =>
    have hb : b ≠ 47 := fun e => h (by simp [e])
    have hbs : (47 : UInt8) ∉ bs := fun e => h (by simp [e])
    simp [splitSlash, hb, ih hbs]

theorem splitSlash_append_slash (c rest : Bytes) (h : (47 : UInt8) ∉ c) :
    splitSlash (c ++ 47 :: rest) = c :: splitSlash rest := by
  induction c with
  | nil => simp [splitSlash]
  | cons b bs ih =>
    have hb : b ≠ 47 := fun e => h (by simp [e])
    have hbs : (47 : UInt8) ∉ bs := fun e => h (by simp [e])
    simp [splitSlash, hb, ih hbs]

/-- The encoded path of an item header lists exactly the entry's components. -/
theorem splitSlash_joinSlash (cs : List Bytes) (hne : cs ≠ []) (h : ∀ c ∈ cs, (47 : UInt8) ∉ c) :
    splitSlash (joinSlash cs) = cs := by
  induction cs with
  | nil => exact absurd rfl hne
  | cons c cs ih =>
    cases cs with
    | nil => simpa [joinSlash] using splitSlash_noslash c (h c (by simp))
    | cons c2 cs2 =>
      rw [joinSlash, splitSlash_append_slash c _ (h c (by simp)), ih (List.cons_ne_nil _ _) (fun x hx => h x (by simp [hx]))]

-- ---------------------------------------------------------------- folder upload

/-- What a name holds under the upload folder. -/
inductive Final where
  | dir
  | file (d : Bytes)
deriving Repr, DecidableEq

/-- `<path>` and `<path>.incomplete`. -/
structure Slot where
  final : Option Final := none
  inc : Option Bytes := none
deriving Repr, DecidableEq

/-- The store below the upload folder, indexed by cleaned relative path (most recent binding first). -/
abbrev Fs := List (List Bytes × Slot)

def Fs.get : Fs → List Bytes → Slot
  | [], _ => {}
  | (q, s) :: r, p => if q = p then s else Fs.get r p

def Fs.set (fs : Fs) (p : List Bytes) (s : Slot) : Fs := (p, s) :: fs

@[simp] theorem Fs.get_set_same (fs : Fs) (p : List Bytes) (s : Slot) : (fs.set p s).get p = s := by
  simp [Fs.set, Fs.get]

theorem Fs.get_set_other (fs : Fs) (p q : List Bytes) (s : Slot) (h : p ≠ q) : (fs.set p s).get q = fs.get q := by
  simp [Fs.set, Fs.get, h]

/-- `os.Mkdir` / `os.OpenFile(O_CREATE)` succeed only below an existing directory (the upload folder
    itself exists: it is created first). -/
def Fs.parentOK (fs : Fs) (p : List Bytes) : Bool :=
  p.dropLast == [] || (fs.get p.dropLast).final == some .dir

/-- One item of the client's stream. -/
structure UpItem where
  path : List Bytes            -- cleaned components (`FormattedPath`), non-empty
  isDir : Bool
  fc : Nat := 2                -- fork count the client announces for a file
  info : InfoFork := defaultInfo [] (List.replicate 8 0) [0, 0, 0, 0] [0, 0, 0, 0]
  data : Bytes := []
  rsrc : Bytes := []

/-- The server's answer to an item header. -/
inductive Answer where
  | next                 -- [0,3]
  | send                 -- [0,1]
  | resume (off : Nat)   -- [0,2], 2-byte length, resume data carrying the size of the partial file
deriving Repr, DecidableEq

def Answer.bytes : Answer → Bytes
  | .next => [0, 3]
  | .send => [0, 1]
  | .resume off => [0, 2] ++ be16 (uploadResumeData (off % 4294967296)).length ++ uploadResumeData (off % 4294967296)

/-- The answer to a *file* item: skip when the name exists, resume when a partial file exists (this
    test comes second and wins), otherwise send. -/
def Fs.answer (fs : Fs) (p : List Bytes) : Answer :=
  match (fs.get p).inc with
  | some part => .resume part.length
  | none => if (fs.get p).final.isSome then .next else .send

structure ItemRes where
  fs : Fs
  wrote : Bytes    -- what the server writes while handling the item
  ok : Bool        -- false: the handler returned an error (the loop ends)

/-- What arrives of the flattened file the client sends after a "send"/"resume" answer.
    `cut = some n`: the connection dies after `n` bytes of (4-byte size, flattened file); `none` when not
    even the size arrived.  `cut = none`: everything arrives. -/
def clientDelivery (it : UpItem) (off : Nat) (cut : Option Nat) : Option Bytes :=
  let s := uploadStream it.fc it.info (it.data.drop off) it.rsrc
  match cut with
  | none => some s
  | some n => if n < 4 then none else some (s.take (n - 4))

/-- The file branch after the answer `ans` (send or resume) was written. -/
def upFile (fs : Fs) (p : List Bytes) (ans : Answer) (del : Option Bytes) : ItemRes :=
  match del with
  | none => { fs := fs, wrote := ans.bytes, ok := false }           -- reading the 4-byte size fails
  | some recv =>
    if fs.parentOK p = false ∧ ans = .send then { fs := fs, wrote := ans.bytes, ok := false }  -- opening `.incomplete` fails
    else
      let r := receiveFile recv
      let inc1 := ((fs.get p).inc.getD []) ++ r.appended
      if r.complete then
        { fs := fs.set p { final := some (.file inc1), inc := none }, wrote := ans.bytes ++ [0, 3], ok := true }
      else
        { fs := fs.set p { (fs.get p) with inc := some inc1 }, wrote := ans.bytes, ok := false }

/-- One iteration of `UploadFolderHandler`'s loop. -/
def upItem (fs : Fs) (it : UpItem) (cut : Option Nat) : ItemRes :=
  if it.isDir then
    if (fs.get it.path).final.isSome then { fs := fs, wrote := [0, 3], ok := true }
    else if fs.parentOK it.path then
      { fs := fs.set it.path { (fs.get it.path) with final := some .dir }, wrote := [0, 3], ok := true }
    else { fs := fs, wrote := [], ok := false }
  else
    match fs.answer it.path with
    | .next => { fs := fs, wrote := [0, 3], ok := true }
    | .send => upFile fs it.path .send (clientDelivery it 0 cut)
    | .resume off => upFile fs it.path (.resume off) (clientDelivery it off cut)

/-- The loop: stops at the first error. -/
def uploadItems (fs : Fs) : List (UpItem × Option Nat) → Fs × List Bytes × Bool
  | [] => (fs, [], true)
  | (it, cut) :: rest =>
    let r := upItem fs it cut
    if r.ok then
      let (fs', ws, ok) := uploadItems r.fs rest
      (fs', r.wrote :: ws, ok)
    else (r.fs, [r.wrote], false)

/-- An entry of a walk as the item a client streams for it. -/
def Entry.toItem (e : Entry) : UpItem :=
  match e.file with
  | none => { path := e.path, isDir := true }
  | some f => { path := e.path, isDir := false, fc := f.forkCount, info := f.effInfo, data := f.data, rsrc := f.rsrc.getD [] }

/-- What the client's file items must satisfy (sizes fit the size fields, decodable information fork). -/
def UpItem.OK (it : UpItem) : Prop :=
  it.isDir = true ∨ (it.info.WFup ∧ it.fc < 65536 ∧ it.data.length < 4294967296 ∧ it.rsrc.length < 4294967296)

/-- The slot an item leaves behind when it is delivered completely. -/
def UpItem.slot (it : UpItem) : Slot :=
  if it.isDir then { final := some .dir } else { final := some (.file it.data) }

theorem receiveFile_whole (fc : Nat) (i : InfoFork) (d r : Bytes)
    (hi : i.WFup) (hfc : fc < 65536) (hd : d.length < 4294967296) (hr : r.length < 4294967296) :
    (receiveFile (uploadStream fc i d r)).appended = d ∧ (receiveFile (uploadStream fc i d r)).complete = true := by
  have h := receiveFile_prefix fc i d r (uploadStream fc i d r).length hi hfc hd hr
  simp only [List.take_length, Nat.le_refl, decide_true] at h
  have hl := uploadStream_length fc i d r hi.1
  refine ⟨?_, h.2⟩
  rw [h.1]; apply List.take_of_length_le
  split at hl <;> omega

theorem upFile_frame (fs : Fs) (p : List Bytes) (ans : Answer) (del : Option Bytes) (q : List Bytes) (hq : p ≠ q) :
    (upFile fs p ans del).fs.get q = fs.get q := by
  unfold upFile
  split
  · rfl
  · split
    · rfl
    · dsimp only
      split
      · exact Fs.get_set_other _ _ _ _ hq
      · exact Fs.get_set_other _ _ _ _ hq

/-- A file item whose name is free, delivered completely: answered "send", published with exactly the
    client's bytes; nothing else changes. -/
theorem upItem_fresh_file (fs : Fs) (it : UpItem) (hf : it.isDir = false) (hok : it.OK)
    (hfree : fs.get it.path = {}) (hpar : fs.parentOK it.path = true) :
    (upItem fs it none).ok = true ∧ (upItem fs it none).wrote = [0, 1] ++ [0, 3] ∧
    (upItem fs it none).fs = fs.set it.path { final := some (.file it.data) } := by
  rcases hok with hd | ⟨hi, hfc, hd, hr⟩
  · rw [hf] at hd; cases hd
  have hans : fs.answer it.path = .send := by simp [Fs.answer, hfree]
  obtain ⟨ha, hc⟩ := receiveFile_whole it.fc it.info it.data it.rsrc hi hfc hd hr
  have hup : upItem fs it none = upFile fs it.path .send (some (uploadStream it.fc it.info it.data it.rsrc)) := by
    unfold upItem; rw [hans]; simp [hf, clientDelivery]
  rw [hup]; unfold upFile
  simp [hpar, ha, hc, hfree, Answer.bytes]

/-- A file item whose partial file holds the first `k` bytes, delivered completely from that offset:
    answered "resume k", published with exactly the client's bytes, the partial file is gone. -/
theorem upItem_resume_file (fs : Fs) (it : UpItem) (k : Nat) (hf : it.isDir = false) (hok : it.OK)
    (hk : k ≤ it.data.length) (hinc : (fs.get it.path).inc = some (it.data.take k)) :
    fs.answer it.path = .resume k ∧ (upItem fs it none).ok = true ∧
    (upItem fs it none).wrote = (Answer.resume k).bytes ++ [0, 3] ∧
    (upItem fs it none).fs = fs.set it.path { final := some (.file it.data) } := by
  rcases hok with hd | ⟨hi, hfc, hd, hr⟩
  · rw [hf] at hd; cases hd
  have hlen : (it.data.take k).length = k := by rw [List.length_take]; omega
  have hans : fs.answer it.path = .resume k := by simp [Fs.answer, hinc, hlen]
  have hdk : (it.data.drop k).length < 4294967296 := by rw [List.length_drop]; omega
  obtain ⟨ha, hc⟩ := receiveFile_whole it.fc it.info (it.data.drop k) it.rsrc hi hfc hdk hr
  refine ⟨hans, ?_⟩
  have hup : upItem fs it none = upFile fs it.path (.resume k) (some (uploadStream it.fc it.info (it.data.drop k) it.rsrc)) := by
    unfold upItem; rw [hans]; simp [hf, clientDelivery]
  rw [hup]; unfold upFile
  simp [ha, hc, hinc]

/-- A file item whose name already exists (and has no partial file): answered "next", nothing changes. -/
theorem upItem_existing_file (fs : Fs) (it : UpItem) (cut : Option Nat) (hf : it.isDir = false)
    (x : Final) (hx : (fs.get it.path).final = some x) (hinc : (fs.get it.path).inc = none) :
    (upItem fs it cut).ok = true ∧ (upItem fs it cut).wrote = [0, 3] ∧ (upItem fs it cut).fs = fs := by
  have hans : fs.answer it.path = .next := by simp [Fs.answer, hinc, hx]
  unfold upItem
  rw [hans]; simp [hf]

/-- A folder item: created if absent (below an existing folder), answered "next". -/
theorem upItem_folder (fs : Fs) (it : UpItem) (cut : Option Nat) (hd : it.isDir = true)
    (hfree : fs.get it.path = {}) (hpar : fs.parentOK it.path = true) :
    (upItem fs it cut).ok = true ∧ (upItem fs it cut).wrote = [0, 3] ∧
    (upItem fs it cut).fs = fs.set it.path { final := some .dir } := by
  unfold upItem
  simp [hd, hfree, hpar]

/-- A folder item whose name exists already: answered "next", nothing changes. -/
theorem upItem_existing_folder (fs : Fs) (it : UpItem) (cut : Option Nat) (hd : it.isDir = true)
    (x : Final) (hx : (fs.get it.path).final = some x) :
    (upItem fs it cut).ok = true ∧ (upItem fs it cut).wrote = [0, 3] ∧ (upItem fs it cut).fs = fs := by
  unfold upItem
  simp [hd, hx]

/-- Frame: an item touches only its own path. -/
theorem upItem_frame (fs : Fs) (it : UpItem) (cut : Option Nat) (q : List Bytes) (hq : it.path ≠ q) :
    (upItem fs it cut).fs.get q = fs.get q := by
  unfold upItem
  split
  · split
    · rfl
    · split
      · exact Fs.get_set_other _ _ _ _ hq
      · rfl
  · split
    · rfl
    · exact upFile_frame _ _ _ _ _ hq
    · exact upFile_frame _ _ _ _ _ hq

/-- A cut inside a fresh file item leaves exactly the received prefix in the partial file and no final name. -/
theorem upItem_cut_file (fs : Fs) (it : UpItem) (n : Nat) (hf : it.isDir = false) (hok : it.OK)
    (hfree : fs.get it.path = {}) (hpar : fs.parentOK it.path = true) (h4 : 4 ≤ n)
    (hcut : n < 4 + (uploadStream it.fc it.info it.data it.rsrc).length) :
    (upItem fs it (some n)).ok = false ∧
    (upItem fs it (some n)).fs.get it.path = { final := none, inc := some (it.data.take (n - 4 - (56 + it.info.size))) } := by
  rcases hok with hd | ⟨hi, hfc, hd, hr⟩
  · rw [hf] at hd; cases hd
  have hans : fs.answer it.path = .send := by simp [Fs.answer, hfree]
  obtain ⟨ha, hc⟩ := receiveFile_prefix it.fc it.info it.data it.rsrc (n - 4) hi hfc hd hr
  have hnc : ¬ ((uploadStream it.fc it.info it.data it.rsrc).length ≤ n - 4) := by omega
  simp only [hnc, decide_false] at hc
  have hup : upItem fs it (some n) = upFile fs it.path .send (some ((uploadStream it.fc it.info it.data it.rsrc).take (n - 4))) := by
    unfold upItem; rw [hans]
    have : ¬ (n < 4) := by omega
    simp [hf, clientDelivery, this]
  rw [hup]; unfold upFile
  simp [hpar, ha, hc, hfree]


-- ---------------------------------------------------------------- a whole stream of items into fresh names

/-- Each item arrives at a free name below an existing folder (evaluated on the *expected* store). -/
def StreamOK : Fs → List UpItem → Prop
  | _, [] => True
  | fs, it :: rest => it.OK ∧ fs.get it.path = {} ∧ fs.parentOK it.path = true ∧ StreamOK (fs.set it.path it.slot) rest

/-- The expected store: every streamed item bound to its slot. -/
def applyItems (fs : Fs) (its : List UpItem) : Fs := its.foldl (fun fs it => fs.set it.path it.slot) fs

theorem applyItems_append (fs : Fs) (a b : List UpItem) : applyItems fs (a ++ b) = applyItems (applyItems fs a) b := by
  simp [applyItems, List.foldl_append]

theorem StreamOK_append (fs : Fs) (a b : List UpItem) :
    StreamOK fs (a ++ b) ↔ StreamOK fs a ∧ StreamOK (applyItems fs a) b := by
  induction a generalizing fs with
  | nil => simp [StreamOK, applyItems]
  | cons it a ih =>
    simp only [List.cons_append, StreamOK, ih, applyItems, List.foldl_cons]
    constructor
    · rintro ⟨h1, h2, h3, h4, h5⟩; exact ⟨⟨h1, h2, h3, h4⟩, h5⟩
    · rintro ⟨⟨h1, h2, h3, h4⟩, h5⟩; exact ⟨h1, h2, h3, h4, h5⟩

theorem UpItem.slot_ne_empty (it : UpItem) : it.slot ≠ {} := by
  unfold UpItem.slot; split <;> simp

/-- What the server writes for an item that arrives at a free name and is delivered completely. -/
def UpItem.freshWrote (it : UpItem) : Bytes := if it.isDir then [0, 3] else [0, 1] ++ [0, 3]

/-- **The loop on a stream of fresh items**: every item is accepted, folders are answered "next", files
    "send" then "next", and the store afterwards binds every streamed item to exactly what was streamed. -/
theorem uploadItems_streamOK (fs : Fs) (its : List UpItem) (h : StreamOK fs its) :
    uploadItems fs (its.map fun it => (it, none)) = (applyItems fs its, its.map UpItem.freshWrote, true) := by
  induction its generalizing fs with
  | nil => simp [uploadItems, applyItems]
  | cons it its ih =>
    obtain ⟨hok, hfree, hpar, hrest⟩ := h
    simp only [List.map_cons, uploadItems]
    by_cases hd : it.isDir = true
    · obtain ⟨h1, h2, h3⟩ := upItem_folder fs it none hd hfree hpar
      have hs : it.slot = { final := some .dir } := by simp [UpItem.slot, hd]
      rw [h1, h3, h2]
      simp only [if_true]
      rw [← hs, ih _ hrest]
      simp [applyItems, UpItem.freshWrote, hd]
    · have hf : it.isDir = false := by simpa using hd
      obtain ⟨h1, h2, h3⟩ := upItem_fresh_file fs it hf hok hfree hpar
      have hs : it.slot = { final := some (.file it.data) } := by simp [UpItem.slot, hf]
      rw [h1, h3, h2]
      simp only [if_true]
      rw [← hs, ih _ hrest]
      simp [applyItems, UpItem.freshWrote, hf]

/-- A name that is bound is not the target of any later item of an acceptable stream. -/
theorem StreamOK_avoids (fs : Fs) (its : List UpItem) (h : StreamOK fs its) (q : List Bytes) (hq : fs.get q ≠ {}) :
    ∀ it ∈ its, it.path ≠ q := by
  induction its generalizing fs with
  | nil => simp
  | cons it its ih =>
    obtain ⟨_, hfree, _, hrest⟩ := h
    intro x hx
    rcases List.mem_cons.1 hx with rfl | hx
    · intro e; rw [e] at hfree; exact hq hfree
    · have hne : it.path ≠ q := by intro e; rw [e] at hfree; exact hq hfree
      exact ih _ hrest (by rw [Fs.get_set_other _ _ _ _ hne]; exact hq) x hx

/-- The expected store holds every streamed item, and nothing else changed. -/
theorem applyItems_get (fs : Fs) (its : List UpItem) (h : StreamOK fs its) :
    (∀ it ∈ its, (applyItems fs its).get it.path = it.slot) ∧
    (∀ q, (∀ it ∈ its, it.path ≠ q) → (applyItems fs its).get q = fs.get q) := by
  induction its generalizing fs with
  | nil => simp [applyItems]
  | cons it its ih =>
    obtain ⟨_, hfree, _, hrest⟩ := h
    obtain ⟨ih1, ih2⟩ := ih _ hrest
    have hap : applyItems fs (it :: its) = applyItems (fs.set it.path it.slot) its := by simp [applyItems]
    rw [hap]
    constructor
    · intro x hx
      rcases List.mem_cons.1 hx with rfl | hx
      · have := StreamOK_avoids _ _ hrest x.path (by rw [Fs.get_set_same]; exact x.slot_ne_empty)
        rw [ih2 _ this, Fs.get_set_same]
      · exact ih1 x hx
    · intro q hq
      rw [ih2 q (fun x hx => hq x (by simp [hx])), Fs.get_set_other _ _ _ _ (hq it (by simp))]

-- ---------------------------------------------------------------- the stream of a tree

mutual
/-- Trees a client can stream: sibling names are distinct; files fit the protocol's fields. -/
def Node.Good : Node → Prop
  | .file f => f.effInfo.WFup ∧ f.data.length < 4294967296 ∧ (f.rsrc.getD []).length < 4294967296
  | .dir _ kids => Node.GoodKids kids ∧ (kids.map Node.name).Nodup
def Node.GoodKids : List Node → Prop
  | [] => True
  | k :: ks => k.Good ∧ Node.GoodKids ks
end

theorem goodKids_mem (ks : List Node) (h : Node.GoodKids ks) : ∀ k ∈ ks, k.Good := by
  induction ks with
  | nil => simp
  | cons k ks ih =>
    rw [Node.GoodKids] at h
    intro x hx
    rcases List.mem_cons.1 hx with rfl | hx
    · exact h.1
    · exact ih h.2 x hx

/-- The items a client streams for a subtree rooted at relative path `p`. -/
def Node.stream (t : Node) (p : List Bytes) : List UpItem := (t.walk p).map Entry.toItem

theorem prefix_snoc_inj (p q : List Bytes) (a b : Bytes) (h1 : (p ++ [a]) <+: q) (h2 : (p ++ [b]) <+: q) : a = b := by
  obtain ⟨r1, e1⟩ := h1
  obtain ⟨r2, e2⟩ := h2
  have : p ++ (a :: r1) = p ++ (b :: r2) := by simpa using e1.trans e2.symm
  have := List.append_cancel_left this
  exact (List.cons.inj this).1

theorem not_prefix_snoc_self (p : List Bytes) (a : Bytes) : ¬ (p ++ [a]) <+: p := by
  intro h; have := h.length_le; simp at this; omega

/-- The statement proved for every subtree: streamed below an existing folder into a region that holds
    nothing, all its items are accepted, and only names at or below its own path change. -/
def SubtreeOK (t : Node) : Prop :=
  ∀ (fs : Fs) (p : List Bytes), t.Good → fs.parentOK p = true → (∀ q, p <+: q → fs.get q = {}) →
    StreamOK fs (t.stream p) ∧ (∀ q, ¬ p <+: q → (applyItems fs (t.stream p)).get q = fs.get q)

/-- The children loop (over any list of distinct children of the directory at `p`). -/
theorem kids_loop (kids : List Node) (ih : ∀ k ∈ kids, SubtreeOK k) (hgood : ∀ k ∈ kids, k.Good) (p : List Bytes) :
    ∀ (L : List Node), (∀ k ∈ L, k ∈ kids) → (L.map Node.name).Nodup →
    ∀ (fs : Fs), (p = [] ∨ (fs.get p).final = some .dir) →
      (∀ k ∈ L, ∀ q, (p ++ [k.name]) <+: q → fs.get q = {}) →
      StreamOK fs (L.flatMap fun k => k.stream (p ++ [k.name])) ∧
      (∀ q, (∀ k ∈ L, ¬ (p ++ [k.name]) <+: q) → (applyItems fs (L.flatMap fun k => k.stream (p ++ [k.name]))).get q = fs.get q) := by
  intro L
  induction L with
  | nil => intro _ _ fs _ _; simp [StreamOK, applyItems]
  | cons k L ihL =>
    intro hsub hnd fs hp hempty
    have hk : k ∈ kids := hsub k (by simp)
    have hnd' : k.name ∉ L.map Node.name ∧ (L.map Node.name).Nodup := by simpa using hnd
    have hpar : fs.parentOK (p ++ [k.name]) = true := by
      unfold Fs.parentOK
      rw [List.dropLast_concat]
      rcases hp with rfl | hp
      · simp
      · simp [hp]
    obtain ⟨s1, f1⟩ := ih k hk fs (p ++ [k.name]) (hgood k hk) hpar (hempty k (by simp))
    have hframe_p : (applyItems fs (k.stream (p ++ [k.name]))).get p = fs.get p :=
      f1 p (not_prefix_snoc_self p k.name)
    obtain ⟨s2, f2⟩ := ihL (fun x hx => hsub x (by simp [hx])) hnd'.2 (applyItems fs (k.stream (p ++ [k.name])))
      (by rcases hp with h | h
          · exact Or.inl h
          · exact Or.inr (by rw [hframe_p]; exact h))
      (by
        intro k2 hk2 q hq
        have hne : k2.name ≠ k.name := by
          intro e; exact hnd'.1 (by rw [← e]; exact List.mem_map_of_mem hk2)
        have : ¬ (p ++ [k.name]) <+: q := fun h' => hne (prefix_snoc_inj p q _ _ hq h')
        rw [f1 q this]; exact hempty k2 (by simp [hk2]) q hq)
    rw [List.flatMap_cons]
    refine ⟨(StreamOK_append _ _ _).2 ⟨s1, s2⟩, ?_⟩
    intro q hq
    rw [applyItems_append, f2 q (fun x hx => hq x (by simp [hx])), f1 q (hq k (by simp))]

theorem stream_dir (n : Bytes) (kids : List Node) (p : List Bytes) :
    (Node.dir n kids).stream p = { path := p, isDir := true } ::
      ((sortBy nodeLe kids).flatMap fun k => k.stream (p ++ [k.name])) := by
  unfold Node.stream
  rw [walk_dir, List.map_cons, List.map_flatMap]
  rfl

theorem sorted_kids_facts (kids : List Node) (hnd : (kids.map Node.name).Nodup) :
    (∀ k ∈ sortBy nodeLe kids, k ∈ kids) ∧ ((sortBy nodeLe kids).map Node.name).Nodup := by
  constructor
  · intro k hk; exact (mem_sortBy nodeLe kids k).1 hk
  · exact ((sortBy_perm nodeLe kids).map Node.name).nodup_iff.2 hnd

mutual
theorem subtreeOK : ∀ (t : Node), SubtreeOK t
  | .file f => by
    intro fs p hg hpar hempty
    rw [Node.Good] at hg
    have hst : (Node.file f).stream p = [{ path := p, isDir := false, fc := f.forkCount, info := f.effInfo, data := f.data, rsrc := f.rsrc.getD [] }] := by
      simp [Node.stream, walk_file, Entry.toItem]
    rw [hst]
    refine ⟨⟨Or.inr ⟨hg.1, by show f.forkCount < 65536; unfold StoredFile.forkCount; split <;> omega, hg.2.1, hg.2.2⟩, hempty p (List.prefix_refl p), hpar, trivial⟩, ?_⟩
    intro q hq
    have : p ≠ q := fun e => hq (e ▸ List.prefix_refl p)
    simp [applyItems, Fs.get_set_other _ _ _ _ this]
  | .dir n kids => by
    intro fs p hg hpar hempty
    rw [Node.Good] at hg
    rw [stream_dir]
    obtain ⟨hsub, hnd⟩ := sorted_kids_facts kids hg.2
    have hslot : (⟨p, true, 2, defaultInfo [] (List.replicate 8 0) [0, 0, 0, 0] [0, 0, 0, 0], [], []⟩ : UpItem).slot = { final := some .dir } := by
      simp [UpItem.slot]
    obtain ⟨s, f⟩ := kids_loop kids (subtreeOK_kids kids) (goodKids_mem kids hg.1) p (sortBy nodeLe kids) hsub hnd
      (fs.set p { final := some .dir }) (Or.inr (by simp))
      (by
        intro k _ q hq
        have hpq : p <+: q := (List.prefix_append p [k.name]).trans hq
        have hne : p ≠ q := by
          intro e; rw [← e] at hq; exact not_prefix_snoc_self p k.name hq
        rw [Fs.get_set_other _ _ _ _ hne]; exact hempty q hpq)
    refine ⟨⟨Or.inl rfl, hempty p (List.prefix_refl p), hpar, by rw [hslot]; exact s⟩, ?_⟩
    intro q hq
    have hne : p ≠ q := fun e => hq (e ▸ List.prefix_refl p)
    have : applyItems fs (({ path := p, isDir := true } : UpItem) :: ((sortBy nodeLe kids).flatMap fun k => k.stream (p ++ [k.name])))
        = applyItems (fs.set p { final := some .dir }) ((sortBy nodeLe kids).flatMap fun k => k.stream (p ++ [k.name])) := by
      simp [applyItems, UpItem.slot]
    rw [this, f q (fun k _ h' => hq ((List.prefix_append p [k.name]).trans h')), Fs.get_set_other _ _ _ _ hne]
theorem subtreeOK_kids : ∀ (ks : List Node), ∀ k ∈ ks, SubtreeOK k
  | [] => by simp
  | k :: ks => by
    intro x hx
    rcases List.mem_cons.1 hx with h | h
    · exact h ▸ subtreeOK k
    · exact subtreeOK_kids ks x h
end

/-- What a client streams for the folder `t`: every entry of the walk except the folder itself. -/
def Node.clientStream (t : Node) : List UpItem := ((t.walk []).drop 1).map Entry.toItem

theorem clientStream_dir (n : Bytes) (kids : List Node) :
    (Node.dir n kids).clientStream = (sortBy nodeLe kids).flatMap fun k => k.stream ([] ++ [k.name]) := by
  unfold Node.clientStream
  rw [walk_dir, List.drop_one, List.tail_cons, List.map_flatMap]
  rfl

/-- The stream of a good tree into an empty upload folder is acceptable item by item. -/
theorem clientStream_ok (n : Bytes) (kids : List Node) (hg : (Node.dir n kids).Good) :
    StreamOK [] (Node.dir n kids).clientStream := by
  rw [Node.Good] at hg
  rw [clientStream_dir]
  obtain ⟨hsub, hnd⟩ := sorted_kids_facts kids hg.2
  exact (kids_loop kids (subtreeOK_kids kids) (goodKids_mem kids hg.1) [] (sortBy nodeLe kids) hsub hnd
    [] (Or.inl rfl) (by intro _ _ _ _; rfl)).1

-- ---------------------------------------------------------------- sessions over any store

/-- What one item does to the store when everything the client sends for it arrives: `Ready fs it fs' w`
    = the item is acceptable in `fs`, leaves `fs'`, and the server writes `w`. -/
inductive Ready (fs : Fs) (it : UpItem) : Fs → Bytes → Prop
  | fresh : it.OK → fs.get it.path = {} → fs.parentOK it.path = true →
      Ready fs it (fs.set it.path it.slot) it.freshWrote
  | present (x : Final) : (fs.get it.path).final = some x → (it.isDir = true ∨ (fs.get it.path).inc = none) →
      Ready fs it fs [0, 3]
  | resumed (k : Nat) : it.isDir = false → it.OK → k ≤ it.data.length → (fs.get it.path).inc = some (it.data.take k) →
      Ready fs it (fs.set it.path { final := some (.file it.data) }) ((Answer.resume k).bytes ++ [0, 3])

/-- A whole session in which every item is ready at its turn. -/
inductive Session : Fs → List UpItem → Fs → List Bytes → Prop
  | nil (fs : Fs) : Session fs [] fs []
  | cons {fs fs1 fs2 : Fs} {it : UpItem} {rest : List UpItem} {w : Bytes} {ws : List Bytes} :
      Ready fs it fs1 w → Session fs1 rest fs2 ws → Session fs (it :: rest) fs2 (w :: ws)

theorem upItem_ready (fs fs' : Fs) (it : UpItem) (w : Bytes) (h : Ready fs it fs' w) :
    (upItem fs it none).ok = true ∧ (upItem fs it none).wrote = w ∧ (upItem fs it none).fs = fs' := by
  cases h with
  | fresh hok hfree hpar =>
    by_cases hd : it.isDir = true
    · obtain ⟨h1, h2, h3⟩ := upItem_folder fs it none hd hfree hpar
      refine ⟨h1, ?_, ?_⟩
      · rw [h2]; simp [UpItem.freshWrote, hd]
      · rw [h3]; simp [UpItem.slot, hd]
    · have hf : it.isDir = false := by simpa using hd
      obtain ⟨h1, h2, h3⟩ := upItem_fresh_file fs it hf hok hfree hpar
      refine ⟨h1, ?_, ?_⟩
      · rw [h2]; simp [UpItem.freshWrote, hf]
      · rw [h3]; simp [UpItem.slot, hf]
  | present x hx hor =>
    by_cases hd : it.isDir = true
    · exact upItem_existing_folder fs it none hd x hx
    · have hf : it.isDir = false := by simpa using hd
      rcases hor with h | h
      · exact absurd h hd
      · exact upItem_existing_file fs it none hf x hx h
  | resumed k hf hok hk hinc =>
    obtain ⟨_, h1, h2, h3⟩ := upItem_resume_file fs it k hf hok hk hinc
    exact ⟨h1, h2, h3⟩

/-- **Sessions**: when every item is ready at its turn — new, already there, or partially there — the
    loop accepts them all, answers send / next / resume accordingly, and leaves the store the items describe. -/
theorem uploadItems_session (fs fs' : Fs) (its : List UpItem) (ws : List Bytes) (h : Session fs its fs' ws) :
    uploadItems fs (its.map fun it => (it, none)) = (fs', ws, true) := by
  induction h with
  | nil fs => simp [uploadItems]
  | cons hr _ ih =>
    obtain ⟨h1, h2, h3⟩ := upItem_ready _ _ _ _ hr
    simp only [List.map_cons, uploadItems, h1, h2, h3, if_true, ih]

/-- Streaming again what is already there changes nothing: every item is answered "next file". -/
theorem session_all_present (fs : Fs) (its : List UpItem)
    (h : ∀ it ∈ its, (∃ x, (fs.get it.path).final = some x) ∧ (fs.get it.path).inc = none) :
    Session fs its fs (its.map fun _ => [0, 3]) := by
  induction its with
  | nil => exact Session.nil fs
  | cons it its ih =>
    obtain ⟨⟨x, hx⟩, hinc⟩ := h it (by simp)
    exact Session.cons (Ready.present x hx (Or.inr hinc)) (ih (fun j hj => h j (by simp [hj])))

-- ---------------------------------------------------------------- helpers of the property theorems

theorem preorder_head (t : Node) (p : List Bytes) :
    ∃ rest, t.preorder p = ⟨p, t.name, match t with | .file f => some f | .dir _ _ => none⟩ :: rest := by
  cases t with
  | file f => exact ⟨[], by rw [Node.preorder]; rfl⟩
  | dir n kids => exact ⟨_, by rw [Node.preorder]; rfl⟩

theorem walk_head' (t : Node) (p : List Bytes) :
    ∃ rest, t.walk p = ⟨p, t.name, match t with | .file f => some f | .dir _ _ => none⟩ :: rest := by
  cases t with
  | file f => exact ⟨[], by rw [Node.walk]; rfl⟩
  | dir n kids => exact ⟨_, by rw [Node.walk]; rfl⟩

/-- Without the requested folder itself the walk is still a permutation of the plain traversal. -/
theorem walk_tail_perm_preorder (t : Node) (p : List Bytes) : ((t.walk p).drop 1).Perm ((t.preorder p).drop 1) := by
  obtain ⟨r1, h1⟩ := walk_head' t p
  obtain ⟨r2, h2⟩ := preorder_head t p
  have := walk_perm_preorder t p
  rw [h1, h2] at this
  rw [h1, h2]
  simpa using this.cons_inv


/-- The items of a folder with a visible name are the visible entries of the walk minus the folder itself. -/
theorem items_length (t : Node) (hroot : dotName t.name = false) :
    ((t.walk []).filter Entry.visible).length = t.items.length + 1 := by
  obtain ⟨e, rest, hw, _, hn⟩ := walk_head t []
  have hv : e.visible = true := by simp [Entry.visible, hn, hroot]
  simp [Node.items, hw, hv]

theorem transferSize_value (f : StoredFile) (k : Nat) (h : f.WF) (hk : k ≤ f.data.length) :
    f.transferSize 0 k = f.hdrLen + (f.data.length - k) + f.rsrcSize := by
  obtain ⟨_, _, _, hs⟩ := h
  unfold StoredFile.transferSize
  rw [sub32_of_le _ _ (Nat.zero_le _) (by omega)]
  have : k % 4294967296 = k := by omega
  rw [this]; omega

/-- What an entry contributes to a download apart from metadata: relative path, own name, kind / data. -/
def Entry.content (e : Entry) : List Bytes × Bytes × Option Bytes := (e.path, e.name, e.file.map (·.data))

theorem headers_of_same_content (l1 l2 : List Entry) (h : l1.map Entry.content = l2.map Entry.content) :
    (l1.filter Entry.visible).map Entry.header = (l2.filter Entry.visible).map Entry.header ∧
    (l1.filter Entry.visible).map (fun e => e.file.map (·.data)) = (l2.filter Entry.visible).map (fun e => e.file.map (·.data)) := by
  induction l1 generalizing l2 with
  | nil =>
    cases l2 with
    | nil => simp
    | cons _ _ => simp at h
  | cons a l1 ih =>
    cases l2 with
    | nil => simp at h
    | cons b l2 =>
      simp only [List.map_cons, List.cons.injEq] at h
      obtain ⟨hab, hrest⟩ := h
      obtain ⟨ih1, ih2⟩ := ih l2 hrest
      simp only [Entry.content, Prod.mk.injEq] at hab
      obtain ⟨hp, hn, hf⟩ := hab
      have hv : a.visible = b.visible := by simp [Entry.visible, hn]
      have hh : a.header = b.header := by
        unfold Entry.header Entry.isDir
        rw [hp]
        have : a.file.isNone = b.file.isNone := by
          cases ha : a.file <;> cases hb : b.file <;> simp [ha, hb] at hf ⊢
        rw [this]
      simp only [List.filter_cons, hv]
      split
      · simp [ih1, ih2, hh, hf]
      · exact ⟨ih1, ih2⟩

end Mobius
