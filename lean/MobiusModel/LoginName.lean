import MobiusModel.Wire
/-!
  LoginName: the display name of a session and the 'use any name' privilege (bit 26), over the three places
  where a client can propose a name:

  * the login transaction itself (`hotline/server.go` `handleNewConnection`, the 1.2.3-style login):
    `if clientLogin.GetField(FieldUserName).Data != nil { if c.Authorize(AccessAnyName) { c.UserName = <field> }
     else { c.UserName = []byte(c.Account.Name) } }`; the "user joined" notice is sent when `len(c.UserName) != 0`;
  * `HandleTranAgreed`: the same two-armed assignment when field 102 is present;
  * `HandleSetClientUserInfo`: `if cc.Authorize(AccessAnyName) { cc.UserName = <field 102 data> }`.

  `none` = the field is absent (`Data == nil`).
-/
namespace Mobius.LoginName
open Mobius

/-- `c.UserName` after the login transaction. -/
def atLogin (acctName : Bytes) (anyName : Bool) (field : Option Bytes) : Bytes :=
  match field with
  | none => []
  | some n => if anyName then n else acctName

/-- The login is announced to the others at once (1.2.3 flow) iff the name is non-empty. -/
def announcedAtLogin (acctName : Bytes) (anyName : Bool) (field : Option Bytes) : Bool :=
  !(atLogin acctName anyName field).isEmpty

inductive NameEv where
  | agreed (field : Option Bytes)
  | setInfo (field : Option Bytes)
deriving Repr, DecidableEq

def NameEv.field : NameEv → Option Bytes
  | .agreed f => f
  | .setInfo f => f

def stepName (acctName : Bytes) (anyName : Bool) (cur : Bytes) : NameEv → Bytes
  | .agreed none => cur
  | .agreed (some n) => if anyName then n else acctName
  | .setInfo f => if anyName then f.getD [] else cur

/-- The name the session shows after the login and a sequence of naming requests. -/
def session (acctName : Bytes) (anyName : Bool) (login : Option Bytes) (evs : List NameEv) : Bytes :=
  evs.foldl (stepName acctName anyName) (atLogin acctName anyName login)

theorem foldl_without (acctName : Bytes) (evs : List NameEv) (cur : Bytes) (h : cur = [] ∨ cur = acctName) :
    evs.foldl (stepName acctName false) cur = [] ∨ evs.foldl (stepName acctName false) cur = acctName := by
  induction evs generalizing cur with
  | nil => exact h
  | cons e es ih =>
    apply ih
    cases e with
    | agreed f => cases f <;> simp [stepName, h]
    | setInfo f => simpa [stepName] using h

end Mobius.LoginName
