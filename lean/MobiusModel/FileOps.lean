import MobiusModel.PathStr
import MobiusModel.FS
import MobiusModel.Wire
/-!
  FileOps: the file-touching handlers of `internal/mobius/transaction_handlers.go`, `fileWrapper`
  (`hotline/file_wrapper.go`), `GetFileNameList` (`hotline/files.go`), the folder-upload item path
  (`folderUpload.FormattedPath`, `UploadFolderHandler`) and the account manager's path builders
  (`internal/mobius/account_manager.go`), as functions over the abstract namespace `FS`:

  (a) the *path arguments* each operation hands to the OS (`Req.paths`, `wrapperPaths`,
      `folderItemPaths`, `acct*Paths`), and
  (b) its effect on the namespace plus the kind of reply (`handle`).

  The code modelled is the code after the `fix:` commits: requests that name nothing (the target is
  the root itself) are refused by get-info / set-info / delete / move / download; a file rename uses
  `Base(Join("/", newName))`; folder-upload item paths are cleaned below a leading `/`; the file list
  strips only a trailing `.incomplete`.
-/
namespace Mobius.FileOps
open Mobius.PathAlg Mobius.PathStr Mobius.FS

-- ---------------------------------------------------------------- constants

def incSfx : Bytes := [46, 105, 110, 99, 111, 109, 112, 108, 101, 116, 101]  -- ".incomplete"
def rsrcPfx : Bytes := [46, 114, 115, 114, 99, 95]                            -- ".rsrc_"
def infoPfx : Bytes := [46, 105, 110, 102, 111, 95]                            -- ".info_"
def yamlSfx : Bytes := [46, 121, 97, 109, 108]                                 -- ".yaml"
def tmpSfx : Bytes := [46, 116, 109, 112]                                      -- ".tmp"
def tyFldr : Bytes := [102, 108, 100, 114]                                     -- "fldr"
def crNA : Bytes := [110, 47, 97, 32]                                          -- "n/a "
def tyTEXT : Bytes := [84, 69, 88, 84]
def crTTXT : Bytes := [84, 84, 88, 84]
def dotB : UInt8 := 46

/-- `hotline/file_types.go`: extension → (type, creator). -/
def fileTypes : List (Bytes × Bytes × Bytes) := [
  ([46, 115, 105, 116], [83, 73, 84, 33], [83, 73, 84, 33]),   -- .sit SIT! SIT!
  ([46, 112, 100, 102], [80, 68, 70, 32], [67, 65, 82, 79]),   -- .pdf PDF  CARO
  ([46, 103, 105, 102], [71, 73, 70, 102], [111, 103, 108, 101]),   -- .gif GIFf ogle
  ([46, 116, 120, 116], [84, 69, 88, 84], [116, 116, 120, 116]),   -- .txt TEXT ttxt
  ([46, 122, 105, 112], [90, 73, 80, 32], [83, 73, 84, 120]),   -- .zip ZIP  SITx
  ([46, 116, 103, 122], [71, 122, 105, 112], [83, 73, 84, 120]),   -- .tgz Gzip SITx
  ([46, 104, 113, 120], [84, 69, 88, 84], [83, 73, 84, 120]),   -- .hqx TEXT SITx
  ([46, 106, 112, 103], [74, 80, 69, 71], [111, 103, 108, 101]),   -- .jpg JPEG ogle
  ([46, 106, 112, 101, 103], [74, 80, 69, 71], [111, 103, 108, 101]),   -- .jpeg JPEG ogle
  ([46, 105, 109, 103], [114, 111, 104, 100], [100, 100, 115, 107]),   -- .img rohd ddsk
  ([46, 115, 101, 97], [65, 80, 80, 76], [97, 117, 115, 116]),   -- .sea APPL aust
  ([46, 109, 111, 118], [77, 111, 111, 86], [84, 86, 79, 68]),   -- .mov MooV TVOD
  ([46, 105, 110, 99, 111, 109, 112, 108, 101, 116, 101], [72, 84, 102, 116], [72, 84, 76, 67])]   -- .incomplete HTft HTLC

/-- `friendlyCreatorNames`. -/
def friendlyNames : List (Bytes × Bytes) := [
  ([65, 80, 80, 76], [65, 112, 112, 108, 105, 99, 97, 116, 105, 111, 110, 32, 80, 114, 111, 103, 114, 97, 109]),
  ([72, 84, 98, 109], [72, 111, 116, 108, 105, 110, 101, 32, 66, 111, 111, 107, 109, 97, 114, 107]),
  ([102, 108, 100, 114], [70, 111, 108, 100, 101, 114]),
  ([102, 108, 100, 97], [70, 111, 108, 100, 101, 114, 32, 65, 108, 105, 97, 115]),
  ([72, 84, 102, 116], [73, 110, 99, 111, 109, 112, 108, 101, 116, 101, 32, 70, 105, 108, 101]),
  ([83, 73, 84, 33], [83, 116, 117, 102, 102, 73, 116, 32, 65, 114, 99, 104, 105, 118, 101]),
  ([84, 69, 88, 84], [84, 101, 120, 116, 32, 70, 105, 108, 101]),
  ([72, 84, 76, 67], [72, 111, 116, 108, 105, 110, 101])]

def friendly (code : Bytes) : Bytes := (friendlyNames.lookup code).getD code

/-- `filepath.Ext`: from the last dot of the name (inclusive); empty when there is none. -/
def extOf (n : Bytes) : Bytes :=
  if dotB ∈ n then dotB :: (n.reverse.takeWhile (· ≠ dotB)).reverse else []

def lowerAscii (b : UInt8) : UInt8 := if 65 ≤ b.toNat ∧ b.toNat ≤ 90 then b + 32 else b

/-- `fileTypeFromFilename`. -/
def typeOfName (n : Bytes) : Bytes × Bytes :=
  match fileTypes.lookup ((extOf n).map lowerAscii) with
  | some tc => tc
  | none => (tyTEXT, crTTXT)

/-- `fileTypeFromInfo`. -/
def typeOfInfo (isDir : Bool) (n : Bytes) : Bytes × Bytes :=
  if isDir then (tyFldr, crNA) else typeOfName n

def trimInc (n : Bytes) : Bytes :=
  if incSfx.isSuffixOf n then n.take (n.length - incSfx.length) else n

-- ---------------------------------------------------------------- ReadPath on raw request fields

def parsePath : Option Bytes → Res (List Bytes)
  | none => .ok []
  | some b => pathDecode b

/-- `hotline.ReadPath(root, pathField, name)` at component level, Mac-Roman decode included. -/
def target (root : Path) (pf : Option Bytes) (name : Bytes) : Res Path :=
  match parsePath pf with
  | .ok items => .ok ((readPath root items name).map decodeStr)
  | .err => .err
  | .panic => .panic

/-- The configured root is a clean ASCII path (DESIGN §7 C07 "not covered": non-ASCII root). -/
def RootOK (root : Path) : Prop := root.map decodeStr = root

theorem map_prefix {α β : Type} (f : α → β) {a b : List α} (h : a <+: b) : a.map f <+: b.map f := by
  obtain ⟨r, rfl⟩ := h; simp

theorem target_under (root : Path) (hr : RootOK root) (pf : Option Bytes) (name : Bytes) (t : Path)
    (h : target root pf name = .ok t) : root <+: t := by
  unfold target at h
  cases hp : parsePath pf with
  | ok items =>
    simp only [hp] at h
    injection h with h; subst h
    have := map_prefix decodeStr (readPath_under_root root items name)
    rw [hr] at this; exact this
  | err => simp [hp] at h
  | panic => simp [hp] at h

-- ---------------------------------------------------------------- fileWrapper

def baseName (p : Path) : Comp := p.getLast?.getD []

structure Wrapper where
  data : Path
  inc : Path
  rsrc : Path
  info : Path
  name : Comp
deriving Repr

/-- `NewFileWrapper(path)`: the side files are computed from `Dir(path)` and `Base(path)`. -/
def wrapper (p : Path) : Wrapper :=
  let d := p.dropLast
  let n := baseName p
  ⟨p, d ++ [n ++ incSfx], d ++ [rsrcPfx ++ n], d ++ [infoPfx ++ n], n⟩

def wrapperPaths (p : Path) : List Path :=
  [(wrapper p).data, (wrapper p).inc, (wrapper p).rsrc, (wrapper p).info]

/-- Files.contained, the key step: the side files of a path STRICTLY below the root are inside the root. -/
theorem wrapperPaths_under (root p : Path) (h : root <+: p) (hne : p ≠ root) :
    ∀ q ∈ wrapperPaths p, root <+: q := by
  obtain ⟨r, rfl⟩ := h
  have hr : r ≠ [] := by intro e; apply hne; simp [e]
  have hd : (root ++ r).dropLast = root ++ r.dropLast := List.dropLast_append_of_ne_nil hr
  intro q hq
  simp only [wrapperPaths, wrapper, hd, List.mem_cons, List.mem_nil_iff, or_false] at hq
  rcases hq with rfl | rfl | rfl | rfl
  · exact List.prefix_append _ _
  all_goals (rw [List.append_assoc]; exact List.prefix_append _ _)

/-- …and exactly there: for the root itself the side files are siblings of the root (what the old
    code touched on a request with empty name and empty path). -/
theorem wrapperPaths_root_escape :
    ∃ root : Path, ∃ q ∈ wrapperPaths root, ¬ root <+: q :=
  ⟨[[70]], [[70] ++ incSfx], by decide, by decide⟩

def amac : Bytes := [65, 77, 65, 67]
def zeros (n : Nat) : Bytes := List.replicate n 0

def synthFork (ty creator name : Bytes) : InfoFork :=
  ⟨amac, ty, creator, zeros 4, [0, 0, 1, 0], zeros 32, zeros 8, zeros 8, zeros 2, name, []⟩

def zeroFork : InfoFork := ⟨zeros 4, zeros 4, zeros 4, zeros 4, zeros 4, zeros 32, zeros 8, zeros 8, zeros 2, [], []⟩

/-- What `fileWrapper.flattenedFileObject` computes (dates are inputs of the real code; zero here). -/
structure Ffo where
  fork : InfoFork
  dataSize : Nat
  rsrcSize : Nat
  hasInfo : Bool
deriving Repr

def statOk (fs : FS) (p : Path) : Option Node :=
  match stat statFuel fs p with
  | .ok (_, n) => some n
  | .error _ => none

/-- `errors.Is(err, fs.ErrNotExist)` for `Stat(p)`. -/
def statMissing (fs : FS) (p : Path) : Bool :=
  match stat statFuel fs p with
  | .error .notExist => true
  | _ => false

def rsrcSize (fs : FS) (w : Wrapper) : Nat :=
  match statOk fs w.rsrc with
  | some n => n.size
  | none => 0

def ffo (fs : FS) (p : Path) : Res Ffo :=
  let w := wrapper p
  let d : Res (Nat × Bytes × Bytes) :=
    match stat statFuel fs w.data with
    | .ok (_, n) => .ok (n.size, typeOfInfo n.isDir w.name)
    | .error .notExist =>
      match statOk fs w.inc with
      | some n => .ok (n.size, typeOfInfo n.isDir (w.name ++ incSfx))
      | none => .ok (0, tyTEXT, crTTXT)
    | .error _ => .err
  match d with
  | .err => .err
  | .panic => .panic
  | .ok (sz, ty, cr) =>
    match statOk fs w.info with
    | some (.file b) =>
      if b = [] then .ok ⟨zeroFork, sz, rsrcSize fs w, true⟩
      else match InfoFork.decode b with
        | .ok i => .ok ⟨i, sz, rsrcSize fs w, true⟩
        | .err => .err
        | .panic => .panic
    | some _ => .err
    | none => .ok ⟨synthFork ty cr w.name, sz, rsrcSize fs w, false⟩

/-- `fileWrapper.TotalSize` (offset 0): data fork (the final name only) + resource fork, as uint32. -/
def totalSize (fs : FS) (p : Path) : Nat :=
  let w := wrapper p
  ((match statOk fs w.data with | some n => n.size | none => 0) + rsrcSize fs w) % 4294967296

/-- Length of the flattened-file-object header a download starts with. -/
def ffoLen (f : Ffo) : Nat := 130 + f.fork.name.length + f.fork.comment.length

-- ---------------------------------------------------------------- file list

structure Entry where
  disk : Comp        -- name on disk (not sent)
  name : Bytes       -- Mac-Roman name sent
  ty : Bytes
  creator : Bytes
  size : Nat
deriving Repr, DecidableEq

def countVisible (fs : FS) (d : Path) (ig : Bytes → Bool) : Nat :=
  ((children fs d).filter (fun c => !ig c.1)).length

/-- The (type, creator, size) triple of one directory entry; `none` = the entry is skipped
    (dangling alias); `.err` / `.panic` abort the whole listing. -/
def entryInfo (fs : FS) (d : Path) (ig : Bytes → Bool) (n : Comp) (node : Node) : Res (Option (Bytes × Bytes × Nat)) :=
  match node with
  | .link t =>
    match stat statFuel fs t with
    | .error .notExist => .ok none
    | .error _ => .err
    | .ok (p, .dir) => .ok (some (tyFldr, zeros 4, countVisible fs p ig % 4294967296))
    | .ok (_, tn) =>
      let tc := typeOfName (baseName t)
      .ok (some (tc.1, tc.2, tn.size % 4294967296))
  | .dir => .ok (some (tyFldr, zeros 4, countVisible fs (d ++ [n]) ig % 4294967296))
  | .file _ =>
    match ffo fs (d ++ [n]) with
    | .ok f => .ok (some (f.fork.ty.take 4, f.fork.creator.take 4, totalSize fs (d ++ [n])))
    | .err => .err
    | .panic => .panic

def listEntries (fs : FS) (d : Path) (ig : Bytes → Bool) : List (Comp × Node) → Res (List Entry)
  | [] => .ok []
  | (n, node) :: rest =>
    if ig n then listEntries fs d ig rest
    else match entryInfo fs d ig n node with
      | .err => .err
      | .panic => .panic
      | .ok none => listEntries fs d ig rest
      | .ok (some (ty, cr, sz)) =>
        match listEntries fs d ig rest with
        | .ok es =>
          match encStr (trimInc n) with
          | some en => .ok (⟨n, en, ty, cr, sz⟩ :: es)
          | none => .ok es
        | r => r

/-- `GetFileNameList(path, ignoreList)` on a directory `d` (already resolved). -/
def fileList (fs : FS) (d : Path) (ig : Bytes → Bool) : Res (List Entry) :=
  listEntries fs d ig (children fs d)

-- ---------------------------------------------------------------- requests and replies

inductive Req where
  | getInfo (pf : Option Bytes) (name : Bytes)
  | setInfo (pf : Option Bytes) (name : Bytes) (comment newName : Option Bytes)
  | delete (pf : Option Bytes) (name : Bytes)
  | move (pf : Option Bytes) (name : Bytes) (newPf : Option Bytes)
  | newFolder (pf : Option Bytes) (name : Bytes)
  | alias (pf : Option Bytes) (name : Bytes) (newPf : Option Bytes)
  | list (pf : Option Bytes)
  | download (pf : Option Bytes) (name : Bytes)
  | uploadFile (pf : Option Bytes) (name : Bytes) (resume : Bool)
  | downloadFolder (pf : Option Bytes) (name : Bytes)
deriving Repr

inductive Reply where
  | none                       -- the handler returned no transaction
  | err                        -- error reply
  | ok                         -- empty success reply
  | panic                      -- the handler panicked (recovered by the connection loop)
  | list (es : List Entry)
  | info (name tyStr crStr ty : Bytes) (comment : Option Bytes) (size : Option Nat)
  | download (xfer fileSize : Nat)
  | upload (resume : Option Nat)
  | opaque                     -- reply not modelled here (folder download: C10)
deriving Repr, DecidableEq

def deleteScript (t : Path) : List (FSOp × Bool) :=
  let w := wrapper t
  [(.removeAll w.data, false), (.remove w.inc, true), (.remove w.rsrc, true), (.remove w.info, true)]

/-- `fileWrapper.Move(newPath)` with `f.Name` = `nm` (`nmData` = the components `Join(newPath, Name)`
    adds: one, or none when `Name` is `/`). -/
def moveScript (t d : Path) (nmData : List Comp) (nm : Comp) : List (FSOp × Bool) :=
  let w := wrapper t
  [(.rename w.data (d ++ nmData), false), (.rename w.inc (d ++ [nm ++ incSfx]), true),
   (.rename w.rsrc (d ++ [rsrcPfx ++ nm]), true), (.rename w.info (d ++ [infoPfx ++ nm]), true)]

/-- `filepath.Base(filepath.Join("/", decoded new name))` as components: at most one. -/
def newNameComps (nn : Bytes) : List Comp := (joinRooted [] (decodeStr nn)).getLast?.toList

def isRoot (root t : Path) : Bool := decide (t = root)

def withTarget (root : Path) (fs : FS) (pf : Option Bytes) (name : Bytes) (k : Path → FS × Reply) : FS × Reply :=
  match target root pf name with
  | .ok t => k t
  | .err => (fs, .none)
  | .panic => (fs, .panic)

def getInfo (root : Path) (fs : FS) (pf : Option Bytes) (name : Bytes) : FS × Reply :=
  withTarget root fs pf name fun t =>
    if isRoot root t then (fs, .err)
    else match ffo fs t with
      | .err => (fs, .none)
      | .panic => (fs, .panic)
      | .ok f =>
        match encStr (wrapper t).name with
        | none => (fs, .none)
        | some en =>
          let ty := f.fork.ty.take 4
          (fs, .info en (friendly ty) (friendly (f.fork.creator.take 4)) ty
            (if f.fork.comment = [] then none else some f.fork.comment)
            (if ty = tyFldr then none else some (totalSize fs t)))

def download (root : Path) (fs : FS) (pf : Option Bytes) (name : Bytes) : FS × Reply :=
  withTarget root fs pf name fun t =>
    if isRoot root t then (fs, .err)
    else match ffo fs t with
      | .err => (fs, .none)
      | .panic => (fs, .panic)
      | .ok f => (fs, .download ((f.dataSize + f.rsrcSize + ffoLen f) % 4294967296) (f.dataSize % 4294967296))

def newFolder (root : Path) (fs : FS) (pf : Option Bytes) (name : Bytes) : FS × Reply :=
  withTarget root fs pf name fun t =>
    match stat statFuel fs t with
    | .error .notExist =>
      let r := runSeq fs [(.mkdir t, false)]
      if r.1 = .ok then (r.2, .ok) else (r.2, .err)
    | _ => (fs, .err)

def delete (root : Path) (fs : FS) (pf : Option Bytes) (name : Bytes) : FS × Reply :=
  withTarget root fs pf name fun t =>
    if isRoot root t then (fs, .err)
    else match ffo fs t with
      | .err => (fs, .none)
      | .panic => (fs, .panic)
      | .ok _ =>
        let w := wrapper t
        if (statOk fs w.data).isNone ∧ (statOk fs w.inc).isNone then (fs, .err)
        else
          let r := runSeq fs (deleteScript t)
          if r.1 = .ok then (r.2, .ok) else (r.2, .none)

def move (root : Path) (fs : FS) (pf : Option Bytes) (name : Bytes) (newPf : Option Bytes) : FS × Reply :=
  withTarget root fs pf name fun t =>
    withTarget root fs newPf [] fun d =>
      if isRoot root t then (fs, .err)
      else match ffo fs t with
        | .err => (fs, .none)
        | .panic => (fs, .panic)
        | .ok _ =>
          let w := wrapper t
          if (statOk fs w.data).isNone ∧ (statOk fs w.inc).isNone then (fs, .err)
          else
            let r := runSeq fs (moveScript t d [w.name] w.name)
            if r.1 = .ok then (r.2, .ok) else (r.2, .none)

/-- `SetComment` + `InfoForkWriter` + `io.Copy`: the information fork is rewritten with the new comment. -/
def commentStep (fs : FS) (t : Path) (fork : InfoFork) : Option Bytes → Err × FS
  | none => (.ok, fs)
  | some c => runSeq fs [(.writeFile (wrapper t).info ({ fork with comment := c }).encode, false)]

/-- The rename half of `HandleSetFileInfo`: a folder is renamed with `os.Rename` (errors other than
    "not found" are ignored by the handler) followed by its `.info_` side file, a file with
    `fileWrapper.Move` under its new (single-component) name. -/
def renameStep (root : Path) (fs : FS) (pf : Option Bytes) (t : Path) (isDir : Bool) : Option Bytes → FS × Reply
  | none => (fs, .ok)
  | some nn =>
    if isDir then
      withTarget root fs pf nn fun t' =>
        let r := runSeq fs [(.rename t t', false)]
        if r.1 = Err.notExist then (r.2, .err)
        else if r.1 = Err.ok then
          -- after `fix:` 500a006: the folder's information fork (its comment) travels with it;
          -- a missing side file is ignored, any other error ends the handler without a reply
          let r2 := runSeq r.2 [(.rename (wrapper t).info (wrapper t').info, true)]
          if r2.1 = Err.ok then (r2.2, .ok) else (r2.2, .none)
        else (r.2, .ok)
    else
      withTarget root fs pf [] fun d =>
        let cs := newNameComps nn
        let r := runSeq fs (moveScript t d cs (baseName cs))
        match r.1 with
        | .ok => (r.2, .ok)
        | .notExist => (r.2, .err)
        | .other => (r.2, .none)

def setInfo (root : Path) (fs : FS) (pf : Option Bytes) (name : Bytes) (comment newName : Option Bytes) : FS × Reply :=
  withTarget root fs pf name fun t =>
    if isRoot root t then (fs, .err)
    else match statOk fs t with
      | none => (fs, .none)
      | some node =>
        match ffo fs t with
        | .err => (fs, .none)
        | .panic => (fs, .panic)
        | .ok f =>
          let r1 := commentStep fs t f.fork comment
          if r1.1 ≠ .ok then (r1.2, .none)
          else renameStep root r1.2 pf t node.isDir newName

def alias (root : Path) (fs : FS) (pf : Option Bytes) (name : Bytes) (newPf : Option Bytes) : FS × Reply :=
  withTarget root fs pf name fun src =>
    withTarget root fs newPf name fun dst =>
      let r := runSeq fs [(.symlink src dst, false)]
      if r.1 = .ok then (r.2, .ok) else (r.2, .err)

def list (root : Path) (ig : Bytes → Bool) (fs : FS) (pf : Option Bytes) : FS × Reply :=
  withTarget root fs pf [] fun t =>
    match stat statFuel fs t with
    | .ok (d, .dir) =>
      match fileList fs d ig with
      | .ok es => (fs, .list es)
      | .err => (fs, .none)
      | .panic => (fs, .panic)
    | _ => (fs, .none)

/-- `fullPath + ".incomplete"` (string concatenation on a rendered path). -/
def addSfx (p : Path) (s : Bytes) : Path := p.dropLast ++ [baseName p ++ s]

def uploadFile (root : Path) (fs : FS) (pf : Option Bytes) (name : Bytes) (resume : Bool) : FS × Reply :=
  withTarget root fs pf name fun t =>
    match statOk fs t with
    | some _ => (fs, .err)
    | none =>
      if resume then
        match statOk fs (addSfx t incSfx) with
        | some n => (fs, .upload (some (n.size % 4294967296)))
        | none => (fs, .none)
      else (fs, .upload none)

def handle (root : Path) (ig : Bytes → Bool) (fs : FS) : Req → FS × Reply
  | .getInfo pf n => getInfo root fs pf n
  | .setInfo pf n c nn => setInfo root fs pf n c nn
  | .delete pf n => delete root fs pf n
  | .move pf n np => move root fs pf n np
  | .newFolder pf n => newFolder root fs pf n
  | .alias pf n np => alias root fs pf n np
  | .list pf => list root ig fs pf
  | .download pf n => download root fs pf n
  | .uploadFile pf n r => uploadFile root fs pf n r
  | .downloadFolder pf n => withTarget root fs pf n fun _ => (fs, .opaque)

-- ---------------------------------------------------------------- path arguments per request

def okPaths (r : Res Path) : List Path :=
  match r with
  | .ok t => [t]
  | _ => []

/-- Paths of a request whose target gets a `fileWrapper`, with the `addressesFileRoot` refusal. -/
def guardedWrapperPaths (root : Path) (pf : Option Bytes) (name : Bytes) : List Path :=
  match target root pf name with
  | .ok t => if isRoot root t then [t] else wrapperPaths t
  | _ => []

/-- Every path argument the handler of `req` can hand to the OS, whatever the namespace contains
    (`uploadFile` depends on the namespace: see `uploadFilePaths`). -/
def Req.paths (root : Path) : Req → List Path
  | .getInfo pf n => guardedWrapperPaths root pf n
  | .download pf n => guardedWrapperPaths root pf n
  | .delete pf n => guardedWrapperPaths root pf n
  | .move pf n np =>
    guardedWrapperPaths root pf n ++
    (match target root pf n, target root np [] with
     | .ok t, .ok d => d :: (if isRoot root t then [] else (moveScript t d [(wrapper t).name] (wrapper t).name).flatMap (·.1.args))
     | _, _ => [])
  | .setInfo pf n _ nn =>
    guardedWrapperPaths root pf n ++
    (match nn with
     | none => []
     | some nn =>
       okPaths (target root pf nn) ++
       -- folder rename: the two information-fork side files.  They are only reached after
       -- `os.Rename(t, t')` succeeded, which it cannot when `t'` is the (existing) root directory.
       (match target root pf n, target root pf nn with
        | .ok t, .ok t' => if isRoot root t || isRoot root t' then [] else [(wrapper t).info, (wrapper t').info]
        | _, _ => []) ++
       (match target root pf n, target root pf [] with
        | .ok t, .ok d => d :: (if isRoot root t then [] else (moveScript t d (newNameComps nn) (baseName (newNameComps nn))).flatMap (·.1.args))
        | _, _ => []))
  | .newFolder pf n => okPaths (target root pf n)
  | .alias pf n np => okPaths (target root pf n) ++ okPaths (target root np n)
  | .list pf => okPaths (target root pf [])      -- plus everything below it (children, their side files)
  | .uploadFile pf n _ => okPaths (target root pf n)
  | .downloadFolder pf n => okPaths (target root pf n)   -- plus everything below it

/-- `HandleUploadFile`: `Stat(full)`, and — only when that failed — `Stat(full + ".incomplete")`. -/
def uploadFilePaths (root : Path) (fs : FS) (pf : Option Bytes) (name : Bytes) : List Path :=
  match target root pf name with
  | .ok t => t :: (if (statOk fs t).isSome then [] else [addSfx t incSfx])
  | _ => []

-- ---------------------------------------------------------------- folder upload (transfer connection)

/-- `folderUpload.FormattedPath` segment loop: `count` items of `0,0,len,name`; an index or slice
    out of range panics (recovered by `handleFileTransfer`).  `3+segLen` is `int` arithmetic (after
    `fix:` df361ce): a segment of 253..255 bytes is read like any other. -/
def fuSegments : Nat → Bytes → Res (List Bytes)
  | 0, _ => .ok []
  | n + 1, d =>
    if d.length < 3 then .panic
    else
      let l := ((d.drop 2).headD 0).toNat
      if d.length < 3 + l then .panic
      else match fuSegments n (d.drop (3 + l)) with
        | .ok ss => .ok ((d.drop 3).take l :: ss)
        | r => r

/-- `strings.TrimPrefix(filepath.Join("/", filepath.Join(segments…)), "/")` as components
    (no Mac-Roman decode: the raw bytes name the file). -/
def formattedComps (segs : List Bytes) : List Comp := segs.foldl joinRooted []

def formattedPath (count : Nat) (data : Bytes) : Res (List Comp) :=
  match fuSegments count data with
  | .ok segs => .ok (formattedComps segs)
  | .err => .err
  | .panic => .panic

/-- Path arguments of one `UploadFolderHandler` item below the transfer's folder `full`. -/
def folderItemPaths (fs : FS) (full : Path) (fp : List Comp) (isFolder : Bool) : List Path :=
  let j := full ++ fp
  if isFolder then [j]
  else
    let incJ := full ++ addSfx fp incSfx
    [j, incJ] ++
      (if statMissing fs j && statMissing fs incJ then wrapperPaths j else [])

-- ---------------------------------------------------------------- account files

/-- `filepath.Join(accountDir, path.Join("/", login+".yaml"))` (Create, Delete). -/
def acctFile1 (dir : Path) (login : Bytes) : Path := dir ++ joinRooted [] (login ++ yamlSfx)

/-- `filepath.Join(accountDir, path.Join("/", login)+".yaml")` (Update). -/
def acctFile2 (dir : Path) (login : Bytes) : Path := dir ++ addSfx (joinRooted [] login) yamlSfx

def acctCreatePaths (dir : Path) (login : Bytes) : List Path :=
  [addSfx (acctFile1 dir login) tmpSfx, acctFile1 dir login]

def acctUpdatePaths (dir : Path) (old new : Bytes) : List Path :=
  [acctFile2 dir old, acctFile2 dir new, addSfx (acctFile2 dir new) tmpSfx]

def acctDeletePaths (dir : Path) (login : Bytes) : List Path := [acctFile1 dir login]

/-- `YAMLAccountManager.Create`: write the temp file, link it to the final name, remove the temp file. -/
def acctCreate (fs : FS) (dir : Path) (login : Bytes) (yaml : Bytes) : FS :=
  let p := acctFile1 dir login
  let tmp := addSfx p tmpSfx
  let r1 := FS.writeFile fs tmp yaml
  if r1.1 ≠ .ok then r1.2
  else (FS.remove (FS.hardlink r1.2 tmp p).2 tmp).2

/-- `YAMLAccountManager.Update`: optional rename of the file, then temp file + rename. -/
def acctUpdate (fs : FS) (dir : Path) (old new : Bytes) (yaml : Bytes) : FS :=
  let r0 : Err × FS := if old ≠ new then FS.rename fs (acctFile2 dir old) (acctFile2 dir new) else (.ok, fs)
  if r0.1 ≠ .ok then r0.2
  else
    let p := acctFile2 dir new
    let tmp := addSfx p tmpSfx
    (runSeq r0.2 [(.writeFile tmp yaml, false), (.rename tmp p, false)]).2

def acctDelete (fs : FS) (dir : Path) (login : Bytes) : FS := (FS.remove fs (acctFile1 dir login)).2

-- ---------------------------------------------------------------- (FS) a directory that no operation names as a source survives

namespace FSX
open Mobius.FS

/-- Arguments whose binding an operation may REMOVE (sources of renames, removals). -/
def strictArgs : FSOp → List Path
  | .rename a _ => [a]
  | .remove p => [p]
  | .removeAll p => [p]
  | _ => []

theorem strict_not_prefix {r p : Path} (h : r <+: p) (hne : p ≠ r) : ¬ p <+: r :=
  fun h2 => hne (List.IsPrefix.eq_of_length h2 (Nat.le_antisymm h2.length_le h.length_le))

/-- A directory `r` survives an operation whose path arguments all lie under `r` and whose removed
    arguments are not `r` itself: creating, linking, writing or renaming ONTO an existing directory fails. -/
theorem keeps_dir (op : FSOp) (fs : FS) (r : Path) (hd : lookup fs r = some .dir)
    (hu : ∀ q ∈ op.paths, r <+: q) (hs : ∀ q ∈ strictArgs op, q ≠ r) : lookup (op.apply fs).2 r = some .dir := by
  cases op with
  | mkdir p =>
    by_cases hp : p = r
    · subst hp; simp [FSOp.apply, FS.mkdir, hd]
    · rw [show (FSOp.mkdir p).apply fs = FS.mkdir fs p from rfl,
        mkdir_frame fs p r (strict_not_prefix (hu p (by simp [FSOp.paths])) hp)]; exact hd
  | rename a b =>
    have ha : a ≠ r := hs a (by simp [strictArgs])
    have hna := strict_not_prefix (hu a (by simp [FSOp.paths])) ha
    by_cases hb : b = r
    · subst hb
      simp only [FSOp.apply, FS.rename, hd]
      cases lookup fs a <;> exact hd
    · rw [show (FSOp.rename a b).apply fs = FS.rename fs a b from rfl,
        rename_frame fs a b r hna (strict_not_prefix (hu b (by simp [FSOp.paths])) hb)]; exact hd
  | remove p =>
    have hp : p ≠ r := hs p (by simp [strictArgs])
    rw [show (FSOp.remove p).apply fs = FS.remove fs p from rfl,
      remove_frame fs p r (strict_not_prefix (hu p (by simp [FSOp.paths])) hp)]; exact hd
  | removeAll p =>
    have hp : p ≠ r := hs p (by simp [strictArgs])
    rw [show (FSOp.removeAll p).apply fs = FS.removeAll fs p from rfl,
      removeAll_frame fs p r (strict_not_prefix (hu p (by simp [FSOp.paths])) hp)]; exact hd
  | symlink t p =>
    by_cases hp : p = r
    · subst hp; simp [FSOp.apply, FS.symlink, hd]
    · rw [show (FSOp.symlink t p).apply fs = FS.symlink fs t p from rfl,
        symlink_frame fs t p r (strict_not_prefix (hu p (by simp [FSOp.paths])) hp)]; exact hd
  | writeFile p d =>
    by_cases hp : p = r
    · subst hp; simp [FSOp.apply, FS.writeFile, hd]
    · rw [show (FSOp.writeFile p d).apply fs = FS.writeFile fs p d from rfl,
        writeFile_frame fs p r d (strict_not_prefix (hu p (by simp [FSOp.paths])) hp)]; exact hd
  | hardlink a b =>
    by_cases hb : b = r
    · subst hb
      simp only [FSOp.apply, FS.hardlink, hd]
      cases h : lookup fs a with
      | none => exact hd
      | some n => cases n <;> exact hd
    · rw [show (FSOp.hardlink a b).apply fs = FS.hardlink fs a b from rfl,
        hardlink_frame fs a b r (strict_not_prefix (hu b (by simp [FSOp.paths])) hb)]; exact hd

theorem runSeq_keeps_dir (ops : List (FSOp × Bool)) (fs : FS) (r : Path) (hd : lookup fs r = some .dir)
    (hu : ∀ o ∈ ops, ∀ q ∈ o.1.paths, r <+: q) (hs : ∀ o ∈ ops, ∀ q ∈ strictArgs o.1, q ≠ r) :
    lookup (runSeq fs ops).2 r = some .dir := by
  induction ops generalizing fs with
  | nil => exact hd
  | cons o ops ih =>
    obtain ⟨op, tol⟩ := o
    have h1 := keeps_dir op fs r hd (hu (op, tol) (by simp)) (hs (op, tol) (by simp))
    unfold runSeq
    dsimp only
    split
    · exact ih _ h1 (fun o ho => hu o (by simp [ho])) (fun o ho => hs o (by simp [ho]))
    · exact h1

end FSX

-- ---------------------------------------------------------------- containment lemmas (C07)

theorem under_append (root d x : Path) (h : root <+: d) : root <+: d ++ x :=
  List.IsPrefix.trans h (List.prefix_append d x)

theorem paths_subset_args (op : FSOp) : ∀ q ∈ op.paths, q ∈ op.args := by
  cases op <;> simp [FSOp.paths, FSOp.args]

/-- `fs'` agrees with `fs` on every path outside `root`; if all symlinks of `fs` point inside
    `root`, so do those of `fs'`; and if `root` is a directory in `fs` it still is in `fs'`. -/
def Keeps (root : Path) (fs fs' : FS) : Prop :=
  (∀ x, ¬ root <+: x → lookup fs' x = lookup fs x) ∧ (LinksInside root fs → LinksInside root fs') ∧
  (lookup fs root = some .dir → lookup fs' root = some .dir)

theorem Keeps.rfl' (root : Path) (fs : FS) : Keeps root fs fs := ⟨fun _ _ => rfl, id, id⟩

theorem Keeps.trans {root : Path} {a b c : FS} (h1 : Keeps root a b) (h2 : Keeps root b c) : Keeps root a c :=
  ⟨fun x hx => (h2.1 x hx).trans (h1.1 x hx), fun h => h2.2.1 (h1.2.1 h), fun h => h2.2.2 (h1.2.2 h)⟩

theorem runSeq_keeps (root : Path) (ops : List (FSOp × Bool)) (fs : FS)
    (h : ∀ o ∈ ops, ∀ q ∈ o.1.args, root <+: q) (hs : ∀ o ∈ ops, ∀ q ∈ FSX.strictArgs o.1, q ≠ root) :
    Keeps root fs (runSeq fs ops).2 :=
  ⟨fun x hx => runSeq_outside root ops fs x (fun o ho q hq => h o ho q (paths_subset_args o.1 q hq)) hx,
   fun hl => runSeq_linksInside root ops fs hl (fun o ho t p e => h o ho t (by rw [e]; simp [FSOp.args])),
   fun hd => FSX.runSeq_keeps_dir ops fs root hd (fun o ho q hq => h o ho q (paths_subset_args o.1 q hq)) hs⟩

theorem wrapperPaths_ne_root (root t : Path) (h : root <+: t) (hne : t ≠ root) : ∀ q ∈ wrapperPaths t, q ≠ root := by
  obtain ⟨r, rfl⟩ := h
  have hr : r ≠ [] := by intro e; apply hne; simp [e]
  have hd : (root ++ r).dropLast = root ++ r.dropLast := List.dropLast_append_of_ne_nil hr
  intro q hq
  simp only [wrapperPaths, wrapper, hd, List.mem_cons, List.mem_nil_iff, or_false] at hq
  rcases hq with rfl | rfl | rfl | rfl
  · exact hne
  all_goals (intro e; have := congrArg List.length e; simp at this)

theorem withTarget_keeps (root : Path) (fs : FS) (pf : Option Bytes) (name : Bytes) (k : Path → FS × Reply)
    (h : ∀ t, target root pf name = .ok t → Keeps root fs (k t).1) : Keeps root fs (withTarget root fs pf name k).1 := by
  unfold withTarget
  cases ht : target root pf name with
  | ok t => exact h t ht
  | err => exact Keeps.rfl' root fs
  | panic => exact Keeps.rfl' root fs

theorem moveScript_args_under (root t d : Path) (nmData : List Comp) (nm : Comp)
    (ht : root <+: t) (hne : t ≠ root) (hd : root <+: d) :
    ∀ o ∈ moveScript t d nmData nm, ∀ q ∈ o.1.args, root <+: q := by
  have hw := wrapperPaths_under root t ht hne
  simp only [wrapperPaths, List.mem_cons, List.mem_nil_iff, or_false, forall_eq_or_imp, forall_eq] at hw
  obtain ⟨h1, h2, h3, h4⟩ := hw
  intro o ho q hq
  simp only [moveScript, List.mem_cons, List.mem_nil_iff, or_false] at ho
  rcases ho with rfl | rfl | rfl | rfl <;>
    simp only [FSOp.args, FSOp.paths, List.mem_cons, List.mem_nil_iff, or_false] at hq <;>
    rcases hq with rfl | rfl <;> first | assumption | exact under_append root d _ hd

theorem deleteScript_args_under (root t : Path) (ht : root <+: t) (hne : t ≠ root) :
    ∀ o ∈ deleteScript t, ∀ q ∈ o.1.args, root <+: q := by
  have hw := wrapperPaths_under root t ht hne
  simp only [wrapperPaths, List.mem_cons, List.mem_nil_iff, or_false, forall_eq_or_imp, forall_eq] at hw
  obtain ⟨h1, h2, h3, h4⟩ := hw
  intro o ho q hq
  simp only [deleteScript, List.mem_cons, List.mem_nil_iff, or_false] at ho
  rcases ho with rfl | rfl | rfl | rfl <;>
    simp only [FSOp.args, FSOp.paths, List.mem_cons, List.mem_nil_iff, or_false] at hq <;>
    subst hq <;> assumption

theorem deleteScript_strict (root t : Path) (ht : root <+: t) (hne : t ≠ root) :
    ∀ o ∈ deleteScript t, ∀ q ∈ FSX.strictArgs o.1, q ≠ root := by
  have hw := wrapperPaths_ne_root root t ht hne
  simp only [wrapperPaths, List.mem_cons, List.mem_nil_iff, or_false, forall_eq_or_imp, forall_eq] at hw
  obtain ⟨h1, h2, h3, h4⟩ := hw
  intro o ho q hq
  simp only [deleteScript, List.mem_cons, List.mem_nil_iff, or_false] at ho
  rcases ho with rfl | rfl | rfl | rfl <;>
    simp only [FSX.strictArgs, List.mem_cons, List.mem_nil_iff, or_false] at hq <;>
    subst hq <;> assumption

theorem moveScript_strict (root t d : Path) (nmData : List Comp) (nm : Comp) (ht : root <+: t) (hne : t ≠ root) :
    ∀ o ∈ moveScript t d nmData nm, ∀ q ∈ FSX.strictArgs o.1, q ≠ root := by
  have hw := wrapperPaths_ne_root root t ht hne
  simp only [wrapperPaths, List.mem_cons, List.mem_nil_iff, or_false, forall_eq_or_imp, forall_eq] at hw
  obtain ⟨h1, h2, h3, h4⟩ := hw
  intro o ho q hq
  simp only [moveScript, List.mem_cons, List.mem_nil_iff, or_false] at ho
  rcases ho with rfl | rfl | rfl | rfl <;>
    simp only [FSX.strictArgs, List.mem_cons, List.mem_nil_iff, or_false] at hq <;>
    subst hq <;> assumption

theorem isRoot_false {root t : Path} (h : isRoot root t = false) : t ≠ root := by
  simpa [isRoot] using h

theorem withTarget_fs (root : Path) (fs : FS) (pf : Option Bytes) (name : Bytes) (k : Path → FS × Reply)
    (h : ∀ t, (k t).1 = fs) : (withTarget root fs pf name k).1 = fs := by
  unfold withTarget
  split
  · exact h _
  · rfl
  · rfl

theorem getInfo_fs (root : Path) (fs : FS) (pf : Option Bytes) (name : Bytes) : (getInfo root fs pf name).1 = fs := by
  unfold getInfo
  apply withTarget_fs; intro t
  repeat' split
  all_goals rfl

theorem download_fs (root : Path) (fs : FS) (pf : Option Bytes) (name : Bytes) : (download root fs pf name).1 = fs := by
  unfold download
  apply withTarget_fs; intro t
  repeat' split
  all_goals rfl

theorem list_fs (root : Path) (ig : Bytes → Bool) (fs : FS) (pf : Option Bytes) : (list root ig fs pf).1 = fs := by
  unfold list
  apply withTarget_fs; intro t
  repeat' split
  all_goals rfl

theorem uploadFile_fs (root : Path) (fs : FS) (pf : Option Bytes) (name : Bytes) (r : Bool) :
    (uploadFile root fs pf name r).1 = fs := by
  unfold uploadFile
  apply withTarget_fs; intro t
  repeat' split
  all_goals rfl

theorem newFolder_keeps (root : Path) (hr : RootOK root) (fs : FS) (pf : Option Bytes) (name : Bytes) :
    Keeps root fs (newFolder root fs pf name).1 := by
  unfold newFolder
  apply withTarget_keeps
  intro t ht
  have hu := target_under root hr pf name t ht
  have hk : Keeps root fs (runSeq fs [(FSOp.mkdir t, false)]).2 :=
    runSeq_keeps root _ fs (by intro o ho q hq; simp at ho; subst ho; simp [FSOp.args, FSOp.paths] at hq; subst hq; exact hu)
      (by intro o ho q hq; simp at ho; subst ho; simp [FSX.strictArgs] at hq)
  split
  · dsimp only
    split <;> exact hk
  · exact Keeps.rfl' root fs

theorem delete_keeps (root : Path) (hr : RootOK root) (fs : FS) (pf : Option Bytes) (name : Bytes) :
    Keeps root fs (delete root fs pf name).1 := by
  unfold delete
  apply withTarget_keeps
  intro t ht
  have hu := target_under root hr pf name t ht
  by_cases hroot : isRoot root t = true
  · rw [if_pos hroot]; exact Keeps.rfl' root fs
  · rw [if_neg hroot]
    have hne := isRoot_false (by simpa using hroot)
    have hk := runSeq_keeps root (deleteScript t) fs (deleteScript_args_under root t hu hne) (deleteScript_strict root t hu hne)
    split
    · exact Keeps.rfl' root fs
    · exact Keeps.rfl' root fs
    · dsimp only
      split
      · exact Keeps.rfl' root fs
      · split <;> exact hk

theorem move_keeps (root : Path) (hr : RootOK root) (fs : FS) (pf : Option Bytes) (name : Bytes) (newPf : Option Bytes) :
    Keeps root fs (move root fs pf name newPf).1 := by
  unfold move
  apply withTarget_keeps
  intro t ht
  apply withTarget_keeps
  intro d hd
  have hu := target_under root hr pf name t ht
  have hdu := target_under root hr newPf [] d hd
  by_cases hroot : isRoot root t = true
  · rw [if_pos hroot]; exact Keeps.rfl' root fs
  · rw [if_neg hroot]
    have hne := isRoot_false (by simpa using hroot)
    have hk := runSeq_keeps root (moveScript t d [(wrapper t).name] (wrapper t).name) fs
      (moveScript_args_under root t d _ _ hu hne hdu) (moveScript_strict root t d _ _ hu hne)
    split
    · exact Keeps.rfl' root fs
    · exact Keeps.rfl' root fs
    · dsimp only
      split
      · exact Keeps.rfl' root fs
      · split <;> exact hk

theorem alias_keeps (root : Path) (hr : RootOK root) (fs : FS) (pf : Option Bytes) (name : Bytes) (newPf : Option Bytes) :
    Keeps root fs (alias root fs pf name newPf).1 := by
  unfold alias
  apply withTarget_keeps
  intro src hs
  apply withTarget_keeps
  intro dst hd
  have h1 := target_under root hr pf name src hs
  have h2 := target_under root hr newPf name dst hd
  have hk : Keeps root fs (runSeq fs [(FSOp.symlink src dst, false)]).2 :=
    runSeq_keeps root _ fs (by
      intro o ho q hq; simp at ho; subst ho
      simp [FSOp.args] at hq; rcases hq with rfl | rfl <;> assumption)
      (by intro o ho q hq; simp at ho; subst ho; simp [FSX.strictArgs] at hq)
  dsimp only
  split <;> exact hk

theorem commentStep_keeps (root : Path) (fs : FS) (t : Path) (fork : InfoFork) (c : Option Bytes)
    (hinfo : root <+: (wrapper t).info) : Keeps root fs (commentStep fs t fork c).2 := by
  cases c with
  | none => exact Keeps.rfl' root fs
  | some c =>
    exact runSeq_keeps root _ fs (by
      intro o ho q hq; simp at ho; subst ho
      simp [FSOp.args, FSOp.paths] at hq; subst hq; exact hinfo)
      (by intro o ho q hq; simp at ho; subst ho; simp [FSX.strictArgs] at hq)

/-- `os.Rename` onto an existing DIRECTORY never succeeds (Go refuses it) and changes nothing. -/
theorem rename_onto_dir (fs : FS) (a b : Path) (hb : lookup fs b = some .dir) :
    (runSeq fs [(FSOp.rename a b, false)]).1 ≠ .ok ∧ (runSeq fs [(FSOp.rename a b, false)]).2 = fs := by
  have h : (FS.rename fs a b).1 ≠ .ok ∧ (FS.rename fs a b).2 = fs := by
    simp only [FS.rename, hb]
    cases lookup fs a with
    | none => exact ⟨by simp only [missingErr]; split <;> simp, rfl⟩
    | some n => exact ⟨by simp, rfl⟩
  have e : (FSOp.rename a b).apply fs = FS.rename fs a b := rfl
  unfold runSeq
  dsimp only
  rw [e]
  split
  · rename_i hh
    rcases hh with hh | hh
    · exact absurd hh h.1
    · exact absurd hh.1 (by decide)
  · exact h

theorem renameStep_keeps (root : Path) (hr : RootOK root) (fs : FS) (pf : Option Bytes) (t : Path) (isDir : Bool)
    (nn : Option Bytes) (hu : root <+: t) (hne : t ≠ root) (hdir : lookup fs root = some .dir) :
    Keeps root fs (renameStep root fs pf t isDir nn).1 := by
  cases nn with
  | none => exact Keeps.rfl' root fs
  | some nn =>
    simp only [renameStep]
    split
    · apply withTarget_keeps
      intro t' ht'
      have hu' := target_under root hr pf nn t' ht'
      by_cases hroot' : t' = root
      · -- renaming onto the root itself: refused, the information fork step is never reached
        subst hroot'
        obtain ⟨h1, h2⟩ := rename_onto_dir fs t t' hdir
        rw [if_neg h1, h2]
        split <;> exact Keeps.rfl' t' fs
      · have hk : Keeps root fs (runSeq fs [(FSOp.rename t t', false)]).2 :=
          runSeq_keeps root _ _ (by
            intro o ho q hq; simp at ho; subst ho
            simp [FSOp.args, FSOp.paths] at hq; rcases hq with rfl | rfl <;> assumption)
            (by intro o ho q hq; simp at ho; subst ho; simp [FSX.strictArgs] at hq; subst hq; exact hne)
        have hi1 := wrapperPaths_under root t hu hne (wrapper t).info (by simp [wrapperPaths])
        have hi2 := wrapperPaths_under root t' hu' hroot' (wrapper t').info (by simp [wrapperPaths])
        have hn1 := wrapperPaths_ne_root root t hu hne (wrapper t).info (by simp [wrapperPaths])
        have hk2 : ∀ g : FS, Keeps root g (runSeq g [(FSOp.rename (wrapper t).info (wrapper t').info, true)]).2 :=
          fun g => runSeq_keeps root _ g (by
            intro o ho q hq; simp at ho; subst ho
            simp [FSOp.args, FSOp.paths] at hq; rcases hq with rfl | rfl <;> assumption)
            (by intro o ho q hq; simp at ho; subst ho; simp [FSX.strictArgs] at hq; subst hq; exact hn1)
        split
        · exact hk
        · split
          · split <;> exact Keeps.trans hk (hk2 _)
          · exact hk
    · apply withTarget_keeps
      intro d hd
      have hdu := target_under root hr pf [] d hd
      have hk := runSeq_keeps root (moveScript t d (newNameComps nn) (baseName (newNameComps nn))) fs
        (moveScript_args_under root t d _ _ hu hne hdu) (moveScript_strict root t d _ _ hu hne)
      split <;> exact hk

theorem setInfo_keeps (root : Path) (hr : RootOK root) (fs : FS) (pf : Option Bytes) (name : Bytes)
    (comment newName : Option Bytes) (hdir : lookup fs root = some .dir) :
    Keeps root fs (setInfo root fs pf name comment newName).1 := by
  unfold setInfo
  apply withTarget_keeps
  intro t ht
  have hu := target_under root hr pf name t ht
  by_cases hroot : isRoot root t = true
  · rw [if_pos hroot]; exact Keeps.rfl' root fs
  · rw [if_neg hroot]
    have hne := isRoot_false (by simpa using hroot)
    have hw := wrapperPaths_under root t hu hne
    simp only [wrapperPaths, List.mem_cons, List.mem_nil_iff, or_false, forall_eq_or_imp, forall_eq] at hw
    obtain ⟨_, _, _, hinfo⟩ := hw
    split
    · exact Keeps.rfl' root fs
    · split
      · exact Keeps.rfl' root fs
      · exact Keeps.rfl' root fs
      · rename_i f _
        have hk1 := commentStep_keeps root fs t f.fork comment hinfo
        dsimp only
        split
        · exact hk1
        · exact Keeps.trans hk1 (renameStep_keeps root hr _ pf t _ newName hu hne (hk1.2.2 hdir))

/-- C07, frame for every modelled request: whatever the request's bytes, nothing outside the root changes. -/
theorem handle_keeps (root : Path) (hr : RootOK root) (ig : Bytes → Bool) (fs : FS) (req : Req)
    (hdir : lookup fs root = some .dir) : Keeps root fs (handle root ig fs req).1 := by
  cases req with
  | getInfo pf n => simp only [handle, getInfo_fs]; exact Keeps.rfl' root fs
  | setInfo pf n c nn => exact setInfo_keeps root hr fs pf n c nn hdir
  | delete pf n => exact delete_keeps root hr fs pf n
  | move pf n np => exact move_keeps root hr fs pf n np
  | newFolder pf n => exact newFolder_keeps root hr fs pf n
  | alias pf n np => exact alias_keeps root hr fs pf n np
  | list pf => simp only [handle, list_fs]; exact Keeps.rfl' root fs
  | download pf n => simp only [handle, download_fs]; exact Keeps.rfl' root fs
  | uploadFile pf n r => simp only [handle, uploadFile_fs]; exact Keeps.rfl' root fs
  | downloadFolder pf n =>
    simp only [handle]
    apply withTarget_keeps; intro t _; exact Keeps.rfl' root fs

-- ---------------------------------------------------------------- path arguments lie under the root

theorem guardedWrapperPaths_under (root : Path) (hr : RootOK root) (pf : Option Bytes) (name : Bytes) :
    ∀ q ∈ guardedWrapperPaths root pf name, root <+: q := by
  unfold guardedWrapperPaths
  cases ht : target root pf name with
  | ok t =>
    have hu := target_under root hr pf name t ht
    dsimp only
    by_cases hroot : isRoot root t = true
    · rw [if_pos hroot]; intro q hq; simp at hq; subst hq; exact hu
    · rw [if_neg hroot]
      exact wrapperPaths_under root t hu (isRoot_false (by simpa using hroot))
  | err => intro q hq; simp at hq
  | panic => intro q hq; simp at hq

theorem okPaths_under (root : Path) (hr : RootOK root) (pf : Option Bytes) (name : Bytes) :
    ∀ q ∈ okPaths (target root pf name), root <+: q := by
  unfold okPaths
  cases ht : target root pf name with
  | ok t => intro q hq; simp at hq; rw [hq]; exact target_under root hr pf name t ht
  | err => intro q hq; simp at hq
  | panic => intro q hq; simp at hq

theorem movePart_under (root : Path) (hr : RootOK root) (pf pf2 : Option Bytes) (n n2 : Bytes) (nmData : Path → List Comp) (nm : Path → Comp) :
    ∀ q ∈ (match target root pf n, target root pf2 n2 with
       | Res.ok t, Res.ok d => d :: (if isRoot root t then [] else (moveScript t d (nmData t) (nm t)).flatMap (fun (o : FSOp × Bool) => o.1.args))
       | _, _ => ([] : List Path)), root <+: q := by
  cases ht : target root pf n with
  | ok t =>
    cases hd : target root pf2 n2 with
    | ok d =>
      have hu := target_under root hr pf n t ht
      have hdu := target_under root hr pf2 n2 d hd
      dsimp only
      intro q hq
      rcases List.mem_cons.mp hq with rfl | hq
      · exact hdu
      · by_cases hroot : isRoot root t = true
        · rw [if_pos hroot] at hq; simp at hq
        · rw [if_neg hroot] at hq
          obtain ⟨o, ho, hqo⟩ := List.mem_flatMap.mp hq
          exact moveScript_args_under root t d _ _ hu (isRoot_false (by simpa using hroot)) hdu o ho q hqo
    | err => intro q hq; simp at hq
    | panic => intro q hq; simp at hq
  | err => intro q hq; simp at hq
  | panic => intro q hq; simp at hq

/-- Files.contained: every path argument of every modelled request lies under the root — for all
    bytes in the path field, the name, the new name and the destination path. -/
theorem Req.paths_under (root : Path) (hr : RootOK root) (req : Req) : ∀ q ∈ req.paths root, root <+: q := by
  cases req with
  | getInfo pf n => exact guardedWrapperPaths_under root hr pf n
  | download pf n => exact guardedWrapperPaths_under root hr pf n
  | delete pf n => exact guardedWrapperPaths_under root hr pf n
  | move pf n np =>
    intro q hq
    simp only [Req.paths] at hq
    rcases List.mem_append.mp hq with h | h
    · exact guardedWrapperPaths_under root hr pf n q h
    · exact movePart_under root hr pf np n [] (fun t => [(wrapper t).name]) (fun t => (wrapper t).name) q h
  | setInfo pf n c nn =>
    intro q hq
    simp only [Req.paths] at hq
    rcases List.mem_append.mp hq with h | h
    · exact guardedWrapperPaths_under root hr pf n q h
    · cases nn with
      | none => simp at h
      | some nn =>
        dsimp only at h
        rcases List.mem_append.mp h with h | h
        · rcases List.mem_append.mp h with h | h
          · exact okPaths_under root hr pf nn q h
          · cases ht : target root pf n with
            | ok t =>
              cases ht' : target root pf nn with
              | ok t' =>
                simp only [ht, ht'] at h
                by_cases hc : (isRoot root t || isRoot root t') = true
                · rw [if_pos hc] at h; simp at h
                · rw [if_neg hc] at h
                  have hc' : isRoot root t = false ∧ isRoot root t' = false := by simpa using hc
                  have hu := target_under root hr pf n t ht
                  have hu' := target_under root hr pf nn t' ht'
                  simp only [List.mem_cons, List.mem_nil_iff, or_false] at h
                  rcases h with rfl | rfl
                  · exact wrapperPaths_under root t hu (isRoot_false hc'.1) _ (by simp [wrapperPaths])
                  · exact wrapperPaths_under root t' hu' (isRoot_false hc'.2) _ (by simp [wrapperPaths])
              | err => simp [ht, ht'] at h
              | panic => simp [ht, ht'] at h
            | err => simp [ht] at h
            | panic => simp [ht] at h
        · exact movePart_under root hr pf pf n [] (fun _ => newNameComps nn) (fun _ => baseName (newNameComps nn)) q h
  | newFolder pf n => exact okPaths_under root hr pf n
  | alias pf n np =>
    intro q hq
    simp only [Req.paths] at hq
    rcases List.mem_append.mp hq with h | h
    · exact okPaths_under root hr pf n q h
    · exact okPaths_under root hr np n q h
  | list pf => exact okPaths_under root hr pf []
  | uploadFile pf n r => exact okPaths_under root hr pf n
  | downloadFolder pf n => exact okPaths_under root hr pf n

/-- `HandleUploadFile`: the `.incomplete` sibling is only looked at when the target does not exist,
    hence never for the root itself (which exists). -/
theorem uploadFilePaths_under (root : Path) (hr : RootOK root) (fs : FS) (hex : (statOk fs root).isSome)
    (pf : Option Bytes) (name : Bytes) : ∀ q ∈ uploadFilePaths root fs pf name, root <+: q := by
  unfold uploadFilePaths
  cases ht : target root pf name with
  | ok t =>
    have hu := target_under root hr pf name t ht
    dsimp only
    intro q hq
    rcases List.mem_cons.mp hq with rfl | hq
    · exact hu
    · by_cases hs : (statOk fs t).isSome = true
      · rw [if_pos hs] at hq; simp at hq
      · rw [if_neg hs] at hq
        simp at hq; subst hq
        have hne : t ≠ root := by intro e; subst e; exact hs hex
        obtain ⟨r, rfl⟩ := hu
        have hrn : r ≠ [] := by intro e; apply hne; simp [e]
        unfold addSfx
        rw [List.dropLast_append_of_ne_nil hrn, List.append_assoc]
        exact List.prefix_append _ _
  | err => intro q hq; simp at hq
  | panic => intro q hq; simp at hq

-- ---------------------------------------------------------------- folder upload

theorem formattedComps_normal (segs : List Bytes) : ∀ c ∈ formattedComps segs, Normal c :=
  items_normal segs [] (by simp)

theorem addSfx_under (root p : Path) (s : Bytes) (h : root <+: p) (hne : p ≠ root) : root <+: addSfx p s := by
  obtain ⟨r, rfl⟩ := h
  have hrn : r ≠ [] := by intro e; apply hne; simp [e]
  unfold addSfx
  rw [List.dropLast_append_of_ne_nil hrn, List.append_assoc]
  exact List.prefix_append _ _

theorem statMissing_of_lookup {fs : FS} {p : Path} (h : statMissing fs p = true) (hs : (statOk fs p).isSome) : False := by
  unfold statMissing at h
  unfold statOk at hs
  cases hst : stat statFuel fs p with
  | ok v => simp [hst] at h
  | error e => simp [hst] at hs

/-- One `UploadFolderHandler` item: every path argument lies under the transfer's folder, hence
    under the root — the `fileWrapper` side files are only computed for an item that does not
    exist yet, so never for the (existing) upload folder itself. -/
theorem folderItemPaths_under (root full : Path) (fs : FS) (segs : List Bytes) (isFolder : Bool)
    (hfull : root <+: full) (hex : (statOk fs full).isSome) :
    ∀ q ∈ folderItemPaths fs full (formattedComps segs) isFolder, root <+: q := by
  have hj : root <+: full ++ formattedComps segs := under_append root full _ hfull
  have hinc : root <+: full ++ addSfx (formattedComps segs) incSfx := under_append root full _ hfull
  unfold folderItemPaths
  dsimp only
  split
  · intro q hq; simp at hq; subst hq; exact hj
  · intro q hq
    rcases List.mem_append.mp hq with h | h
    · simp at h; rcases h with rfl | rfl <;> assumption
    · split at h
      · rename_i hm
        simp only [Bool.and_eq_true] at hm
        have hne : full ++ formattedComps segs ≠ root := by
          intro e
          -- the join would be the root: then it is `full` itself (root <+: full), which exists
          have hlen : (full ++ formattedComps segs).length = root.length := by rw [e]
          obtain ⟨r, rfl⟩ := hfull
          simp at hlen
          have hr0 : r = [] := by cases r with | nil => rfl | cons _ _ => simp at hlen
          have hf0 : formattedComps segs = [] := by
            cases h0 : formattedComps segs with | nil => rfl | cons _ _ => simp [h0] at hlen
          subst hr0
          simp only [List.append_nil, hf0] at hm hex
          exact statMissing_of_lookup hm.1 hex
        exact wrapperPaths_under root _ hj hne q h
      · simp at h

-- ---------------------------------------------------------------- account files

theorem incSfx_len : incSfx.length = 11 := rfl

theorem splitSlash_append_noslash (a b : Bytes) (hb : slash ∉ b) :
    PathAlg.splitSlash (a ++ b) = (PathAlg.splitSlash a).dropLast ++ [(PathAlg.splitSlash a).getLast?.getD [] ++ b] := by
  induction a with
  | nil => simp [PathAlg.splitSlash, splitSlash_noslash b hb]
  | cons x a ih =>
    by_cases hx : x = slash
    · subst hx
      rw [List.cons_append, splitSlash_slash, splitSlash_slash, ih]
      have hne := splitSlash_ne_nil a
      cases hs : PathAlg.splitSlash a with
      | nil => exact absurd hs hne
      | cons c cs => simp [List.getLast?_cons_cons]
    · rw [List.cons_append, splitSlash_cons_ne x _ hx, splitSlash_cons_ne x a hx, ih]
      have hne := splitSlash_ne_nil a
      cases hs : PathAlg.splitSlash a with
      | nil => exact absurd hs hne
      | cons c cs =>
        cases cs with
        | nil => simp [consHead]
        | cons d ds => simp [consHead, List.getLast?_cons_cons]

theorem normal_append_sfx (x s : Bytes) (hx : slash ∉ x) (hs : slash ∉ s) (hl : 3 ≤ s.length) : Normal (x ++ s) := by
  refine ⟨?_, ?_, ?_, ?_⟩
  · intro e; have := congrArg List.length e
    simp only [List.length_append, List.length_nil] at this; omega
  · intro e; have := congrArg List.length e
    simp only [List.length_append, dot, List.length_cons, List.length_nil] at this; omega
  · intro e; have := congrArg List.length e
    simp only [List.length_append, dotdot, List.length_cons, List.length_nil] at this; omega
  · intro h; rcases List.mem_append.mp h with h | h
    · exact hx h
    · exact hs h

theorem yaml_noslash : slash ∉ yamlSfx := by decide

/-- `path.Join("/", login+".yaml")` always ends in a component `….yaml`: it is never empty. -/
theorem joinRooted_yaml_ne_nil (login : Bytes) : joinRooted [] (login ++ yamlSfx) ≠ [] := by
  unfold joinRooted
  rw [splitSlash_append_noslash login yamlSfx yaml_noslash, List.foldl_append]
  have hl : slash ∉ (PathAlg.splitSlash login).getLast?.getD [] := by
    cases hg : (PathAlg.splitSlash login).getLast? with
    | none => simp
    | some c => simpa using splitSlash_no_slash login c (List.mem_of_getLast? hg)
  have hn := normal_append_sfx _ yamlSfx hl yaml_noslash (by decide)
  simp only [List.foldl_cons, List.foldl_nil]
  rw [step_of_normal _ _ hn]
  simp

theorem strict_under_of_append (dir r : Path) (hr : r ≠ []) : dir <+: dir ++ r ∧ dir ++ r ≠ dir := by
  refine ⟨List.prefix_append _ _, ?_⟩
  intro e
  have := congrArg List.length e
  simp at this
  exact hr this

theorem addSfx_ne_nil (p : Path) (s : Bytes) : addSfx p s ≠ [] := by simp [addSfx]

theorem addSfx_append (dir r : Path) (s : Bytes) (hr : r ≠ []) : addSfx (dir ++ r) s = dir ++ addSfx r s := by
  unfold addSfx baseName
  have hrr := List.dropLast_concat_getLast hr
  have hg : (dir ++ r).getLast? = r.getLast? := by
    rw [← hrr]; simp [List.getLast?_append]
  rw [List.dropLast_append_of_ne_nil hr, hg, List.append_assoc]

/-- Account files: for every login (and every new login of a rename) the file and its temporary
    sibling lie strictly below the accounts directory. -/
theorem acctPaths_under (dir : Path) (login new : Bytes) :
    (∀ q ∈ acctCreatePaths dir login, dir <+: q ∧ q ≠ dir) ∧
    (∀ q ∈ acctUpdatePaths dir login new, dir <+: q ∧ q ≠ dir) ∧
    (∀ q ∈ acctDeletePaths dir login, dir <+: q ∧ q ≠ dir) := by
  have h1 := strict_under_of_append dir _ (joinRooted_yaml_ne_nil login)
  have h1t : dir <+: addSfx (acctFile1 dir login) tmpSfx ∧ addSfx (acctFile1 dir login) tmpSfx ≠ dir := by
    unfold acctFile1
    rw [addSfx_append dir _ tmpSfx (joinRooted_yaml_ne_nil login)]
    exact strict_under_of_append dir _ (addSfx_ne_nil _ _)
  have h2 : ∀ l, dir <+: acctFile2 dir l ∧ acctFile2 dir l ≠ dir :=
    fun l => strict_under_of_append dir _ (addSfx_ne_nil _ _)
  have h2t : dir <+: addSfx (acctFile2 dir new) tmpSfx ∧ addSfx (acctFile2 dir new) tmpSfx ≠ dir := by
    unfold acctFile2
    rw [addSfx_append dir _ tmpSfx (addSfx_ne_nil _ _)]
    exact strict_under_of_append dir _ (addSfx_ne_nil _ _)
  refine ⟨?_, ?_, ?_⟩
  · intro q hq; simp [acctCreatePaths] at hq; rcases hq with rfl | rfl
    · exact h1t
    · exact h1
  · intro q hq; simp [acctUpdatePaths] at hq; rcases hq with rfl | rfl | rfl
    · exact h2 login
    · exact h2 new
    · exact h2t
  · intro q hq; simp [acctDeletePaths] at hq; subst hq; exact h1

theorem not_under_of (dir q x : Path) (hq : dir <+: q) (hx : ¬ dir <+: x) : ¬ q <+: x :=
  fun h => hx (List.IsPrefix.trans hq h)

/-- Account operations change nothing outside the accounts directory. -/
theorem acct_keeps (dir : Path) (fs : FS) (login new yaml : Bytes) :
    (∀ x, ¬ dir <+: x → lookup (acctCreate fs dir login yaml) x = lookup fs x) ∧
    (∀ x, ¬ dir <+: x → lookup (acctUpdate fs dir login new yaml) x = lookup fs x) ∧
    (∀ x, ¬ dir <+: x → lookup (acctDelete fs dir login) x = lookup fs x) := by
  obtain ⟨hc, hu, hd⟩ := acctPaths_under dir login new
  simp only [acctCreatePaths, acctUpdatePaths, acctDeletePaths, List.mem_cons, List.mem_nil_iff, or_false,
    forall_eq_or_imp, forall_eq] at hc hu hd
  refine ⟨?_, ?_, ?_⟩
  · intro x hx
    unfold acctCreate
    dsimp only
    have e1 := writeFile_frame fs _ x yaml (not_under_of dir _ x hc.1.1 hx)
    split
    · exact e1
    · rw [remove_frame _ _ x (not_under_of dir _ x hc.1.1 hx), hardlink_frame _ _ _ x (not_under_of dir _ x hc.2.1 hx), e1]
  · intro x hx
    have hseq : ∀ fs0 : FS, lookup (runSeq fs0 [(FSOp.writeFile (addSfx (acctFile2 dir new) tmpSfx) yaml, false),
        (FSOp.rename (addSfx (acctFile2 dir new) tmpSfx) (acctFile2 dir new), false)]).2 x = lookup fs0 x := by
      intro fs0
      apply runSeq_outside dir _ _ x _ hx
      intro o ho q hq
      simp at ho
      rcases ho with rfl | rfl
      · simp [FSOp.paths] at hq; subst hq; exact hu.2.2.1
      · simp [FSOp.paths] at hq; rcases hq with rfl | rfl
        · exact hu.2.2.1
        · exact hu.2.1.1
    unfold acctUpdate
    dsimp only
    by_cases hne : login ≠ new
    · rw [if_pos hne]
      have e0 := rename_frame fs (acctFile2 dir login) (acctFile2 dir new) x
        (not_under_of dir _ x hu.1.1 hx) (not_under_of dir _ x hu.2.1.1 hx)
      split
      · exact e0
      · rw [hseq, e0]
    · rw [if_neg hne]
      split
      · rfl
      · exact hseq fs
  · intro x hx
    exact remove_frame fs _ x (not_under_of dir _ x hd.1 hx)

-- ---------------------------------------------------------------- shape of a target; histories

theorem readPath_eq (root : Path) (items : List Bytes) (name : Bytes) :
    readPath root items name = root ++ (items.foldl joinRooted [] ++ joinRooted [] name) := by
  unfold readPath
  exact foldl_step_of_normal _ _ (by
    intro c hc
    rcases List.mem_append.mp hc with h | h
    · exact items_normal items [] (by simp) c h
    · exact joinRooted_normal [] name (by simp) c h)

/-- A target is the root followed by `Normal` components only: no `..`, `.`, empty or `/`-containing
    component survives, whatever the bytes of the path items and the name. -/
theorem target_shape (root : Path) (hr : RootOK root) (pf : Option Bytes) (name : Bytes) (t : Path)
    (h : target root pf name = .ok t) : ∃ rest, t = root ++ rest ∧ ∀ c ∈ rest, Normal c := by
  unfold target at h
  cases hp : parsePath pf with
  | ok items =>
    simp only [hp] at h
    injection h with h; subst h
    refine ⟨(items.foldl joinRooted [] ++ joinRooted [] name).map decodeStr, ?_, ?_⟩
    · rw [readPath_eq, List.map_append, hr]
    · intro c hc
      obtain ⟨c0, hc0, rfl⟩ := List.mem_map.mp hc
      apply (normal_decodeStr c0).mpr
      rcases List.mem_append.mp hc0 with h | h
      · exact items_normal items [] (by simp) c0 h
      · exact joinRooted_normal [] name (by simp) c0 h
  | err => simp [hp] at h
  | panic => simp [hp] at h

/-- Run a history of requests. -/
def handleAll (root : Path) (ig : Bytes → Bool) (fs : FS) (reqs : List Req) : FS :=
  reqs.foldl (fun fs r => (handle root ig fs r).1) fs

theorem handleAll_keeps (root : Path) (hr : RootOK root) (ig : Bytes → Bool) (fs : FS) (reqs : List Req)
    (hdir : lookup fs root = some .dir) : Keeps root fs (handleAll root ig fs reqs) := by
  induction reqs generalizing fs with
  | nil => exact Keeps.rfl' root fs
  | cons r rs ih =>
    have h1 := handle_keeps root hr ig fs r hdir
    exact Keeps.trans h1 (ih (handle root ig fs r).1 (h1.2.2 hdir))

-- ---------------------------------------------------------------- file list (C11)

/-- The entry can be shown: it resolves (an alias whose target is gone is skipped by the server). -/
def visible (fs : FS) (d : Path) (ig : Bytes → Bool) (c : Comp × Node) : Bool :=
  match entryInfo fs d ig c.1 c.2 with
  | .ok (some _) => true
  | _ => false

/-- What the list shows of a folder: not ignored, resolvable, name representable in Mac-Roman. -/
def shown (fs : FS) (d : Path) (ig : Bytes → Bool) (c : Comp × Node) : Bool :=
  !ig c.1 && visible fs d ig c && (encStr (trimInc c.1)).isSome

theorem listEntries_spec (fs : FS) (d : Path) (ig : Bytes → Bool) (cs : List (Comp × Node)) (es : List Entry)
    (h : listEntries fs d ig cs = .ok es) :
    es.map (·.disk) = (cs.filter (shown fs d ig)).map (·.1) ∧
    ∀ e ∈ es, encStr (trimInc e.disk) = some e.name := by
  induction cs generalizing es with
  | nil =>
    simp [listEntries] at h; subst h; simp
  | cons c cs ih =>
    obtain ⟨n, node⟩ := c
    unfold listEntries at h
    by_cases hig : ig n = true
    · simp only [hig, if_true] at h
      have := ih es h
      simp [shown, hig, this.1]
      exact this.2
    · simp only [hig] at h
      have hig' : ig n = false := by simpa using hig
      cases hei : entryInfo fs d ig n node with
      | err => simp [hei] at h
      | panic => simp [hei] at h
      | ok o =>
        cases o with
        | none =>
          simp only [hei] at h
          have := ih es h
          refine ⟨?_, this.2⟩
          simp [shown, visible, hei, this.1]
        | some tcs =>
          obtain ⟨ty, cr, sz⟩ := tcs
          simp only [hei] at h
          cases hrest : listEntries fs d ig cs with
          | err => simp [hrest] at h
          | panic => simp [hrest] at h
          | ok es' =>
            simp only [hrest] at h
            have := ih es' hrest
            cases henc : encStr (trimInc n) with
            | none =>
              simp only [henc] at h
              injection h with h; subst h
              refine ⟨?_, this.2⟩
              simp [shown, visible, hei, henc, this.1]
            | some en =>
              simp only [henc] at h
              injection h with h; subst h
              refine ⟨?_, ?_⟩
              · simp [shown, visible, hei, henc, hig', this.1]
              · intro e he
                rcases List.mem_cons.mp he with rfl | he
                · exact henc
                · exact this.2 e he

/-- C11 list clause: the list shows exactly the entries of the folder that match no ignore pattern
    (and can be shown at all), each exactly once, a partial upload under its final name. -/
theorem fileList_exact (fs : FS) (d : Path) (ig : Bytes → Bool) (es : List Entry) (h : fileList fs d ig = .ok es) :
    (es.map (·.disk)).Nodup ∧
    (∀ n, n ∈ es.map (·.disk) ↔ ∃ nd, lookup fs (d ++ [n]) = some nd ∧ shown fs d ig (n, nd) = true) ∧
    (∀ e ∈ es, encStr (trimInc e.disk) = some e.name) := by
  obtain ⟨h1, h2⟩ := listEntries_spec fs d ig (children fs d) es h
  refine ⟨?_, ?_, h2⟩
  · rw [h1]
    exact (children_names_nodup fs d).sublist (List.Sublist.map _ List.filter_sublist)
  · intro n
    rw [h1, List.mem_map]
    constructor
    · rintro ⟨c, hc, rfl⟩
      obtain ⟨hmem, hs⟩ := List.mem_filter.mp hc
      exact ⟨c.2, (mem_children fs d c.1 c.2).mp hmem, hs⟩
    · rintro ⟨nd, hl, hs⟩
      exact ⟨(n, nd), List.mem_filter.mpr ⟨(mem_children fs d n nd).mpr hl, hs⟩, rfl⟩

-- ---------------------------------------------------------------- addressing by the listed name

theorem joinRooted_nil_nil : joinRooted [] [] = [] := by decide

theorem joinRooted_normal_one (acc : List Comp) (m : Bytes) (hm : Normal m) : joinRooted acc m = acc ++ [m] := by
  unfold joinRooted
  rw [splitSlash_noslash m hm.2.2.2]
  simp [step_of_normal acc m hm]

/-- C11 addressing clause: the bytes shown in the list for an entry `n` of the folder addressed by
    `pf`, sent back unchanged as the file name, make `ReadPath` resolve to that entry
    (`decodeStr ∘ encStr = id`, and a listed name is one `Normal` component). -/
theorem listed_name_resolves (root : Path) (pf : Option Bytes) (d : Path) (n m : Bytes)
    (hd : target root pf [] = .ok d) (hn : Normal n) (hm : encStr n = some m) :
    target root pf m = .ok (d ++ [n]) := by
  have hmn := encStr_normal n m hm hn
  unfold target at hd ⊢
  cases hp : parsePath pf with
  | ok items =>
    simp only [hp] at hd ⊢
    injection hd with hd
    rw [readPath_eq, joinRooted_nil_nil, List.append_nil] at hd
    rw [readPath_eq, joinRooted_normal_one [] m hmn, ← hd]
    simp [decodeStr_encStr n m hm]
  | err => simp [hp] at hd
  | panic => simp [hp] at hd

/-- Every handler starts with `withTarget root fs pf name`: with a listed name it runs on the listed entry. -/
theorem withTarget_listed (root : Path) (fs : FS) (pf : Option Bytes) (d : Path) (n m : Bytes)
    (hd : target root pf [] = .ok d) (hn : Normal n) (hm : encStr n = some m) (k : Path → FS × Reply) :
    withTarget root fs pf m k = k (d ++ [n]) := by
  unfold withTarget
  rw [listed_name_resolves root pf d n m hd hn hm]

-- ---------------------------------------------------------------- the three views of a regular file

theorem stat_file (fs : FS) (p : Path) (b : Bytes) (h : lookup fs p = some (.file b)) (hp : firstSpecial fs p = none) :
    stat statFuel fs p = .ok (p, .file b) := by
  simp [statFuel, stat, h, hp]

theorem statOk_file (fs : FS) (p : Path) (b : Bytes) (h : lookup fs p = some (.file b)) (hp : firstSpecial fs p = none) :
    statOk fs p = some (.file b) := by
  simp [statOk, stat_file fs p b h hp]

/-- C11 agreement clause: for a regular file without resource fork the size in the list, in
    get-info and in the download reply equal the number of bytes on disk (as uint32), and the type
    code in the list equals the one in get-info. -/
theorem views_agree (root : Path) (ig : Bytes → Bool) (fs : FS) (pf : Option Bytes) (name : Bytes) (d : Path) (n : Comp)
    (b : Bytes) (f : Ffo)
    (ht : target root pf name = .ok (d ++ [n])) (hnr : isRoot root (d ++ [n]) = false)
    (hfile : lookup fs (d ++ [n]) = some (.file b)) (hplain : firstSpecial fs (d ++ [n]) = none)
    (hrsrc : statOk fs (wrapper (d ++ [n])).rsrc = none)
    (hffo : ffo fs (d ++ [n]) = .ok f) (en : Bytes) (hen : encStr (wrapper (d ++ [n])).name = some en) :
    let ty := f.fork.ty.take 4
    let sz := b.length % 4294967296
    entryInfo fs d ig n (.file b) = .ok (some (ty, f.fork.creator.take 4, sz)) ∧
    (getInfo root fs pf name).2 = .info en (friendly ty) (friendly (f.fork.creator.take 4)) ty
        (if f.fork.comment = [] then none else some f.fork.comment) (if ty = tyFldr then none else some sz) ∧
    (∃ x, (download root fs pf name).2 = .download x sz) := by
  have hts : totalSize fs (d ++ [n]) = b.length % 4294967296 := by
    unfold totalSize rsrcSize
    have : (wrapper (d ++ [n])).data = d ++ [n] := rfl
    simp [this, statOk_file fs _ b hfile hplain, hrsrc, Node.size]
  have hds : f.dataSize = b.length := by
    unfold ffo at hffo
    have : (wrapper (d ++ [n])).data = d ++ [n] := rfl
    simp only [this, stat_file fs _ b hfile hplain] at hffo
    split at hffo
    · split at hffo
      · injection hffo with hffo; rw [← hffo]; rfl
      · split at hffo
        · injection hffo with hffo; rw [← hffo]; rfl
        · cases hffo
        · cases hffo
    · cases hffo
    · injection hffo with hffo; rw [← hffo]; rfl
  refine ⟨?_, ?_, ?_⟩
  · simp only [entryInfo, hffo, hts]
  · unfold getInfo withTarget
    simp only [ht, hnr, hffo, hen, hts]
    rfl
  · unfold download withTarget
    simp only [ht, hnr, hffo, hds]
    exact ⟨_, rfl⟩

-- ---------------------------------------------------------------- mutating requests: reference semantics

/-- Create-folder never replaces an existing entry: if anything is bound at the target (file,
    folder or alias — dangling or not), the namespace is unchanged and the reply is an error. -/
theorem newFolder_never_replaces (root : Path) (fs : FS) (pf : Option Bytes) (name : Bytes) (t : Path) (n : Node)
    (ht : target root pf name = .ok t) (hex : lookup fs t = some n) :
    newFolder root fs pf name = (fs, .err) := by
  unfold newFolder withTarget
  simp only [ht]
  split
  · -- Stat said "not found" although the path is bound (a dangling alias): Mkdir fails with EEXIST
    simp [runSeq, FSOp.apply, FS.mkdir, hex]
  · rfl

/-- Create-folder on a free name inside an existing folder creates exactly that folder. -/
theorem newFolder_creates (root : Path) (fs : FS) (pf : Option Bytes) (name : Bytes) (t : Path)
    (ht : target root pf name = .ok t) (hfree : lookup fs t = none) (hne : t ≠ [])
    (hparent : lookup fs t.dropLast = some .dir) (hst : stat statFuel fs t = .error .notExist) :
    newFolder root fs pf name = ((t, .dir) :: fs, .ok) := by
  unfold newFolder withTarget
  simp only [ht, hst]
  have hp : parentErr fs t = .ok := by
    unfold parentErr
    cases t with
    | nil => exact absurd rfl hne
    | cons a as => simp only [hparent]
  simp [runSeq, FSOp.apply, FS.mkdir, hfree, hp]

/-- Alias = symlink: an acknowledged make-alias binds the destination to a link to the source path. -/
theorem alias_is_symlink (root : Path) (fs : FS) (pf : Option Bytes) (name : Bytes) (newPf : Option Bytes) (src dst : Path) (fs' : FS)
    (hs : target root pf name = .ok src) (hd : target root newPf name = .ok dst)
    (hok : alias root fs pf name newPf = (fs', .ok)) :
    fs' = (dst, .link src) :: fs ∧ lookup fs' dst = some (.link src) ∧ lookup fs dst = none := by
  unfold alias withTarget at hok
  simp only [hs, hd, runSeq, FSOp.apply, FS.symlink] at hok
  cases hl : lookup fs dst with
  | some x => simp [hl] at hok
  | none =>
    simp only [hl] at hok
    cases hp : parentErr fs dst with
    | ok =>
      simp [hp] at hok
      subst hok
      exact ⟨rfl, by simp [lookup], rfl⟩
    | notExist => simp [hp] at hok
    | other => simp [hp] at hok

theorem lookup_writeFile (fs fs' : FS) (p : Path) (d : Bytes) (h : FS.writeFile fs p d = (.ok, fs')) :
    lookup fs' p = some (.file d) := by
  unfold FS.writeFile at h
  split at h
  · injection h with _ h; subst h; simp [lookup]
  · injection h with h _; cases h
  · split at h
    · injection h with _ h; subst h; simp [lookup]
    · rename_i e he
      injection h with h _
      exact absurd h he

/-- Set-comment writes the information fork: after an acknowledged set-comment (no rename) the
    `.info_<name>` side file holds the fork with the new comment; nothing else changes. -/
theorem setComment_writes_info (root : Path) (fs : FS) (pf : Option Bytes) (name c : Bytes) (t : Path) (f : Ffo) (fs' : FS)
    (ht : target root pf name = .ok t) (hffo : ffo fs t = .ok f)
    (hok : setInfo root fs pf name (some c) none = (fs', .ok)) :
    lookup fs' (wrapper t).info = some (.file ({ f.fork with comment := c }).encode) ∧
    ∀ x, x ≠ (wrapper t).info → lookup fs' x = lookup fs x := by
  unfold setInfo withTarget at hok
  simp only [ht] at hok
  split at hok
  · cases hok
  · split at hok
    · cases hok
    · simp only [hffo, commentStep, runSeq, FSOp.apply, renameStep] at hok
      cases hw : FS.writeFile fs (wrapper t).info ({ f.fork with comment := c }).encode with
      | mk e fs1 =>
        simp only [hw] at hok
        cases e with
        | ok =>
          simp at hok
          subst hok
          refine ⟨lookup_writeFile fs _ _ _ hw, ?_⟩
          intro x hx
          have : fs1 = (FS.writeFile fs (wrapper t).info ({ f.fork with comment := c }).encode).2 := by rw [hw]
          rw [this]
          unfold FS.writeFile
          split
          · show lookup (_ :: erase fs _) x = _
            rw [lookup_cons_ne _ _ _ _ (Ne.symm hx), lookup_erase fs _ x (Ne.symm hx)]
          · rfl
          · split
            · exact lookup_cons_ne _ _ _ _ (Ne.symm hx)
            · rfl
        | notExist => simp at hok
        | other => simp at hok

-- ---------------------------------------------------------------- delete

theorem runSeq_cons_ok (fs fs' : FS) (op : FSOp) (tol : Bool) (rest : List (FSOp × Bool))
    (h : runSeq fs ((op, tol) :: rest) = (.ok, fs')) :
    ((op.apply fs).1 = .ok ∨ (tol = true ∧ (op.apply fs).1 = .notExist)) ∧ runSeq (op.apply fs).2 rest = (.ok, fs') := by
  unfold runSeq at h
  dsimp only at h
  split at h
  · rename_i hc; exact ⟨hc, h⟩
  · rename_i hc
    have : (op.apply fs).1 = .ok := by rw [h]
    exact absurd (Or.inl this) hc

theorem runSeq_nil_ok (fs fs' : FS) (h : runSeq fs [] = (.ok, fs')) : fs' = fs := by
  simp [runSeq] at h; exact h.symm

theorem lookup_none_of_forall (fs : FS) (x : Path) (h : ∀ e ∈ fs, e.1 ≠ x) : lookup fs x = none := by
  induction fs with
  | nil => rfl
  | cons e fs ih =>
    rw [lookup_cons, if_neg (h e (by simp))]
    exact ih (fun e he => h e (by simp [he]))

theorem lookup_erase_self (fs : FS) (p : Path) : lookup (erase fs p) p = none := by
  apply lookup_none_of_forall
  intro e he
  have := (List.mem_filter.mp he).2
  simpa using this

theorem lookup_removeAll_under (fs : FS) (p x : Path) (h : p <+: x) : lookup (FS.removeAll fs p).2 x = none := by
  apply lookup_none_of_forall
  intro e he hx
  have := (List.mem_filter.mp he).2
  simp [hx, h] at this

/-- `os.Remove` that succeeded, or failed with "not found": afterwards nothing is bound at `p`;
    every other path is untouched. -/
theorem remove_tolerated (fs : FS) (p : Path)
    (h : (FS.remove fs p).1 = .ok ∨ (FS.remove fs p).1 = .notExist) :
    lookup (FS.remove fs p).2 p = none ∧ ∀ x, x ≠ p → lookup (FS.remove fs p).2 x = lookup fs x := by
  unfold FS.remove at h ⊢
  cases hl : lookup fs p with
  | none => simp [hl]
  | some n =>
    cases n with
    | dir =>
      simp only [hl] at h ⊢
      split
      · rename_i hc; simp [hc] at h
      · exact ⟨lookup_erase_self fs p, fun x hx => lookup_erase fs p x (Ne.symm hx)⟩
    | file b => exact ⟨lookup_erase_self fs p, fun x hx => lookup_erase fs p x (Ne.symm hx)⟩
    | link t => exact ⟨lookup_erase_self fs p, fun x hx => lookup_erase fs p x (Ne.symm hx)⟩

theorem prefix_same_length {a b x : Path} (ha : a <+: x) (hb : b <+: x) (hl : a.length = b.length) : a = b := by
  obtain ⟨r, rfl⟩ := ha
  obtain ⟨s, hs⟩ := hb
  have := List.append_inj hs.symm hl
  exact this.1

theorem rsrc_ne_info : rsrcPfx ≠ infoPfx := by decide

/-- The four paths of a wrapper are pairwise different and have the same length (for a non-empty path). -/
theorem wrapper_distinct (t : Path) (ht : t ≠ []) :
    let w := wrapper t
    w.data.length = t.length ∧ w.inc.length = t.length ∧ w.rsrc.length = t.length ∧ w.info.length = t.length ∧
    w.inc ≠ w.data ∧ w.rsrc ≠ w.data ∧ w.info ≠ w.data ∧ w.inc ≠ w.rsrc ∧ w.inc ≠ w.info ∧ w.rsrc ≠ w.info := by
  have hdl := List.dropLast_concat_getLast ht
  have hb : baseName t = t.getLast ht := by
    unfold baseName; rw [List.getLast?_eq_some_getLast ht]; rfl
  have hpos : 0 < t.length := List.length_pos_iff.mpr ht
  have hlen : t.dropLast.length + 1 = t.length := by
    rw [List.length_dropLast]; omega
  have hdata : (wrapper t).data = t.dropLast ++ [baseName t] := by rw [hb, hdl]; rfl
  dsimp only
  have hl1 : ∀ c : Comp, (t.dropLast ++ [c]).length = t.length := by intro c; simp; omega
  refine ⟨rfl, hl1 _, hl1 _, hl1 _, ?_, ?_, ?_, ?_, ?_, ?_⟩
  · rw [hdata]; intro e
    have := List.append_cancel_left e
    have := congrArg List.length (List.cons.inj this).1
    simp only [List.length_append, incSfx, List.length_cons, List.length_nil] at this; omega
  · rw [hdata]; intro e
    have := List.append_cancel_left e
    have := congrArg List.length (List.cons.inj this).1
    simp only [List.length_append, rsrcPfx, List.length_cons, List.length_nil] at this; omega
  · rw [hdata]; intro e
    have := List.append_cancel_left e
    have := congrArg List.length (List.cons.inj this).1
    simp only [List.length_append, infoPfx, List.length_cons, List.length_nil] at this; omega
  · intro e
    have := List.append_cancel_left e
    have := congrArg List.length (List.cons.inj this).1
    simp only [List.length_append, incSfx, rsrcPfx, List.length_cons, List.length_nil] at this; omega
  · intro e
    have := List.append_cancel_left e
    have := congrArg List.length (List.cons.inj this).1
    simp only [List.length_append, incSfx, infoPfx, List.length_cons, List.length_nil] at this; omega
  · intro e
    have := List.append_cancel_left e
    have h6 := congrArg (List.take 6) (List.cons.inj this).1
    simp [rsrcPfx, infoPfx] at h6

theorem ne_nil_of_strict_under {root t : Path} (h : root <+: t) (hne : t ≠ root) : t ≠ [] := by
  intro e; subst e
  exact hne (List.prefix_nil.mp h).symm

/-- Delete removes the whole file: after an acknowledged delete nothing is bound at or below the
    target nor at its `.incomplete` / `.rsrc_` / `.info_` side files, and every other path is unchanged. -/
theorem delete_removes_whole (root : Path) (hr : RootOK root) (fs : FS) (pf : Option Bytes) (name : Bytes) (t : Path) (fs' : FS)
    (ht : target root pf name = .ok t) (hok : delete root fs pf name = (fs', .ok)) :
    (∀ x, t <+: x → lookup fs' x = none) ∧
    lookup fs' (wrapper t).inc = none ∧ lookup fs' (wrapper t).rsrc = none ∧ lookup fs' (wrapper t).info = none ∧
    (∀ x, ¬ t <+: x → x ≠ (wrapper t).inc → x ≠ (wrapper t).rsrc → x ≠ (wrapper t).info → lookup fs' x = lookup fs x) := by
  have hu := target_under root hr pf name t ht
  unfold delete withTarget at hok
  simp only [ht] at hok
  by_cases hroot : isRoot root t = true
  · rw [if_pos hroot] at hok; cases hok
  · rw [if_neg hroot] at hok
    have htne := ne_nil_of_strict_under hu (isRoot_false (by simpa using hroot))
    obtain ⟨_, hli, hlr, hlf, hid, hrd, hfd, hir, hif, hrf⟩ := wrapper_distinct t htne
    have hdata : (wrapper t).data = t := rfl
    rw [hdata] at hid hrd hfd
    -- the reply is `ok`: the script ran to the end
    have hrun : runSeq fs (deleteScript t) = (.ok, fs') := by
      split at hok
      · cases hok
      · cases hok
      · split at hok
        · cases hok
        · split at hok
          · rename_i h1
            injection hok with h2 _
            exact Prod.ext h1 h2
          · cases hok
    unfold deleteScript at hrun
    dsimp only at hrun
    rw [hdata] at hrun
    obtain ⟨_, h1⟩ := runSeq_cons_ok _ _ _ _ _ hrun
    obtain ⟨c2, h2⟩ := runSeq_cons_ok _ _ _ _ _ h1
    obtain ⟨c3, h3⟩ := runSeq_cons_ok _ _ _ _ _ h2
    obtain ⟨c4, h4⟩ := runSeq_cons_ok _ _ _ _ _ h3
    have h5 := runSeq_nil_ok _ _ h4
    simp only [FSOp.apply] at c2 c3 c4 h5
    have t2 := remove_tolerated _ (wrapper t).inc (c2.imp id (·.2))
    have t3 := remove_tolerated _ (wrapper t).rsrc (c3.imp id (·.2))
    have t4 := remove_tolerated _ (wrapper t).info (c4.imp id (·.2))
    -- a side file is not below the target, nor is anything below the target a side file
    have side_not_under : ∀ q, q.length = t.length → q ≠ t → ∀ x, t <+: x → x ≠ q := by
      intro q hl hq x hx e
      subst e
      exact hq (List.IsPrefix.eq_of_length hx hl.symm).symm
    subst h5
    refine ⟨?_, ?_, ?_, ?_, ?_⟩
    · intro x hx
      rw [t4.2 x (side_not_under _ hlf hfd x hx), t3.2 x (side_not_under _ hlr hrd x hx),
        t2.2 x (side_not_under _ hli hid x hx)]
      exact lookup_removeAll_under fs t x hx
    · rw [t4.2 _ hif, t3.2 _ hir]; exact t2.1
    · rw [t4.2 _ hrf]; exact t3.1
    · exact t4.1
    · intro x hx h1 h2 h3
      rw [t4.2 x h3, t3.2 x h2, t2.2 x h1]
      exact removeAll_frame fs t x hx

-- ---------------------------------------------------------------- rename / move

theorem lookup_rekey_dst (fs : FS) (a b : Path) (hnb : ∀ e ∈ fs, e.1 ≠ b) :
    lookup (fs.map (rekey a b)) b = lookup fs a := by
  induction fs with
  | nil => rfl
  | cons e fs ih =>
    have ih' := ih (fun e he => hnb e (by simp [he]))
    simp only [List.map_cons, lookup_cons]
    unfold rekey
    by_cases hp : a <+: e.1
    · rw [if_pos hp]
      by_cases hea : e.1 = a
      · simp [hea]
      · have : b ++ e.1.drop a.length ≠ b := by
          intro h
          have h2 : e.1.drop a.length = [] := by simpa using h
          obtain ⟨r, hr⟩ := hp
          rw [← hr] at h2
          simp at h2
          subst h2
          simp at hr
          exact hea hr.symm
        simp only [this, hea, if_false]
        exact ih'
    · rw [if_neg hp]
      have h1 : e.1 ≠ b := hnb e (by simp)
      have h2 : e.1 ≠ a := fun h => hp (h ▸ List.prefix_refl a)
      simp only [h1, h2, if_false]
      exact ih'

theorem lookup_rekey_src (fs : FS) (a b : Path) (hba : ¬ b <+: a) : lookup (fs.map (rekey a b)) a = none := by
  apply lookup_none_of_forall
  intro e he
  obtain ⟨e0, _, rfl⟩ := List.mem_map.mp he
  unfold rekey
  by_cases hp : a <+: e0.1
  · rw [if_pos hp]
    intro h
    exact hba (h ▸ List.prefix_append b _)
  · rw [if_neg hp]
    intro h
    exact hp (h ▸ List.prefix_refl a)

theorem erase_ne (fs : FS) (b : Path) : ∀ e ∈ erase fs b, e.1 ≠ b := by
  intro e he
  have := (List.mem_filter.mp he).2
  simpa using this

/-- `os.Rename(a, b)` that succeeded (a ≠ b, neither an ancestor of the other): the node that was at
    `a` is now at `b`, nothing is bound at `a`, and paths outside both are untouched. -/
theorem rename_ok_spec (fs fs' : FS) (a b : Path) (h : FS.rename fs a b = (.ok, fs')) (hab : a ≠ b) (hba : ¬ b <+: a) :
    lookup fs' b = lookup fs a ∧ lookup fs' a = none ∧ lookup fs a ≠ none ∧ parentErr fs a = .ok ∧ parentErr fs b = .ok ∧
    (∀ x, ¬ a <+: x → ¬ b <+: x → lookup fs' x = lookup fs x) := by
  have hfr := rename_frame fs a b
  rw [h] at hfr
  unfold FS.rename at h
  split at h
  · split at h
    · injection h with h _; unfold missingErr at h; split at h <;> cases h
    · injection h with h _; cases h
  · split at h
    · rename_i hpa
      split at h
      · rename_i hpb
        split at h
        · injection h with h _; cases h
        · rename_i na hla
          rw [if_neg hab] at h
          split at h
          · injection h with h _; cases h
          · split at h
            · injection h with h _; cases h
            · injection h with _ h
              subst h
              refine ⟨?_, ?_, ?_, hpa, hpb, fun x hx1 hx2 => hfr x hx1 hx2⟩
              · rw [lookup_rekey_dst _ a b (erase_ne fs b), lookup_erase fs b a (Ne.symm hab)]
              · exact lookup_rekey_src _ a b hba
              · rw [hla]; simp
      · rename_i e he
        injection h with h _ <;> exact absurd h he
    · rename_i e he
      injection h with h _ <;> exact absurd h he

/-- `os.Rename(a, b)` that failed: the namespace is unchanged; "not found" means the old name is
    not bound, or one of the two parent folders does not resolve. -/
theorem rename_err_spec (fs fs' : FS) (a b : Path) (e : Err) (h : FS.rename fs a b = (e, fs')) (he : e ≠ .ok) :
    fs' = fs ∧ (e = .notExist → lookup fs a = none ∨ parentErr fs b ≠ .ok ∨ parentErr fs a ≠ .ok) := by
  unfold FS.rename at h
  split at h
  · split at h
    · rename_i hla; injection h with _ h2; exact ⟨h2.symm, fun _ => Or.inl hla⟩
    · injection h with h1 h2; exact ⟨h2.symm, fun e' => by rw [← h1] at e'; cases e'⟩
  · split at h
    · split at h
      · split at h
        · rename_i hla; injection h with _ h2; exact ⟨h2.symm, fun _ => Or.inl hla⟩
        · split at h
          · injection h with h1 _; exact absurd h1.symm he
          · split at h
            · injection h with h1 h2; exact ⟨h2.symm, fun e' => by rw [← h1] at e'; cases e'⟩
            · split at h
              · injection h with h1 h2; exact ⟨h2.symm, fun e' => by rw [← h1] at e'; cases e'⟩
              · injection h with h1 _; exact absurd h1.symm he
      · rename_i e0 he0
        injection h with _ h2
        exact ⟨h2.symm, fun _ => Or.inr (Or.inl he0)⟩
    · rename_i e0 he0
      injection h with _ h2
      exact ⟨h2.symm, fun _ => Or.inr (Or.inr he0)⟩

theorem parentErr_concat (fs : FS) (d : Path) (x : Comp) :
    parentErr fs (d ++ [x]) = .ok ↔ lookup fs d = some .dir := by
  unfold parentErr
  have : (d ++ [x]).dropLast = d := by simp
  cases hd : d ++ [x] with
  | nil => simp at hd
  | cons y ys =>
    rw [← hd, this]
    cases hl : lookup fs d with
    | none => simp [missingErr]; split <;> simp
    | some n => cases n <;> simp

/-- One tolerant step of `fileWrapper.Move`: the rename succeeded or reported "not found" while both
    folders exist and the destination name is free. -/
theorem rename_tol_spec (fs : FS) (a b : Path) (hab : a ≠ b) (hba : ¬ b <+: a)
    (hfree : lookup fs b = none) (hpar : parentErr fs b = .ok) (hpara : parentErr fs a = .ok)
    (h : (FS.rename fs a b).1 = .ok ∨ (FS.rename fs a b).1 = .notExist) :
    lookup (FS.rename fs a b).2 b = lookup fs a ∧ lookup (FS.rename fs a b).2 a = none ∧
    (∀ x, ¬ a <+: x → ¬ b <+: x → lookup (FS.rename fs a b).2 x = lookup fs x) := by
  cases hr : FS.rename fs a b with
  | mk e fs1 =>
    rw [hr] at h
    rcases h with h | h
    · simp only at h; subst h
      obtain ⟨h1, h2, _, _, _, h4⟩ := rename_ok_spec fs fs1 a b hr hab hba
      exact ⟨h1, h2, h4⟩
    · simp only at h; subst h
      obtain ⟨h1, h2⟩ := rename_err_spec fs fs1 a b .notExist hr (by decide)
      subst h1
      rcases h2 rfl with h3 | h3 | h3
      · exact ⟨by rw [hfree, h3], h3, fun _ _ _ => rfl⟩
      · exact absurd hpar h3
      · exact absurd hpara h3

theorem prefix_concat_cases {a d : Path} {x : Comp} (h : a <+: d ++ [x]) : a = d ++ [x] ∨ a <+: d := by
  obtain ⟨r, hr⟩ := h
  cases hrr : r.reverse with
  | nil =>
    have : r = [] := by simpa using hrr
    subst this
    left; simpa using hr
  | cons z zs =>
    have : r = zs.reverse ++ [z] := by
      have := congrArg List.reverse hrr; simpa using this
    subst this
    right
    rw [← List.append_assoc] at hr
    have := List.append_inj' hr rfl
    exact ⟨zs.reverse, this.1⟩

/-- Separation of a move of `t` to folder `d` under the name `nm`: no source path (data fork, side
    files) is a destination path, no source lies on the way to the destination folder, no
    destination lies on the way to the source folder — true for every move or rename of a regular
    file to a different place in a real tree. -/
structure MoveSep (t d : Path) (nm : Comp) : Prop where
  src_ne_dst : ∀ a ∈ wrapperPaths t, ∀ b ∈ wrapperPaths (d ++ [nm]), a ≠ b
  src_not_above : ∀ a ∈ wrapperPaths t, ¬ a <+: d
  dst_not_above : ∀ b ∈ wrapperPaths (d ++ [nm]), ¬ b <+: t.dropLast

theorem wrapper_concat (d : Path) (nm : Comp) :
    wrapper (d ++ [nm]) = ⟨d ++ [nm], d ++ [nm ++ incSfx], d ++ [rsrcPfx ++ nm], d ++ [infoPfx ++ nm], nm⟩ := by
  simp [wrapper, baseName]

theorem not_concat_prefix (d : Path) (x : Comp) : ¬ d ++ [x] <+: d := by
  intro h
  have := h.length_le
  simp at this
  omega

/-- Rename / move carry the whole file: after `fileWrapper.Move` ran to the end, the data fork and
    every side file (`.incomplete`, `.rsrc_`, `.info_`) are bound at the destination names exactly as
    they were at the source names (absent stays absent), nothing is left at the source names, and no
    other path changes. -/
theorem move_carries (fs fs' : FS) (t d : Path) (nm : Comp) (ht : t ≠ [])
    (hrun : runSeq fs (moveScript t d [nm] nm) = (.ok, fs')) (hsep : MoveSep t d nm)
    (hfree : ∀ b ∈ (wrapperPaths (d ++ [nm])).tail, lookup fs b = none) :
    let w := wrapper t
    let v := wrapper (d ++ [nm])
    lookup fs' v.data = lookup fs w.data ∧ lookup fs' v.inc = lookup fs w.inc ∧
    lookup fs' v.rsrc = lookup fs w.rsrc ∧ lookup fs' v.info = lookup fs w.info ∧
    (∀ a ∈ wrapperPaths t, lookup fs' a = none) ∧ lookup fs t ≠ none ∧
    (∀ x, (∀ a ∈ wrapperPaths t, ¬ a <+: x) → (∀ b ∈ wrapperPaths (d ++ [nm]), ¬ b <+: x) → lookup fs' x = lookup fs x) := by
  obtain ⟨_, hla2, hla3, hla4, a21, a31, a41, a23, a24, a34⟩ := wrapper_distinct t ht
  obtain ⟨_, hlb2, hlb3, hlb4, b21, b31, b41, b23, b24, b34⟩ := wrapper_distinct (d ++ [nm]) (by simp)
  have hdata : (wrapper t).data = t := rfl
  have hvdata : (wrapper (d ++ [nm])).data = d ++ [nm] := rfl
  rw [hdata] at a21 a31 a41
  rw [hvdata] at b21 b31 b41
  have hvinc : (wrapper (d ++ [nm])).inc = d ++ [nm ++ incSfx] := by rw [wrapper_concat]
  have hvrsrc : (wrapper (d ++ [nm])).rsrc = d ++ [rsrcPfx ++ nm] := by rw [wrapper_concat]
  have hvinfo : (wrapper (d ++ [nm])).info = d ++ [infoPfx ++ nm] := by rw [wrapper_concat]
  have hsrcs : wrapperPaths t = [t, (wrapper t).inc, (wrapper t).rsrc, (wrapper t).info] := rfl
  have hdsts : wrapperPaths (d ++ [nm]) = [d ++ [nm], (wrapper (d ++ [nm])).inc, (wrapper (d ++ [nm])).rsrc, (wrapper (d ++ [nm])).info] := rfl
  have hscript : moveScript t d [nm] nm =
      [(.rename t (d ++ [nm]), false), (.rename (wrapper t).inc (wrapper (d ++ [nm])).inc, true),
       (.rename (wrapper t).rsrc (wrapper (d ++ [nm])).rsrc, true), (.rename (wrapper t).info (wrapper (d ++ [nm])).info, true)] := by
    rw [hvinc, hvrsrc, hvinfo]; rfl
  rw [hscript] at hrun
  obtain ⟨h_ne, h_sa, h_da⟩ := hsep
  dsimp only
  rw [hdata, hvdata]
  -- shapes
  have srcShape : ∀ a ∈ wrapperPaths t, ∃ y, a = t.dropLast ++ [y] := by
    intro a hmem
    rw [hsrcs] at hmem
    simp only [List.mem_cons, List.mem_nil_iff, or_false] at hmem
    rcases hmem with rfl | rfl | rfl | rfl
    · exact ⟨a.getLast ht, (List.dropLast_concat_getLast ht).symm⟩
    · exact ⟨_, rfl⟩
    · exact ⟨_, rfl⟩
    · exact ⟨_, rfl⟩
  have dstShape : ∀ b ∈ wrapperPaths (d ++ [nm]), ∃ y, b = d ++ [y] := by
    intro b hmem
    rw [hdsts, hvinc, hvrsrc, hvinfo] at hmem
    simp only [List.mem_cons, List.mem_nil_iff, or_false] at hmem
    rcases hmem with rfl | rfl | rfl | rfl <;> exact ⟨_, rfl⟩
  -- names for the eight paths
  rw [hsrcs] at h_ne h_sa srcShape ⊢
  rw [hdsts] at h_ne h_da dstShape hfree ⊢
  clear hsrcs hdsts hscript
  generalize (wrapper t).inc = a2 at *
  generalize (wrapper t).rsrc = a3 at *
  generalize (wrapper t).info = a4 at *
  generalize (wrapper (d ++ [nm])).inc = b2 at *
  generalize (wrapper (d ++ [nm])).rsrc = b3 at *
  generalize (wrapper (d ++ [nm])).info = b4 at *
  generalize d ++ [nm] = b1 at *
  have sd : ∀ a ∈ [t, a2, a3, a4], ∀ b ∈ [b1, b2, b3, b4], a ≠ b ∧ ¬ a <+: b ∧ ¬ b <+: a := by
    intro a ha b hb
    obtain ⟨y, hy⟩ := srcShape a ha
    obtain ⟨z, hz⟩ := dstShape b hb
    have hab := h_ne a ha b hb
    refine ⟨hab, ?_, ?_⟩
    · intro h; rw [hz] at h
      rcases prefix_concat_cases h with h | h
      · exact hab (by rw [h, hz])
      · exact h_sa a ha h
    · intro h; rw [hy] at h
      rcases prefix_concat_cases h with h | h
      · exact hab (by rw [h, hy])
      · exact h_da b hb h
  have ss : ∀ {a a' : Path}, a.length = a'.length → a ≠ a' → ¬ a <+: a' :=
    fun hl hne h => hne (List.IsPrefix.eq_of_length h hl)
  have bd : ∀ b ∈ [b1, b2, b3, b4], ¬ b <+: d := by
    intro b hb h
    obtain ⟨z, hz⟩ := dstShape b hb
    rw [hz] at h
    exact not_concat_prefix d z h
  have ad : ∀ a ∈ [t, a2, a3, a4], ¬ a <+: d := h_sa
  have par : ∀ (g : FS) (b : Path), b ∈ [b1, b2, b3, b4] → lookup g d = some .dir → parentErr g b = .ok := by
    intro g b hb hg
    obtain ⟨z, hz⟩ := dstShape b hb
    rw [hz]; exact (parentErr_concat g d z).mpr hg
  -- unfold the run
  obtain ⟨c1, h1⟩ := runSeq_cons_ok _ _ _ _ _ hrun
  obtain ⟨c2, h2⟩ := runSeq_cons_ok _ _ _ _ _ h1
  obtain ⟨c3, h3⟩ := runSeq_cons_ok _ _ _ _ _ h2
  obtain ⟨c4, h4⟩ := runSeq_cons_ok _ _ _ _ _ h3
  have h5 := runSeq_nil_ok _ _ h4
  simp only [FSOp.apply] at c1 c2 c3 c4 h5
  have c1' : (FS.rename fs t b1).1 = .ok := by
    rcases c1 with h | h
    · exact h
    · exact absurd h.1 (by decide)
  simp only [List.tail_cons, List.mem_cons, List.mem_nil_iff, or_false, forall_eq_or_imp, forall_eq] at hfree
  obtain ⟨fr2, fr3, fr4⟩ := hfree
  -- step 1
  generalize hfs1 : (FS.rename fs t b1).2 = fs1 at *
  have e1 : FS.rename fs t b1 = (.ok, fs1) := Prod.ext c1' hfs1
  obtain ⟨s1b, s1a, s1e, hpara, hpar, F1⟩ := rename_ok_spec fs fs1 t b1 e1 (sd t (by simp) b1 (by simp)).1 (sd t (by simp) b1 (by simp)).2.2
  -- the source folder is a directory throughout as well
  have hpdir : lookup fs t.dropLast = some .dir := by
    obtain ⟨y, hy⟩ := srcShape t (by simp)
    rw [hy] at hpara; exact (parentErr_concat fs t.dropLast y).mp hpara
  have ap : ∀ a ∈ [t, a2, a3, a4], ¬ a <+: t.dropLast := by
    intro a ha h
    obtain ⟨y, hy⟩ := srcShape a ha
    rw [hy] at h
    exact not_concat_prefix _ y h
  have bp : ∀ b ∈ [b1, b2, b3, b4], ¬ b <+: t.dropLast := h_da
  have para : ∀ (g : FS) (a : Path), a ∈ [t, a2, a3, a4] → lookup g t.dropLast = some .dir → parentErr g a = .ok := by
    intro g a ha hg
    obtain ⟨y, hy⟩ := srcShape a ha
    rw [hy]; exact (parentErr_concat g t.dropLast y).mpr hg
  have hp1 : lookup fs1 t.dropLast = some .dir := by rw [F1 _ (ap t (by simp)) (bp b1 (by simp))]; exact hpdir
  have hddir : lookup fs d = some .dir := by
    obtain ⟨z, hz⟩ := dstShape b1 (by simp)
    rw [hz] at hpar; exact (parentErr_concat fs d z).mp hpar
  have hd1 : lookup fs1 d = some .dir := by rw [F1 d (ad t (by simp)) (bd b1 (by simp))]; exact hddir
  -- step 2
  have f2 : lookup fs1 b2 = none := by
    rw [F1 b2 (sd t (by simp) b2 (by simp)).2.1 (ss hlb2.symm (Ne.symm b21))]; exact fr2
  obtain ⟨s2b, s2a, F2⟩ := rename_tol_spec fs1 a2 b2 (sd a2 (by simp) b2 (by simp)).1 (sd a2 (by simp) b2 (by simp)).2.2 f2
    (par fs1 b2 (by simp) hd1) (para fs1 a2 (by simp) hp1) (c2.imp id (·.2))
  generalize hfs2 : (FS.rename fs1 a2 b2).2 = fs2 at *
  have hd2 : lookup fs2 d = some .dir := by rw [F2 d (ad a2 (by simp)) (bd b2 (by simp))]; exact hd1
  have hp2 : lookup fs2 t.dropLast = some .dir := by rw [F2 _ (ap a2 (by simp)) (bp b2 (by simp))]; exact hp1
  -- step 3
  have f3 : lookup fs2 b3 = none := by
    rw [F2 b3 (sd a2 (by simp) b3 (by simp)).2.1 (ss (hlb2.trans hlb3.symm) b23),
      F1 b3 (sd t (by simp) b3 (by simp)).2.1 (ss hlb3.symm (Ne.symm b31))]
    exact fr3
  obtain ⟨s3b, s3a, F3⟩ := rename_tol_spec fs2 a3 b3 (sd a3 (by simp) b3 (by simp)).1 (sd a3 (by simp) b3 (by simp)).2.2 f3
    (par fs2 b3 (by simp) hd2) (para fs2 a3 (by simp) hp2) (c3.imp id (·.2))
  generalize hfs3 : (FS.rename fs2 a3 b3).2 = fs3 at *
  have hd3 : lookup fs3 d = some .dir := by rw [F3 d (ad a3 (by simp)) (bd b3 (by simp))]; exact hd2
  have hp3 : lookup fs3 t.dropLast = some .dir := by rw [F3 _ (ap a3 (by simp)) (bp b3 (by simp))]; exact hp2
  -- step 4
  have f4 : lookup fs3 b4 = none := by
    rw [F3 b4 (sd a3 (by simp) b4 (by simp)).2.1 (ss (hlb3.trans hlb4.symm) b34),
      F2 b4 (sd a2 (by simp) b4 (by simp)).2.1 (ss (hlb2.trans hlb4.symm) b24),
      F1 b4 (sd t (by simp) b4 (by simp)).2.1 (ss hlb4.symm (Ne.symm b41))]
    exact fr4
  obtain ⟨s4b, s4a, F4⟩ := rename_tol_spec fs3 a4 b4 (sd a4 (by simp) b4 (by simp)).1 (sd a4 (by simp) b4 (by simp)).2.2 f4
    (par fs3 b4 (by simp) hd3) (para fs3 a4 (by simp) hp3) (c4.imp id (·.2))
  generalize hfs4 : (FS.rename fs3 a4 b4).2 = fs4 at *
  subst h5
  refine ⟨?_, ?_, ?_, ?_, ?_, s1e, ?_⟩
  · -- data
    rw [F4 b1 (sd a4 (by simp) b1 (by simp)).2.1 (ss hlb4 b41),
      F3 b1 (sd a3 (by simp) b1 (by simp)).2.1 (ss hlb3 b31),
      F2 b1 (sd a2 (by simp) b1 (by simp)).2.1 (ss hlb2 b21)]
    exact s1b
  · -- incomplete
    rw [F4 b2 (sd a4 (by simp) b2 (by simp)).2.1 (ss (hlb4.trans hlb2.symm) (Ne.symm b24)),
      F3 b2 (sd a3 (by simp) b2 (by simp)).2.1 (ss (hlb3.trans hlb2.symm) (Ne.symm b23)), s2b,
      F1 a2 (ss hla2.symm (Ne.symm a21)) (sd a2 (by simp) b1 (by simp)).2.2]
  · -- rsrc
    rw [F4 b3 (sd a4 (by simp) b3 (by simp)).2.1 (ss (hlb4.trans hlb3.symm) (Ne.symm b34)), s3b,
      F2 a3 (ss (hla2.trans hla3.symm) a23) (sd a3 (by simp) b2 (by simp)).2.2,
      F1 a3 (ss hla3.symm (Ne.symm a31)) (sd a3 (by simp) b1 (by simp)).2.2]
  · -- info
    rw [s4b, F3 a4 (ss (hla3.trans hla4.symm) a34) (sd a4 (by simp) b3 (by simp)).2.2,
      F2 a4 (ss (hla2.trans hla4.symm) a24) (sd a4 (by simp) b2 (by simp)).2.2,
      F1 a4 (ss hla4.symm (Ne.symm a41)) (sd a4 (by simp) b1 (by simp)).2.2]
  · -- nothing left at the sources
    intro a ha
    simp only [List.mem_cons, List.mem_nil_iff, or_false] at ha
    rcases ha with rfl | rfl | rfl | rfl
    · rw [F4 a (ss hla4 a41) (sd a (by simp) b4 (by simp)).2.2,
        F3 a (ss hla3 a31) (sd a (by simp) b3 (by simp)).2.2,
        F2 a (ss hla2 a21) (sd a (by simp) b2 (by simp)).2.2]
      exact s1a
    · rw [F4 a (ss (hla4.trans hla2.symm) (Ne.symm a24)) (sd a (by simp) b4 (by simp)).2.2,
        F3 a (ss (hla3.trans hla2.symm) (Ne.symm a23)) (sd a (by simp) b3 (by simp)).2.2]
      exact s2a
    · rw [F4 a (ss (hla4.trans hla3.symm) (Ne.symm a34)) (sd a (by simp) b4 (by simp)).2.2]
      exact s3a
    · exact s4a
  · -- frame
    intro x hs hdd
    rw [F4 x (hs a4 (by simp)) (hdd b4 (by simp)), F3 x (hs a3 (by simp)) (hdd b3 (by simp)),
      F2 x (hs a2 (by simp)) (hdd b2 (by simp)), F1 x (hs t (by simp)) (hdd b1 (by simp))]

/-- An acknowledged move ran `fileWrapper.Move` to the end on a target strictly below the root. -/
theorem move_ok_runs (root : Path) (fs : FS) (pf : Option Bytes) (name : Bytes) (newPf : Option Bytes) (t d : Path) (fs' : FS)
    (ht : target root pf name = .ok t) (hd : target root newPf [] = .ok d)
    (hok : move root fs pf name newPf = (fs', .ok)) :
    t ≠ root ∧ runSeq fs (moveScript t d [baseName t] (baseName t)) = (.ok, fs') := by
  unfold move withTarget at hok
  simp only [ht, hd] at hok
  by_cases hroot : isRoot root t = true
  · rw [if_pos hroot] at hok; cases hok
  · rw [if_neg hroot] at hok
    refine ⟨isRoot_false (by simpa using hroot), ?_⟩
    split at hok
    · cases hok
    · cases hok
    · split at hok
      · cases hok
      · split at hok
        · rename_i h1
          injection hok with h2 _
          exact Prod.ext h1 h2
        · cases hok

/-- An acknowledged rename of a regular file ran `fileWrapper.Move` to the end, inside the file's
    own folder, under the single component the new name cleans to. -/
theorem rename_ok_runs (root : Path) (fs : FS) (pf : Option Bytes) (name nn : Bytes) (t d : Path) (b : Bytes) (fs' : FS)
    (ht : target root pf name = .ok t) (hd : target root pf [] = .ok d)
    (hfile : statOk fs t = some (.file b))
    (hok : setInfo root fs pf name none (some nn) = (fs', .ok)) :
    t ≠ root ∧ runSeq fs (moveScript t d (newNameComps nn) (baseName (newNameComps nn))) = (.ok, fs') := by
  unfold setInfo withTarget at hok
  simp only [ht] at hok
  by_cases hroot : isRoot root t = true
  · rw [if_pos hroot] at hok; cases hok
  · rw [if_neg hroot] at hok
    refine ⟨isRoot_false (by simpa using hroot), ?_⟩
    simp only [hfile] at hok
    split at hok
    · cases hok
    · cases hok
    · simp only [commentStep, renameStep, Node.isDir, withTarget, hd] at hok
      simp only [ne_eq, not_true_eq_false, if_false] at hok
      split at hok
      · rename_i h1; cases h1
      · cases hr : (runSeq fs (moveScript t d (newNameComps nn) (baseName (newNameComps nn)))).1 with
        | ok =>
          simp only [hr] at hok
          injection hok with h2 _
          exact Prod.ext hr h2
        | notExist => simp [hr] at hok
        | other => simp [hr] at hok

-- ---------------------------------------------------------------- FormattedPath at string level

theorem splitSlash_intercalate (es : List Bytes) (h : es ≠ []) :
    PathAlg.splitSlash (intercalateSlash es) = es.flatMap PathAlg.splitSlash := by
  induction es with
  | nil => exact absurd rfl h
  | cons a rest ih =>
    cases rest with
    | nil => simp [intercalateSlash]
    | cons b rest' =>
      rw [intercalateSlash, splitSlash_append, ih (by simp)]
      simp

theorem foldl_step_flatMap (segs : List Bytes) (st : List Comp) :
    (segs.flatMap PathAlg.splitSlash).foldl step st = segs.foldl joinRooted st := by
  induction segs generalizing st with
  | nil => rfl
  | cons s rest ih =>
    simp only [List.flatMap_cons, List.foldl_append, List.foldl_cons]
    exact ih _

theorem joinRooted_empty (st : List Comp) : joinRooted st [] = st := by
  simp [joinRooted, PathAlg.splitSlash, step_nil]

theorem foldl_joinRooted_dropWhile (segs : List Bytes) (st : List Comp) :
    (segs.dropWhile (fun e => e.isEmpty)).foldl joinRooted st = segs.foldl joinRooted st := by
  induction segs generalizing st with
  | nil => rfl
  | cons s rest ih =>
    by_cases hs : s.isEmpty = true
    · have : s = [] := List.isEmpty_iff.mp hs
      subst this
      simp only [List.dropWhile_cons, List.isEmpty_nil, if_true, List.foldl_cons, joinRooted_empty]
      exact ih st
    · simp [hs]

theorem foldl_step_dotdots (k : Nat) (cs : List Comp) : (List.replicate k dotdot ++ cs).foldl step [] = cs.foldl step [] := by
  induction k with
  | zero => simp
  | succ k ih =>
    simp only [List.replicate_succ, List.cons_append, List.foldl_cons]
    have : step [] dotdot = [] := by decide
    rw [this]; exact ih

theorem splitSlash_intercalate_comps (cs : List Comp) (h : cs ≠ []) (hns : ∀ c ∈ cs, slash ∉ c) :
    PathAlg.splitSlash (intercalateSlash cs) = cs := by
  rw [splitSlash_intercalate cs h]
  induction cs with
  | nil => rfl
  | cons c rest ih =>
    simp only [List.flatMap_cons]
    rw [splitSlash_noslash c (hns c (by simp))]
    cases rest with
    | nil => simp
    | cons d rest' =>
      have := ih (by simp) (fun x hx => hns x (by simp [hx]))
      simp only [List.flatMap_cons] at this ⊢
      rw [this]; simp

theorem dotdot_noslash : slash ∉ dotdot := by decide

theorem clean_dot : (PathAlg.splitSlash dot).foldl step [] = [] := by decide

/-- Cleaning a RELATIVE string and then joining it below `/` = the rooted clean of its components. -/
theorem rooted_of_cleanStr (s : Bytes) :
    (PathAlg.splitSlash (cleanStr s)).foldl step [] = (PathAlg.splitSlash s).foldl step [] := by
  unfold cleanStr
  by_cases h0 : s = []
  · subst h0; simp only [if_true]; rw [clean_dot]; decide
  · rw [if_neg h0]
    have hn : ∀ c ∈ (PathAlg.splitSlash s).foldl step [], Normal c :=
      foldl_step_normal _ _ (by simp) (splitSlash_no_slash s)
    by_cases hh : s.head? = some slash
    · rw [if_pos hh, foldl_step_renderAbs _ _ (fun x hx => normal_noslash (hn x hx))]
      exact foldl_step_of_normal _ _ hn
    · rw [if_neg hh]
      dsimp only
      have hst := relStep_step (PathAlg.splitSlash s) (0, [])
      simp only at hst
      generalize hk : (List.foldl relStep (0, []) (PathAlg.splitSlash s)) = p at *
      obtain ⟨k, st⟩ := p
      simp only at hst ⊢
      rw [hst]
      unfold renderRel
      by_cases he : List.replicate k dotdot ++ (PathAlg.splitSlash s).foldl step [] = []
      · rw [if_pos he]
        have h2 : (PathAlg.splitSlash s).foldl step [] = [] := (List.append_eq_nil_iff.mp he).2
        rw [h2]
        exact clean_dot
      · rw [if_neg he, splitSlash_intercalate_comps _ he (by
          intro c hc
          rcases List.mem_append.mp hc with h | h
          · rw [(List.mem_replicate.mp h).2]; exact dotdot_noslash
          · exact normal_noslash (hn c h)), foldl_step_dotdots]
        exact foldl_step_of_normal _ _ hn

/-- `strings.TrimPrefix(filepath.Join("/", filepath.Join(segments…)), "/")` on byte STRINGS renders the
    component-level `formattedComps`, for all segments. -/
theorem formattedPath_string_level (segs : List Bytes) :
    joinStr [[slash], joinStr segs] = renderAbs (formattedComps segs) := by
  have outer : ∀ j : Bytes, joinStr [[slash], j] = renderAbs ((PathAlg.splitSlash j).foldl step []) := by
    intro j
    have e : joinStr [[slash], j] = cleanStr (slash :: slash :: j) := by simp [joinStr, intercalateSlash]
    rw [e, cleanStr_rooted, splitSlash_slash, splitSlash_slash]
    simp [step_nil]
  rw [outer]
  congr 1
  unfold joinStr formattedComps
  rw [← foldl_joinRooted_dropWhile segs []]
  cases hes : segs.dropWhile (fun e => e.isEmpty) with
  | nil => simp [PathAlg.splitSlash, step_nil]
  | cons a rest =>
    simp only
    rw [rooted_of_cleanStr, splitSlash_intercalate _ (by simp), foldl_step_flatMap]

-- ---------------------------------------------------------------- folder rename (after fix 500a006)

theorem concat_ne {d : Path} {x y : Comp} (h : x ≠ y) : d ++ [x] ≠ d ++ [y] := by
  intro e; exact h (List.cons.inj (List.append_cancel_left e)).1

theorem concat_not_prefix {d : Path} {x y : Comp} (h : x ≠ y) : ¬ d ++ [x] <+: d ++ [y] := by
  intro hp
  exact concat_ne h (List.IsPrefix.eq_of_length hp (by simp))

theorem info_ne_self (n : Comp) : infoPfx ++ n ≠ n := by
  intro e; have := congrArg List.length e
  simp only [List.length_append, infoPfx, List.length_cons, List.length_nil] at this; omega

/-- A folder rename carries the folder's information fork (its comment): after `os.Rename(d/n, d/n')`
    succeeded and the request was acknowledged, the folder node is bound at the new name, its `.info_`
    side file at `.info_<new name>` exactly as it was at `.info_<old name>` (absent stays absent),
    nothing is left under the old names, and no other path changes. -/
theorem folder_rename_carries (root : Path) (fs fs' : FS) (pf : Option Bytes) (d : Path) (n n' : Comp) (nn : Bytes)
    (ht' : target root pf nn = .ok (d ++ [n']))
    (hok : renameStep root fs pf (d ++ [n]) true (some nn) = (fs', .ok))
    (hren : (FS.rename fs (d ++ [n]) (d ++ [n'])).1 = .ok)
    (hnn : n ≠ n') (h1 : infoPfx ++ n ≠ n') (h2 : infoPfx ++ n' ≠ n)
    (hfree : lookup fs (d ++ [infoPfx ++ n']) = none) :
    lookup fs' (d ++ [n']) = lookup fs (d ++ [n]) ∧
    lookup fs' (d ++ [infoPfx ++ n']) = lookup fs (d ++ [infoPfx ++ n]) ∧
    lookup fs' (d ++ [n]) = none ∧ lookup fs' (d ++ [infoPfx ++ n]) = none ∧
    (∀ x, ¬ d ++ [n] <+: x → ¬ d ++ [n'] <+: x → ¬ d ++ [infoPfx ++ n] <+: x → ¬ d ++ [infoPfx ++ n'] <+: x →
      lookup fs' x = lookup fs x) := by
  have hi : infoPfx ++ n ≠ infoPfx ++ n' := fun e => hnn (List.append_cancel_left e)
  generalize hfs1 : (FS.rename fs (d ++ [n]) (d ++ [n'])).2 = fs1 at *
  have e1 : FS.rename fs (d ++ [n]) (d ++ [n']) = (.ok, fs1) := Prod.ext hren hfs1
  obtain ⟨s1b, s1a, _, hpa, hpb, F1⟩ := rename_ok_spec fs fs1 _ _ e1 (concat_ne hnn) (concat_not_prefix (Ne.symm hnn))
  have hddir : lookup fs d = some .dir := (parentErr_concat fs d n').mp hpb
  have hd1 : lookup fs1 d = some .dir := by
    rw [F1 d (not_concat_prefix d n) (not_concat_prefix d n')]; exact hddir
  -- unfold the handler
  have hr1 : runSeq fs [(FSOp.rename (d ++ [n]) (d ++ [n']), false)] = (.ok, fs1) := by
    simp only [runSeq, FSOp.apply, e1]; simp
  simp only [renameStep, if_true, withTarget, ht', hr1] at hok
  simp only [reduceCtorEq, if_false] at hok
  rw [wrapper_concat, wrapper_concat] at hok
  dsimp only at hok
  split at hok
  · rename_i hr2
    injection hok with hok _
    have hrun : runSeq fs1 [(FSOp.rename (d ++ [infoPfx ++ n]) (d ++ [infoPfx ++ n']), true)] = (.ok, fs') :=
      Prod.ext hr2 hok
    obtain ⟨c2, h2'⟩ := runSeq_cons_ok _ _ _ _ _ hrun
    have h3 := runSeq_nil_ok _ _ h2'
    simp only [FSOp.apply] at c2 h3
    have f2 : lookup fs1 (d ++ [infoPfx ++ n']) = none := by
      rw [F1 _ (concat_not_prefix (Ne.symm h2)) (concat_not_prefix (Ne.symm (info_ne_self n')))]; exact hfree
    obtain ⟨s2b, s2a, F2⟩ := rename_tol_spec fs1 _ _ (concat_ne hi) (concat_not_prefix (Ne.symm hi)) f2
      ((parentErr_concat fs1 d _).mpr hd1) ((parentErr_concat fs1 d _).mpr hd1) (c2.imp id (·.2))
    subst h3
    refine ⟨?_, ?_, ?_, s2a, ?_⟩
    · rw [F2 _ (concat_not_prefix h1) (concat_not_prefix (info_ne_self n'))]; exact s1b
    · rw [s2b, F1 _ (concat_not_prefix (Ne.symm (info_ne_self n))) (concat_not_prefix (Ne.symm h1))]
    · rw [F2 _ (concat_not_prefix (info_ne_self n)) (concat_not_prefix h2)]; exact s1a
    · intro x a b c e
      rw [F2 x c e, F1 x a b]
  · cases hok

end Mobius.FileOps
