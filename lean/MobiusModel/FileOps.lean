import MobiusModel.PathStr
import MobiusModel.FS
import MobiusModel.Wire
/-!
  FileOps: the file-touching handlers of `internal/mobius/transaction_handlers.go`, `fileWrapper`
  (`hotline/file_wrapper.go`), `GetFileNameList` (`hotline/files.go`), the folder-upload item path
  (`folderUpload.FormattedPath`, `UploadFolderHandler`) and the account manager's path builders
  (`internal/mobius/account_manager.go`), as functions over the abstract namespace `FS`:

  (a) the *path arguments* each operation hands to the OS (`Req.paths`, `wrapperPaths`,
      `folderItemPaths`, `acct*Paths`), and
  (b) its effect on the namespace plus the kind of reply (`handle`).

  The code modelled is the code after the `fix:` commits: requests that name nothing (the target is
  the root itself) are refused by get-info / set-info / delete / move / download; a file rename uses
  `Base(Join("/", newName))`; folder-upload item paths are cleaned below a leading `/`; the file list
  strips only a trailing `.incomplete`.
-/
namespace Mobius.FileOps
open Mobius.PathAlg Mobius.PathStr Mobius.FS

-- ---------------------------------------------------------------- constants

def incSfx : Bytes := [46, 105, 110, 99, 111, 109, 112, 108, 101, 116, 101]  -- ".incomplete"
def rsrcPfx : Bytes := [46, 114, 115, 114, 99, 95]                            -- ".rsrc_"
def infoPfx : Bytes := [46, 105, 110, 102, 111, 95]                            -- ".info_"
def yamlSfx : Bytes := [46, 121, 97, 109, 108]                                 -- ".yaml"
def tmpSfx : Bytes := [46, 116, 109, 112]                                      -- ".tmp"
def tyFldr : Bytes := [102, 108, 100, 114]                                     -- "fldr"
def crNA : Bytes := [110, 47, 97, 32]                                          -- "n/a "
def tyTEXT : Bytes := [84, 69, 88, 84]
def crTTXT : Bytes := [84, 84, 88, 84]
def dotB : UInt8 := 46

/-- `hotline/file_types.go`: extension → (type, creator). -/
def fileTypes : List (Bytes × Bytes × Bytes) := [
  ([46, 115, 105, 116], [83, 73, 84, 33], [83, 73, 84, 33]),   -- .sit SIT! SIT!
  ([46, 112, 100, 102], [80, 68, 70, 32], [67, 65, 82, 79]),   -- .pdf PDF  CARO
  ([46, 103, 105, 102], [71, 73, 70, 102], [111, 103, 108, 101]),   -- .gif GIFf ogle
  ([46, 116, 120, 116], [84, 69, 88, 84], [116, 116, 120, 116]),   -- .txt TEXT ttxt
  ([46, 122, 105, 112], [90, 73, 80, 32], [83, 73, 84, 120]),   -- .zip ZIP  SITx
  ([46, 116, 103, 122], [71, 122, 105, 112], [83, 73, 84, 120]),   -- .tgz Gzip SITx
  ([46, 104, 113, 120], [84, 69, 88, 84], [83, 73, 84, 120]),   -- .hqx TEXT SITx
  ([46, 106, 112, 103], [74, 80, 69, 71], [111, 103, 108, 101]),   -- .jpg JPEG ogle
  ([46, 106, 112, 101, 103], [74, 80, 69, 71], [111, 103, 108, 101]),   -- .jpeg JPEG ogle
  ([46, 105, 109, 103], [114, 111, 104, 100], [100, 100, 115, 107]),   -- .img rohd ddsk
  ([46, 115, 101, 97], [65, 80, 80, 76], [97, 117, 115, 116]),   -- .sea APPL aust
  ([46, 109, 111, 118], [77, 111, 111, 86], [84, 86, 79, 68]),   -- .mov MooV TVOD
  ([46, 105, 110, 99, 111, 109, 112, 108, 101, 116, 101], [72, 84, 102, 116], [72, 84, 76, 67])]   -- .incomplete HTft HTLC

/-- `friendlyCreatorNames`. -/
def friendlyNames : List (Bytes × Bytes) := [
  ([65, 80, 80, 76], [65, 112, 112, 108, 105, 99, 97, 116, 105, 111, 110, 32, 80, 114, 111, 103, 114, 97, 109]),
  ([72, 84, 98, 109], [72, 111, 116, 108, 105, 110, 101, 32, 66, 111, 111, 107, 109, 97, 114, 107]),
  ([102, 108, 100, 114], [70, 111, 108, 100, 101, 114]),
  ([102, 108, 100, 97], [70, 111, 108, 100, 101, 114, 32, 65, 108, 105, 97, 115]),
  ([72, 84, 102, 116], [73, 110, 99, 111, 109, 112, 108, 101, 116, 101, 32, 70, 105, 108, 101]),
  ([83, 73, 84, 33], [83, 116, 117, 102, 102, 73, 116, 32, 65, 114, 99, 104, 105, 118, 101]),
  ([84, 69, 88, 84], [84, 101, 120, 116, 32, 70, 105, 108, 101]),
  ([72, 84, 76, 67], [72, 111, 116, 108, 105, 110, 101])]

def friendly (code : Bytes) : Bytes := (friendlyNames.lookup code).getD code

/-- `filepath.Ext`: from the last dot of the name (inclusive); empty when there is none. -/
def extOf (n : Bytes) : Bytes :=
  if dotB ∈ n then dotB :: (n.reverse.takeWhile (· ≠ dotB)).reverse else []

def lowerAscii (b : UInt8) : UInt8 := if 65 ≤ b.toNat ∧ b.toNat ≤ 90 then b + 32 else b

/-- `fileTypeFromFilename`. -/
def typeOfName (n : Bytes) : Bytes × Bytes :=
  match fileTypes.lookup ((extOf n).map lowerAscii) with
  | some tc => tc
  | none => (tyTEXT, crTTXT)

/-- `fileTypeFromInfo`. -/
def typeOfInfo (isDir : Bool) (n : Bytes) : Bytes × Bytes :=
  if isDir then (tyFldr, crNA) else typeOfName n

def trimInc (n : Bytes) : Bytes :=
  if incSfx.isSuffixOf n then n.take (n.length - incSfx.length) else n

-- ---------------------------------------------------------------- ReadPath on raw request fields

def parsePath : Option Bytes → Res (List Bytes)
  | none => .ok []
  | some b => pathDecode b

/-- `hotline.ReadPath(root, pathField, name)` at component level, Mac-Roman decode included. -/
def target (root : Path) (pf : Option Bytes) (name : Bytes) : Res Path :=
  match parsePath pf with
  | .ok items => .ok ((readPath root items name).map decodeStr)
  | .err => .err
  | .panic => .panic

/-- The configured root is a clean ASCII path (DESIGN §7 C07 "not covered": non-ASCII root). -/
def RootOK (root : Path) : Prop := root.map decodeStr = root

theorem map_prefix {α β : Type} (f : α → β) {a b : List α} (h : a <+: b) : a.map f <+: b.map f := by
  obtain ⟨r, rfl⟩ := h; simp

theorem target_under (root : Path) (hr : RootOK root) (pf : Option Bytes) (name : Bytes) (t : Path)
    (h : target root pf name = .ok t) : root <+: t := by
  unfold target at h
  cases hp : parsePath pf with
  | ok items =>
    simp only [hp] at h
    injection h with h; subst h
    have := map_prefix decodeStr (readPath_under_root root items name)
    rw [hr] at this; exact this
  | err => simp [hp] at h
  | panic => simp [hp] at h

-- ---------------------------------------------------------------- fileWrapper

def baseName (p : Path) : Comp := p.getLast?.getD []

structure Wrapper where
  data : Path
  inc : Path
  rsrc : Path
  info : Path
  name : Comp
deriving Repr

/-- `NewFileWrapper(path)`: the side files are computed from `Dir(path)` and `Base(path)`. -/
def wrapper (p : Path) : Wrapper :=
  let d := p.dropLast
  let n := baseName p
  ⟨p, d ++ [n ++ incSfx], d ++ [rsrcPfx ++ n], d ++ [infoPfx ++ n], n⟩

def wrapperPaths (p : Path) : List Path :=
  [(wrapper p).data, (wrapper p).inc, (wrapper p).rsrc, (wrapper p).info]

/-- Files.contained, the key step: the side files of a path STRICTLY below the root are inside the root. -/
theorem wrapperPaths_under (root p : Path) (h : root <+: p) (hne : p ≠ root) :
    ∀ q ∈ wrapperPaths p, root <+: q := by
  obtain ⟨r, rfl⟩ := h
  have hr : r ≠ [] := by intro e; apply hne; simp [e]
  have hd : (root ++ r).dropLast = root ++ r.dropLast := List.dropLast_append_of_ne_nil hr
  intro q hq
  simp only [wrapperPaths, wrapper, hd, List.mem_cons, List.mem_nil_iff, or_false] at hq
  rcases hq with rfl | rfl | rfl | rfl
  · exact List.prefix_append _ _
  all_goals (rw [List.append_assoc]; exact List.prefix_append _ _)

/-- …and exactly there: for the root itself the side files are siblings of the root (what the old
    code touched on a request with empty name and empty path). -/
theorem wrapperPaths_root_escape :
    ∃ root : Path, ∃ q ∈ wrapperPaths root, ¬ root <+: q :=
  ⟨[[70]], [[70] ++ incSfx], by decide, by decide⟩

def amac : Bytes := [65, 77, 65, 67]
def zeros (n : Nat) : Bytes := List.replicate n 0

def synthFork (ty creator name : Bytes) : InfoFork :=
  ⟨amac, ty, creator, zeros 4, [0, 0, 1, 0], zeros 32, zeros 8, zeros 8, zeros 2, name, []⟩

def zeroFork : InfoFork := ⟨zeros 4, zeros 4, zeros 4, zeros 4, zeros 4, zeros 32, zeros 8, zeros 8, zeros 2, [], []⟩

/-- What `fileWrapper.flattenedFileObject` computes (dates are inputs of the real code; zero here). -/
structure Ffo where
  fork : InfoFork
  dataSize : Nat
  rsrcSize : Nat
  hasInfo : Bool
deriving Repr

def statOk (fs : FS) (p : Path) : Option Node :=
  match stat statFuel fs p with
  | .ok (_, n) => some n
  | .error _ => none

/-- `errors.Is(err, fs.ErrNotExist)` for `Stat(p)`. -/
def statMissing (fs : FS) (p : Path) : Bool :=
  match stat statFuel fs p with
  | .error .notExist => true
  | _ => false

def rsrcSize (fs : FS) (w : Wrapper) : Nat :=
  match statOk fs w.rsrc with
  | some n => n.size
  | none => 0

def ffo (fs : FS) (p : Path) : Res Ffo :=
  let w := wrapper p
  let d : Res (Nat × Bytes × Bytes) :=
    match stat statFuel fs w.data with
    | .ok (_, n) => .ok (n.size, typeOfInfo n.isDir w.name)
    | .error .notExist =>
      match statOk fs w.inc with
      | some n => .ok (n.size, typeOfInfo n.isDir (w.name ++ incSfx))
      | none => .ok (0, tyTEXT, crTTXT)
    | .error _ => .err
  match d with
  | .err => .err
  | .panic => .panic
  | .ok (sz, ty, cr) =>
    match statOk fs w.info with
    | some (.file b) =>
      if b = [] then .ok ⟨zeroFork, sz, rsrcSize fs w, true⟩
      else match InfoFork.decode b with
        | .ok i => .ok ⟨i, sz, rsrcSize fs w, true⟩
        | .err => .err
        | .panic => .panic
    | some _ => .err
    | none => .ok ⟨synthFork ty cr w.name, sz, rsrcSize fs w, false⟩

/-- `fileWrapper.TotalSize` (offset 0): data fork (the final name only) + resource fork, as uint32. -/
def totalSize (fs : FS) (p : Path) : Nat :=
  let w := wrapper p
  ((match statOk fs w.data with | some n => n.size | none => 0) + rsrcSize fs w) % 4294967296

/-- Length of the flattened-file-object header a download starts with. -/
def ffoLen (f : Ffo) : Nat := 130 + f.fork.name.length + f.fork.comment.length

-- ---------------------------------------------------------------- file list

structure Entry where
  disk : Comp        -- name on disk (not sent)
  name : Bytes       -- Mac-Roman name sent
  ty : Bytes
  creator : Bytes
  size : Nat
deriving Repr, DecidableEq

def countVisible (fs : FS) (d : Path) (ig : Bytes → Bool) : Nat :=
  ((children fs d).filter (fun c => !ig c.1)).length

/-- The (type, creator, size) triple of one directory entry; `none` = the entry is skipped
    (dangling alias); `.err` / `.panic` abort the whole listing. -/
def entryInfo (fs : FS) (d : Path) (ig : Bytes → Bool) (n : Comp) (node : Node) : Res (Option (Bytes × Bytes × Nat)) :=
  match node with
  | .link t =>
    match stat statFuel fs t with
    | .error .notExist => .ok none
    | .error _ => .err
    | .ok (p, .dir) => .ok (some (tyFldr, zeros 4, countVisible fs p ig % 4294967296))
    | .ok (_, tn) =>
      let tc := typeOfName (baseName t)
      .ok (some (tc.1, tc.2, tn.size % 4294967296))
  | .dir => .ok (some (tyFldr, zeros 4, countVisible fs (d ++ [n]) ig % 4294967296))
  | .file _ =>
    match ffo fs (d ++ [n]) with
    | .ok f => .ok (some (f.fork.ty.take 4, f.fork.creator.take 4, totalSize fs (d ++ [n])))
    | .err => .err
    | .panic => .panic

def listEntries (fs : FS) (d : Path) (ig : Bytes → Bool) : List (Comp × Node) → Res (List Entry)
  | [] => .ok []
  | (n, node) :: rest =>
    if ig n then listEntries fs d ig rest
    else match entryInfo fs d ig n node with
      | .err => .err
      | .panic => .panic
      | .ok none => listEntries fs d ig rest
      | .ok (some (ty, cr, sz)) =>
        match listEntries fs d ig rest with
        | .ok es =>
          match encStr (trimInc n) with
          | some en => .ok (⟨n, en, ty, cr, sz⟩ :: es)
          | none => .ok es
        | r => r

/-- `GetFileNameList(path, ignoreList)` on a directory `d` (already resolved). -/
def fileList (fs : FS) (d : Path) (ig : Bytes → Bool) : Res (List Entry) :=
  listEntries fs d ig (children fs d)

-- ---------------------------------------------------------------- requests and replies

inductive Req where
  | getInfo (pf : Option Bytes) (name : Bytes)
  | setInfo (pf : Option Bytes) (name : Bytes) (comment newName : Option Bytes)
  | delete (pf : Option Bytes) (name : Bytes)
  | move (pf : Option Bytes) (name : Bytes) (newPf : Option Bytes)
  | newFolder (pf : Option Bytes) (name : Bytes)
  | alias (pf : Option Bytes) (name : Bytes) (newPf : Option Bytes)
  | list (pf : Option Bytes)
  | download (pf : Option Bytes) (name : Bytes)
  | uploadFile (pf : Option Bytes) (name : Bytes) (resume : Bool)
  | downloadFolder (pf : Option Bytes) (name : Bytes)
deriving Repr

inductive Reply where
  | none                       -- the handler returned no transaction
  | err                        -- error reply
  | ok                         -- empty success reply
  | panic                      -- the handler panicked (recovered by the connection loop)
  | list (es : List Entry)
  | info (name tyStr crStr ty : Bytes) (comment : Option Bytes) (size : Option Nat)
  | download (xfer fileSize : Nat)
  | upload (resume : Option Nat)
  | opaque                     -- reply not modelled here (folder download: C10)
deriving Repr

def deleteScript (t : Path) : List (FSOp × Bool) :=
  let w := wrapper t
  [(.removeAll w.data, false), (.remove w.inc, true), (.remove w.rsrc, true), (.remove w.info, true)]

/-- `fileWrapper.Move(newPath)` with `f.Name` = `nm` (`nmData` = the components `Join(newPath, Name)`
    adds: one, or none when `Name` is `/`). -/
def moveScript (t d : Path) (nmData : List Comp) (nm : Comp) : List (FSOp × Bool) :=
  let w := wrapper t
  [(.rename w.data (d ++ nmData), false), (.rename w.inc (d ++ [nm ++ incSfx]), true),
   (.rename w.rsrc (d ++ [rsrcPfx ++ nm]), true), (.rename w.info (d ++ [infoPfx ++ nm]), true)]

/-- `filepath.Base(filepath.Join("/", decoded new name))` as components: at most one. -/
def newNameComps (nn : Bytes) : List Comp := (joinRooted [] (decodeStr nn)).getLast?.toList

def isRoot (root t : Path) : Bool := decide (t = root)

def withTarget (root : Path) (fs : FS) (pf : Option Bytes) (name : Bytes) (k : Path → FS × Reply) : FS × Reply :=
  match target root pf name with
  | .ok t => k t
  | .err => (fs, .none)
  | .panic => (fs, .panic)

def getInfo (root : Path) (fs : FS) (pf : Option Bytes) (name : Bytes) : FS × Reply :=
  withTarget root fs pf name fun t =>
    if isRoot root t then (fs, .err)
    else match ffo fs t with
      | .err => (fs, .none)
      | .panic => (fs, .panic)
      | .ok f =>
        match encStr (wrapper t).name with
        | none => (fs, .none)
        | some en =>
          let ty := f.fork.ty.take 4
          (fs, .info en (friendly ty) (friendly (f.fork.creator.take 4)) ty
            (if f.fork.comment = [] then none else some f.fork.comment)
            (if ty = tyFldr then none else some (totalSize fs t)))

def download (root : Path) (fs : FS) (pf : Option Bytes) (name : Bytes) : FS × Reply :=
  withTarget root fs pf name fun t =>
    if isRoot root t then (fs, .err)
    else match ffo fs t with
      | .err => (fs, .none)
      | .panic => (fs, .panic)
      | .ok f => (fs, .download ((f.dataSize + f.rsrcSize + ffoLen f) % 4294967296) (f.dataSize % 4294967296))

def newFolder (root : Path) (fs : FS) (pf : Option Bytes) (name : Bytes) : FS × Reply :=
  withTarget root fs pf name fun t =>
    match stat statFuel fs t with
    | .error .notExist =>
      let r := runSeq fs [(.mkdir t, false)]
      if r.1 = .ok then (r.2, .ok) else (r.2, .err)
    | _ => (fs, .err)

def delete (root : Path) (fs : FS) (pf : Option Bytes) (name : Bytes) : FS × Reply :=
  withTarget root fs pf name fun t =>
    if isRoot root t then (fs, .err)
    else match ffo fs t with
      | .err => (fs, .none)
      | .panic => (fs, .panic)
      | .ok _ =>
        let w := wrapper t
        if (statOk fs w.data).isNone ∧ (statOk fs w.inc).isNone then (fs, .err)
        else
          let r := runSeq fs (deleteScript t)
          if r.1 = .ok then (r.2, .ok) else (r.2, .none)

def move (root : Path) (fs : FS) (pf : Option Bytes) (name : Bytes) (newPf : Option Bytes) : FS × Reply :=
  withTarget root fs pf name fun t =>
    withTarget root fs newPf [] fun d =>
      if isRoot root t then (fs, .err)
      else match ffo fs t with
        | .err => (fs, .none)
        | .panic => (fs, .panic)
        | .ok _ =>
          let w := wrapper t
          if (statOk fs w.data).isNone ∧ (statOk fs w.inc).isNone then (fs, .err)
          else
            let r := runSeq fs (moveScript t d [w.name] w.name)
            if r.1 = .ok then (r.2, .ok) else (r.2, .none)

def setInfo (root : Path) (fs : FS) (pf : Option Bytes) (name : Bytes) (comment newName : Option Bytes) : FS × Reply :=
  withTarget root fs pf name fun t =>
    if isRoot root t then (fs, .err)
    else match statOk fs t with
      | none => (fs, .none)
      | some node =>
        match ffo fs t with
        | .err => (fs, .none)
        | .panic => (fs, .panic)
        | .ok f =>
          let w := wrapper t
          let r1 : Err × FS := match comment with
            | none => (.ok, fs)
            | some c => runSeq fs [(.writeFile w.info ({ f.fork with comment := c }).encode, false)]
          if r1.1 ≠ .ok then (r1.2, .none)
          else match newName with
            | none => (r1.2, .ok)
            | some nn =>
              if node.isDir then
                withTarget root r1.2 pf nn fun t' =>
                  let r := runSeq r1.2 [(.rename t t', false)]
                  if r.1 = Err.notExist then (r.2, .err) else (r.2, .ok)
              else
                withTarget root r1.2 pf [] fun d =>
                  let cs := newNameComps nn
                  let r := runSeq r1.2 (moveScript t d cs (baseName cs))
                  match r.1 with
                  | .ok => (r.2, .ok)
                  | .notExist => (r.2, .err)
                  | .other => (r.2, .none)

def alias (root : Path) (fs : FS) (pf : Option Bytes) (name : Bytes) (newPf : Option Bytes) : FS × Reply :=
  withTarget root fs pf name fun src =>
    withTarget root fs newPf name fun dst =>
      let r := runSeq fs [(.symlink src dst, false)]
      if r.1 = .ok then (r.2, .ok) else (r.2, .err)

def list (root : Path) (ig : Bytes → Bool) (fs : FS) (pf : Option Bytes) : FS × Reply :=
  withTarget root fs pf [] fun t =>
    match stat statFuel fs t with
    | .ok (d, .dir) =>
      match fileList fs d ig with
      | .ok es => (fs, .list es)
      | .err => (fs, .none)
      | .panic => (fs, .panic)
    | _ => (fs, .none)

/-- `fullPath + ".incomplete"` (string concatenation on a rendered path). -/
def addSfx (p : Path) (s : Bytes) : Path := p.dropLast ++ [baseName p ++ s]

def uploadFile (root : Path) (fs : FS) (pf : Option Bytes) (name : Bytes) (resume : Bool) : FS × Reply :=
  withTarget root fs pf name fun t =>
    match statOk fs t with
    | some _ => (fs, .err)
    | none =>
      if resume then
        match statOk fs (addSfx t incSfx) with
        | some n => (fs, .upload (some (n.size % 4294967296)))
        | none => (fs, .none)
      else (fs, .upload none)

def handle (root : Path) (ig : Bytes → Bool) (fs : FS) : Req → FS × Reply
  | .getInfo pf n => getInfo root fs pf n
  | .setInfo pf n c nn => setInfo root fs pf n c nn
  | .delete pf n => delete root fs pf n
  | .move pf n np => move root fs pf n np
  | .newFolder pf n => newFolder root fs pf n
  | .alias pf n np => alias root fs pf n np
  | .list pf => list root ig fs pf
  | .download pf n => download root fs pf n
  | .uploadFile pf n r => uploadFile root fs pf n r
  | .downloadFolder pf n => withTarget root fs pf n fun _ => (fs, .opaque)

-- ---------------------------------------------------------------- path arguments per request

def okPaths (r : Res Path) : List Path :=
  match r with
  | .ok t => [t]
  | _ => []

/-- Paths of a request whose target gets a `fileWrapper`, with the `addressesFileRoot` refusal. -/
def guardedWrapperPaths (root : Path) (pf : Option Bytes) (name : Bytes) : List Path :=
  match target root pf name with
  | .ok t => if isRoot root t then [t] else wrapperPaths t
  | _ => []

/-- Every path argument the handler of `req` can hand to the OS, whatever the namespace contains
    (`uploadFile` depends on the namespace: see `uploadFilePaths`). -/
def Req.paths (root : Path) : Req → List Path
  | .getInfo pf n => guardedWrapperPaths root pf n
  | .download pf n => guardedWrapperPaths root pf n
  | .delete pf n => guardedWrapperPaths root pf n
  | .move pf n np =>
    guardedWrapperPaths root pf n ++
    (match target root pf n, target root np [] with
     | .ok t, .ok d => d :: (if isRoot root t then [] else (moveScript t d [(wrapper t).name] (wrapper t).name).flatMap (·.1.args))
     | _, _ => [])
  | .setInfo pf n _ nn =>
    guardedWrapperPaths root pf n ++
    (match nn with
     | none => []
     | some nn =>
       okPaths (target root pf nn) ++
       (match target root pf n, target root pf [] with
        | .ok t, .ok d => d :: (if isRoot root t then [] else (moveScript t d (newNameComps nn) (baseName (newNameComps nn))).flatMap (·.1.args))
        | _, _ => []))
  | .newFolder pf n => okPaths (target root pf n)
  | .alias pf n np => okPaths (target root pf n) ++ okPaths (target root np n)
  | .list pf => okPaths (target root pf [])      -- plus everything below it (children, their side files)
  | .uploadFile pf n _ => okPaths (target root pf n)
  | .downloadFolder pf n => okPaths (target root pf n)   -- plus everything below it

/-- `HandleUploadFile`: `Stat(full)`, and — only when that failed — `Stat(full + ".incomplete")`. -/
def uploadFilePaths (root : Path) (fs : FS) (pf : Option Bytes) (name : Bytes) : List Path :=
  match target root pf name with
  | .ok t => t :: (if (statOk fs t).isSome then [] else [addSfx t incSfx])
  | _ => []

-- ---------------------------------------------------------------- folder upload (transfer connection)

/-- `folderUpload.FormattedPath` segment loop: `count` items of `0,0,len,name`; an index or slice
    out of range panics (recovered by `handleFileTransfer`). -/
def fuSegments : Nat → Bytes → Res (List Bytes)
  | 0, _ => .ok []
  | n + 1, d =>
    if d.length < 3 then .panic
    else
      let l := ((d.drop 2).headD 0).toNat
      if d.length < 3 + l then .panic
      else match fuSegments n (d.drop (3 + l)) with
        | .ok ss => .ok ((d.drop 3).take l :: ss)
        | r => r

/-- `strings.TrimPrefix(filepath.Join("/", filepath.Join(segments…)), "/")` as components
    (no Mac-Roman decode: the raw bytes name the file). -/
def formattedComps (segs : List Bytes) : List Comp := segs.foldl joinRooted []

def formattedPath (count : Nat) (data : Bytes) : Res (List Comp) :=
  match fuSegments count data with
  | .ok segs => .ok (formattedComps segs)
  | .err => .err
  | .panic => .panic

/-- Path arguments of one `UploadFolderHandler` item below the transfer's folder `full`. -/
def folderItemPaths (fs : FS) (full : Path) (fp : List Comp) (isFolder : Bool) : List Path :=
  let j := full ++ fp
  if isFolder then [j]
  else
    let incJ := full ++ addSfx fp incSfx
    [j, incJ] ++
      (if statMissing fs j && statMissing fs incJ then wrapperPaths j else [])

-- ---------------------------------------------------------------- account files

/-- `filepath.Join(accountDir, path.Join("/", login+".yaml"))` (Create, Delete). -/
def acctFile1 (dir : Path) (login : Bytes) : Path := dir ++ joinRooted [] (login ++ yamlSfx)

/-- `filepath.Join(accountDir, path.Join("/", login)+".yaml")` (Update). -/
def acctFile2 (dir : Path) (login : Bytes) : Path := dir ++ addSfx (joinRooted [] login) yamlSfx

def acctCreatePaths (dir : Path) (login : Bytes) : List Path :=
  [addSfx (acctFile1 dir login) tmpSfx, acctFile1 dir login]

def acctUpdatePaths (dir : Path) (old new : Bytes) : List Path :=
  [acctFile2 dir old, acctFile2 dir new, addSfx (acctFile2 dir new) tmpSfx]

def acctDeletePaths (dir : Path) (login : Bytes) : List Path := [acctFile1 dir login]

/-- `YAMLAccountManager.Create`: write the temp file, link it to the final name, remove the temp file. -/
def acctCreate (fs : FS) (dir : Path) (login : Bytes) (yaml : Bytes) : FS :=
  let p := acctFile1 dir login
  let tmp := addSfx p tmpSfx
  let r1 := FS.writeFile fs tmp yaml
  if r1.1 ≠ .ok then r1.2
  else (FS.remove (FS.hardlink r1.2 tmp p).2 tmp).2

/-- `YAMLAccountManager.Update`: optional rename of the file, then temp file + rename. -/
def acctUpdate (fs : FS) (dir : Path) (old new : Bytes) (yaml : Bytes) : FS :=
  let r0 : Err × FS := if old ≠ new then FS.rename fs (acctFile2 dir old) (acctFile2 dir new) else (.ok, fs)
  if r0.1 ≠ .ok then r0.2
  else
    let p := acctFile2 dir new
    let tmp := addSfx p tmpSfx
    (runSeq r0.2 [(.writeFile tmp yaml, false), (.rename tmp p, false)]).2

def acctDelete (fs : FS) (dir : Path) (login : Bytes) : FS := (FS.remove fs (acctFile1 dir login)).2

end Mobius.FileOps
