import MobiusModel.PathAlg
/-!
  FS: an abstract POSIX-ish namespace (DESIGN §6.6): `path ↦ file bytes | dir | symlink target`,
  with the operations the file handlers use and the semantics of the Go `os` wrappers on Linux for
  the cases the code reaches (`os.Rename` never replaces a directory; `os.Remove` = unlink or rmdir;
  `os.RemoveAll` of a missing path is not an error; `Stat` follows a final symlink, `Lstat`-style
  lookups do not).  Paths are component lists; symlinks in *intermediate* components are not
  resolved (the generated histories never go through an alias folder; see docs/C11.md).

  Frame lemma (`FSOp.frame`, `runSeq_frame`): an operation changes only entries at or below its
  path arguments.
-/
namespace Mobius.FS
open Mobius.PathAlg

abbrev Path := List Comp

inductive Node where
  | file (data : Bytes)
  | dir
  | link (target : Path)
deriving DecidableEq, Repr

abbrev FS := List (Path × Node)

def Node.size : Node → Nat
  | .file d => d.length
  | _ => 0          -- directory sizes are file-system dependent; never compared

def Node.isDir : Node → Bool
  | .dir => true
  | _ => false

inductive Err where
  | ok
  | notExist      -- ENOENT: `errors.Is(err, fs.ErrNotExist)`
  | other         -- any other error (EEXIST, ENOTDIR, EISDIR, ENOTEMPTY, EINVAL, ELOOP)
deriving DecidableEq, Repr

def lookup : FS → Path → Option Node
  | [], _ => none
  | (q, n) :: rest, p => if q = p then some n else lookup rest p

def isFile : Option Node → Bool
  | some (.file _) => true
  | _ => false

/-- Error of a lookup that found nothing: ENOTDIR when an ancestor is a regular file, else ENOENT. -/
def missingErr (fs : FS) (p : Path) : Err :=
  if (List.range p.length).any (fun k => isFile (lookup fs (p.take k))) then .other else .notExist

/-- The first proper prefix of `p` bound to a regular file or a symlink (what path resolution trips
    over before it reaches the last component). -/
def firstSpecial (fs : FS) (p : Path) : Option (Nat × Node) :=
  (List.range p.length).findSome? (fun k =>
    match lookup fs (p.take k) with
    | some (.file b) => some (k, .file b)
    | some (.link t) => some (k, .link t)
    | _ => none)

/-- `os.Stat`: resolves symlinks on the way and at the final component (`fuel` bounds the number of
    links followed: ELOOP); a regular file on the way is ENOTDIR.  Returns the resolved path and the
    (non-link) node. -/
def stat : Nat → FS → Path → Except Err (Path × Node)
  | 0, _, _ => .error .other
  | f + 1, fs, p =>
    match firstSpecial fs p with
    | some (k, .link t) => stat f fs (t ++ p.drop k)
    | some _ => .error .other
    | none =>
      match lookup fs p with
      | none => .error .notExist
      | some (.link t) => stat f fs t
      | some n => .ok (p, n)

def statFuel : Nat := 48

/-- Does some entry lie strictly below `p`? -/
def hasChild (fs : FS) (p : Path) : Bool := fs.any (fun e => decide (p <+: e.1 ∧ e.1 ≠ p))

/-- Names bound directly inside `d`, in list order, possibly with repetitions (shadowed bindings). -/
def rawNames (fs : FS) (d : Path) : List Comp :=
  fs.filterMap (fun e => if e.1.length = d.length + 1 ∧ d <+: e.1 then some (e.1.getLast?.getD []) else none)

/-- Keep the first occurrence of every name. -/
def dedup : List Comp → List Comp
  | [] => []
  | c :: cs => c :: (dedup cs).filter (fun x => decide (x ≠ c))

/-- The entries directly inside `d` (`os.ReadDir`): every name once, with the node `lookup` gives it
    (the first binding of a path is the one that exists), in list order — `os.ReadDir` sorts by name;
    the oracle is handed a sorted tree, the theorems do not depend on the order. -/
def children (fs : FS) (d : Path) : List (Comp × Node) :=
  (dedup (rawNames fs d)).filterMap (fun n => (lookup fs (d ++ [n])).map (fun nd => (n, nd)))

def parentErr (fs : FS) (p : Path) : Err :=
  match p with
  | [] => .other
  | _ => match lookup fs p.dropLast with
    | some .dir => .ok
    | some _ => .other
    | none => missingErr fs p.dropLast

def erase (fs : FS) (p : Path) : FS := fs.filter (fun e => decide (e.1 ≠ p))

def rekey (a b : Path) (e : Path × Node) : Path × Node :=
  if a <+: e.1 then (b ++ e.1.drop a.length, e.2) else e

def mkdir (fs : FS) (p : Path) : Err × FS :=
  match lookup fs p with
  | some _ => (.other, fs)
  | none => match parentErr fs p with
    | .ok => (.ok, (p, .dir) :: fs)
    | e => (e, fs)

/-- `os.Remove`: unlink, or rmdir of an empty directory. -/
def remove (fs : FS) (p : Path) : Err × FS :=
  match lookup fs p with
  | none => (missingErr fs p, fs)
  | some .dir => if hasChild fs p then (.other, fs) else (.ok, erase fs p)
  | some _ => (.ok, erase fs p)

/-- `os.RemoveAll`. -/
def removeAll (fs : FS) (p : Path) : Err × FS := (.ok, fs.filter (fun e => decide (¬ p <+: e.1)))

/-- `os.Rename` (Go on Linux): Go refuses an existing directory as the new name (reporting the old
    name's error first); then rename(2): both parent folders are resolved before the old name is looked up. -/
def rename (fs : FS) (a b : Path) : Err × FS :=
  match lookup fs b with
  | some .dir =>
    (match lookup fs a with
     | none => (missingErr fs a, fs)
     | some _ => (.other, fs))
  | nb =>
    match parentErr fs a with
    | .ok =>
      (match parentErr fs b with
       | .ok =>
         (match lookup fs a with
          | none => (.notExist, fs)
          | some na =>
            if a = b then (.ok, fs)
            else if a <+: b then (.other, fs)
            else if na = .dir ∧ nb.isSome then (.other, fs)
            else (.ok, (erase fs b).map (rekey a b)))
       | e => (e, fs))
    | e => (e, fs)

def symlink (fs : FS) (target p : Path) : Err × FS :=
  match lookup fs p with
  | some _ => (.other, fs)
  | none => match parentErr fs p with
    | .ok => (.ok, (p, .link target) :: fs)
    | e => (e, fs)

/-- `OpenFile(O_CREATE|O_WRONLY|O_TRUNC)` + write + close. -/
def writeFile (fs : FS) (p : Path) (d : Bytes) : Err × FS :=
  match lookup fs p with
  | some (.file _) => (.ok, (p, .file d) :: erase fs p)
  | some _ => (.other, fs)
  | none => match parentErr fs p with
    | .ok => (.ok, (p, .file d) :: fs)
    | e => (e, fs)

/-- `os.Link(a, b)`: a second name for a regular file; fails when `b` exists. -/
def hardlink (fs : FS) (a b : Path) : Err × FS :=
  match lookup fs a, lookup fs b with
  | some (.file d), none => match parentErr fs b with
    | .ok => (.ok, (b, .file d) :: fs)
    | e => (e, fs)
  | none, _ => (missingErr fs a, fs)
  | _, _ => (.other, fs)

-- ---------------------------------------------------------------- operations as data

inductive FSOp where
  | mkdir (p : Path)
  | rename (a b : Path)
  | remove (p : Path)
  | removeAll (p : Path)
  | symlink (target p : Path)
  | writeFile (p : Path) (d : Bytes)
  | hardlink (a b : Path)
deriving Repr

/-- The path arguments whose entries the operation may change. -/
def FSOp.paths : FSOp → List Path
  | .mkdir p => [p]
  | .rename a b => [a, b]
  | .remove p => [p]
  | .removeAll p => [p]
  | .symlink _ p => [p]
  | .writeFile p _ => [p]
  | .hardlink a b => [a, b]

/-- Every path string handed to the OS (for a symlink this includes the stored target). -/
def FSOp.args : FSOp → List Path
  | .symlink t p => [t, p]
  | op => op.paths

def FSOp.apply (fs : FS) : FSOp → Err × FS
  | .mkdir p => FS.mkdir fs p
  | .rename a b => FS.rename fs a b
  | .remove p => FS.remove fs p
  | .removeAll p => FS.removeAll fs p
  | .symlink t p => FS.symlink fs t p
  | .writeFile p d => FS.writeFile fs p d
  | .hardlink a b => FS.hardlink fs a b

/-- A straight-line sequence of operations that stops at the first error; the flag marks steps whose
    ENOENT is tolerated (`err != nil && !errors.Is(err, os.ErrNotExist)`). -/
def runSeq : FS → List (FSOp × Bool) → Err × FS
  | fs, [] => (.ok, fs)
  | fs, (op, tol) :: rest =>
    let r := op.apply fs
    if r.1 = .ok ∨ (tol = true ∧ r.1 = .notExist) then runSeq r.2 rest else r

-- ---------------------------------------------------------------- frame lemmas

theorem lookup_cons (fs : FS) (e : Path × Node) (p : Path) :
    lookup (e :: fs) p = if e.1 = p then some e.2 else lookup fs p := by
  obtain ⟨q, n⟩ := e; simp [lookup]

theorem lookup_cons_ne (fs : FS) (q p : Path) (n : Node) (h : q ≠ p) : lookup ((q, n) :: fs) p = lookup fs p := by
  simp [lookup, h]

theorem lookup_filter (fs : FS) (f : Path × Node → Bool) (x : Path)
    (h : ∀ e ∈ fs, e.1 = x → f e = true) : lookup (fs.filter f) x = lookup fs x := by
  induction fs with
  | nil => rfl
  | cons e fs ih =>
    have ih' := ih (fun e he => h e (by simp [he]))
    rw [List.filter_cons]
    by_cases hq : e.1 = x
    · have := h e (by simp) hq
      simp only [this, if_true, lookup_cons, hq]
    · split
      · simp only [lookup_cons, hq, if_false, ih']
      · simp only [lookup_cons, hq, if_false, ih']

theorem lookup_map (fs : FS) (g : Path × Node → Path × Node) (x : Path)
    (h : ∀ e ∈ fs, ((g e).1 = x ↔ e.1 = x) ∧ (e.1 = x → (g e).2 = e.2)) :
    lookup (fs.map g) x = lookup fs x := by
  induction fs with
  | nil => rfl
  | cons e fs ih =>
    have ih' := ih (fun e he => h e (by simp [he]))
    obtain ⟨h1, h2⟩ := h e (by simp)
    simp only [List.map_cons, lookup_cons]
    by_cases hq : e.1 = x
    · simp only [h1.mpr hq, hq, if_true, h2 hq]
    · have : (g e).1 ≠ x := fun e' => hq (h1.mp e')
      simp only [this, hq, if_false, ih']

theorem prefix_refl' (p : Path) : p <+: p := List.prefix_refl p

theorem lookup_erase (fs : FS) (p x : Path) (h : p ≠ x) : lookup (erase fs p) x = lookup fs x := by
  apply lookup_filter
  intro e _ he
  simp [he, Ne.symm h]

theorem lookup_rekey (fs : FS) (a b x : Path) (ha : ¬ a <+: x) (hb : ¬ b <+: x) :
    lookup (fs.map (rekey a b)) x = lookup fs x := by
  apply lookup_map
  intro e _
  unfold rekey
  by_cases hp : a <+: e.1
  · rw [if_pos hp]
    refine ⟨⟨?_, ?_⟩, fun _ => rfl⟩
    · intro h; exact absurd (h ▸ List.prefix_append b _) hb
    · intro h; exact absurd (h ▸ hp) ha
  · rw [if_neg hp]
    exact ⟨Iff.rfl, fun _ => rfl⟩

theorem mkdir_frame (fs : FS) (p x : Path) (h : ¬ p <+: x) : lookup (mkdir fs p).2 x = lookup fs x := by
  have hne : p ≠ x := fun e => h (e ▸ prefix_refl' p)
  unfold mkdir
  split
  · rfl
  · split
    · exact lookup_cons_ne _ _ _ _ hne
    · rfl

theorem remove_frame (fs : FS) (p x : Path) (h : ¬ p <+: x) : lookup (remove fs p).2 x = lookup fs x := by
  have hne : p ≠ x := fun e => h (e ▸ prefix_refl' p)
  unfold remove
  split
  · rfl
  · split
    · rfl
    · exact lookup_erase fs p x hne
  · exact lookup_erase fs p x hne

theorem removeAll_frame (fs : FS) (p x : Path) (h : ¬ p <+: x) : lookup (removeAll fs p).2 x = lookup fs x := by
  unfold removeAll
  apply lookup_filter
  intro e _ he
  simp [he, h]

theorem rename_frame (fs : FS) (a b x : Path) (ha : ¬ a <+: x) (hb : ¬ b <+: x) :
    lookup (rename fs a b).2 x = lookup fs x := by
  have hne : b ≠ x := fun e => hb (e ▸ prefix_refl' b)
  unfold rename
  split
  · split <;> rfl
  · split
    · split
      · split
        · rfl
        · split
          · rfl
          · split
            · rfl
            · split
              · rfl
              · show lookup ((erase fs b).map (rekey a b)) x = lookup fs x
                rw [lookup_rekey _ a b x ha hb, lookup_erase fs b x hne]
      · rfl
    · rfl

theorem symlink_frame (fs : FS) (t p x : Path) (h : ¬ p <+: x) : lookup (symlink fs t p).2 x = lookup fs x := by
  have hne : p ≠ x := fun e => h (e ▸ prefix_refl' p)
  unfold symlink
  split
  · rfl
  · split
    · exact lookup_cons_ne _ _ _ _ hne
    · rfl

theorem writeFile_frame (fs : FS) (p x : Path) (d : Bytes) (h : ¬ p <+: x) :
    lookup (writeFile fs p d).2 x = lookup fs x := by
  have hne : p ≠ x := fun e => h (e ▸ prefix_refl' p)
  unfold writeFile
  split
  · show lookup ((p, Node.file d) :: erase fs p) x = lookup fs x
    rw [lookup_cons_ne _ _ _ _ hne, lookup_erase fs p x hne]
  · rfl
  · split
    · exact lookup_cons_ne _ _ _ _ hne
    · rfl

theorem hardlink_frame (fs : FS) (a b x : Path) (h : ¬ b <+: x) : lookup (hardlink fs a b).2 x = lookup fs x := by
  have hne : b ≠ x := fun e => h (e ▸ prefix_refl' b)
  unfold hardlink
  split
  · split
    · exact lookup_cons_ne _ _ _ _ hne
    · rfl
  · rfl
  · rfl

/-- FS.frame (DESIGN §11): an operation changes only entries at or below its path arguments. -/
theorem FSOp.frame (op : FSOp) (fs : FS) (x : Path) (h : ∀ q ∈ op.paths, ¬ q <+: x) :
    lookup (op.apply fs).2 x = lookup fs x := by
  cases op with
  | mkdir p => exact mkdir_frame fs p x (h p (by simp [FSOp.paths]))
  | rename a b => exact rename_frame fs a b x (h a (by simp [FSOp.paths])) (h b (by simp [FSOp.paths]))
  | remove p => exact remove_frame fs p x (h p (by simp [FSOp.paths]))
  | removeAll p => exact removeAll_frame fs p x (h p (by simp [FSOp.paths]))
  | symlink t p => exact symlink_frame fs t p x (h p (by simp [FSOp.paths]))
  | writeFile p d => exact writeFile_frame fs p x d (h p (by simp [FSOp.paths]))
  | hardlink a b => exact hardlink_frame fs a b x (h b (by simp [FSOp.paths]))

theorem runSeq_frame (ops : List (FSOp × Bool)) (fs : FS) (x : Path)
    (h : ∀ o ∈ ops, ∀ q ∈ o.1.paths, ¬ q <+: x) : lookup (runSeq fs ops).2 x = lookup fs x := by
  induction ops generalizing fs with
  | nil => rfl
  | cons o ops ih =>
    obtain ⟨op, tol⟩ := o
    have h1 := FSOp.frame op fs x (h (op, tol) (by simp))
    unfold runSeq
    dsimp only
    split
    · rw [ih _ (fun o ho => h o (by simp [ho])), h1]
    · exact h1

/-- Containment form of the frame lemma: if every path argument lies under `root`, nothing outside
    `root` changes. -/
theorem runSeq_outside (root : Path) (ops : List (FSOp × Bool)) (fs : FS) (x : Path)
    (hops : ∀ o ∈ ops, ∀ q ∈ o.1.paths, root <+: q) (hx : ¬ root <+: x) :
    lookup (runSeq fs ops).2 x = lookup fs x :=
  runSeq_frame ops fs x (fun o ho q hq hqx => hx (List.IsPrefix.trans (hops o ho q hq) hqx))

-- ---------------------------------------------------------------- directory contents

theorem lookup_some_mem (fs : FS) (p : Path) (n : Node) (h : lookup fs p = some n) : (p, n) ∈ fs := by
  induction fs with
  | nil => simp [lookup] at h
  | cons e fs ih =>
    rw [lookup_cons] at h
    by_cases he : e.1 = p
    · rw [if_pos he] at h
      injection h with h
      have : e = (p, n) := by rw [← he, ← h]
      rw [this]; simp
    · rw [if_neg he] at h
      exact List.mem_cons_of_mem _ (ih h)

theorem mem_dedup (l : List Comp) (x : Comp) : x ∈ dedup l ↔ x ∈ l := by
  induction l with
  | nil => simp [dedup]
  | cons c cs ih =>
    simp only [dedup, List.mem_cons, List.mem_filter, decide_eq_true_eq, ih]
    by_cases h : x = c
    · simp [h]
    · simp [h]

theorem dedup_nodup (l : List Comp) : (dedup l).Nodup := by
  induction l with
  | nil => simp [dedup]
  | cons c cs ih =>
    simp only [dedup, List.nodup_cons, List.mem_filter, decide_eq_true_eq]
    exact ⟨fun h => h.2 rfl, ih.sublist List.filter_sublist⟩

theorem mem_rawNames (fs : FS) (d : Path) (n : Comp) : n ∈ rawNames fs d ↔ ∃ nd, (d ++ [n], nd) ∈ fs := by
  unfold rawNames
  rw [List.mem_filterMap]
  constructor
  · rintro ⟨e, he, hc⟩
    split at hc
    · rename_i hcond
      obtain ⟨hlen, r, hr⟩ := hcond
      injection hc with hc
      have hr1 : r.length = 1 := by
        have := congrArg List.length hr; simp at this; omega
      match r, hr1 with
      | [z], _ =>
        refine ⟨e.2, ?_⟩
        have : e.1 = d ++ [n] := by rw [← hr]; rw [← hr] at hc; simp at hc; rw [hc]
        rw [← this]; exact he
    · cases hc
  · rintro ⟨nd, h⟩
    refine ⟨(d ++ [n], nd), h, ?_⟩
    simp

/-- A directory entry is exactly a path one component below `d` that `lookup` finds. -/
theorem mem_children (fs : FS) (d : Path) (n : Comp) (nd : Node) :
    (n, nd) ∈ children fs d ↔ lookup fs (d ++ [n]) = some nd := by
  unfold children
  rw [List.mem_filterMap]
  constructor
  · rintro ⟨m, _, hm⟩
    cases hl : lookup fs (d ++ [m]) with
    | none => simp [hl] at hm
    | some x =>
      simp only [hl, Option.map_some, Option.some.injEq, Prod.mk.injEq] at hm
      obtain ⟨rfl, rfl⟩ := hm
      exact hl
  · intro h
    refine ⟨n, ?_, by simp [h]⟩
    rw [mem_dedup, mem_rawNames]
    exact ⟨nd, lookup_some_mem fs _ nd h⟩

/-- Every name appears once. -/
theorem children_names_nodup (fs : FS) (d : Path) : ((children fs d).map (·.1)).Nodup := by
  unfold children
  have : ((dedup (rawNames fs d)).filterMap (fun n => (lookup fs (d ++ [n])).map (fun nd => (n, nd)))).map (·.1) =
      (dedup (rawNames fs d)).filter (fun n => (lookup fs (d ++ [n])).isSome) := by
    induction dedup (rawNames fs d) with
    | nil => rfl
    | cons c cs ih =>
      cases hl : lookup fs (d ++ [c]) with
      | none => simp [hl, ih]
      | some x => simp [hl, ih]
  rw [this]
  exact (dedup_nodup _).sublist List.filter_sublist

-- ---------------------------------------------------------------- symlink targets stay inside

/-- Every symlink stored in the namespace points inside `root`. -/
def LinksInside (root : Path) (fs : FS) : Prop := ∀ e ∈ fs, ∀ t, e.2 = .link t → root <+: t

theorem linksInside_filter (root : Path) (fs : FS) (f : Path × Node → Bool) (h : LinksInside root fs) :
    LinksInside root (fs.filter f) :=
  fun e he t ht => h e (List.mem_filter.mp he).1 t ht

theorem linksInside_rekey (root : Path) (fs : FS) (a b : Path) (h : LinksInside root fs) :
    LinksInside root (fs.map (rekey a b)) := by
  intro e he t ht
  obtain ⟨e0, he0, rfl⟩ := List.mem_map.mp he
  apply h e0 he0 t
  unfold rekey at ht
  split at ht <;> exact ht

theorem linksInside_cons (root : Path) (fs : FS) (p : Path) (n : Node) (h : LinksInside root fs)
    (hn : ∀ t, n = .link t → root <+: t) : LinksInside root ((p, n) :: fs) := by
  intro e he t ht
  rcases List.mem_cons.mp he with rfl | he
  · exact hn t ht
  · exact h e he t ht

/-- No operation can make a symlink point outside `root` unless it is a `symlink` call whose target
    argument is outside: the invariant "all aliases point inside the root" is preserved. -/
theorem FSOp.linksInside (root : Path) (op : FSOp) (fs : FS) (h : LinksInside root fs)
    (hop : ∀ t p, op = .symlink t p → root <+: t) : LinksInside root (op.apply fs).2 := by
  cases op with
  | mkdir p =>
    simp only [FSOp.apply, FS.mkdir]; split
    · exact h
    · split
      · exact linksInside_cons root fs p .dir h (by intro t ht; cases ht)
      · exact h
  | rename a b =>
    simp only [FSOp.apply, FS.rename]
    split
    · split <;> exact h
    · split
      · split
        · split
          · exact h
          · split
            · exact h
            · split
              · exact h
              · split
                · exact h
                · exact linksInside_rekey root _ a b (linksInside_filter root fs _ h)
        · exact h
      · exact h
  | remove p =>
    simp only [FSOp.apply, FS.remove]; split
    · exact h
    · split
      · exact h
      · exact linksInside_filter root fs _ h
    · exact linksInside_filter root fs _ h
  | removeAll p => exact linksInside_filter root fs _ h
  | symlink t p =>
    simp only [FSOp.apply, FS.symlink]; split
    · exact h
    · split
      · exact linksInside_cons root fs p (.link t) h (by intro t' ht'; cases ht'; exact hop t p rfl)
      · exact h
  | writeFile p d =>
    simp only [FSOp.apply, FS.writeFile]; split
    · exact linksInside_cons root _ p (.file d) (linksInside_filter root fs _ h) (by intro t ht; cases ht)
    · exact h
    · split
      · exact linksInside_cons root fs p (.file d) h (by intro t ht; cases ht)
      · exact h
  | hardlink a b =>
    simp only [FSOp.apply, FS.hardlink]; split
    · split
      · exact linksInside_cons root fs b (.file _) h (by intro t ht; cases ht)
      · exact h
    · exact h
    · exact h

theorem runSeq_linksInside (root : Path) (ops : List (FSOp × Bool)) (fs : FS) (h : LinksInside root fs)
    (hops : ∀ o ∈ ops, ∀ t p, o.1 = .symlink t p → root <+: t) : LinksInside root (runSeq fs ops).2 := by
  induction ops generalizing fs with
  | nil => exact h
  | cons o ops ih =>
    obtain ⟨op, tol⟩ := o
    have h1 := FSOp.linksInside root op fs h (hops (op, tol) (by simp))
    unfold runSeq
    dsimp only
    split
    · exact ih _ h1 (fun o ho => hops o (by simp [ho]))
    · exact h1

end Mobius.FS
