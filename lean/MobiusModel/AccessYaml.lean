import MobiusModel.Access
/-!
  AccessYaml: how an access bitmap is written to and read from an account file
  (`AccessBitmap.MarshalYAML` / `UnmarshalYAML` in hotline/access.go), as folds over the four
  tables the fact extractor regenerates from the source on every check:

    consts    : Access* constant  ↦ bit number               (Generated.accessConsts)
    unmarshal : yaml key          ↦ Access* constant it sets  (Generated.unmarshalTable)
    flags     : struct field      ↦ yaml tag                  (Generated.flagsStruct)
    marshal   : struct field      ↦ Access* constant it reads (Generated.marshalTable)

  Nothing here mentions the concrete tables: the theorems are about *whatever the tables say* and
  hold for every bitmap once the finite table check `okB` (closed by `decide` in Props/C16) holds.
  The YAML library itself (key/value text ↔ map) is a trusted parameter, exercised by the harness.
-/
namespace Mobius.AccessYaml
open AccessBitmap

structure Tables where
  consts    : List (String × Nat)
  unmarshal : List (String × String)
  flags     : List (String × String)
  marshal   : List (String × String)

/-- the named-flag document: yaml key ↦ bool, in the order written -/
abbrev YamlMap := List (String × Bool)

/-- `UnmarshalYAML`, named branch, resolved: (yaml key, bit set when the key is `true`).
    `none`: the constant is not declared (cannot compile; kept visible so that `okB` fails). -/
def loadTable (T : Tables) : List (String × Option Nat) :=
  T.unmarshal.map fun e => (e.1, T.consts.lookup e.2)

/-- `MarshalYAML` through the `accessFlags` struct, resolved, in struct-field order:
    (yaml tag, bit whose `IsSet` is written).  A field that `MarshalYAML` does not assign keeps
    Go's zero value `false`: `none`. -/
def saveTable (T : Tables) : List (String × Option Nat) :=
  T.flags.map fun e => (e.2, (T.marshal.lookup e.1).bind fun c => T.consts.lookup c)

def saveEntry (b : AccessBitmap) (e : String × Option Nat) : String × Bool :=
  (e.1, match e.2 with | some n => b.isSet n | none => false)

/-- what `yaml.Marshal` is handed for a bitmap -/
def save (T : Tables) (b : AccessBitmap) : YamlMap := (saveTable T).map (saveEntry b)

def loadStep (m : YamlMap) (acc : AccessBitmap) (e : String × Option Nat) : AccessBitmap :=
  match e.2 with
  | some n => if m.lookup e.1 = some true then acc.set n else acc
  | none => acc

/-- `if f, ok := v["Key"].(bool); ok && f { bits.Set(AccessKey) }` for every row of the table,
    starting from the zero bitmap of a fresh `Account` -/
def load (T : Tables) (m : YamlMap) : AccessBitmap := (loadTable T).foldl (loadStep m) zero

/-- `byte(v.(int))` -/
def byteOfInt (v : Int) : UInt8 := UInt8.ofNat (v % 256).toNat

/-- legacy branch `for i, v := range flags { bits[i] = byte(v.(int)) }`; `none` = index panic (more than 8 entries) -/
def loadLegacyFrom : AccessBitmap → Nat → List Int → Option AccessBitmap
  | b, _, [] => some b
  | b, i, v :: rest => if h : i < 8 then loadLegacyFrom ⟨b.bytes.set i (byteOfInt v)⟩ (i + 1) rest else none

def loadLegacy (arr : List Int) : Option AccessBitmap := loadLegacyFrom zero 0 arr

/-- what mobius < 0.17 wrote: the 8 bytes as a numeric array -/
def legacyArray (b : AccessBitmap) : List Int := b.toBytes.map fun x => (x.toNat : Int)

/-- the user-access field (110) sent to clients: the raw bytes -/
def wire (b : AccessBitmap) : Bytes := b.toBytes

/-! ### the finite table check -/

def keys (l : List (String × Option Nat)) : List String := l.map (·.1)
def bits (l : List (String × Option Nat)) : List Nat := l.filterMap (·.2)

/-- Everything the round-trip theorem needs from the tables (decidable; evaluated by `decide`). -/
def okB (T : Tables) (defined : List Nat) : Bool :=
  -- every load row resolves, to a bit < 64, and the save side writes *that* bit under *that* key
  ((loadTable T).all fun e => match e.2 with
    | some n => decide (n < 64) && ((saveTable T).lookup e.1 == some (some n))
    | none => false) &&
  -- the bits that can be loaded are exactly the defined ones
  ((bits (loadTable T)).all fun n => defined.contains n) &&
  (defined.all fun n => (bits (loadTable T)).contains n) &&
  (defined.all fun n => decide (n < 64))

/-- same relation on both sides: every (key, bit) written is read back and vice versa, no key or bit twice -/
def sameBijectionB (T : Tables) : Bool :=
  ((saveTable T).all fun e => (loadTable T).contains e) &&
  ((loadTable T).all fun e => (saveTable T).contains e) &&
  decide ((keys (loadTable T)).Nodup) && decide ((bits (loadTable T)).Nodup) &&
  decide ((keys (saveTable T)).Nodup) && decide ((bits (saveTable T)).Nodup) &&
  ((loadTable T).length == (bits (loadTable T)).length) && ((saveTable T).length == (bits (saveTable T)).length)

/-! ### lemmas: from the table check to all bitmaps -/

theorem lookup_map_saveEntry (b : AccessBitmap) (l : List (String × Option Nat)) (k : String) :
    (l.map (saveEntry b)).lookup k = (l.lookup k).map fun o => match o with | some n => b.isSet n | none => false := by
  induction l with
  | nil => rfl
  | cons e es ih =>
    obtain ⟨ek, ev⟩ := e
    simp only [List.map_cons, saveEntry, List.lookup_cons]
    cases h : (k == ek)
    · simpa [saveEntry] using ih
    · rfl

theorem isSet_load_fold (m : YamlMap) (l : List (String × Option Nat))
    (hl : ∀ e ∈ l, ∀ n, e.2 = some n → n < 64) (acc : AccessBitmap) (j : Nat) (hj : j < 64) :
    (l.foldl (loadStep m) acc).isSet j = true ↔
      (∃ e ∈ l, e.2 = some j ∧ m.lookup e.1 = some true) ∨ acc.isSet j = true := by
  induction l generalizing acc with
  | nil => simp
  | cons x xs ih =>
    have hxs : ∀ e ∈ xs, ∀ n, e.2 = some n → n < 64 := fun e he => hl e (by simp [he])
    rw [List.foldl_cons, ih hxs]
    have step : (loadStep m acc x).isSet j = true ↔ (x.2 = some j ∧ m.lookup x.1 = some true) ∨ acc.isSet j = true := by
      unfold loadStep
      cases hx : x.2 with
      | none => simp
      | some n =>
        have hn : n < 64 := hl x (by simp) n hx
        by_cases hm : m.lookup x.1 = some true
        · simp only [hm, if_true]
          rw [isSet_set acc n j hn hj]
          simp
        · simp [hm]
    rw [step]
    simp only [List.mem_cons, exists_eq_or_imp]
    constructor
    · rintro (h | h | h)
      · exact Or.inl (Or.inr h)
      · exact Or.inl (Or.inl h)
      · exact Or.inr h
    · rintro ((h | h) | h)
      · exact Or.inr (Or.inl h)
      · exact Or.inl h
      · exact Or.inr (Or.inr h)

theorem mem_bits (l : List (String × Option Nat)) (j : Nat) : j ∈ bits l ↔ ∃ e ∈ l, e.2 = some j := by
  simp [bits, List.mem_filterMap]

/-- Main lemma: for tables passing `okB`, bit `j` survives save→load iff it is defined and was set. -/
theorem isSet_load_save (T : Tables) (D : List Nat) (ok : okB T D = true) (b : AccessBitmap) (j : Nat) (hj : j < 64) :
    (load T (save T b)).isSet j = true ↔ j ∈ D ∧ b.isSet j = true := by
  simp only [okB, Bool.and_eq_true, List.all_eq_true] at ok
  obtain ⟨⟨⟨h1, h2⟩, h3⟩, _⟩ := ok
  have hl : ∀ e ∈ loadTable T, ∀ n, e.2 = some n → n < 64 := by
    intro e he n hn
    have := h1 e he
    rw [hn] at this
    simp at this
    exact this.1
  unfold load
  rw [isSet_load_fold _ _ hl zero j hj]
  simp only [isSet_zero, or_false, Bool.false_eq_true]
  constructor
  · rintro ⟨e, he, hbit, hlk⟩
    have h1e := h1 e he
    rw [hbit] at h1e
    simp only [Bool.and_eq_true, decide_eq_true_eq, beq_iff_eq] at h1e
    refine ⟨?_, ?_⟩
    · have : j ∈ bits (loadTable T) := (mem_bits _ _).mpr ⟨e, he, hbit⟩
      have := h2 j this
      simpa using this
    · unfold save at hlk
      rw [lookup_map_saveEntry, h1e.2] at hlk
      simpa using hlk
  · rintro ⟨hD, hb⟩
    have : j ∈ bits (loadTable T) := by
      have := h3 j hD
      simpa using this
    obtain ⟨e, he, hbit⟩ := (mem_bits _ _).mp this
    refine ⟨e, he, hbit, ?_⟩
    have h1e := h1 e he
    rw [hbit] at h1e
    simp only [Bool.and_eq_true, decide_eq_true_eq, beq_iff_eq] at h1e
    unfold save
    rw [lookup_map_saveEntry, h1e.2]
    simp [hb]

theorem defined_lt (T : Tables) (D : List Nat) (ok : okB T D = true) : ∀ i ∈ D, i < 64 := by
  simp only [okB, Bool.and_eq_true, List.all_eq_true] at ok
  intro i hi
  simpa using ok.2 i hi

/-- save→load is exactly "keep the defined privileges" – for every bitmap. -/
theorem load_save (T : Tables) (D : List Nat) (ok : okB T D = true) (b : AccessBitmap) :
    load T (save T b) = b.mask D := by
  apply ext_isSet
  intro i hi
  have h1 := isSet_load_save T D ok b i hi
  have h2 := isSet_mask b D (defined_lt T D ok) i hi
  cases h : (load T (save T b)).isSet i <;> cases h' : (b.mask D).isSet i <;> simp_all

/-! ### legacy array -/

theorem byteOfInt_toNat (x : UInt8) : byteOfInt (x.toNat : Int) = x := by
  unfold byteOfInt
  apply UInt8.toNat_inj.mp
  have := x.toNat_lt
  have e : ((x.toNat : Int) % 256).toNat = x.toNat := by omega
  rw [e]; simp

theorem loadLegacyFrom_spec (l : List UInt8) (b : AccessBitmap) (i : Nat) (h : i + l.length ≤ 8) :
    loadLegacyFrom b i (l.map fun x => (x.toNat : Int)) =
      some ⟨Vector.ofFn fun (k : Fin 8) => if i ≤ k.val ∧ k.val < i + l.length then l.getD (k.val - i) 0 else b.bytes[k.val]⟩ := by
  induction l generalizing b i with
  | nil =>
    simp only [List.map_nil, loadLegacyFrom]
    congr 1
    cases b with | mk v =>
    congr 1
    apply Vector.ext
    intro k hk
    simp [Vector.getElem_ofFn]
    intro h1 h2; omega
  | cons x xs ih =>
    have hi : i < 8 := by simp at h; omega
    simp only [List.map_cons, loadLegacyFrom, hi, dite_true]
    rw [ih _ (i + 1) (by simp at h ⊢; omega), byteOfInt_toNat]
    congr 2
    apply Vector.ext
    intro k hk
    simp only [Vector.getElem_ofFn, List.length_cons, Vector.getElem_set]
    by_cases c1 : i + 1 ≤ k ∧ k < i + 1 + xs.length
    · have c2 : i ≤ k ∧ k < i + (xs.length + 1) := by omega
      simp only [c1, c2, and_self, if_true]
      have : k - i = (k - (i + 1)) + 1 := by omega
      rw [this]; simp [List.getD_eq_getElem?_getD]
    · simp only [c1, if_false]
      by_cases e : i = k
      · subst e
        have c2 : i ≤ i ∧ i < i + (xs.length + 1) := by omega
        simp [c2]
      · have c2 : ¬ (i ≤ k ∧ k < i + (xs.length + 1)) := by omega
        simp [c2, e]

/-- an account file in the legacy numeric-array form loads to exactly the bytes it lists -/
theorem loadLegacy_legacyArray (b : AccessBitmap) : loadLegacy (legacyArray b) = some b := by
  unfold loadLegacy legacyArray
  rw [loadLegacyFrom_spec b.toBytes zero 0 (by simp)]
  congr 1
  cases b with | mk v =>
  congr 1
  apply Vector.ext
  intro k hk
  simp [toBytes, List.getD_eq_getElem?_getD]

end Mobius.AccessYaml
