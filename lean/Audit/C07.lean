import MobiusModel.AuditTool
import MobiusModel.Props.C07
#audit_module MobiusModel.Props.C07
