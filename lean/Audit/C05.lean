import MobiusModel.AuditTool
import MobiusModel.Props.C05
#audit_module MobiusModel.Props.C05
