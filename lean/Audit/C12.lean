import MobiusModel.AuditTool
import MobiusModel.Props.C12
#audit_module MobiusModel.Props.C12
