import MobiusModel.AuditTool
import MobiusModel.Props.C19
#audit_module MobiusModel.Props.C19
