import MobiusModel.AuditTool
import MobiusModel.Props.C10
#audit_module MobiusModel.Props.C10
