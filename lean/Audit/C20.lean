import MobiusModel.AuditTool
import MobiusModel.Props.C20
#audit_module MobiusModel.Props.C20
