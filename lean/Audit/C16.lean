import MobiusModel.AuditTool
import MobiusModel.Props.C16
#audit_module MobiusModel.Props.C16
