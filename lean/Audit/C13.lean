import MobiusModel.AuditTool
import MobiusModel.Props.C13
#audit_module MobiusModel.Props.C13
