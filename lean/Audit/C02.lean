import MobiusModel.AuditTool
import MobiusModel.Props.C02
#audit_module MobiusModel.Props.C02
