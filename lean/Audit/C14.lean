import MobiusModel.AuditTool
import MobiusModel.Props.C14
#audit_module MobiusModel.Props.C14
