import MobiusModel.AuditTool
import MobiusModel.Props.C06
#audit_module MobiusModel.Props.C06
