import MobiusModel.AuditTool
import MobiusModel.Props.C04
#audit_module MobiusModel.Props.C04
