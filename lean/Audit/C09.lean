import MobiusModel.AuditTool
import MobiusModel.Props.C09
#audit_module MobiusModel.Props.C09
