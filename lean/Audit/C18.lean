import MobiusModel.AuditTool
import MobiusModel.Props.C18
#audit_module MobiusModel.Props.C18
