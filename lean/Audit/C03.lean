import MobiusModel.AuditTool
import MobiusModel.Props.C03
#audit_module MobiusModel.Props.C03
