import MobiusModel.AuditTool
import MobiusModel.Props.C08
#audit_module MobiusModel.Props.C08
