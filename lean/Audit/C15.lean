import MobiusModel.AuditTool
import MobiusModel.Props.C15
#audit_module MobiusModel.Props.C15
