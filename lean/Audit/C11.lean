import MobiusModel.AuditTool
import MobiusModel.Props.C11
#audit_module MobiusModel.Props.C11
