import MobiusModel.AuditTool
import MobiusModel.Props.C01
#audit_module MobiusModel.Props.C01
