import MobiusModel.AuditTool
import MobiusModel.Props.C17
#audit_module MobiusModel.Props.C17
