import MobiusModel.Bytes
import MobiusModel.Hex
import MobiusModel.Wire
import MobiusModel.Drain
import MobiusModel.Scan
import MobiusModel.PathAlg
