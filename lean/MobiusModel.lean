-- Root of the shared core of the model library.  The per-property developments
-- (MobiusModel/*.lean beyond these, Props/Cxx.lean) are built as their own targets by
-- `bin/check`: they were written in parallel and some reuse short names in the common
-- `Mobius` namespace, so they are not meant to be imported together.
import MobiusModel.Bytes
import MobiusModel.Hex
import MobiusModel.Wire
import MobiusModel.WireLemmas
import MobiusModel.WireLemmas2
import MobiusModel.Drain
import MobiusModel.Scan
import MobiusModel.PathAlg
