#!/usr/bin/env python3
"""keep_from_log.py <mutation-name | staging-dir> <logfile> [note]: keeps a staged mutation (/tmp/muts/<name>, or the directory given) whose verify log shows a VIOLATION."""
import os, re, subprocess, sys
name, log = sys.argv[1], sys.argv[2]
src = name if os.path.isdir(name) else f"/tmp/muts/{name}"
name = os.path.basename(src.rstrip("/"))
note = sys.argv[3] if len(sys.argv) > 3 else ""
txt = open(log).read()
m = re.search(r"SUMMARY demo_without=(\d+) demo_with=(\d+) suite=(\d+) check=(\d+)", txt)
if not m or m.groups() != ("0", "1", "0", "1"):
    print("not confirmed/caught:", name, m.groups() if m else None); sys.exit(1)
viol = re.findall(r"VIOLATION property=(\S+) replay=\S*/replays/(\S+?)-\d+\.json(.*)", txt)
nofail = re.findall(r"VIOLATION property=(\S+) replay=\S*/replays/(\S+?)-nofail\.json no-failing-input-found", txt)
if viol:
    keys = sorted({v[1].split('-', 1)[1] for v in viol})
    caught = "caught: VIOLATION with concrete replay, key(s) " + ", ".join(keys)
elif nofail:
    caught = "caught only as broken obligation/correspondence: VIOLATION … no-failing-input-found (" + nofail[0][1] + ")"
else:
    print("no violation line", name); sys.exit(1)
import json
notes = json.load(open("/verif/tools/seed_notes.json"))
if not note and name in notes:
    note = notes[name]
if note:
    caught = note + "; " + caught
subprocess.check_call(["python3", "/verif/tools/keep_mutation.py", src, name, caught])
