#!/usr/bin/env python3
"""Validates MANIFEST.json and every evidence/<id>.json against the schemas in /root/.vp; prints one line per file."""
import json, jsonschema, sys
ok = True
m = json.load(open('/verif/MANIFEST.json'))
try:
    jsonschema.validate(m, json.load(open('/root/.vp/MANIFEST.schema.json'))); print('MANIFEST ok', len(m['checks']), 'checks')
except Exception as e:
    ok = False; print('MANIFEST INVALID', str(e)[:200])
es = json.load(open('/root/.vp/EVIDENCE.schema.json'))
for c in m['checks']:
    p = c['evidence_file']
    try:
        e = json.load(open(p)); jsonschema.validate(e, es)
        cov = e.get('coverage', {})
        print(c['property_id'], 'ok', e.get('tier'), 'seed', e.get('seed'), 'obligations', cov.get('obligations'), '/', cov.get('discharged'), 'evals', cov.get('evaluations'), 'violations', e.get('violations'))
    except Exception as ex:
        ok = False; print(c['property_id'], 'INVALID', str(ex)[:200])
sys.exit(0 if ok else 1)
