#!/bin/bash
# verify_mutation.sh <mutation-dir> <property> [tier]
# <mutation-dir> holds patch.diff, meta.json and the demonstration file named in meta.json.
# 1. confirms: builds, pinned suite passes with the change, demo fails with it and passes without it;
# 2. runs the property's check against the changed tree (private copy of /verif + scratch worktree).
set -u
export GOFLAGS=-mod=mod GOPROXY=off GOSUMDB=off GOTOOLCHAIN=local
M=$(realpath "$1"); P=$2; TIER=${3:-quick}
W=$(mktemp -d /tmp/leadmut.XXXXXX)
trap 'git -C /repo worktree remove --force "$W/repo" 2>/dev/null; rm -rf "$W"' EXIT
git -C /repo worktree add -q --detach "$W/repo" HEAD || exit 2
cd "$W/repo"
DEMO=$(python3 -c "import json;m=json.load(open('$M/meta.json'));print(m['demo']['file'])")
DEST=$(python3 -c "import json;m=json.load(open('$M/meta.json'));print(m['demo'].get('dest_dir_in_repo','hotline'))")
RUN=$(python3 -c "import json,re;m=json.load(open('$M/meta.json'));print(re.split(r'\s{2,}\(|\s+#', m['demo']['run'])[0])")
clean_fixtures() { git checkout -q -- internal/mobius/test 2>/dev/null; git clean -fdq internal/mobius/test; }
echo "== demo WITHOUT change"
cp "$M/$DEMO" "$DEST/" ; ( eval "$RUN" ) > "$W/demo_without.log" 2>&1; R0=$?; echo "exit=$R0"; clean_fixtures
echo "== apply"
git apply "$M/patch.diff" || { echo "PATCH DOES NOT APPLY"; exit 2; }
go build ./... || { echo "DOES NOT BUILD"; exit 2; }
echo "== demo WITH change"
( eval "$RUN" ) > "$W/demo_with.log" 2>&1; R1=$?; echo "exit=$R1"; tail -5 "$W/demo_with.log"; clean_fixtures
rm -f "$DEST/$(basename $DEMO)"
echo "== pinned suite WITH change"
go test -vet=off -count=1 ./... > "$W/suite.log" 2>&1; RS=$?; echo "exit=$RS"; grep -v "^ok\|no test files" "$W/suite.log" | tail -5; clean_fixtures
echo "== check $P $TIER against the changed tree"
rsync -a --exclude .git "${VERIF_SRC:-/verif}/" "$W/verif/"
rm -rf "$W/verif/replays"
( cd "$W/verif" && VERIF_REPO="$W/repo" bin/check $P $TIER ) > "$W/check.log" 2>&1; RC=$?
grep "VIOLATION\|KNOWN-FINDING" "$W/check.log"; echo "check exit=$RC"
mkdir -p "$M/check_replays"; cp "$W/verif/replays/"*.json "$M/check_replays/" 2>/dev/null
echo "SUMMARY demo_without=$R0 demo_with=$R1 suite=$RS check=$RC"
