#!/bin/bash
# keep_wave.sh <pid> <tag> <i> [note] : stage /tmp/mut-<pid>-<tag>/out/<i> as <pid><tag>-<i> and keep it if its verify log shows it confirmed and caught
P=$1; T=$2; I=$3; NOTE=${4:-}
mkdir -p /tmp/muts; rm -rf /tmp/muts/$P$T-$I; cp -r /tmp/mut-$P-$T/out/$I /tmp/muts/$P$T-$I
python3 /verif/tools/keep_from_log.py $P$T-$I /tmp/mut-$P-$T/verify_$I${LOGSFX:-}.log "$NOTE"
