#!/usr/bin/env python3
"""Prints a markdown table of /verif/seeded/*: the change, what it needs to manifest, what the check reported."""
import json, os, re, sys
# usage: gen_seeded_table.py [regex on the seed name]  (default: all)
pat = re.compile(sys.argv[1]) if len(sys.argv) > 1 else None
rows = []
for d in sorted(os.listdir('/verif/seeded')):
    if pat and not pat.search(d):
        continue
    p = f'/verif/seeded/{d}/meta.json'
    if not os.path.exists(p):
        continue
    m = json.load(open(p))
    title = m.get('title', '').replace('|', '/').replace('\n', ' ')
    needs = m.get('needs_to_manifest', '').replace('|', '/').replace('\n', ' ')
    if len(needs) > 220:
        needs = needs[:217] + '…'
    res = m.get('confirmed_by_lead', {}).get('check_result', '').replace('|', '/')
    rows.append(f"| {d} | {title} | {needs} | {res} |")
print("| seed | change | needs, to manifest | what the check reported |\n|---|---|---|---|")
print("\n".join(rows))
