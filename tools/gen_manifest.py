#!/usr/bin/env python3
"""Regenerates /verif/MANIFEST.json from tools/manifest_entries.json (one entry per claimed property)."""
import json, os
V = "/verif"
entries = {f[:-5]: json.load(open(f"{V}/tools/entries/{f}")) for f in sorted(os.listdir(f"{V}/tools/entries")) if f.endswith(".json")}
props = [json.loads(l) for l in open(f"{V}/properties.jsonl")]
checks, na = [], []
for p in props:
    pid = p["id"]
    e = entries.get(pid)
    if e and e.get("claimed", True):
        checks.append({
            "property_id": pid,
            "quick_cmd": f"bin/check {pid} quick",
            "thorough_cmd": f"bin/check {pid} thorough",
            "evidence_file": f"/verif/evidence/{pid}.json",
            "replay_cmd_template": "bin/check replay {path}",
            "engine": "lean-model+correspondence",
            "level_claimed": {"category": "proof", "text": e["text"], "design_ref": e.get("design_ref", f"DESIGN.md §7 {pid}")},
            "level_note": e["note"],
            "technique": e["technique"],
        })
    else:
        na.append({"property_id": pid, "reason": (e or {}).get("reason", "check not built yet in this round; see DESIGN.md §7 for the planned model and theorems")})
m = {
    "version": 1,
    "setup_cmd": "bin/check setup",
    "hooks": {
        "guard": "verif",
        "enable": "go build -tags verif (harness module /verif/harness with replace github.com/jhalter/mobius => /repo)",
        "baseline_off_cmd": "bin/baseline_off.sh -json",
        "source_commits": json.load(open(f"{V}/tools/hook_commits.json")),
        "add_only": True,
    },
    "engines": [
        {"name": "lean-model+correspondence", "path": "/verif/lean, /verif/harness, /verif/extract",
         "serves_properties": [c["property_id"] for c in checks],
         "kind_free_text": "Lean 4 model + kernel-checked theorems (lake project MobiusModel, core only); tie to /repo = Go correspondence harness driving the real code in-process against the compiled Lean oracle, plus a go/ast fact extractor regenerating Generated/*.lean on every run"}
    ],
    "checks": checks,
    "not_applicable": na,
    "notes": "All checks rebuild harness and generated facts from /repo's working tree. Known findings: /verif/known_findings.json. DESIGN.md explains the approach, trusted base and per-property coverage.",
}
json.dump(m, open(f"{V}/MANIFEST.json", "w"), indent=1)
print(len(checks), "checks;", len(na), "not_applicable")
