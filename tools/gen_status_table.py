#!/usr/bin/env python3
"""Prints the per-property status table for DESIGN.md §0 from evidence, Props, known_findings and seeded."""
import json, os, re
V='/verif'
k=json.load(open(f'{V}/known_findings.json'))
rows=[]
for n in range(1,21):
    pid=f'C{n:02d}'
    props=open(f'{V}/lean/MobiusModel/Props/{pid}.lean').read()
    thms=len(re.findall(r'^theorem\s', props, re.M))
    ev={}
    try: ev=json.load(open(f'{V}/evidence/{pid}.json'))
    except Exception: pass
    cov=ev.get('coverage',{})
    fixed=[f['commit'] for f in k['fixed'] if f['property']==pid]
    known=[f['key'] for f in k['findings'] if f['property']==pid]
    seeds=sorted(d for d in os.listdir(f'{V}/seeded') if re.match(pid+r'[a-z]?-\d+$', d))
    concrete=sum(1 for d in seeds if 'concrete replay' in json.load(open(f'{V}/seeded/{d}/meta.json')).get('confirmed_by_lead',{}).get('check_result',''))
    rows.append(f"| {pid} | {thms} | {cov.get('obligations','?')}/{cov.get('discharged','?')} | {cov.get('evaluations','?')} / {cov.get('distinct_nontrivial','?')} | {', '.join(fixed) or '—'} | {', '.join(known) or '—'} | {len(seeds)} ({concrete} with concrete replay) |")
print("| id | theorems in Props | audited obligations / discharged (last quick run) | evaluations / distinct non-trivial (last quick run) | defects repaired (`fix:` commits) | known findings (keys) | seeded changes kept |\n|---|---|---|---|---|---|---|")
print("\n".join(rows))
