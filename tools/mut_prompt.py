#!/usr/bin/env python3
"""Prints the prompt for a seeded-mutation sub-agent: only the property text and its scratch worktree."""
import json, sys
pid, tag = sys.argv[1], sys.argv[2]
WAVE_C = (" At least one of the three must be a change OUTSIDE the files named in the anchors (a caller, a helper in another package, initialisation/configuration code, or a different transaction handler that shares state with the anchored code), and at least one must depend on a SEQUENCE of two or more client operations, a particular concurrent schedule or a fault at a particular point rather than on a single malformed input." if tag.startswith("c") else "")
p = next(json.loads(l) for l in open('/verif/properties.jsonl') if json.loads(l)['id'] == pid)
wt = f"/tmp/mut-{pid}-{tag}"
print(f"""You are testing how well a semantic property of a Go project is protected. The project is jhalter/mobius (a server for the 1990s Hotline chat / file-sharing protocol). You have your OWN scratch git worktree of it at {wt}/repo — work ONLY inside {wt} (never touch /repo, never read or write anything under /verif).

The property (id {pid}): "{p['title']}"
Statement: {p['statement']}
Quantifier: {p['quantifier']['text']}
Why the existing tests cannot settle it: {p['why_tests_cant']}
Code anchors: files {', '.join(p['anchors']['files'])}; mechanisms: {'; '.join(m['name'] + ' (' + m.get('where','') + ')' for m in p['anchors']['mechanism'])}.

Your task: produce THREE independent, realistic source changes to the project (each a small patch a plausible refactor, optimisation or "cleanup" could introduce), each of which BREAKS the property above while the project still compiles and its existing test suite still passes. Prefer changes that need something specific to manifest — a particular interleaving, a crash or fault at a particular point, a multi-step sequence of operations, an unusual input (a boundary length, a particular bit, a particular name), or two cooperating sites that each look fine alone — NOT changes that ordinary use would expose at once. The three should use different mechanisms / different code sites. Aim for subtle changes in less obvious places too: helper functions, error paths, rarely taken branches, boundary arithmetic, the interaction between two files or two handlers, state that is only wrong after a particular sequence — not only the first mechanism named above.{WAVE_C}

For each change i in 1..3 create the directory {wt}/out/<i>/ containing:
  - patch.diff : `git diff` of the change against the worktree's HEAD (source files only; apply cleanly with `git apply`);
  - a demonstration: a Go test file (e.g. demo_test.go, to be dropped into the package it tests) or a small Go program, that FAILS (or prints a clear failure) with the change applied and PASSES without it. It may use unexported identifiers if placed in the package. State in meta.json exactly how to run it;
  - meta.json : {{"property": "{pid}", "title": "...one line...", "what_breaks": "...", "needs_to_manifest": "...the specific input / sequence / schedule / crash point...", "files_changed": [...], "demo": {{"file": "...", "dest_dir_in_repo": "...", "run": "go test -run TestDemo ./hotline/ (for example)"}}, "verified": {{"compiles": true, "existing_tests_pass_with_change": true, "demo_fails_with_change": true, "demo_passes_without_change": true}}}}.

How to work: the Go toolchain is offline; in every shell call first `export GOFLAGS=-mod=mod GOPROXY=off GOSUMDB=off GOTOOLCHAIN=local`. Build with `go build ./...`. IMPORTANT: running the project's test suite rewrites tracked fixture files (internal/mobius/test/config/Users/guest.yaml gets re-indented and an untracked test-user.yaml appears) — after every `go test ./...` run `git -C {wt}/repo checkout -- internal/mobius/test && git -C {wt}/repo clean -fdq internal/mobius/test` so that patch.diff contains only your change. The full suite takes ~5 s (`go test -vet=off -count=1 ./...`). Verify all four facts in "verified" yourself for each change (apply → build → full suite passes → demo fails; revert → demo passes), and leave the worktree clean (no applied change) when you finish. A file hotline/export_verif.go (build tag `verif`) exists in the tree: ignore it, do not modify it. Do not use `git stash` (the stash is shared by all worktrees of the repository): save a change with `git diff > file` and restore with `git apply file`. Do not weaken or delete existing tests. Keep each patch small (ideally < 15 changed lines).

Final answer: for each of the three changes, one paragraph: what it changes, why it breaks the property, what is needed to trigger it, and the verification results.""")
