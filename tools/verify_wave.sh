#!/bin/bash
# verify_wave.sh <pid> <tag> : runs verify_mutation.sh on /tmp/mut-<pid>-<tag>/out/{1,2,3} (sequentially), logs next to them
P=$1; T=$2; D=/tmp/mut-$P-$T
for i in 1 2 3; do
  [ -f $D/out/$i/patch.diff ] || { echo "$P$T-$i: no patch"; continue; }
  /verif/tools/verify_mutation.sh $D/out/$i $P quick > $D/verify_$i.log 2>&1
  echo "$P$T-$i: $(grep SUMMARY $D/verify_$i.log) :: $(grep -o 'VIOLATION.*' $D/verify_$i.log | sed 's/replay=[^ ]*//' | sort | uniq -c | head -3 | tr '\n' ';')"
done
