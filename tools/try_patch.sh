#!/bin/bash
# try_patch.sh <patch.diff | -e 'sed-expr' file> <property> [tier] : runs a property's check against a patched scratch worktree
# (private copy of /verif, VERIF_REPO=<worktree>); nothing in /repo or /verif is touched.
set -u
export GOFLAGS=-mod=mod GOPROXY=off GOSUMDB=off GOTOOLCHAIN=local
W=$(mktemp -d /tmp/trypatch.XXXXXX)
trap 'git -C /repo worktree remove --force "$W/repo" 2>/dev/null; rm -rf "$W"' EXIT
git -C /repo worktree add -q --detach "$W/repo" HEAD || exit 2
if [ "$1" = "-e" ]; then sed -i -e "$2" "$W/repo/$3" || exit 2; shift 3; else git -C "$W/repo" apply "$(realpath "$1")" || { echo "PATCH DOES NOT APPLY"; exit 2; }; shift; fi
git -C "$W/repo" diff --stat | tail -3
( cd "$W/repo" && go build ./... ) || { echo "DOES NOT BUILD"; exit 2; }
P=$1; TIER=${2:-quick}
rsync -a --exclude .git --exclude replays /verif/ "$W/verif/"
( cd "$W/verif" && VERIF_REPO="$W/repo" bin/check $P $TIER ) > "$W/check.log" 2>&1; RC=$?
grep "VIOLATION\|KNOWN-FINDING" "$W/check.log" | cut -c1-300 | head -20; echo "check exit=$RC"
if [ -n "${KEEP_REPLAYS:-}" ]; then mkdir -p "$KEEP_REPLAYS"; cp "$W/verif/replays/"*.json "$KEEP_REPLAYS/" 2>/dev/null; fi
