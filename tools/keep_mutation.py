#!/usr/bin/env python3
"""keep_mutation.py <mutation-dir> <seeded-id> <caught-by text> : copies a confirmed seeded change into /verif/seeded/<id>/"""
import json, os, shutil, sys
src, sid, caught = sys.argv[1], sys.argv[2], sys.argv[3]
dst = f"/verif/seeded/{sid}"
os.makedirs(dst, exist_ok=True)
m = json.load(open(f"{src}/meta.json"))
shutil.copy(f"{src}/patch.diff", dst)
shutil.copy(f"{src}/{m['demo']['file']}", dst)
m["confirmed_by_lead"] = {
    "ran": "tools/verify_mutation.sh (scratch worktree of /repo HEAD): go build ./..., pinned suite with the change (passes), demo with the change (fails), demo without it (passes); then bin/check of the property against the changed tree (private copy of /verif, VERIF_REPO=<worktree>)",
    "check_result": caught,
}
json.dump(m, open(f"{dst}/meta.json", "w"), indent=1)
rp = f"{src}/check_replays"
if os.path.isdir(rp):
    os.makedirs(f"{dst}/check_replays", exist_ok=True)
    for f in sorted(os.listdir(rp))[:3]:
        shutil.copy(f"{rp}/{f}", f"{dst}/check_replays/")
print("kept", dst)
