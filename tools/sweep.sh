#!/bin/bash
# sweep.sh <tier> <seed>... : every registered check on the unchanged tree, one line each (exit, seconds, VIOLATION / KNOWN-FINDING counts)
TIER=${1:-quick}; shift; SEEDS=${@:-1}
cd "$(dirname "$0")/.."
mkdir -p /tmp/sweep
for s in $SEEDS; do
  for i in 01 02 03 04 05 06 07 08 09 10 11 12 13 14 15 16 17 18 19 20; do
    t0=$(date +%s); VERIF_SEED=$s bin/check C$i $TIER > /tmp/sweep/C$i.$TIER.$s.log 2>&1; rc=$?
    echo "seed=$s C$i exit=$rc $(( $(date +%s)-t0 ))s violations=$(grep -c '^VIOLATION' /tmp/sweep/C$i.$TIER.$s.log) known=$(grep -c '^KNOWN-FINDING' /tmp/sweep/C$i.$TIER.$s.log)"
  done
done
