package main

import (
	"fmt"
	"go/ast"
	"go/token"
	"strconv"
	"strings"
)

// Handshake facts (hotline/handshake.go): the package-level byte arrays the handshake is checked against and
// answered with, the layout of the `handshake` struct that `binary.Read` fills (field name, array length, in
// declaration order) and the text of what `Valid` returns.  Written into Generated/Consts.lean; the theorems
// `generated_handshake_*` in Props/C04.lean relate them to the model's `handshakeValid` / `handshakeReply`.
func byteListValue(e ast.Expr) ([]int, bool) {
	cl, ok := e.(*ast.CompositeLit)
	if !ok {
		return nil, false
	}
	at, ok := cl.Type.(*ast.ArrayType)
	if !ok || src(at.Elt) != "byte" {
		return nil, false
	}
	var v []int
	for _, el := range cl.Elts {
		bl, ok := el.(*ast.BasicLit)
		if !ok {
			return nil, false
		}
		n, err := strconv.ParseInt(bl.Value, 0, 64)
		if err != nil || n < 0 || n > 255 {
			return nil, false
		}
		v = append(v, int(n))
	}
	// a declared length that differs from the number of elements leaves trailing zeros
	if bl, ok := at.Len.(*ast.BasicLit); ok {
		n, _ := strconv.Atoi(bl.Value)
		for len(v) < n {
			v = append(v, 0)
		}
	}
	return v, true
}

func handshakeFacts(hl *pkgFiles) string {
	var b strings.Builder
	vars := map[string][]int{}
	var layout []string
	for _, f := range hl.files {
		for _, d := range f.Decls {
			gd, ok := d.(*ast.GenDecl)
			if !ok {
				continue
			}
			for _, s := range gd.Specs {
				switch sp := s.(type) {
				case *ast.ValueSpec:
					if gd.Tok != token.VAR {
						continue
					}
					for i, name := range sp.Names {
						n := name.Name
						if (n == "trtp" || n == "hotl" || n == "handshakeResponse") && i < len(sp.Values) {
							if v, ok := byteListValue(sp.Values[i]); ok {
								vars[n] = v
							}
						}
					}
				case *ast.TypeSpec:
					st, ok := sp.Type.(*ast.StructType)
					if !ok || sp.Name.Name != "handshake" {
						continue
					}
					for _, fld := range st.Fields.List {
						for _, nm := range fld.Names {
							layout = append(layout, fmt.Sprintf("(%s, %s)", leanStr(nm.Name), leanStr(src(fld.Type))))
						}
					}
				}
			}
		}
	}
	b.WriteString("/-- package-level byte arrays of hotline/handshake.go (absent when not a literal `[n]byte{…}`) -/\n")
	b.WriteString("def handshakeVars : List (String × List Nat) := [\n")
	first := true
	for _, n := range []string{"trtp", "hotl", "handshakeResponse"} {
		v, ok := vars[n]
		if !ok {
			continue
		}
		if !first {
			b.WriteString(",\n")
		}
		first = false
		var xs []string
		for _, x := range v {
			xs = append(xs, strconv.Itoa(x))
		}
		fmt.Fprintf(&b, "  (%s, [%s])", leanStr(n), strings.Join(xs, ", "))
	}
	b.WriteString("\n]\n\n")
	b.WriteString("/-- fields of `type handshake struct` in declaration order (the order `binary.Read` fills them in) -/\n")
	b.WriteString("def handshakeLayout : List (String × String) := [" + strings.Join(layout, ", ") + "]\n\n")
	valid := "<missing>"
	if fd := findFunc(hl, "handshake", "Valid"); fd != nil && fd.Body != nil && len(fd.Body.List) == 1 {
		if rs, ok := fd.Body.List[0].(*ast.ReturnStmt); ok && len(rs.Results) == 1 {
			valid = src(rs.Results[0])
		} else {
			valid = "<not a single return>"
		}
	} else if fd != nil {
		valid = "<not a single return>"
	}
	b.WriteString("/-- what `(*handshake).Valid` returns (the whole body is this one `return`) -/\n")
	b.WriteString("def handshakeValidExpr : String := " + leanStr(valid) + "\n\n")
	return b.String()
}

// EncodeString (hotline/user.go): the statements of the body with the parameter and the locals renamed by
// position (p0, v0, v1, … in order of declaration), so that renaming an identifier leaves the fact unchanged.
func encodeStringShape(hl *pkgFiles) string {
	var stmts []string
	if fd := findFunc(hl, "", "EncodeString"); fd != nil && fd.Body != nil {
		ren := map[string]string{}
		np := 0
		for _, f := range fd.Type.Params.List {
			for _, n := range f.Names {
				ren[n.Name] = fmt.Sprintf("p%d", np)
				np++
			}
		}
		nv := 0
		ast.Inspect(fd.Body, func(n ast.Node) bool {
			if as, ok := n.(*ast.AssignStmt); ok && as.Tok == token.DEFINE {
				for _, l := range as.Lhs {
					if id, ok := l.(*ast.Ident); ok && id.Name != "_" {
						if _, seen := ren[id.Name]; !seen {
							ren[id.Name] = fmt.Sprintf("v%d", nv)
							nv++
						}
					}
				}
			}
			return true
		})
		// rename on the printed text of each statement, identifier by identifier (a selector's field is not a local)
		for _, st := range fd.Body.List {
			var sel = map[*ast.Ident]bool{}
			ast.Inspect(st, func(n ast.Node) bool {
				if se, ok := n.(*ast.SelectorExpr); ok {
					sel[se.Sel] = true
				}
				return true
			})
			var saved []struct {
				id  *ast.Ident
				old string
			}
			ast.Inspect(st, func(n ast.Node) bool {
				if id, ok := n.(*ast.Ident); ok && !sel[id] {
					if r, ok := ren[id.Name]; ok {
						saved = append(saved, struct {
							id  *ast.Ident
							old string
						}{id, id.Name})
						id.Name = r
					}
				}
				return true
			})
			stmts = append(stmts, strings.Join(strings.Fields(src(st)), " "))
			for _, s := range saved {
				s.id.Name = s.old
			}
		}
		stmts = append([]string{"func(" + src(fd.Type.Params.List[0].Type) + ") " + src(fd.Type.Results.List[0].Type)}, stmts...)
	}
	var q []string
	for _, s := range stmts {
		q = append(q, leanStr(s))
	}
	return "/-- `EncodeString` (hotline/user.go): signature, then the statements of its body, identifiers renamed by position -/\n" +
		"def encodeStringShape : List String := [" + strings.Join(q, ",\n  ") + "]\n\n"
}

// performHandshake: every call expression of the body in source order (nested calls after their parent),
// printed as written; wrappers that only build an error value (fmt.Errorf, errors.New) and make are left out.
func handshakeCalls(hl *pkgFiles) string {
	var calls []string
	if fd := findFunc(hl, "", "performHandshake"); fd != nil && fd.Body != nil {
		ast.Inspect(fd.Body, func(n ast.Node) bool {
			if ce, ok := n.(*ast.CallExpr); ok {
				f := src(ce.Fun)
				if f != "fmt.Errorf" && f != "errors.New" && f != "make" {
					calls = append(calls, leanStr(strings.Join(strings.Fields(src(ce)), " ")))
				}
			}
			return true
		})
	}
	return "/-- calls of `performHandshake` in source order (error constructors and `make` left out) -/\n" +
		"def handshakeCalls : List String := [" + strings.Join(calls, ", ") + "]\n\n"
}
