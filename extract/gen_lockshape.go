package main

// Generated/LockShape.lean (C03, C04): how the methods of mutex-guarded structs use the struct's own mutex.
//
//   lockingMethods  : (package.Struct, method, mutex, kind) — every method that takes a mutex reached through its own
//                     receiver (`s.mu.Lock()`, `bf.Lock()` for an embedded mutex, …), directly or through calls of other
//                     methods on the same receiver (transitively).  mutex = the expression with the receiver written "·",
//                     kind = "Lock" | "RLock" ("RLock" only when no path takes the write lock).
//   selfLockedCalls : (package.Struct, caller, lock held "·.mu.RLock", callee) — every call `recv.M(…)` made by a method
//                     WHILE it holds a mutex of its receiver (between the Lock()/RLock() statement and the matching unlock,
//                     or to the end of the function when the unlock is deferred) where M takes the SAME mutex again.
//                     sync.Mutex and sync.RWMutex are not re-entrant: a nested Lock blocks at once, a nested RLock blocks
//                     as soon as a writer is waiting (RWLock.nested_rlock_deadlocks).  Must be empty.
//   reloadSections  : (package.Struct.method, Lock()/RLock() statements, explicit Unlock()/RUnlock() statements,
//                     the first statement locks and the second defers the unlock) for the methods named Load / Reload:
//                     a reload that replaces guarded state must do so in ONE critical section, or other goroutines see
//                     the state half-way (the ban list empty while the file is being read).

import (
	"fmt"
	"go/ast"
	"go/token"
	"path/filepath"
	"sort"
	"strings"
)

func init() { extraGenerators = append(extraGenerators, genLockShape) }

type heldLock struct {
	pos, unlock token.Pos
	deferred    bool
	mutex, kind string // mutex with the receiver name replaced by "·"
}

// recvNameType returns the receiver's variable name and type name ("" when there is none).
func recvNameType(fd *ast.FuncDecl) (string, string) {
	if fd.Recv == nil || len(fd.Recv.List) == 0 {
		return "", ""
	}
	t := strings.TrimPrefix(src(fd.Recv.List[0].Type), "*")
	n := ""
	if len(fd.Recv.List[0].Names) > 0 {
		n = fd.Recv.List[0].Names[0].Name
	}
	return n, t
}

// ownLocks lists the Lock()/RLock() statements of fd on a mutex reached through the receiver, with their extent.
func ownLocks(fd *ast.FuncDecl) []heldLock {
	rn, _ := recvNameType(fd)
	if rn == "" || fd.Body == nil {
		return nil
	}
	var locks []heldLock
	var exprs []string
	ast.Inspect(fd.Body, func(n ast.Node) bool {
		es, ok := n.(*ast.ExprStmt)
		if !ok {
			return true
		}
		t := strings.Join(strings.Fields(src(es.X)), "")
		kind := ""
		switch {
		case strings.HasSuffix(t, ".RLock()"):
			kind = "RLock"
		case strings.HasSuffix(t, ".Lock()"):
			kind = "Lock"
		default:
			return true
		}
		mu := strings.TrimSuffix(strings.TrimSuffix(t, ".RLock()"), ".Lock()")
		if mu != rn && !strings.HasPrefix(mu, rn+".") {
			return true
		}
		locks = append(locks, heldLock{pos: es.Pos(), mutex: "·" + strings.TrimPrefix(mu, rn), kind: kind})
		exprs = append(exprs, mu)
		return true
	})
	for i := range locks {
		un := exprs[i] + ".Unlock()"
		if locks[i].kind == "RLock" {
			un = exprs[i] + ".RUnlock()"
		}
		ast.Inspect(fd.Body, func(n ast.Node) bool {
			switch s := n.(type) {
			case *ast.DeferStmt:
				if strings.Join(strings.Fields(src(s.Call)), "") == un {
					locks[i].deferred = true
				}
			case *ast.ExprStmt:
				if strings.Join(strings.Fields(src(s.X)), "") == un && s.Pos() > locks[i].pos && (locks[i].unlock == 0 || s.Pos() < locks[i].unlock) {
					locks[i].unlock = s.Pos()
				}
			}
			return true
		})
	}
	return locks
}

// ownCalls lists the calls `recv.M(…)` made by fd outside function literals: (position, M).
func ownCalls(fd *ast.FuncDecl) []posCall {
	rn, _ := recvNameType(fd)
	if rn == "" || fd.Body == nil {
		return nil
	}
	var out []posCall
	var walk func(n ast.Node) bool
	walk = func(n ast.Node) bool {
		switch c := n.(type) {
		case *ast.FuncLit:
			return false // runs later / on another goroutine
		case *ast.CallExpr:
			if se, ok := c.Fun.(*ast.SelectorExpr); ok {
				if id, ok := se.X.(*ast.Ident); ok && id.Name == rn {
					out = append(out, posCall{int(c.Pos()), se.Sel.Name})
				}
			}
		}
		return true
	}
	ast.Inspect(fd.Body, walk)
	return out
}

func genLockShape(hl, mb *pkgFiles, hdr, out string) {
	type mkey struct{ strct, method string }
	type rowL struct{ strct, method, mutex, kind string }
	type rowC struct{ strct, caller, held, callee string }
	type rowR struct {
		fn             string
		locks, unlocks int
		shape          bool
	}
	var lm []rowL
	var sc []rowC
	var rs []rowR
	scan := func(pkg string, p *pkgFiles) {
		decls := map[mkey]*ast.FuncDecl{}
		for _, f := range p.files {
			for _, d := range f.Decls {
				fd, ok := d.(*ast.FuncDecl)
				if !ok || fd.Body == nil {
					continue
				}
				_, t := recvNameType(fd)
				if t == "" || strings.HasPrefix(t, "Mock") {
					continue
				}
				decls[mkey{t, fd.Name.Name}] = fd
			}
		}
		// takes[m][mutex] = strongest kind taken directly or through same-receiver calls
		takes := map[mkey]map[string]string{}
		for k, fd := range decls {
			takes[k] = map[string]string{}
			for _, l := range ownLocks(fd) {
				if takes[k][l.mutex] != "Lock" {
					takes[k][l.mutex] = l.kind
				}
			}
		}
		for changed := true; changed; {
			changed = false
			for k, fd := range decls {
				for _, c := range ownCalls(fd) {
					for mu, kind := range takes[mkey{k.strct, c.name}] {
						if cur, ok := takes[k][mu]; !ok || (cur == "RLock" && kind == "Lock") {
							takes[k][mu] = kind
							changed = true
						}
					}
				}
			}
		}
		for k, m := range takes {
			for mu, kind := range m {
				lm = append(lm, rowL{pkg + "." + k.strct, k.method, mu, kind})
			}
		}
		for k, fd := range decls {
			locks := ownLocks(fd)
			for _, c := range ownCalls(fd) {
				for _, l := range locks {
					held := int(l.pos) < c.pos && (l.deferred || (l.unlock != 0 && c.pos < int(l.unlock)))
					if !held {
						continue
					}
					if _, again := takes[mkey{k.strct, c.name}][l.mutex]; again {
						sc = append(sc, rowC{pkg + "." + k.strct, k.method, l.mutex + "." + l.kind, c.name})
					}
				}
			}
			if fd.Name.Name == "Load" || fd.Name.Name == "Reload" {
				nl, nu := 0, 0
				ast.Inspect(fd.Body, func(n ast.Node) bool {
					if es, ok := n.(*ast.ExprStmt); ok {
						t := strings.Join(strings.Fields(src(es.X)), "")
						if strings.HasSuffix(t, ".Lock()") || strings.HasSuffix(t, ".RLock()") {
							nl++
						}
						if strings.HasSuffix(t, ".Unlock()") || strings.HasSuffix(t, ".RUnlock()") {
							nu++
						}
					}
					return true
				})
				shape := false
				if len(fd.Body.List) >= 2 {
					if es, ok := fd.Body.List[0].(*ast.ExprStmt); ok {
						t := strings.Join(strings.Fields(src(es.X)), "")
						if ds, ok := fd.Body.List[1].(*ast.DeferStmt); ok && strings.HasSuffix(t, ".Lock()") {
							shape = strings.Join(strings.Fields(src(ds.Call)), "") == strings.TrimSuffix(t, ".Lock()")+".Unlock()"
						}
					}
				}
				rs = append(rs, rowR{pkg + "." + k.strct + "." + k.method, nl, nu, shape})
			}
		}
	}
	scan("hotline", hl)
	scan("mobius", mb)
	sort.Slice(lm, func(i, j int) bool {
		return lm[i].strct+"/"+lm[i].method+"/"+lm[i].mutex < lm[j].strct+"/"+lm[j].method+"/"+lm[j].mutex
	})
	sort.Slice(sc, func(i, j int) bool {
		return sc[i].strct+"/"+sc[i].caller+"/"+sc[i].callee+sc[i].held < sc[j].strct+"/"+sc[j].caller+"/"+sc[j].callee+sc[j].held
	})
	sort.Slice(rs, func(i, j int) bool { return rs[i].fn < rs[j].fn })

	var b strings.Builder
	b.WriteString(hdr)
	b.WriteString("/-- Methods that take a mutex of their own receiver, directly or through other methods of the receiver:\n    (package.Struct, method, mutex with the receiver written \"·\", \"Lock\" | \"RLock\") -/\n")
	b.WriteString("def lockingMethods : List (String × String × String × String) := [\n")
	for i, r := range lm {
		sep := ","
		if i == len(lm)-1 {
			sep = ""
		}
		fmt.Fprintf(&b, "  (%s, %s, %s, %s)%s\n", leanStr(r.strct), leanStr(r.method), leanStr(r.mutex), leanStr(r.kind), sep)
	}
	b.WriteString("]\n\n")
	b.WriteString("/-- Calls of a method on the same receiver made WHILE a mutex of the receiver is held, where the callee takes the same\n    mutex again: (package.Struct, caller, lock held, callee).  Go's mutexes are not re-entrant. -/\n")
	b.WriteString("def selfLockedCalls : List (String × String × String × String) := [\n")
	for i, r := range sc {
		sep := ","
		if i == len(sc)-1 {
			sep = ""
		}
		fmt.Fprintf(&b, "  (%s, %s, %s, %s)%s\n", leanStr(r.strct), leanStr(r.caller), leanStr(r.held), leanStr(r.callee), sep)
	}
	b.WriteString("]\n\n")
	b.WriteString("/-- Methods named Load / Reload: (package.Struct.method, Lock()/RLock() statements, explicit Unlock()/RUnlock() statements,\n    the body starts with `x.Lock(); defer x.Unlock()`) -/\n")
	b.WriteString("def reloadSections : List (String × Nat × Nat × Bool) := [\n")
	for i, r := range rs {
		sep := ","
		if i == len(rs)-1 {
			sep = ""
		}
		fmt.Fprintf(&b, "  (%s, %d, %d, %v)%s\n", leanStr(r.fn), r.locks, r.unlocks, r.shape, sep)
	}
	b.WriteString("]\n\nend Mobius.Generated\n")
	writeIfChanged(filepath.Join(out, "LockShape.lean"), b.String())
}
