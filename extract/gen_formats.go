package main

// Generated/FormatCalls.lean (C10): every call of a fmt formatting function (Sprintf, Errorf, Fprintf, Printf, Sscanf, …)
// in hotline/ and internal/mobius/ whose FORMAT argument is not a compile-time constant — a string literal, a named
// string constant of either package, or a `+` concatenation of those.  A format string built from run-time data (a
// path, a name a client sent) turns every `%` in that data into a verb.  The C10 obligation is that there is none,
// and that the two side-file templates are `<prefix>%s` with a `%`-free prefix (the shape `sprintfS_prefix_template`
// covers).

import (
	"fmt"
	"go/ast"
	"go/token"
	"path/filepath"
	"sort"
	"strings"
)

func init() { extraGenerators = append(extraGenerators, genFormatCalls) }

// formatArgIndex: position of the format string in the fmt functions that take one.
var formatArgIndex = map[string]int{
	"fmt.Sprintf": 0, "fmt.Errorf": 0, "fmt.Printf": 0, "fmt.Fprintf": 1, "fmt.Sscanf": 1, "fmt.Fscanf": 1, "fmt.Appendf": 1,
}

func constNames(ps ...*pkgFiles) map[string]bool {
	out := map[string]bool{}
	for _, p := range ps {
		for _, f := range p.files {
			for _, d := range f.Decls {
				gd, ok := d.(*ast.GenDecl)
				if !ok || gd.Tok != token.CONST {
					continue
				}
				for _, sp := range gd.Specs {
					for _, n := range sp.(*ast.ValueSpec).Names {
						out[n.Name] = true
					}
				}
			}
		}
	}
	return out
}

func isConstFormat(e ast.Expr, consts map[string]bool) bool {
	switch x := e.(type) {
	case *ast.BasicLit:
		return x.Kind == token.STRING
	case *ast.Ident:
		return consts[x.Name]
	case *ast.SelectorExpr:
		if id, ok := x.X.(*ast.Ident); ok && (id.Name == "hotline" || id.Name == "mobius") {
			return consts[x.Sel.Name]
		}
		return false
	case *ast.ParenExpr:
		return isConstFormat(x.X, consts)
	case *ast.BinaryExpr:
		return x.Op == token.ADD && isConstFormat(x.X, consts) && isConstFormat(x.Y, consts)
	}
	return false
}

func genFormatCalls(hl, mb *pkgFiles, hdr, out string) {
	consts := constNames(hl, mb)
	type row struct{ file, fn, call, arg string }
	var bad []row
	total := 0
	scan := func(prefix string, p *pkgFiles) {
		var names []string
		for n := range p.files {
			names = append(names, n)
		}
		sort.Strings(names)
		for _, n := range names {
			for _, d := range p.files[n].Decls {
				fd, ok := d.(*ast.FuncDecl)
				if !ok || fd.Body == nil {
					continue
				}
				ast.Inspect(fd.Body, func(nd ast.Node) bool {
					ce, ok := nd.(*ast.CallExpr)
					if !ok {
						return true
					}
					idx, is := formatArgIndex[src(ce.Fun)]
					if !is || len(ce.Args) <= idx {
						return true
					}
					total++
					if !isConstFormat(ce.Args[idx], consts) {
						bad = append(bad, row{prefix + n, fd.Name.Name, src(ce.Fun), strings.Join(strings.Fields(src(ce.Args[idx])), " ")})
					}
					return true
				})
			}
		}
	}
	scan("hotline/", hl)
	scan("internal/mobius/", mb)
	var b strings.Builder
	b.WriteString(hdr)
	fmt.Fprintf(&b, "/-- number of fmt formatting calls (Sprintf, Errorf, Printf, Fprintf, Sscanf, Fscanf, Appendf) seen in hotline/ and internal/mobius/ -/\ndef formatCallCount : Nat := %d\n\n", total)
	b.WriteString("/-- formatting calls whose format argument is NOT a constant (literal / named constant / concatenation of those):\n    (file, function, callee, format argument) -/\ndef nonConstantFormats : List (String × String × String × String) := [")
	for i, r := range bad {
		if i > 0 {
			b.WriteString(",")
		}
		fmt.Fprintf(&b, "\n  (%s, %s, %s, %s)", leanStr(r.file), leanStr(r.fn), leanStr(r.call), leanStr(r.arg))
	}
	b.WriteString("]\n\nend Mobius.Generated\n")
	writeIfChanged(filepath.Join(out, "FormatCalls.lean"), b.String())
}
