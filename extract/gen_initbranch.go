package main

// Generated/InitBranch.lean (C15): what main() of cmd/mobius-hotline-server does to the config directory before the
// account loader runs.
//
//   initGuard            : the condition under which `-init` populates the config directory
//                          (`if *init { if <stat of config.yaml>; <initGuard> { … populate … } else { … } }`).
//   initExistingDirCalls : every call made in the ELSE branch (config directory already there), in source order.
//                          A deployment passes `-init` on every start (the README's docker line): with an existing
//                          directory that branch must write nothing, or accounts deleted / renamed away through the
//                          protocol come back at the next start.
//   startupWriters       : calls of file-writing functions (copyDir, os.Create, os.WriteFile, os.Rename, os.Remove,
//                          os.RemoveAll, os.Mkdir, os.MkdirAll, io.Copy) in main() that are NOT inside the populate
//                          branch and come before the account loader (NewYAMLAccountManager).  Must be empty.
//
// `restart` in the Accounts model is the loader on the directory as the server left it; these facts are the
// precondition that nothing rewrites Users/ between two runs.

import (
	"go/ast"
	"go/parser"
	"go/token"
	"os"
	"path/filepath"
	"sort"
	"strings"
)

func init() { extraGenerators = append(extraGenerators, genInitBranch) }

func callName(c *ast.CallExpr) string { return strings.Join(strings.Fields(src(c.Fun)), "") }

func callsOf(n ast.Node) []string {
	type pc struct {
		pos  token.Pos
		name string
	}
	var cs []pc
	ast.Inspect(n, func(x ast.Node) bool {
		if c, ok := x.(*ast.CallExpr); ok {
			cs = append(cs, pc{c.Lparen, callName(c)})
		}
		return true
	})
	sort.Slice(cs, func(i, j int) bool { return cs[i].pos < cs[j].pos })
	out := make([]string, len(cs))
	for i, c := range cs {
		out[i] = c.name
	}
	return out
}

func genInitBranch(hl, mb *pkgFiles, hdr, out string) {
	repo := "/repo"
	if len(os.Args) > 1 {
		repo = os.Args[1]
	}
	guard := "main.go-not-found"
	var elseCalls, writers []string
	fset := token.NewFileSet()
	f, err := parser.ParseFile(fset, filepath.Join(repo, "cmd", "mobius-hotline-server", "main.go"), nil, 0)
	if err == nil {
		guard = "no-init-branch"
		var mainFn *ast.FuncDecl
		for _, d := range f.Decls {
			if fd, ok := d.(*ast.FuncDecl); ok && fd.Name.Name == "main" && fd.Recv == nil {
				mainFn = fd
			}
		}
		var populate ast.Node
		if mainFn != nil && mainFn.Body != nil {
			for _, st := range mainFn.Body.List {
				ifs, ok := st.(*ast.IfStmt)
				if !ok || strings.Join(strings.Fields(src(ifs.Cond)), "") != "*init" {
					continue
				}
				guard = "init-branch-has-another-shape"
				if len(ifs.Body.List) == 1 && ifs.Else == nil {
					if inner, ok := ifs.Body.List[0].(*ast.IfStmt); ok {
						guard = strings.Join(strings.Fields(src(inner.Cond)), "")
						if inner.Init != nil {
							guard = strings.Join(strings.Fields(src(inner.Init)), "") + ";" + guard
						}
						populate = inner.Body
						if inner.Else != nil {
							elseCalls = callsOf(inner.Else)
						}
					}
				}
				if populate == nil { // unknown shape: treat everything under `if *init` as running on an existing directory
					elseCalls = callsOf(ifs.Body)
				}
			}
			// writers outside the populate branch, before the account loader
			writerSet := map[string]bool{"copyDir": true, "os.Create": true, "os.WriteFile": true, "os.Rename": true, "os.Remove": true,
				"os.RemoveAll": true, "os.Mkdir": true, "os.MkdirAll": true, "io.Copy": true, "os.OpenFile": true}
			var loaderPos token.Pos
			ast.Inspect(mainFn.Body, func(x ast.Node) bool {
				if c, ok := x.(*ast.CallExpr); ok && strings.HasSuffix(callName(c), "NewYAMLAccountManager") && loaderPos == 0 {
					loaderPos = c.Pos()
				}
				return true
			})
			ast.Inspect(mainFn.Body, func(x ast.Node) bool {
				if populate != nil && x == populate {
					return false
				}
				if c, ok := x.(*ast.CallExpr); ok && writerSet[callName(c)] && (loaderPos == 0 || c.Pos() < loaderPos) {
					writers = append(writers, callName(c))
				}
				return true
			})
		}
	}
	var b strings.Builder
	b.WriteString(hdr)
	b.WriteString("/-- cmd/mobius-hotline-server main(): the condition under which `-init` populates the config directory -/\n")
	b.WriteString("def initGuard : String := " + leanStr(guard) + "\n\n")
	b.WriteString(strList("initExistingDirCalls", "main(): every call in the branch of `-init` taken when the config directory already exists, in source order", elseCalls))
	b.WriteString(strList("startupWriters", "main(): file-writing calls outside the populate branch and before the account loader", writers))
	b.WriteString("end Mobius.Generated\n")
	writeIfChanged(filepath.Join(out, "InitBranch.lean"), b.String())
}
