package main

// Generated/TransferRoots.lean (C08): which file root every transfer-granting handler uses, at each of its sites.
//
// A handler that grants a transfer sizes / checks the file below one root (its hotline.ReadPath calls) and REGISTERS
// the transfer with a root (second argument of cc.NewFileTransfer) that the transfer connection resolves again later
// (handleFileTransfer: ReadPath(fileTransfer.FileRoot, …)).  The model (MobiusModel/DownloadRoots.lean) has ONE root per
// session — ClientConn.FileRoot() — at both sites; this generator lists the root expressions of the source:
//
//   transferRootSites : (handler, "register" | "readpath", root expression) for every function of package mobius
//                       that calls cc.NewFileTransfer with a non-empty root, and every hotline.ReadPath call in it
//   sessionRootBody   : the statements of ClientConn.FileRoot (the account's own root when set, else the server's)
//   transferResolves  : first argument of every ReadPath call in Server.handleFileTransfer
//
// Obligation (Props/C08): every site's expression is `cc.FileRoot()`, the transfer connection resolves
// `fileTransfer.FileRoot`, and FileRoot() has the modelled shape.

import (
	"go/ast"
	"path/filepath"
	"sort"
	"strings"
)

func init() { extraGenerators = append(extraGenerators, genTransferRoots) }

func squeeze(n ast.Node) string { return strings.Join(strings.Fields(src(n)), " ") }

func genTransferRoots(hl, mb *pkgFiles, hdr, out string) {
	type site struct{ fn, kind, expr string }
	var sites []site
	var names []string
	for n := range mb.files {
		names = append(names, n)
	}
	sort.Strings(names)
	for _, fn := range names {
		for _, d := range mb.files[fn].Decls {
			fd, ok := d.(*ast.FuncDecl)
			if !ok || fd.Body == nil {
				continue
			}
			var reg, rp []string
			ast.Inspect(fd.Body, func(n ast.Node) bool {
				c, ok := n.(*ast.CallExpr)
				if !ok {
					return true
				}
				f := strings.Join(strings.Fields(src(c.Fun)), "")
				switch {
				case strings.HasSuffix(f, ".NewFileTransfer") && len(c.Args) >= 2:
					if e := squeeze(c.Args[1]); e != `""` {
						reg = append(reg, e)
					}
				case (f == "hotline.ReadPath" || f == "ReadPath") && len(c.Args) >= 1:
					rp = append(rp, squeeze(c.Args[0]))
				}
				return true
			})
			if len(reg) == 0 {
				continue
			}
			for _, e := range rp {
				sites = append(sites, site{fd.Name.Name, "readpath", e})
			}
			for _, e := range reg {
				sites = append(sites, site{fd.Name.Name, "register", e})
			}
		}
	}
	var b strings.Builder
	b.WriteString(hdr)
	b.WriteString("/-- Root expressions of the transfer-granting handlers: (handler, \"register\" = 2nd argument of cc.NewFileTransfer |\n    \"readpath\" = 1st argument of hotline.ReadPath, expression) -/\n")
	b.WriteString("def transferRootSites : List (String × String × String) := [")
	for i, s := range sites {
		if i > 0 {
			b.WriteString(",")
		}
		b.WriteString("\n  (" + leanStr(s.fn) + ", " + leanStr(s.kind) + ", " + leanStr(s.expr) + ")")
	}
	b.WriteString("\n]\n\n")
	var body []string
	if fd := findFunc(hl, "ClientConn", "FileRoot"); fd != nil && fd.Body != nil {
		for _, st := range fd.Body.List {
			body = append(body, squeeze(st))
		}
	}
	b.WriteString(strList("sessionRootBody", "ClientConn.FileRoot: its statements", body))
	var res []string
	if fd := findFunc(hl, "Server", "handleFileTransfer"); fd != nil && fd.Body != nil {
		ast.Inspect(fd.Body, func(n ast.Node) bool {
			if c, ok := n.(*ast.CallExpr); ok && strings.Join(strings.Fields(src(c.Fun)), "") == "ReadPath" && len(c.Args) >= 1 {
				res = append(res, squeeze(c.Args[0]))
			}
			return true
		})
	}
	b.WriteString(strList("transferResolves", "Server.handleFileTransfer: the root every ReadPath call resolves against", res))
	b.WriteString("end Mobius.Generated\n")
	writeIfChanged(filepath.Join(out, "TransferRoots.lean"), b.String())
}
