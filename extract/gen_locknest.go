package main

// Generated/LockNesting.lean (C08): which methods take a mutex of their receiver, and what they call while holding it.
//
// A transfer connection updates the statistics counters (Stats.Increment / Decrement: write lock) before and after it
// sends a byte, while readers (Server.CurrentStats -> Stats.Values, the /api/v1/stats handler) take the read lock.
// sync.RWMutex is not re-entrant: a goroutine that calls RLock while it already holds the read lock blocks for ever
// as soon as a writer has announced itself in between — and with it the writer and every later reader.  The model
// (MobiusModel/RWLock.lean) proves that goroutines whose critical sections are FLAT (lock, unlock, never a second
// acquisition in between) cannot deadlock; this generator supplies the premise from the source:
//
//   lockingMethods  : (Type.method, "R" | "W") for every method that calls <recv>.<field>.RLock() / .Lock()
//   lockedSelfCalls : (Type.method, held, callee, callee's kind) for every call <recv>.<callee>(…) made while that lock
//                     is held (between the Lock statement and its unlock, or to the end of the function when the
//                     unlock is deferred) where <callee> is itself a locking method of the same type.
//
// The obligation (Props/C08) is lockedSelfCalls = [] together with the presence of the Stats methods in lockingMethods.

import (
	"fmt"
	"go/ast"
	"path/filepath"
	"sort"
	"strings"
)

func init() { extraGenerators = append(extraGenerators, genLockNesting) }

func recvOf(fd *ast.FuncDecl) (name, typ string) {
	if fd.Recv == nil || len(fd.Recv.List) == 0 {
		return "", ""
	}
	typ = strings.TrimPrefix(src(fd.Recv.List[0].Type), "*")
	if len(fd.Recv.List[0].Names) > 0 {
		name = fd.Recv.List[0].Names[0].Name
	}
	return name, typ
}

// ownLockKind: "W" / "R" when the method body calls <recv>.<field>.Lock() / .RLock() as a statement ("" otherwise).
func ownLockKind(fd *ast.FuncDecl) string {
	rn, _ := recvOf(fd)
	if rn == "" || fd.Body == nil {
		return ""
	}
	kind := ""
	ast.Inspect(fd.Body, func(n ast.Node) bool {
		es, ok := n.(*ast.ExprStmt)
		if !ok {
			return true
		}
		t := strings.Join(strings.Fields(src(es.X)), "")
		if !strings.HasPrefix(t, rn+".") {
			return true
		}
		switch {
		case strings.HasSuffix(t, ".RLock()") && kind == "":
			kind = "R"
		case strings.HasSuffix(t, ".Lock()"):
			kind = "W"
		}
		return true
	})
	return kind
}

func genLockNesting(hl, mb *pkgFiles, hdr, out string) {
	type meth struct {
		pkg, typ, name string
		fd             *ast.FuncDecl
		kind           string
	}
	var ms []meth
	for _, pk := range []struct {
		name string
		p    *pkgFiles
	}{{"hotline", hl}, {"mobius", mb}} {
		var names []string
		for n := range pk.p.files {
			names = append(names, n)
		}
		sort.Strings(names)
		for _, fn := range names {
			for _, d := range pk.p.files[fn].Decls {
				fd, ok := d.(*ast.FuncDecl)
				if !ok || fd.Body == nil {
					continue
				}
				_, typ := recvOf(fd)
				if typ == "" {
					continue
				}
				ms = append(ms, meth{pk.name, typ, fd.Name.Name, fd, ownLockKind(fd)})
			}
		}
	}
	kindOf := map[string]string{}
	for _, m := range ms {
		if m.kind != "" {
			kindOf[m.pkg+"."+m.typ+"."+m.name] = m.kind
		}
	}
	var locking [][2]string
	type nest struct{ fn, held, callee, ck string }
	var nests []nest
	for _, m := range ms {
		if m.kind == "" {
			continue
		}
		locking = append(locking, [2]string{m.typ + "." + m.name, m.kind})
		rn, _ := recvOf(m.fd)
		ast.Inspect(m.fd.Body, func(n ast.Node) bool {
			c, ok := n.(*ast.CallExpr)
			if !ok {
				return true
			}
			sel, ok := c.Fun.(*ast.SelectorExpr)
			if !ok {
				return true
			}
			id, ok := sel.X.(*ast.Ident)
			if !ok || id.Name != rn {
				return true
			}
			ck, ok := kindOf[m.pkg+"."+m.typ+"."+sel.Sel.Name]
			if !ok {
				return true
			}
			if posUnderLock(m.fd, c.Pos()) {
				nests = append(nests, nest{m.typ + "." + m.name, m.kind, sel.Sel.Name, ck})
			}
			return true
		})
	}
	sort.Slice(locking, func(i, j int) bool { return locking[i][0] < locking[j][0] })
	sort.Slice(nests, func(i, j int) bool {
		if nests[i].fn != nests[j].fn {
			return nests[i].fn < nests[j].fn
		}
		return nests[i].callee < nests[j].callee
	})
	var b strings.Builder
	b.WriteString(hdr)
	b.WriteString(pairList("lockingMethods", "Methods that take a mutex of their receiver: (Type.method, \"R\" read lock | \"W\" write lock)", locking))
	b.WriteString("/-- Calls to a locking method of the same receiver made WHILE the caller holds the receiver's lock:\n    (Type.method, lock held, callee, lock the callee takes) -/\n")
	b.WriteString("def lockedSelfCalls : List (String × String × String × String) := [")
	for i, n := range nests {
		if i > 0 {
			b.WriteString(",")
		}
		fmt.Fprintf(&b, "\n  (%s, %s, %s, %s)", leanStr(n.fn), leanStr(n.held), leanStr(n.callee), leanStr(n.ck))
	}
	if len(nests) > 0 {
		b.WriteString("\n")
	}
	b.WriteString("]\n\nend Mobius.Generated\n")
	writeIfChanged(filepath.Join(out, "LockNesting.lean"), b.String())
}
