package main

// Generated/PeerReads.lean (C02): HOW every function on a receive path takes bytes from the peer.
//
// The segmentation theorems of C02 rest on a premise about the shape of the Go code: after the scanner loop of
// the control connection, everything the server reads from a peer is read with an EXACT-SIZE idiom
// (io.ReadFull, binary.Read of a fixed-size struct, io.CopyN) — a parser made only of such reads is a function of
// the byte sequence (SessionTransfer.Prog.run_eq_runFlat).  This generator lists, for each function that has the
// peer's stream as a parameter, every call that consumes from that stream, in source order, classified:
//
//   exact      io.ReadFull(s, …) / binary.Read(s, …) / io.CopyN(dst, s', n)   (s' = s or io.TeeReader(s, …))
//   scanner    bufio.NewScanner(s)                                              (the control connection only)
//   handoff    s passed on to another function of the package that is itself listed here (receiveFile, ReadFrom, …)
//   other      anything else that reads: s.Read(…), io.Copy(dst, s), io.ReadAll(s), bufio.NewReader(s), io.LimitReader(s, …) …
//
// The obligation (Props/C02) is that no `other` entry exists, that `scanner` occurs exactly once and only in
// handleNewConnection, and that the hand-offs go to listed functions.

import (
	"fmt"
	"go/ast"
	"path/filepath"
	"sort"
	"strings"
)

func init() { extraGenerators = append(extraGenerators, genPeerReads) }

var peerTypes = map[string]bool{"io.Reader": true, "io.ReadWriter": true, "io.ReadWriteCloser": true, "net.Conn": true}

// peer-reading functions of package hotline that the server side uses (receiver "" = plain function)
var peerFuncs = [][2]string{
	{"Server", "handleNewConnection"}, {"", "performHandshake"}, {"Server", "handleFileTransfer"},
	{"", "UploadHandler"}, {"", "UploadFolderHandler"}, {"", "DownloadFolderHandler"},
	{"", "receiveFile"}, {"flattenedFileObject", "ReadFrom"},
}

func mentions(e ast.Expr, names map[string]bool) bool {
	found := false
	ast.Inspect(e, func(n ast.Node) bool {
		if id, ok := n.(*ast.Ident); ok && names[id.Name] {
			found = true
		}
		return !found
	})
	return found
}

// paramType: the declared type of parameter i of the package's function / method called `name` ("" when unknown).
func paramType(p *pkgFiles, name string, i int) string {
	for _, f := range p.files {
		for _, d := range f.Decls {
			fd, ok := d.(*ast.FuncDecl)
			if !ok || fd.Name.Name != name {
				continue
			}
			k := 0
			for _, fl := range fd.Type.Params.List {
				n := len(fl.Names)
				if n == 0 {
					n = 1
				}
				if i < k+n {
					return src(fl.Type)
				}
				k += n
			}
		}
	}
	return ""
}

func genPeerReads(hl, mb *pkgFiles, hdr, out string) {
	type ent struct{ fn, kind, text string }
	var ents []ent
	listed := map[string]bool{}
	for _, pf := range peerFuncs {
		listed[pf[1]] = true
	}
	var missing []string
	for _, pf := range peerFuncs {
		fd := findFunc(hl, pf[0], pf[1])
		if fd == nil || fd.Body == nil {
			missing = append(missing, pf[1])
			continue
		}
		streams := map[string]bool{}
		for _, p := range fd.Type.Params.List {
			if peerTypes[src(p.Type)] {
				for _, n := range p.Names {
					streams[n.Name] = true
				}
			}
		}
		if len(streams) == 0 {
			ents = append(ents, ent{pf[1], "nostream", "no parameter of a stream type"})
			continue
		}
		// local aliases: x := <expr mentioning a stream> where expr is a wrapper constructor (bufio.NewReader(rwc), io.TeeReader(r, …))
		ast.Inspect(fd.Body, func(n ast.Node) bool {
			as, ok := n.(*ast.AssignStmt)
			if !ok || len(as.Lhs) != 1 || len(as.Rhs) != 1 {
				return true
			}
			if call, ok := as.Rhs[0].(*ast.CallExpr); ok {
				f := strings.Join(strings.Fields(src(call.Fun)), "")
				if (f == "io.TeeReader" || f == "io.LimitReader" || f == "bufio.NewReader" || f == "io.MultiReader" || f == "io.NewSectionReader") && len(call.Args) > 0 && mentions(call.Args[0], streams) {
					if id, ok := as.Lhs[0].(*ast.Ident); ok {
						streams[id.Name] = true
					}
				}
			}
			return true
		})
		var calls []*ast.CallExpr
		ast.Inspect(fd.Body, func(n ast.Node) bool {
			if c, ok := n.(*ast.CallExpr); ok {
				calls = append(calls, c)
			}
			return true
		})
		seen := map[*ast.CallExpr]bool{}
		for _, c := range calls {
			if seen[c] {
				continue
			}
			f := strings.Join(strings.Fields(src(c.Fun)), "")
			text := strings.Join(strings.Fields(src(c)), " ")
			if len(text) > 90 {
				text = text[:90]
			}
			arg := func(i int) bool { return i < len(c.Args) && mentions(c.Args[i], streams) }
			markInner := func(i int) { // an io.TeeReader(s, …) nested as argument i is part of this call
				if i < len(c.Args) {
					ast.Inspect(c.Args[i], func(n ast.Node) bool {
						if ic, ok := n.(*ast.CallExpr); ok {
							seen[ic] = true
						}
						return true
					})
				}
			}
			switch {
			case f == "io.ReadFull" && arg(0), f == "binary.Read" && arg(0):
				ents = append(ents, ent{pf[1], "exact", text})
			case f == "io.CopyN" && arg(1):
				inner := strings.Join(strings.Fields(src(c.Args[1])), "")
				if id, ok := c.Args[1].(*ast.Ident); ok && streams[id.Name] || strings.HasPrefix(inner, "io.TeeReader(") {
					ents = append(ents, ent{pf[1], "exact", text})
				} else {
					ents = append(ents, ent{pf[1], "other", text})
				}
				markInner(1)
			case f == "bufio.NewScanner" && arg(0):
				ents = append(ents, ent{pf[1], "scanner", text})
			case (f == "io.Copy" && arg(1)) || (f == "io.ReadAll" && arg(0)) || (f == "io.ReadAtLeast" && arg(0)) ||
				(f == "bufio.NewReader" && arg(0)) || (f == "bufio.NewReaderSize" && arg(0)) || (f == "io.LimitReader" && arg(0)) ||
				(f == "io.TeeReader" && arg(0)) || (f == "io.CopyBuffer" && arg(1)):
				ents = append(ents, ent{pf[1], "other", text})
			default:
				// method call on a stream: s.Read(...)
				if se, ok := c.Fun.(*ast.SelectorExpr); ok {
					if id, ok := se.X.(*ast.Ident); ok && streams[id.Name] {
						switch se.Sel.Name {
						case "Read", "ReadByte", "ReadString", "ReadBytes", "Peek", "ReadLine", "WriteTo":
							ents = append(ents, ent{pf[1], "other", text})
						}
						continue
					}
				}
				// hand-off: a stream passed as an argument to a function / method of the package
				name := f
				if i := strings.LastIndex(name, "."); i >= 0 {
					name = name[i+1:]
				}
				passes := false
				for i := range c.Args {
					if id, ok := c.Args[i].(*ast.Ident); ok && streams[id.Name] {
						// a callee of this package whose parameter at that position is an io.Writer cannot read from it
						if paramType(hl, name, i) == "io.Writer" {
							continue
						}
						passes = true
					}
				}
				if !passes {
					continue
				}
				switch {
				case listed[name]:
					ents = append(ents, ent{pf[1], "handoff", name})
				case strings.HasPrefix(f, "io.Copy") || f == "io.WriteString" || strings.HasPrefix(f, "binary.Write") || strings.HasPrefix(f, "fmt.Fprint"):
					// the stream is the destination of a write
				case f == "s.NewClientConn" || f == "s.newUnregisteredClientConn":
					// stores the connection for writing (sendTransaction) and closing
				default:
					ents = append(ents, ent{pf[1], "other", "passed to " + text})
				}
			}
		}
	}
	// anywhere in either package: a read from a registered client's stored connection (cc.Connection) would steal bytes
	// from that client's scanner loop
	for _, p := range []*pkgFiles{hl, mb} {
		for fname, f := range p.files {
			if fname == "client.go" { // the partial Hotline CLIENT: its Connection is the client's own socket
				continue
			}
			for _, d := range f.Decls {
				fd, ok := d.(*ast.FuncDecl)
				if !ok || fd.Body == nil {
					continue
				}
				ast.Inspect(fd.Body, func(n ast.Node) bool {
					c, ok := n.(*ast.CallExpr)
					if !ok {
						return true
					}
					fn := strings.Join(strings.Fields(src(c.Fun)), "")
					isConn := func(e ast.Expr) bool {
						t := strings.Join(strings.Fields(src(e)), "")
						return strings.HasSuffix(t, ".Connection") || strings.Contains(t, ".Connection,") || strings.Contains(t, ".Connection)")
					}
					reads := false
					switch fn {
					case "io.ReadFull", "io.ReadAll", "io.ReadAtLeast", "binary.Read", "bufio.NewReader", "bufio.NewScanner", "bufio.NewReaderSize", "io.LimitReader", "io.TeeReader":
						reads = len(c.Args) > 0 && isConn(c.Args[0])
					case "io.Copy", "io.CopyN", "io.CopyBuffer":
						reads = len(c.Args) > 1 && isConn(c.Args[1])
					default:
						if se, ok := c.Fun.(*ast.SelectorExpr); ok && strings.HasPrefix(se.Sel.Name, "Read") && isConn(se.X) {
							reads = true
						}
					}
					if reads {
						text := strings.Join(strings.Fields(src(c)), " ")
						if len(text) > 90 {
							text = text[:90]
						}
						ents = append(ents, ent{fd.Name.Name, "other", "stored connection: " + text})
					}
					return true
				})
			}
		}
	}

	var b strings.Builder
	b.WriteString(hdr)
	b.WriteString("/-- (function, kind, call): every consumption of the peer's stream in the server-side receive paths, in source order -/\ndef peerReads : List (String × String × String) := [\n")
	for i, e := range ents {
		sep := ","
		if i == len(ents)-1 {
			sep = ""
		}
		fmt.Fprintf(&b, "  (%s, %s, %s)%s\n", leanStr(e.fn), leanStr(e.kind), leanStr(e.text), sep)
	}
	b.WriteString("]\n\n/-- listed functions the extractor did not find (must be empty) -/\ndef peerReadFuncsMissing : List String := [")
	for i, m := range missing {
		if i > 0 {
			b.WriteString(", ")
		}
		b.WriteString(leanStr(m))
	}
	b.WriteString("]\n\n")
	acc := acceptLoopReads(hl)
	b.WriteString("/-- (function, kind, call): for every function of package hotline that ACCEPTS connections (calls `.Accept()`), every\n    use of the accepted connection that reads from it or passes it (or something wrapping it) on, in source order:\n    handoff = the connection itself given to handleNewConnection / handleFileTransfer; exact / other = a read in the\n    accept loop before the handler gets the connection; wrapped = a wrapper around the connection is handed on -/\ndef acceptLoopReads : List (String × String × String) := [\n")
	for i, e := range acc {
		sep := ","
		if i == len(acc)-1 {
			sep = ""
		}
		fmt.Fprintf(&b, "  (%s, %s, %s)%s\n", leanStr(e[0]), leanStr(e[1]), leanStr(e[2]), sep)
	}
	b.WriteString("]\n\nend Mobius.Generated\n")
	writeIfChanged(filepath.Join(out, "PeerReads.lean"), b.String())
}

// ---------------------------------------------------------------- accept loops

var wrapperCtors = map[string]bool{"io.MultiReader": true, "io.TeeReader": true, "io.LimitReader": true, "bufio.NewReader": true,
	"bufio.NewReaderSize": true, "bufio.NewReadWriter": true, "io.NopCloser": true, "io.NewSectionReader": true}

// carries: does the expression evaluate to (something holding) one of the connections?  Method calls on a connection
// (conn.RemoteAddr()) do not carry it.
func carries(e ast.Expr, conns map[string]bool) bool {
	switch v := e.(type) {
	case *ast.Ident:
		return conns[v.Name]
	case *ast.ParenExpr:
		return carries(v.X, conns)
	case *ast.TypeAssertExpr:
		return carries(v.X, conns)
	case *ast.StarExpr:
		return carries(v.X, conns)
	case *ast.UnaryExpr:
		return carries(v.X, conns)
	case *ast.KeyValueExpr:
		return carries(v.Value, conns)
	case *ast.CompositeLit:
		for _, el := range v.Elts {
			if carries(el, conns) {
				return true
			}
		}
	case *ast.CallExpr:
		f := strings.Join(strings.Fields(src(v.Fun)), "")
		if wrapperCtors[f] || f == "struct{io.Reader;io.WriteCloser}" {
			for _, a := range v.Args {
				if carries(a, conns) {
					return true
				}
			}
		}
	}
	return false
}

func acceptLoopReads(hl *pkgFiles) [][3]string {
	var out [][3]string
	var names []string
	for n := range hl.files {
		names = append(names, n)
	}
	sort.Strings(names)
	for _, fname := range names {
		if fname == "client.go" || fname == "tracker.go" { // the Hotline / tracker CLIENT sides dial, they do not accept
			continue
		}
		for _, d := range hl.files[fname].Decls {
			fd, ok := d.(*ast.FuncDecl)
			if !ok || fd.Body == nil {
				continue
			}
			conns := map[string]bool{}    // the accepted connections themselves
			derived := map[string]bool{}  // wrappers / copies
			ast.Inspect(fd.Body, func(n ast.Node) bool {
				as, ok := n.(*ast.AssignStmt)
				if !ok || len(as.Rhs) != 1 {
					return true
				}
				if call, ok := as.Rhs[0].(*ast.CallExpr); ok {
					if se, ok := call.Fun.(*ast.SelectorExpr); ok && se.Sel.Name == "Accept" && len(call.Args) == 0 {
						if id, ok := as.Lhs[0].(*ast.Ident); ok {
							conns[id.Name] = true
						}
					}
				}
				return true
			})
			if len(conns) == 0 {
				continue
			}
			all := func() map[string]bool {
				m := map[string]bool{}
				for k := range conns {
					m[k] = true
				}
				for k := range derived {
					m[k] = true
				}
				return m
			}
			for changed := true; changed; {
				changed = false
				ast.Inspect(fd.Body, func(n ast.Node) bool {
					if vs, ok := n.(*ast.ValueSpec); ok { // var rw io.ReadWriter = <wrapper>
						for i, v := range vs.Values {
							if i < len(vs.Names) && !conns[vs.Names[i].Name] && !derived[vs.Names[i].Name] && carries(v, all()) {
								derived[vs.Names[i].Name] = true
								changed = true
							}
						}
						return true
					}
					as, ok := n.(*ast.AssignStmt)
					if !ok || len(as.Rhs) != 1 || len(as.Lhs) < 1 {
						return true
					}
					id, ok := as.Lhs[0].(*ast.Ident)
					if !ok || conns[id.Name] || derived[id.Name] {
						return true
					}
					if carries(as.Rhs[0], all()) {
						derived[id.Name] = true
						changed = true
					}
					return true
				})
			}
			streams := all()
			ast.Inspect(fd.Body, func(n ast.Node) bool {
				c, ok := n.(*ast.CallExpr)
				if !ok {
					return true
				}
				f := strings.Join(strings.Fields(src(c.Fun)), "")
				text := strings.Join(strings.Fields(src(c)), " ")
				if len(text) > 90 {
					text = text[:90]
				}
				arg := func(i int) bool { return i < len(c.Args) && carries(c.Args[i], streams) }
				switch {
				case (f == "io.ReadFull" || f == "binary.Read") && arg(0), f == "io.CopyN" && arg(1):
					out = append(out, [3]string{fd.Name.Name, "exact", text})
					return true
				case (f == "io.Copy" || f == "io.CopyBuffer") && arg(1), (f == "io.ReadAll" || f == "io.ReadAtLeast" || f == "bufio.NewScanner") && arg(0):
					out = append(out, [3]string{fd.Name.Name, "other", text})
					return true
				}
				if wrapperCtors[f] {
					return true // accounted for where the wrapper is used
				}
				if se, ok := c.Fun.(*ast.SelectorExpr); ok {
					if id, ok := se.X.(*ast.Ident); ok && streams[id.Name] {
						switch se.Sel.Name {
						case "Read", "ReadByte", "ReadString", "ReadBytes", "Peek", "ReadLine", "WriteTo", "ReadFrom", "Discard":
							out = append(out, [3]string{fd.Name.Name, "other", text})
						}
						return true
					}
				}
				name := f
				if i := strings.LastIndex(name, "."); i >= 0 {
					name = name[i+1:]
				}
				for _, a := range c.Args {
					if !carries(a, streams) {
						continue
					}
					id, isIdent := a.(*ast.Ident)
					switch {
					case (name == "handleNewConnection" || name == "handleFileTransfer") && isIdent && conns[id.Name]:
						out = append(out, [3]string{fd.Name.Name, "handoff", name})
					case name == "handleNewConnection" || name == "handleFileTransfer":
						out = append(out, [3]string{fd.Name.Name, "wrapped", text})
					case strings.HasPrefix(f, "io.Copy") || f == "io.WriteString" || strings.HasPrefix(f, "binary.Write") || strings.HasPrefix(f, "fmt.Fprint"):
						// the connection is the destination of a write (first argument) — a read from it was classified above
					default:
						out = append(out, [3]string{fd.Name.Name, "other", "passed to " + text})
					}
					break
				}
				return true
			})
		}
	}
	return out
}
