package main

// Generated/PeerReads.lean (C02): HOW every function on a receive path takes bytes from the peer.
//
// The segmentation theorems of C02 rest on a premise about the shape of the Go code: after the scanner loop of
// the control connection, everything the server reads from a peer is read with an EXACT-SIZE idiom
// (io.ReadFull, binary.Read of a fixed-size struct, io.CopyN) — a parser made only of such reads is a function of
// the byte sequence (SessionTransfer.Prog.run_eq_runFlat).  This generator lists, for each function that has the
// peer's stream as a parameter, every call that consumes from that stream, in source order, classified:
//
//   exact      io.ReadFull(s, …) / binary.Read(s, …) / io.CopyN(dst, s', n)   (s' = s or io.TeeReader(s, …))
//   scanner    bufio.NewScanner(s)                                              (the control connection only)
//   handoff    s passed on to another function of the package that is itself listed here (receiveFile, ReadFrom, …)
//   other      anything else that reads: s.Read(…), io.Copy(dst, s), io.ReadAll(s), bufio.NewReader(s), io.LimitReader(s, …) …
//
// The obligation (Props/C02) is that no `other` entry exists, that `scanner` occurs exactly once and only in
// handleNewConnection, and that the hand-offs go to listed functions.

import (
	"fmt"
	"go/ast"
	"path/filepath"
	"strings"
)

func init() { extraGenerators = append(extraGenerators, genPeerReads) }

var peerTypes = map[string]bool{"io.Reader": true, "io.ReadWriter": true, "io.ReadWriteCloser": true, "net.Conn": true}

// peer-reading functions of package hotline that the server side uses (receiver "" = plain function)
var peerFuncs = [][2]string{
	{"Server", "handleNewConnection"}, {"", "performHandshake"}, {"Server", "handleFileTransfer"},
	{"", "UploadHandler"}, {"", "UploadFolderHandler"}, {"", "DownloadFolderHandler"},
	{"", "receiveFile"}, {"flattenedFileObject", "ReadFrom"},
}

func mentions(e ast.Expr, names map[string]bool) bool {
	found := false
	ast.Inspect(e, func(n ast.Node) bool {
		if id, ok := n.(*ast.Ident); ok && names[id.Name] {
			found = true
		}
		return !found
	})
	return found
}

// paramType: the declared type of parameter i of the package's function / method called `name` ("" when unknown).
func paramType(p *pkgFiles, name string, i int) string {
	for _, f := range p.files {
		for _, d := range f.Decls {
			fd, ok := d.(*ast.FuncDecl)
			if !ok || fd.Name.Name != name {
				continue
			}
			k := 0
			for _, fl := range fd.Type.Params.List {
				n := len(fl.Names)
				if n == 0 {
					n = 1
				}
				if i < k+n {
					return src(fl.Type)
				}
				k += n
			}
		}
	}
	return ""
}

func genPeerReads(hl, mb *pkgFiles, hdr, out string) {
	type ent struct{ fn, kind, text string }
	var ents []ent
	listed := map[string]bool{}
	for _, pf := range peerFuncs {
		listed[pf[1]] = true
	}
	var missing []string
	for _, pf := range peerFuncs {
		fd := findFunc(hl, pf[0], pf[1])
		if fd == nil || fd.Body == nil {
			missing = append(missing, pf[1])
			continue
		}
		streams := map[string]bool{}
		for _, p := range fd.Type.Params.List {
			if peerTypes[src(p.Type)] {
				for _, n := range p.Names {
					streams[n.Name] = true
				}
			}
		}
		if len(streams) == 0 {
			ents = append(ents, ent{pf[1], "nostream", "no parameter of a stream type"})
			continue
		}
		// local aliases: x := <expr mentioning a stream> where expr is a wrapper constructor (bufio.NewReader(rwc), io.TeeReader(r, …))
		ast.Inspect(fd.Body, func(n ast.Node) bool {
			as, ok := n.(*ast.AssignStmt)
			if !ok || len(as.Lhs) != 1 || len(as.Rhs) != 1 {
				return true
			}
			if call, ok := as.Rhs[0].(*ast.CallExpr); ok {
				f := strings.Join(strings.Fields(src(call.Fun)), "")
				if (f == "io.TeeReader" || f == "io.LimitReader" || f == "bufio.NewReader" || f == "io.MultiReader" || f == "io.NewSectionReader") && len(call.Args) > 0 && mentions(call.Args[0], streams) {
					if id, ok := as.Lhs[0].(*ast.Ident); ok {
						streams[id.Name] = true
					}
				}
			}
			return true
		})
		var calls []*ast.CallExpr
		ast.Inspect(fd.Body, func(n ast.Node) bool {
			if c, ok := n.(*ast.CallExpr); ok {
				calls = append(calls, c)
			}
			return true
		})
		seen := map[*ast.CallExpr]bool{}
		for _, c := range calls {
			if seen[c] {
				continue
			}
			f := strings.Join(strings.Fields(src(c.Fun)), "")
			text := strings.Join(strings.Fields(src(c)), " ")
			if len(text) > 90 {
				text = text[:90]
			}
			arg := func(i int) bool { return i < len(c.Args) && mentions(c.Args[i], streams) }
			markInner := func(i int) { // an io.TeeReader(s, …) nested as argument i is part of this call
				if i < len(c.Args) {
					ast.Inspect(c.Args[i], func(n ast.Node) bool {
						if ic, ok := n.(*ast.CallExpr); ok {
							seen[ic] = true
						}
						return true
					})
				}
			}
			switch {
			case f == "io.ReadFull" && arg(0), f == "binary.Read" && arg(0):
				ents = append(ents, ent{pf[1], "exact", text})
			case f == "io.CopyN" && arg(1):
				inner := strings.Join(strings.Fields(src(c.Args[1])), "")
				if id, ok := c.Args[1].(*ast.Ident); ok && streams[id.Name] || strings.HasPrefix(inner, "io.TeeReader(") {
					ents = append(ents, ent{pf[1], "exact", text})
				} else {
					ents = append(ents, ent{pf[1], "other", text})
				}
				markInner(1)
			case f == "bufio.NewScanner" && arg(0):
				ents = append(ents, ent{pf[1], "scanner", text})
			case (f == "io.Copy" && arg(1)) || (f == "io.ReadAll" && arg(0)) || (f == "io.ReadAtLeast" && arg(0)) ||
				(f == "bufio.NewReader" && arg(0)) || (f == "bufio.NewReaderSize" && arg(0)) || (f == "io.LimitReader" && arg(0)) ||
				(f == "io.TeeReader" && arg(0)) || (f == "io.CopyBuffer" && arg(1)):
				ents = append(ents, ent{pf[1], "other", text})
			default:
				// method call on a stream: s.Read(...)
				if se, ok := c.Fun.(*ast.SelectorExpr); ok {
					if id, ok := se.X.(*ast.Ident); ok && streams[id.Name] {
						switch se.Sel.Name {
						case "Read", "ReadByte", "ReadString", "ReadBytes", "Peek", "ReadLine", "WriteTo":
							ents = append(ents, ent{pf[1], "other", text})
						}
						continue
					}
				}
				// hand-off: a stream passed as an argument to a function / method of the package
				name := f
				if i := strings.LastIndex(name, "."); i >= 0 {
					name = name[i+1:]
				}
				passes := false
				for i := range c.Args {
					if id, ok := c.Args[i].(*ast.Ident); ok && streams[id.Name] {
						// a callee of this package whose parameter at that position is an io.Writer cannot read from it
						if paramType(hl, name, i) == "io.Writer" {
							continue
						}
						passes = true
					}
				}
				if !passes {
					continue
				}
				switch {
				case listed[name]:
					ents = append(ents, ent{pf[1], "handoff", name})
				case strings.HasPrefix(f, "io.Copy") || f == "io.WriteString" || strings.HasPrefix(f, "binary.Write") || strings.HasPrefix(f, "fmt.Fprint"):
					// the stream is the destination of a write
				case f == "s.NewClientConn" || f == "s.newUnregisteredClientConn":
					// stores the connection for writing (sendTransaction) and closing
				default:
					ents = append(ents, ent{pf[1], "other", "passed to " + text})
				}
			}
		}
	}
	// anywhere in either package: a read from a registered client's stored connection (cc.Connection) would steal bytes
	// from that client's scanner loop
	for _, p := range []*pkgFiles{hl, mb} {
		for fname, f := range p.files {
			if fname == "client.go" { // the partial Hotline CLIENT: its Connection is the client's own socket
				continue
			}
			for _, d := range f.Decls {
				fd, ok := d.(*ast.FuncDecl)
				if !ok || fd.Body == nil {
					continue
				}
				ast.Inspect(fd.Body, func(n ast.Node) bool {
					c, ok := n.(*ast.CallExpr)
					if !ok {
						return true
					}
					fn := strings.Join(strings.Fields(src(c.Fun)), "")
					isConn := func(e ast.Expr) bool {
						t := strings.Join(strings.Fields(src(e)), "")
						return strings.HasSuffix(t, ".Connection") || strings.Contains(t, ".Connection,") || strings.Contains(t, ".Connection)")
					}
					reads := false
					switch fn {
					case "io.ReadFull", "io.ReadAll", "io.ReadAtLeast", "binary.Read", "bufio.NewReader", "bufio.NewScanner", "bufio.NewReaderSize", "io.LimitReader", "io.TeeReader":
						reads = len(c.Args) > 0 && isConn(c.Args[0])
					case "io.Copy", "io.CopyN", "io.CopyBuffer":
						reads = len(c.Args) > 1 && isConn(c.Args[1])
					default:
						if se, ok := c.Fun.(*ast.SelectorExpr); ok && strings.HasPrefix(se.Sel.Name, "Read") && isConn(se.X) {
							reads = true
						}
					}
					if reads {
						text := strings.Join(strings.Fields(src(c)), " ")
						if len(text) > 90 {
							text = text[:90]
						}
						ents = append(ents, ent{fd.Name.Name, "other", "stored connection: " + text})
					}
					return true
				})
			}
		}
	}

	var b strings.Builder
	b.WriteString(hdr)
	b.WriteString("/-- (function, kind, call): every consumption of the peer's stream in the server-side receive paths, in source order -/\ndef peerReads : List (String × String × String) := [\n")
	for i, e := range ents {
		sep := ","
		if i == len(ents)-1 {
			sep = ""
		}
		fmt.Fprintf(&b, "  (%s, %s, %s)%s\n", leanStr(e.fn), leanStr(e.kind), leanStr(e.text), sep)
	}
	b.WriteString("]\n\n/-- listed functions the extractor did not find (must be empty) -/\ndef peerReadFuncsMissing : List String := [")
	for i, m := range missing {
		if i > 0 {
			b.WriteString(", ")
		}
		b.WriteString(leanStr(m))
	}
	b.WriteString("]\n\nend Mobius.Generated\n")
	writeIfChanged(filepath.Join(out, "PeerReads.lean"), b.String())
}
