package main

// Generated/FileTypes.lean (C08, C11): the extension → (type, creator) table, the default type and the friendly-name
// table of hotline/file_types.go, as byte lists, sorted by key (the Go tables are maps: their order means nothing).
// The Lean model's hand-written copies (FileOps.fileTypes / friendlyNames / tyTEXT, crTTXT) are proved to denote the
// same finite maps on every run.

import (
	"fmt"
	"go/ast"
	"go/token"
	"path/filepath"
	"sort"
	"strconv"
	"strings"
)

func init() { extraGenerators = append(extraGenerators, genFileTypes) }

func leanBytes(s string) string {
	parts := make([]string, len(s))
	for i := 0; i < len(s); i++ {
		parts[i] = strconv.Itoa(int(s[i]))
	}
	return "[" + strings.Join(parts, ", ") + "]"
}

func strLit(e ast.Expr) (string, bool) {
	bl, ok := e.(*ast.BasicLit)
	if !ok || bl.Kind != token.STRING {
		return "", false
	}
	s, err := strconv.Unquote(bl.Value)
	return s, err == nil
}

// fileTypeLit reads {TypeCode: "..", CreatorCode: ".."} (keyed or positional).
func fileTypeLit(e ast.Expr) (ty, cr string, ok bool) {
	cl, isCl := e.(*ast.CompositeLit)
	if !isCl {
		return
	}
	pos := 0
	got := 0
	for _, el := range cl.Elts {
		if kv, isKv := el.(*ast.KeyValueExpr); isKv {
			v, okv := strLit(kv.Value)
			if !okv {
				return "", "", false
			}
			switch src(kv.Key) {
			case "TypeCode":
				ty = v
				got++
			case "CreatorCode":
				cr = v
				got++
			default:
				return "", "", false
			}
		} else {
			v, okv := strLit(el)
			if !okv {
				return "", "", false
			}
			if pos == 0 {
				ty = v
			} else {
				cr = v
			}
			pos++
			got++
		}
	}
	return ty, cr, got == 2
}

func findVar(p *pkgFiles, name string) ast.Expr {
	for _, f := range p.files {
		for _, d := range f.Decls {
			gd, ok := d.(*ast.GenDecl)
			if !ok || gd.Tok != token.VAR {
				continue
			}
			for _, s := range gd.Specs {
				vs := s.(*ast.ValueSpec)
				for i, n := range vs.Names {
					if n.Name == name && i < len(vs.Values) {
						return vs.Values[i]
					}
				}
			}
		}
	}
	return nil
}

func genFileTypes(hl, mb *pkgFiles, hdr, out string) {
	var b strings.Builder
	b.WriteString(hdr)
	problems := []string{}

	type row struct{ k, a, c string }
	var rows []row
	if cl, ok := findVar(hl, "fileTypes").(*ast.CompositeLit); ok {
		for _, el := range cl.Elts {
			kv, isKv := el.(*ast.KeyValueExpr)
			if !isKv {
				problems = append(problems, "fileTypes: element without key")
				continue
			}
			k, ok1 := strLit(kv.Key)
			ty, cr, ok2 := fileTypeLit(kv.Value)
			if !ok1 || !ok2 {
				problems = append(problems, "fileTypes: unreadable entry "+src(kv.Key))
				continue
			}
			rows = append(rows, row{k, ty, cr})
		}
	} else {
		problems = append(problems, "var fileTypes: map literal not found")
	}
	sort.Slice(rows, func(i, j int) bool { return rows[i].k < rows[j].k })
	b.WriteString("/-- hotline/file_types.go `fileTypes`: (extension, type code, creator code), sorted by extension -/\ndef fileTypes : List (List UInt8 × List UInt8 × List UInt8) := [\n")
	for i, r := range rows {
		sep := ","
		if i == len(rows)-1 {
			sep = ""
		}
		fmt.Fprintf(&b, "  (%s, %s, %s)%s   -- %q %q %q\n", leanBytes(r.k), leanBytes(r.a), leanBytes(r.c), sep, r.k, r.a, r.c)
	}
	b.WriteString("]\n\n")

	dty, dcr, dok := "", "", false
	if e := findVar(hl, "defaultFileType"); e != nil {
		dty, dcr, dok = fileTypeLit(e)
	}
	if !dok {
		problems = append(problems, "var defaultFileType: literal not found")
	}
	fmt.Fprintf(&b, "/-- `defaultFileType` -/\ndef defaultFileType : List UInt8 × List UInt8 := (%s, %s)   -- %q %q\n\n", leanBytes(dty), leanBytes(dcr), dty, dcr)

	var names []row
	if cl, ok := findVar(hl, "friendlyCreatorNames").(*ast.CompositeLit); ok {
		for _, el := range cl.Elts {
			kv, isKv := el.(*ast.KeyValueExpr)
			if !isKv {
				problems = append(problems, "friendlyCreatorNames: element without key")
				continue
			}
			k, ok1 := strLit(kv.Key)
			v, ok2 := strLit(kv.Value)
			if !ok1 || !ok2 {
				problems = append(problems, "friendlyCreatorNames: unreadable entry "+src(kv.Key))
				continue
			}
			names = append(names, row{k, v, ""})
		}
	} else {
		problems = append(problems, "var friendlyCreatorNames: map literal not found")
	}
	sort.Slice(names, func(i, j int) bool { return names[i].k < names[j].k })
	b.WriteString("/-- `friendlyCreatorNames`: (code, display name), sorted by code -/\ndef friendlyNames : List (List UInt8 × List UInt8) := [\n")
	for i, r := range names {
		sep := ","
		if i == len(names)-1 {
			sep = ""
		}
		fmt.Fprintf(&b, "  (%s, %s)%s   -- %q %q\n", leanBytes(r.k), leanBytes(r.a), sep, r.k, r.a)
	}
	b.WriteString("]\n\n")

	b.WriteString("/-- what the extractor could not read (must be empty) -/\ndef fileTypeProblems : List String := [")
	for i, p := range problems {
		if i > 0 {
			b.WriteString(", ")
		}
		b.WriteString(leanStr(p))
	}
	b.WriteString("]\n\nend Mobius.Generated\n")
	writeIfChanged(filepath.Join(out, "FileTypes.lean"), b.String())
}
