package main

// Generated/FileStore.lean (C09): the production file store is a STATELESS pass-through to package os.
//
//   osFileStoreMethods : (method, statements in the body, the one statement is `return os.<Callee>(<the parameters in order>)`,
//                        callee) for every method of hotline.OSFileStore.
//   osFileStoreFields  : the fields of struct OSFileStore (state a method could keep between calls).
//   fileStoreVars      : package-level variables declared in the file that declares OSFileStore (a cache would live there).
//
// HandleUploadFile computes the resume offset from FS.Stat(<name>.incomplete) while UploadHandler appends to that file
// through os.OpenFile: the upload model reads the names themselves at every request (UploadHistory.upHistory), which is
// the code's behaviour only as long as the store answers from the file system every time.

import (
	"fmt"
	"go/ast"
	"go/token"
	"path/filepath"
	"sort"
	"strings"
)

func init() { extraGenerators = append(extraGenerators, genFileStore) }

func genFileStore(hl, mb *pkgFiles, hdr, out string) {
	var b strings.Builder
	b.WriteString(hdr)
	type row struct {
		name   string
		stmts  int
		pass   bool
		callee string
	}
	var rows []row
	var fields, vars []string
	for _, f := range hl.files {
		declares := false
		for _, d := range f.Decls {
			gd, ok := d.(*ast.GenDecl)
			if !ok || gd.Tok != token.TYPE {
				continue
			}
			for _, sp := range gd.Specs {
				ts := sp.(*ast.TypeSpec)
				if ts.Name.Name != "OSFileStore" {
					continue
				}
				declares = true
				if st, ok := ts.Type.(*ast.StructType); ok && st.Fields != nil {
					for _, fl := range st.Fields.List {
						fields = append(fields, strings.Join(strings.Fields(src(fl)), " "))
					}
				}
			}
		}
		if declares {
			for _, d := range f.Decls {
				if gd, ok := d.(*ast.GenDecl); ok && gd.Tok == token.VAR {
					for _, sp := range gd.Specs {
						for _, n := range sp.(*ast.ValueSpec).Names {
							if n.Name != "_" {
								vars = append(vars, n.Name)
							}
						}
					}
				}
			}
		}
		for _, d := range f.Decls {
			fd, ok := d.(*ast.FuncDecl)
			if !ok || fd.Recv == nil || len(fd.Recv.List) == 0 || fd.Body == nil {
				continue
			}
			if strings.TrimPrefix(src(fd.Recv.List[0].Type), "*") != "OSFileStore" {
				continue
			}
			r := row{name: fd.Name.Name, stmts: len(fd.Body.List)}
			if len(fd.Body.List) == 1 {
				if rs, ok := fd.Body.List[0].(*ast.ReturnStmt); ok && len(rs.Results) == 1 {
					if ce, ok := rs.Results[0].(*ast.CallExpr); ok {
						r.callee = strings.Join(strings.Fields(src(ce.Fun)), "")
						var params []string
						for _, p := range fd.Type.Params.List {
							for _, n := range p.Names {
								params = append(params, n.Name)
							}
						}
						var args []string
						for _, a := range ce.Args {
							args = append(args, strings.Join(strings.Fields(src(a)), ""))
						}
						r.pass = strings.HasPrefix(r.callee, "os.") && strings.Join(params, ",") == strings.Join(args, ",") && !ce.Ellipsis.IsValid()
					}
				}
			}
			rows = append(rows, r)
		}
	}
	sort.Slice(rows, func(i, j int) bool { return rows[i].name < rows[j].name })
	b.WriteString("/-- (method of OSFileStore, statements in its body, it is `return os.F(<its parameters in order>)`, F) -/\ndef osFileStoreMethods : List (String × Nat × Bool × String) := [\n")
	for i, r := range rows {
		sep := ","
		if i == len(rows)-1 {
			sep = ""
		}
		fmt.Fprintf(&b, "  (%s, %d, %v, %s)%s\n", leanStr(r.name), r.stmts, r.pass, leanStr(r.callee), sep)
	}
	b.WriteString("]\n\n")
	b.WriteString(strList("osFileStoreFields", "fields of struct OSFileStore", fields))
	sort.Strings(vars)
	b.WriteString(strList("fileStoreVars", "package-level variables of the file that declares OSFileStore", vars))
	b.WriteString("end Mobius.Generated\n")
	writeIfChanged(filepath.Join(out, "FileStore.lean"), b.String())
}
