package main

import (
	"fmt"
	"go/ast"
	"go/token"
	"path/filepath"
	"sort"
	"strconv"
	"strings"
)

func findFunc(p *pkgFiles, recv, name string) *ast.FuncDecl {
	for _, f := range p.files {
		for _, d := range f.Decls {
			fd, ok := d.(*ast.FuncDecl)
			if !ok || fd.Name.Name != name {
				continue
			}
			r := ""
			if fd.Recv != nil {
				r = strings.TrimPrefix(src(fd.Recv.List[0].Type), "*")
			}
			if r == recv {
				return fd
			}
		}
	}
	return nil
}

func pairList(name, doc string, l [][2]string) string {
	var b strings.Builder
	fmt.Fprintf(&b, "/-- %s -/\ndef %s : List (String × String) := [\n", doc, name)
	for i, e := range l {
		sep := ","
		if i == len(l)-1 {
			sep = ""
		}
		fmt.Fprintf(&b, "  (%s, %s)%s\n", leanStr(e[0]), leanStr(e[1]), sep)
	}
	b.WriteString("]\n\n")
	return b.String()
}

// ---------------------------------------------------------------- access bitmap YAML tables

func genAccessYaml(hl *pkgFiles, hdr, out string) {
	var unm, flags, mar [][2]string
	legacyShape := false
	if fd := findFunc(hl, "AccessBitmap", "UnmarshalYAML"); fd != nil {
		ast.Inspect(fd.Body, func(n ast.Node) bool {
			switch s := n.(type) {
			case *ast.IfStmt:
				// if f, ok := v["KEY"].(bool); ok && f { bits.Set(CONST) }
				if as, ok := s.Init.(*ast.AssignStmt); ok && len(as.Rhs) == 1 {
					if ta, ok := as.Rhs[0].(*ast.TypeAssertExpr); ok && src(ta.Type) == "bool" {
						if ix, ok := ta.X.(*ast.IndexExpr); ok {
							if bl, ok := ix.Index.(*ast.BasicLit); ok && src(s.Cond) == "ok && f" && len(s.Body.List) == 1 {
								key, _ := strconv.Unquote(bl.Value)
								if es, ok := s.Body.List[0].(*ast.ExprStmt); ok {
									if ce, ok := es.X.(*ast.CallExpr); ok && src(ce.Fun) == "bits.Set" && len(ce.Args) == 1 {
										unm = append(unm, [2]string{key, src(ce.Args[0])})
									}
								}
							}
						}
					}
				}
			case *ast.AssignStmt:
				if src(s) == "bits[i] = byte(v.(int))" {
					legacyShape = true
				}
			}
			return true
		})
	}
	// accessFlags struct
	for _, f := range hl.files {
		for _, d := range f.Decls {
			gd, ok := d.(*ast.GenDecl)
			if !ok || gd.Tok != token.TYPE {
				continue
			}
			for _, sp := range gd.Specs {
				ts := sp.(*ast.TypeSpec)
				if ts.Name.Name != "accessFlags" {
					continue
				}
				if st, ok := ts.Type.(*ast.StructType); ok {
					for _, fl := range st.Fields.List {
						tag := ""
						if fl.Tag != nil {
							t, _ := strconv.Unquote(fl.Tag.Value)
							if i := strings.Index(t, `yaml:"`); i >= 0 {
								tag = t[i+6:]
								tag = tag[:strings.Index(tag, `"`)]
							}
						}
						for _, n := range fl.Names {
							flags = append(flags, [2]string{n.Name, tag})
						}
					}
				}
			}
		}
	}
	if fd := findFunc(hl, "AccessBitmap", "MarshalYAML"); fd != nil {
		ast.Inspect(fd.Body, func(n ast.Node) bool {
			if cl, ok := n.(*ast.CompositeLit); ok && src(cl.Type) == "accessFlags" {
				for _, el := range cl.Elts {
					if kv, ok := el.(*ast.KeyValueExpr); ok {
						if ce, ok := kv.Value.(*ast.CallExpr); ok && src(ce.Fun) == "bits.IsSet" && len(ce.Args) == 1 {
							mar = append(mar, [2]string{src(kv.Key), src(ce.Args[0])})
						} else {
							mar = append(mar, [2]string{src(kv.Key), "?" + src(kv.Value)})
						}
					}
				}
			}
			return true
		})
	}
	// Set / IsSet bodies (bit numbering)
	setBody, isSetBody := "", ""
	if fd := findFunc(hl, "AccessBitmap", "Set"); fd != nil && len(fd.Body.List) == 1 {
		setBody = src(fd.Body.List[0])
	}
	if fd := findFunc(hl, "AccessBitmap", "IsSet"); fd != nil && len(fd.Body.List) == 1 {
		isSetBody = src(fd.Body.List[0])
	}
	var b strings.Builder
	b.WriteString(hdr)
	b.WriteString(pairList("unmarshalTable", "UnmarshalYAML named-flag branch: (yaml key, Access constant set)", unm))
	b.WriteString(pairList("flagsStruct", "accessFlags struct: (Go field, yaml tag)", flags))
	b.WriteString(pairList("marshalTable", "MarshalYAML: (accessFlags field, Access constant read)", mar))
	fmt.Fprintf(&b, "/-- legacy array branch has the shape `bits[i] = byte(v.(int))` -/\ndef legacyArrayShape : Bool := %v\n\n", legacyShape)
	fmt.Fprintf(&b, "def setBody : String := %s\ndef isSetBody : String := %s\n\n", leanStr(setBody), leanStr(isSetBody))
	b.WriteString("end Mobius.Generated\n")
	writeIfChanged(filepath.Join(out, "AccessYaml.lean"), b.String())
}

// ---------------------------------------------------------------- handler guard skeletons

var effectCalls = []string{
	"hlFile.Delete", "hlFile.Move", "FS.Mkdir", "os.Rename", "os.Mkdir", "FS.Symlink", "hlFile.InfoForkWriter",
	"AccountManager.Create", "AccountManager.Update", "AccountManager.Delete", "BanList.Add",
	"ThreadedNewsMgr.PostArticle", "ThreadedNewsMgr.CreateGrouping", "ThreadedNewsMgr.DeleteNewsItem", "ThreadedNewsMgr.DeleteArticle",
	"MessageBoard.Write", "cc.SendAll", "ChatMgr.New", "ChatMgr.Join", "ChatMgr.Leave", "ChatMgr.SetSubject",
	"cc.NewFileTransfer", "Disconnect", "MessageBoard.Seek", "io.ReadAll",
}

type authSite struct {
	handler string
	recv    string
	access  string
	form    string // deny-guard | cond | other
	ctx     string
	before  []string
	pos     token.Pos
}

func effectName(ce *ast.CallExpr) string {
	f := src(ce.Fun)
	for _, e := range effectCalls {
		if strings.HasSuffix(f, e) {
			return e
		}
	}
	return ""
}

func returnsErrReply(b *ast.BlockStmt) bool {
	if len(b.List) == 0 {
		return false
	}
	r, ok := b.List[len(b.List)-1].(*ast.ReturnStmt)
	if !ok || len(r.Results) != 1 {
		return false
	}
	return strings.Contains(src(r.Results[0]), "NewErrReply(")
}

func handlerSites(fd *ast.FuncDecl) []authSite {
	var sites []authSite
	type eff struct {
		name string
		pos  token.Pos
	}
	var effects []eff
	ast.Inspect(fd.Body, func(n ast.Node) bool {
		if ce, ok := n.(*ast.CallExpr); ok {
			if e := effectName(ce); e != "" {
				effects = append(effects, eff{e, ce.Pos()})
			}
		}
		return true
	})
	// walk with a context stack
	var walk func(n ast.Node, ctx []string)
	walkStmts := func(l []ast.Stmt, ctx []string) {
		for _, s := range l {
			walk(s, ctx)
		}
	}
	record := func(e ast.Expr, ctx []string, denyBody *ast.BlockStmt, whole ast.Expr) {
		ast.Inspect(e, func(n ast.Node) bool {
			ce, ok := n.(*ast.CallExpr)
			if !ok {
				return true
			}
			se, ok := ce.Fun.(*ast.SelectorExpr)
			if !ok || se.Sel.Name != "Authorize" || len(ce.Args) != 1 {
				return true
			}
			s := authSite{handler: fd.Name.Name, recv: src(se.X), access: strings.TrimPrefix(src(ce.Args[0]), "hotline."), ctx: strings.Join(ctx, " && "), pos: ce.Pos()}
			w := ""
			if whole != nil {
				w = src(whole)
			}
			switch {
			case denyBody != nil && w == "!"+src(ce) && returnsErrReply(denyBody):
				s.form = "deny-guard"
			case denyBody != nil && returnsErrReply(denyBody):
				s.form = "deny-guard:" + strings.ReplaceAll(w, "hotline.", "")
			case whole != nil:
				s.form = "cond:" + strings.ReplaceAll(w, "hotline.", "")
			default:
				s.form = "other"
			}
			for _, ef := range effects {
				if ef.pos < ce.Pos() {
					s.before = append(s.before, ef.name)
				}
			}
			sites = append(sites, s)
			return true
		})
	}
	walk = func(n ast.Node, ctx []string) {
		switch s := n.(type) {
		case nil:
		case *ast.BlockStmt:
			walkStmts(s.List, ctx)
		case *ast.IfStmt:
			if s.Init != nil {
				walk(s.Init, ctx)
			}
			record(s.Cond, ctx, s.Body, s.Cond)
			c := strings.ReplaceAll(src(s.Cond), "hotline.", "")
			walk(s.Body, append(append([]string{}, ctx...), c))
			if s.Else != nil {
				walk(s.Else, append(append([]string{}, ctx...), "!("+c+")"))
			}
		case *ast.SwitchStmt:
			for _, cc := range s.Body.List {
				cl := cc.(*ast.CaseClause)
				c := "default"
				if len(cl.List) > 0 {
					var parts []string
					for _, e := range cl.List {
						parts = append(parts, src(e))
					}
					c = strings.Join(parts, ",")
					if s.Tag != nil {
						c = src(s.Tag) + "==" + c
					}
				}
				walkStmts(cl.Body, append(append([]string{}, ctx...), "case "+strings.ReplaceAll(c, "hotline.", "")))
			}
		case *ast.TypeSwitchStmt:
			walk(s.Body, ctx)
		case *ast.ForStmt:
			walk(s.Body, append(append([]string{}, ctx...), "for"))
		case *ast.RangeStmt:
			walk(s.Body, append(append([]string{}, ctx...), "range "+strings.ReplaceAll(src(s.X), "hotline.", "")))
		case *ast.CaseClause:
			walkStmts(s.Body, ctx)
		case *ast.GoStmt, *ast.DeferStmt:
		default:
			// any other statement: record Authorize calls inside as "other"
			if st, ok := n.(ast.Stmt); ok {
				ast.Inspect(st, func(m ast.Node) bool {
					if e, ok := m.(ast.Expr); ok {
						record(e, ctx, nil, nil)
						return false
					}
					return true
				})
			}
		}
	}
	walk(fd.Body, nil)
	return sites
}

func genHandlers(hl, mb *pkgFiles, hdr, out string) {
	var reg [][2]string
	if fd := findFunc(mb, "", "RegisterHandlers"); fd != nil {
		ast.Inspect(fd.Body, func(n ast.Node) bool {
			if ce, ok := n.(*ast.CallExpr); ok && strings.HasSuffix(src(ce.Fun), ".HandleFunc") && len(ce.Args) == 2 {
				reg = append(reg, [2]string{strings.TrimPrefix(src(ce.Args[0]), "hotline."), src(ce.Args[1])})
			}
			return true
		})
	}
	sort.Slice(reg, func(i, j int) bool { return reg[i][0] < reg[j][0] })
	var b strings.Builder
	b.WriteString(hdr)
	b.WriteString(pairList("registered", "RegisterHandlers: (transaction type constant, handler function)", reg))
	b.WriteString("/-- Every `Authorize` call site in a registered handler, in source order:\n    (handler, receiver, access constant, form, enclosing conditions, state-changing calls that precede it in the function) -/\n")
	b.WriteString("def authSites : List (String × String × String × String × String × List String) := [\n")
	var names []string
	seen := map[string]bool{}
	for _, r := range reg {
		if !seen[r[1]] {
			seen[r[1]] = true
			names = append(names, r[1])
		}
	}
	sort.Strings(names)
	first := true
	for _, h := range names {
		fd := findFunc(mb, "", h)
		if fd == nil {
			continue
		}
		for _, s := range handlerSites(fd) {
			if !first {
				b.WriteString(",\n")
			}
			first = false
			var bs []string
			for _, e := range s.before {
				bs = append(bs, leanStr(e))
			}
			fmt.Fprintf(&b, "  (%s, %s, %s, %s, %s, [%s])", leanStr(s.handler), leanStr(s.recv), leanStr(s.access), leanStr(s.form), leanStr(s.ctx), strings.Join(bs, ", "))
		}
	}
	b.WriteString("\n]\n\n")
	// reply constructors copy the request id / set the reply flag
	replyFacts := [][2]string{}
	for _, fn := range []string{"NewReply", "NewErrReply"} {
		if fd := findFunc(hl, "ClientConn", fn); fd != nil {
			body := src(fd.Body)
			replyFacts = append(replyFacts, [2]string{fn, fmt.Sprintf("IsReply=%v ID=%v ClientID=%v", strings.Contains(body, "IsReply:"), strings.Contains(body, "t.ID"), strings.Contains(body, "cc.ID"))})
		}
	}
	b.WriteString(pairList("replyCtors", "reply constructors: which header fields they set", replyFacts))
	b.WriteString("end Mobius.Generated\n")
	writeIfChanged(filepath.Join(out, "Handlers.lean"), b.String())
}

// ---------------------------------------------------------------- concurrency facts

// posUnderLock reports whether position p in fd lies between a Lock()/RLock() statement and its unlock
// (deferred anywhere in the function, or an explicit matching Unlock() statement after p).
func posUnderLock(fd *ast.FuncDecl, p token.Pos) bool {
	type lk struct {
		pos, unlock token.Pos
		deferred    bool
		expr        string
	}
	var locks []lk
	ast.Inspect(fd.Body, func(n ast.Node) bool {
		if es, ok := n.(*ast.ExprStmt); ok {
			t := src(es.X)
			if strings.HasSuffix(t, ".Lock()") || strings.HasSuffix(t, ".RLock()") {
				locks = append(locks, lk{pos: es.Pos(), expr: t})
			}
		}
		return true
	})
	for i := range locks {
		un := strings.Replace(strings.Replace(locks[i].expr, ".RLock()", ".RUnlock()", 1), ".Lock()", ".Unlock()", 1)
		ast.Inspect(fd.Body, func(n ast.Node) bool {
			switch s := n.(type) {
			case *ast.DeferStmt:
				if src(s.Call) == un {
					locks[i].deferred = true
				}
			case *ast.ExprStmt:
				if src(s.X) == un && s.Pos() > locks[i].pos && (locks[i].unlock == 0 || s.Pos() < locks[i].unlock) {
					locks[i].unlock = s.Pos()
				}
			}
			return true
		})
	}
	for _, l := range locks {
		if l.pos < p && (l.deferred || (l.unlock != 0 && p < l.unlock)) {
			return true
		}
	}
	return false
}

func hasDeferRecover(b *ast.BlockStmt) bool {
	found := false
	for _, s := range b.List {
		if ds, ok := s.(*ast.DeferStmt); ok {
			t := src(ds.Call)
			if strings.Contains(t, "dontPanic(") || strings.Contains(t, "recover()") {
				found = true
			}
		}
	}
	return found
}

func genConcurrency(hl, mb *pkgFiles, hdr, out string) {
	var b strings.Builder
	b.WriteString(hdr)
	// go statements
	b.WriteString("/-- Every `go` statement: (package.function, ordinal, goroutine body defers a recover, first call in the body,\n    statements executed before a recovering entry point is reached) -/\n")
	b.WriteString("def goStmts : List (String × Nat × Bool × String × Nat) := [\n")
	first := true
	emitGo := func(pkg string, p *pkgFiles) {
		var fnames []string
		for n := range p.files {
			fnames = append(fnames, n)
		}
		sort.Strings(fnames)
		for _, fname := range fnames {
			f := p.files[fname]
			for _, d := range f.Decls {
				fd, ok := d.(*ast.FuncDecl)
				if !ok || fd.Body == nil {
					continue
				}
				if strings.HasPrefix(fd.Name.Name, "Verif") {
					continue
				}
				ord := 0
				ast.Inspect(fd.Body, func(n ast.Node) bool {
					gs, ok := n.(*ast.GoStmt)
					if !ok {
						return true
					}
					rec := false
					firstCall := src(gs.Call.Fun)
					unprotected := 0
					if fl, ok := gs.Call.Fun.(*ast.FuncLit); ok {
						rec = hasDeferRecover(fl.Body)
						firstCall = ""
						for _, s := range fl.Body.List {
							t := src(s)
							if strings.Contains(t, "handleNewConnection(") || strings.Contains(t, "handleFileTransfer(") {
								firstCall = "entry:" + map[bool]string{true: "handleNewConnection", false: "handleFileTransfer"}[strings.Contains(t, "handleNewConnection(")]
								break
							}
							if _, isDefer := s.(*ast.DeferStmt); !isDefer {
								unprotected++
							}
						}
						if firstCall == "" {
							unprotected = len(fl.Body.List)
							if len(fl.Body.List) > 0 {
								firstCall = strings.SplitN(src(fl.Body.List[0]), "\n", 2)[0]
							}
						}
					} else {
						// go s.method(): does the method defer a recover?
						if se, ok := gs.Call.Fun.(*ast.SelectorExpr); ok {
							for _, pp := range []*pkgFiles{hl, mb} {
								for _, r := range []string{"Server", "ClientConn"} {
									if m := findFunc(pp, r, se.Sel.Name); m != nil {
										rec = hasDeferRecover(m.Body)
									}
								}
							}
						}
					}
					if !first {
						b.WriteString(",\n")
					}
					first = false
					fn := fd.Name.Name
					if fd.Recv != nil {
						fn = strings.TrimPrefix(src(fd.Recv.List[0].Type), "*") + "." + fn
					}
					fmt.Fprintf(&b, "  (%s, %d, %v, %s, %d)", leanStr(pkg+"."+fn), ord, rec, leanStr(firstCall), unprotected)
					ord++
					return true
				})
			}
		}
	}
	emitGo("hotline", hl)
	emitGo("mobius", mb)
	b.WriteString("\n]\n\n")

	// entry points defer a recover as their first statement
	b.WriteString("/-- Connection entry points: (function, first statement is `defer dontPanic(...)`) -/\n")
	b.WriteString("def entryRecover : List (String × Bool) := [\n")
	for i, fn := range []string{"handleNewConnection", "handleFileTransfer"} {
		ok := false
		if fd := findFunc(hl, "Server", fn); fd != nil && len(fd.Body.List) > 0 {
			if ds, isD := fd.Body.List[0].(*ast.DeferStmt); isD && strings.Contains(src(ds.Call), "dontPanic(") {
				ok = true
			}
		}
		sep := ","
		if i == 1 {
			sep = ""
		}
		fmt.Fprintf(&b, "  (%s, %v)%s\n", leanStr(fn), ok, sep)
	}
	b.WriteString("]\n\n")

	// deferred cleanups in the entry points
	b.WriteString("/-- Deferred cleanup calls in the connection entry points, in source order -/\n")
	b.WriteString("def entryDefers : List (String × String) := [\n")
	first = true
	for _, fn := range []string{"handleNewConnection", "handleFileTransfer"} {
		if fd := findFunc(hl, "Server", fn); fd != nil {
			ast.Inspect(fd.Body, func(n ast.Node) bool {
				if ds, ok := n.(*ast.DeferStmt); ok {
					t := src(ds.Call)
					var keys []string
					for _, k := range []string{"dontPanic", "Disconnect", "Stats.Decrement(StatCurrentlyConnected)", "FileTransferMgr.Delete", "Decrement(StatDownloadsInProgress)", "Decrement(StatUploadsInProgress)"} {
						if strings.Contains(t, k) {
							keys = append(keys, k)
						}
					}
					if !first {
						b.WriteString(",\n")
					}
					first = false
					fmt.Fprintf(&b, "  (%s, %s)", leanStr(fn), leanStr(strings.Join(keys, "+")))
				}
				return true
			})
		}
	}
	b.WriteString("\n]\n\n")

	// shared maps: struct fields of map type, and whether each function touching them holds the struct's lock
	type mapField struct{ pkg, strct, field string }
	var mfs []mapField
	structHasMutex := map[string]bool{}
	collect := func(pkg string, p *pkgFiles) {
		for _, f := range p.files {
			for _, d := range f.Decls {
				gd, ok := d.(*ast.GenDecl)
				if !ok || gd.Tok != token.TYPE {
					continue
				}
				for _, sp := range gd.Specs {
					ts := sp.(*ast.TypeSpec)
					st, ok := ts.Type.(*ast.StructType)
					if !ok || strings.HasPrefix(ts.Name.Name, "Mock") {
						continue
					}
					for _, fl := range st.Fields.List {
						t := src(fl.Type)
						if strings.HasPrefix(t, "sync.") {
							structHasMutex[pkg+"."+ts.Name.Name] = true
						}
						if _, isMap := fl.Type.(*ast.MapType); isMap {
							for _, n := range fl.Names {
								mfs = append(mfs, mapField{pkg, ts.Name.Name, n.Name})
							}
						}
					}
				}
			}
		}
	}
	collect("hotline", hl)
	collect("mobius", mb)
	sort.Slice(mfs, func(i, j int) bool {
		return mfs[i].pkg+mfs[i].strct+mfs[i].field < mfs[j].pkg+mfs[j].strct+mfs[j].field
	})
	b.WriteString("/-- Accesses to map-typed struct fields: (package.Struct.field, function, access is under a lock taken in that function\n    with the unlock deferred or paired) -/\n")
	b.WriteString("def mapAccesses : List (String × String × Bool) := [\n")
	first = true
	type acc struct {
		key, fn string
		locked  bool
	}
	var accs []acc
	scan := func(pkg string, p *pkgFiles) {
		for _, f := range p.files {
			for _, d := range f.Decls {
				fd, ok := d.(*ast.FuncDecl)
				if !ok || fd.Body == nil || strings.HasPrefix(fd.Name.Name, "Verif") {
					continue
				}
				recvT := ""
				if fd.Recv != nil {
					recvT = strings.TrimPrefix(src(fd.Recv.List[0].Type), "*")
				}
				if strings.HasPrefix(recvT, "Mock") {
					continue
				}
				body := src(fd.Body)
				for _, mf := range mfs {
					if mf.pkg != pkg {
						continue
					}
					// selector ".field" used on a receiver/variable of that struct type: approximate by name and receiver
					used := false
					ast.Inspect(fd.Body, func(n ast.Node) bool {
						if se, ok := n.(*ast.SelectorExpr); ok && se.Sel.Name == mf.field {
							if recvT == mf.strct {
								used = true
							} else if mf.strct == "Server" && (strings.HasSuffix(src(se.X), "Server") || src(se.X) == "s") && recvT != "" {
								used = true
							}
						}
						return true
					})
					if !used {
						continue
					}
					// an access is under a lock if a Lock()/RLock() statement precedes it in the function and the matching
					// unlock is deferred or comes (explicitly) after the access
					locked := true
					ast.Inspect(fd.Body, func(n ast.Node) bool {
						se, ok := n.(*ast.SelectorExpr)
						if !ok || se.Sel.Name != mf.field {
							return true
						}
						if !(recvT == mf.strct || (mf.strct == "Server" && (strings.HasSuffix(src(se.X), "Server") || src(se.X) == "s") && recvT != "")) {
							return true
						}
						if !posUnderLock(fd, se.Pos()) {
							locked = false
						}
						return true
					})
					_ = body
					fn := fd.Name.Name
					if recvT != "" {
						fn = recvT + "." + fn
					}
					accs = append(accs, acc{pkg + "." + mf.strct + "." + mf.field, fn, locked})
				}
			}
		}
	}
	scan("hotline", hl)
	scan("mobius", mb)
	sort.Slice(accs, func(i, j int) bool { return accs[i].key+accs[i].fn < accs[j].key+accs[j].fn })
	for _, a := range accs {
		if !first {
			b.WriteString(",\n")
		}
		first = false
		fmt.Fprintf(&b, "  (%s, %s, %v)", leanStr(a.key), leanStr(a.fn), a.locked)
	}
	b.WriteString("\n]\n\n")

	// Lock() calls and whether the unlock is deferred right after
	b.WriteString("/-- Every Lock()/RLock() statement: (package.function, lock expression, next statement is the matching deferred unlock,\n    an explicit matching unlock follows in the same block) -/\n")
	b.WriteString("def lockSites : List (String × String × Bool × Bool) := [\n")
	first = true
	type ls struct {
		fn, lock   string
		def, paired bool
	}
	var lss []ls
	scanLocks := func(pkg string, p *pkgFiles) {
		for _, f := range p.files {
			for _, d := range f.Decls {
				fd, ok := d.(*ast.FuncDecl)
				if !ok || fd.Body == nil {
					continue
				}
				recvT := ""
				if fd.Recv != nil {
					recvT = strings.TrimPrefix(src(fd.Recv.List[0].Type), "*")
				}
				if strings.HasPrefix(recvT, "Mock") {
					continue
				}
				fn := fd.Name.Name
				if recvT != "" {
					fn = recvT + "." + fn
				}
				ast.Inspect(fd.Body, func(n ast.Node) bool {
					bs, ok := n.(*ast.BlockStmt)
					if !ok {
						return true
					}
					for i, s := range bs.List {
						es, ok := s.(*ast.ExprStmt)
						if !ok {
							continue
						}
						t := src(es.X)
						if !strings.HasSuffix(t, ".Lock()") && !strings.HasSuffix(t, ".RLock()") {
							continue
						}
						un := strings.Replace(strings.Replace(t, ".RLock()", ".RUnlock()", 1), ".Lock()", ".Unlock()", 1)
						def := false
						if i+1 < len(bs.List) {
							if ds, ok := bs.List[i+1].(*ast.DeferStmt); ok && src(ds.Call) == un {
								def = true
							}
						}
						paired := false
						for _, s2 := range bs.List[i+1:] {
							if es2, ok := s2.(*ast.ExprStmt); ok && src(es2.X) == un {
								paired = true
							}
						}
						lss = append(lss, ls{pkg + "." + fn, t, def, paired})
					}
					return true
				})
			}
		}
	}
	scanLocks("hotline", hl)
	scanLocks("mobius", mb)
	sort.Slice(lss, func(i, j int) bool { return lss[i].fn+lss[i].lock < lss[j].fn+lss[j].lock })
	for _, l := range lss {
		if !first {
			b.WriteString(",\n")
		}
		first = false
		fmt.Fprintf(&b, "  (%s, %s, %v, %v)", leanStr(l.fn), leanStr(l.lock), l.def, l.paired)
	}
	b.WriteString("\n]\n\n")

	// acquisitions in the connection entry points and the statement that follows each
	b.WriteString("/-- Acquisitions in the connection entry points: (function, acquiring statement, the statement right after it) -/\n")
	b.WriteString("def acquireRelease : List (String × String × String) := [\n")
	first = true
	for _, fn := range []string{"handleNewConnection", "handleFileTransfer"} {
		fd := findFunc(hl, "Server", fn)
		if fd == nil {
			continue
		}
		ast.Inspect(fd.Body, func(n ast.Node) bool {
			var list []ast.Stmt
			switch b := n.(type) {
			case *ast.BlockStmt:
				list = b.List
			case *ast.CaseClause:
				list = b.Body
			default:
				return true
			}
			bs := struct{ List []ast.Stmt }{list}
			for i, st := range bs.List {
				t := src(st)
				acquire := strings.Contains(t, "ClientMgr.Add(") || strings.Contains(t, "Stats.Increment(") ||
					(strings.Contains(t, "FileTransferMgr.Get(") && strings.Contains(t, ":="))
				if _, isExpr := st.(*ast.ExprStmt); !isExpr {
					if _, isAssign := st.(*ast.AssignStmt); !isAssign {
						acquire = false
					}
				}
				if !acquire {
					continue
				}
				next := ""
				for j := i + 1; j < len(bs.List) && j <= i+2; j++ {
					// skip the nil check that directly follows FileTransferMgr.Get
					if is, ok := bs.List[j].(*ast.IfStmt); ok && strings.Contains(src(is.Cond), "== nil") {
						continue
					}
					next = strings.Join(strings.Fields(src(bs.List[j])), " ")
					break
				}
				if len(next) > 160 {
					next = next[:160]
				}
				if !first {
					b.WriteString(",\n")
				}
				first = false
				fmt.Fprintf(&b, "  (%s, %s, %s)", leanStr(fn), leanStr(strings.Join(strings.Fields(t), " ")), leanStr(next))
			}
			return true
		})
	}
	b.WriteString("\n]\n\n")

	// sendTransaction: how many Write calls per transaction (io.Copy of the reader vs a single Write of the serialised bytes)
	sendShape := "unknown"
	if fd := findFunc(hl, "Server", "sendTransaction"); fd != nil {
		body := src(fd.Body)
		switch {
		case strings.Contains(body, "io.Copy(client.Connection"):
			sendShape = "io.Copy"
		case strings.Contains(body, "client.Connection.Write("):
			sendShape = "single-Write"
		}
	}
	fmt.Fprintf(&b, "/-- how `sendTransaction` puts a transaction on the wire -/\ndef sendShape : String := %s\n\n", leanStr(sendShape))
	// processOutbox loop shape: receive then `go`
	outboxShape := "unknown"
	if fd := findFunc(hl, "Server", "processOutbox"); fd != nil {
		body := src(fd.Body)
		if strings.Contains(body, "<-s.outbox") && strings.Contains(body, "go func()") {
			outboxShape = "receive-then-go"
		}
	}
	fmt.Fprintf(&b, "def outboxShape : String := %s\n\n", leanStr(outboxShape))
	b.WriteString("end Mobius.Generated\n")
	writeIfChanged(filepath.Join(out, "Concurrency.lean"), b.String())
}
