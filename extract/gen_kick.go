package main

// Generated/Kick.lean (C14, C17):
//
//   disconnectShape   : "once-guarded" when the body of ClientConn.Disconnect is the single statement
//                       `cc.<field>.Do(func() { … })` on a sync.Once field of ClientConn and the call
//                       ClientMgr.Delete is inside that closure; otherwise "bare".  The model (Kick.step) runs the
//                       body of Disconnect once per connection object; the delete goes by id, so a second run would
//                       remove whoever holds the reissued id.
//   statsLocking      : (method of hotline.Stats, lock it takes on s.mu: "Lock" | "RLock" | "none", the calls it makes
//                       on its own receiver anywhere in its body).  sync.RWMutex is not re-entrant: a nested RLock
//                       blocks as soon as a writer is waiting, and every login / logout is such a writer — so a method
//                       that takes the mutex must not call another method of Stats.

import (
	"fmt"
	"go/ast"
	"path/filepath"
	"sort"
	"strings"
)

func init() { extraGenerators = append(extraGenerators, genKick) }

func kickSquash(n ast.Node) string { return strings.Join(strings.Fields(src(n)), "") }

func genKick(hl, mb *pkgFiles, hdr, out string) {
	var b strings.Builder
	b.WriteString(hdr)

	// ---- ClientConn.Disconnect
	shape := "bare"
	onceFields := map[string]bool{}
	for _, f := range hl.files {
		ast.Inspect(f, func(n ast.Node) bool {
			ts, ok := n.(*ast.TypeSpec)
			if !ok || ts.Name.Name != "ClientConn" {
				return true
			}
			if st, ok := ts.Type.(*ast.StructType); ok {
				for _, fl := range st.Fields.List {
					if kickSquash(fl.Type) == "sync.Once" {
						for _, nm := range fl.Names {
							onceFields[nm.Name] = true
						}
					}
				}
			}
			return false
		})
	}
	if fd := findFunc(hl, "ClientConn", "Disconnect"); fd != nil && fd.Body != nil && len(fd.Body.List) == 1 && fd.Recv != nil && len(fd.Recv.List[0].Names) == 1 {
		rn := fd.Recv.List[0].Names[0].Name
		if es, ok := fd.Body.List[0].(*ast.ExprStmt); ok {
			if call, ok := es.X.(*ast.CallExpr); ok && len(call.Args) == 1 {
				if se, ok := call.Fun.(*ast.SelectorExpr); ok && se.Sel.Name == "Do" {
					if inner, ok := se.X.(*ast.SelectorExpr); ok && kickSquash(inner.X) == rn && onceFields[inner.Sel.Name] {
						if lit, ok := call.Args[0].(*ast.FuncLit); ok && strings.Contains(kickSquash(lit.Body), "ClientMgr.Delete("+rn+".ID)") {
							shape = "once-guarded"
						}
					}
				}
			}
		}
	}
	fmt.Fprintf(&b, "/-- ClientConn.Disconnect: is the whole body (with the by-id ClientMgr.Delete) run through a sync.Once of the connection? -/\ndef disconnectShape : String := %s\n\n", leanStr(shape))

	// ---- Stats
	type row struct {
		m, lock string
		calls   []string
	}
	var rows []row
	for _, f := range hl.files {
		for _, d := range f.Decls {
			fd, ok := d.(*ast.FuncDecl)
			if !ok || fd.Recv == nil || fd.Body == nil || len(fd.Recv.List) == 0 {
				continue
			}
			if strings.TrimPrefix(kickSquash(fd.Recv.List[0].Type), "*") != "Stats" {
				continue
			}
			rn := ""
			if len(fd.Recv.List[0].Names) > 0 {
				rn = fd.Recv.List[0].Names[0].Name
			}
			r := row{m: fd.Name.Name, lock: "none"}
			ast.Inspect(fd.Body, func(n ast.Node) bool {
				c, ok := n.(*ast.CallExpr)
				if !ok {
					return true
				}
				t := kickSquash(c.Fun)
				switch {
				case t == rn+".mu.Lock":
					r.lock = "Lock"
				case t == rn+".mu.RLock" && r.lock == "none":
					r.lock = "RLock"
				}
				if se, ok := c.Fun.(*ast.SelectorExpr); ok {
					if id, ok := se.X.(*ast.Ident); ok && id.Name == rn && rn != "" {
						r.calls = append(r.calls, se.Sel.Name)
					}
				}
				return true
			})
			rows = append(rows, r)
		}
	}
	sort.Slice(rows, func(i, j int) bool { return rows[i].m < rows[j].m })
	b.WriteString("/-- hotline.Stats: (method, lock taken on s.mu, calls made on the own receiver) -/\ndef statsLocking : List (String × String × List String) := [\n")
	for i, r := range rows {
		sep := ","
		if i == len(rows)-1 {
			sep = ""
		}
		var cs []string
		for _, c := range r.calls {
			cs = append(cs, leanStr(c))
		}
		fmt.Fprintf(&b, "  (%s, %s, [%s])%s\n", leanStr(r.m), leanStr(r.lock), strings.Join(cs, ", "), sep)
	}
	b.WriteString("]\n\nend Mobius.Generated\n")
	writeIfChanged(filepath.Join(out, "Kick.lean"), b.String())
}
