package main

// Generated/Outbox.lean (C13, C14): the ORDER of the calls that matter in three functions of package hotline.
//
//   disconnectCalls   : in ClientConn.Disconnect, in source order, the calls among ClientMgr.Delete / NotifyOthers /
//                       Connection.Close.  The user-left audience must be picked AFTER the user left the table:
//                       a client that logs in and fetches the list in between would otherwise keep a ghost.
//   sendCalls         : every call sendTransaction makes, in source order (fmt.Errorf left out): the lookup, the
//                       serialisation, ONE Write — no deadline, no second write.
//   loginDirectWrites : statements of handleNewConnection after `s.ClientMgr.Add(c)` that write to the connection
//                       themselves (io.Copy(rwc, …) / rwc.Write(…)) instead of going through the outbox.  Once the
//                       connection is registered other goroutines write to it, so there must be none.

import (
	"fmt"
	"go/ast"
	"path/filepath"
	"sort"
	"strings"
)

func init() { extraGenerators = append(extraGenerators, genOutbox) }

// lastTwo renders a callee by its last two dot-separated components (cc.Server.ClientMgr.Delete -> ClientMgr.Delete).
func lastTwo(e ast.Expr) string {
	parts := strings.Split(strings.Join(strings.Fields(src(e)), ""), ".")
	if len(parts) > 2 {
		parts = parts[len(parts)-2:]
	}
	return strings.Join(parts, ".")
}

type posCall struct {
	pos  int
	name string
}

func callsInOrder(body ast.Node) []string {
	var cs []posCall
	ast.Inspect(body, func(n ast.Node) bool {
		if c, ok := n.(*ast.CallExpr); ok {
			cs = append(cs, posCall{int(c.Lparen), lastTwo(c.Fun)})
		}
		return true
	})
	sort.Slice(cs, func(i, j int) bool { return cs[i].pos < cs[j].pos })
	out := make([]string, len(cs))
	for i, c := range cs {
		out[i] = c.name
	}
	return out
}

func strList(name, doc string, l []string) string {
	var b strings.Builder
	fmt.Fprintf(&b, "/-- %s -/\ndef %s : List String := [", doc, name)
	for i, e := range l {
		if i > 0 {
			b.WriteString(", ")
		}
		b.WriteString(leanStr(e))
	}
	b.WriteString("]\n\n")
	return b.String()
}

func genOutbox(hl, mb *pkgFiles, hdr, out string) {
	var b strings.Builder
	b.WriteString(hdr)

	var disc []string
	if fd := findFunc(hl, "ClientConn", "Disconnect"); fd != nil && fd.Body != nil {
		for _, c := range callsInOrder(fd.Body) {
			switch c {
			case "ClientMgr.Delete", "cc.NotifyOthers", "Connection.Close", "ClientMgr.List":
				disc = append(disc, c)
			}
		}
	}
	b.WriteString(strList("disconnectCalls", "ClientConn.Disconnect: table removal, choice of the user-left audience, close — in source order", disc))

	var send []string
	if fd := findFunc(hl, "Server", "sendTransaction"); fd != nil && fd.Body != nil {
		for _, c := range callsInOrder(fd.Body) {
			if c != "fmt.Errorf" {
				send = append(send, c)
			}
		}
	}
	b.WriteString(strList("sendCalls", "Server.sendTransaction: every call it makes, in source order (fmt.Errorf omitted)", send))

	var direct []string
	if fd := findFunc(hl, "Server", "handleNewConnection"); fd != nil && fd.Body != nil {
		registered := false
		for _, st := range fd.Body.List {
			text := strings.Join(strings.Fields(src(st)), " ")
			if !registered {
				if strings.Contains(text, "ClientMgr.Add(") {
					registered = true
				}
				continue
			}
			// look inside the statement (if / for bodies) for direct writes to the connection
			ast.Inspect(st, func(n ast.Node) bool {
				c, ok := n.(*ast.CallExpr)
				if !ok {
					return true
				}
				t := strings.Join(strings.Fields(src(c)), " ")
				if strings.HasPrefix(t, "io.Copy(rwc") || strings.HasPrefix(t, "io.CopyN(rwc") || strings.HasPrefix(t, "rwc.Write(") ||
					strings.HasPrefix(t, "io.Copy(c.Connection") || strings.HasPrefix(t, "c.Connection.Write(") {
					if len(t) > 80 {
						t = t[:80]
					}
					direct = append(direct, t)
				}
				return true
			})
		}
		if !registered {
			direct = append(direct, "handleNewConnection: no ClientMgr.Add statement found")
		}
	}
	b.WriteString(strList("loginDirectWrites", "handleNewConnection: writes made directly to the connection after it was registered with the client manager", direct))

	b.WriteString("end Mobius.Generated\n")
	writeIfChanged(filepath.Join(out, "Outbox.lean"), b.String())
}
