package main

// Generated/Request.lean (C20): which calls that CHANGE a persistent store each transaction handler of
// internal/mobius makes, in source order, with the branch they sit in.
//
//   handlerStoreCalls : (handler, [(store.method, context)]) where store.method is one of
//       AccountManager.Create | AccountManager.Update | AccountManager.Delete | BanList.Add |
//       ThreadedNewsMgr.CreateGrouping | ThreadedNewsMgr.PostArticle | ThreadedNewsMgr.DeleteArticle |
//       ThreadedNewsMgr.DeleteNewsItem | Server.PostMessageBoard | MessageBoard.Write
//     reached through `….Server.<Store>.<Method>(…)` (or `….Server.PostMessageBoard(…)`), and context is the chain of
//     enclosing branches ("loop", "if <cond>", "else <cond>", "case <exprs>") – one context = one branch of the handler.
//
// A request's crash behaviour is the concatenation of the programs of its store calls (Lean `Crash.reqProg`): a record
// of the batched account editor must be ONE store call (a rename = exactly one Update), or a kill between two of them
// leaves a state that is neither the old nor the new value of that record.

import (
	"fmt"
	"go/ast"
	"path/filepath"
	"sort"
	"strings"
)

func init() { extraGenerators = append(extraGenerators, genRequest) }

var requestStoreMethods = map[string]map[string]bool{
	"AccountManager":  {"Create": true, "Update": true, "Delete": true},
	"BanList":         {"Add": true},
	"ThreadedNewsMgr": {"CreateGrouping": true, "PostArticle": true, "DeleteArticle": true, "DeleteNewsItem": true},
	"MessageBoard":    {"Write": true},
}

type requestCall struct{ what, ctx string }

// requestStoreCall recognises `<x>.Server.<Store>.<Method>(…)` / `<x>.Server.PostMessageBoard(…)`.
func requestStoreCall(c *ast.CallExpr) (string, bool) {
	se, ok := c.Fun.(*ast.SelectorExpr)
	if !ok {
		return "", false
	}
	inner, ok := se.X.(*ast.SelectorExpr)
	if !ok {
		return "", false
	}
	if inner.Sel.Name == "Server" && se.Sel.Name == "PostMessageBoard" {
		return "Server.PostMessageBoard", true
	}
	if ms, ok := requestStoreMethods[inner.Sel.Name]; ok && ms[se.Sel.Name] {
		if srv, ok := inner.X.(*ast.SelectorExpr); ok && srv.Sel.Name == "Server" {
			return inner.Sel.Name + "." + se.Sel.Name, true
		}
	}
	return "", false
}

func requestCallsOf(fd *ast.FuncDecl) []requestCall {
	var out []requestCall
	find := func(n ast.Node, ctx string) {
		if n == nil {
			return
		}
		ast.Inspect(n, func(m ast.Node) bool {
			switch c := m.(type) {
			case *ast.FuncLit:
				return false
			case *ast.CallExpr:
				if w, ok := requestStoreCall(c); ok {
					out = append(out, requestCall{w, ctx})
				}
			}
			return true
		})
	}
	join := func(ctx, s string) string {
		if ctx == "" {
			return s
		}
		return ctx + " && " + s
	}
	one := func(n ast.Node) string { return strings.Join(strings.Fields(src(n)), " ") }
	var walk func(list []ast.Stmt, ctx string)
	walk = func(list []ast.Stmt, ctx string) {
		for _, s := range list {
			switch st := s.(type) {
			case *ast.IfStmt:
				if st.Init != nil {
					find(st.Init, ctx)
				}
				find(st.Cond, ctx)
				cond := one(st.Cond)
				walk(st.Body.List, join(ctx, "if "+cond))
				switch e := st.Else.(type) {
				case *ast.BlockStmt:
					walk(e.List, join(ctx, "else "+cond))
				case *ast.IfStmt:
					walk([]ast.Stmt{e}, join(ctx, "else "+cond))
				}
			case *ast.BlockStmt:
				walk(st.List, ctx)
			case *ast.ForStmt:
				walk(st.Body.List, join(ctx, "loop"))
			case *ast.RangeStmt:
				walk(st.Body.List, join(ctx, "loop"))
			case *ast.SwitchStmt:
				if st.Init != nil {
					find(st.Init, ctx)
				}
				if st.Tag != nil {
					find(st.Tag, ctx)
				}
				for _, cs := range st.Body.List {
					cc := cs.(*ast.CaseClause)
					var es []string
					for _, e := range cc.List {
						es = append(es, one(e))
					}
					label := "case " + strings.Join(es, ", ")
					if cc.List == nil {
						label = "default"
					}
					walk(cc.Body, join(ctx, label))
				}
			default:
				find(s, ctx)
			}
		}
	}
	walk(fd.Body.List, "")
	return out
}

func genRequest(hl, mb *pkgFiles, hdr, out string) {
	type row struct {
		name  string
		calls []requestCall
	}
	var rows []row
	for _, fd := range persistSortedFuncs(mb) {
		if fd.Recv != nil {
			continue
		}
		if cs := requestCallsOf(fd); len(cs) > 0 {
			rows = append(rows, row{"mobius." + fd.Name.Name, cs})
		}
	}
	sort.Slice(rows, func(i, j int) bool { return rows[i].name < rows[j].name })
	var b strings.Builder
	b.WriteString(hdr)
	b.WriteString("/-- Calls that change a persistent store made by each function of internal/mobius (the transaction handlers), in\n")
	b.WriteString("    source order: (function, [(store.method, chain of enclosing branches)]).  One context = one branch. -/\n")
	b.WriteString("def handlerStoreCalls : List (String × List (String × String)) := [\n")
	for i, r := range rows {
		fmt.Fprintf(&b, "  (%s, [", leanStr(r.name))
		for j, c := range r.calls {
			if j > 0 {
				b.WriteString(",\n     ")
			}
			fmt.Fprintf(&b, "(%s, %s)", leanStr(c.what), leanStr(c.ctx))
		}
		b.WriteString("])")
		if i < len(rows)-1 {
			b.WriteString(",")
		}
		b.WriteString("\n")
	}
	b.WriteString("]\n\nend Mobius.Generated\n")
	writeIfChanged(filepath.Join(out, "Request.lean"), b.String())
}
