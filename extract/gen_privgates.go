package main

// Generated/PrivGates.lean (C05, wave d): the places outside the per-handler guards where a privilege decides.
//
//   chatMapWrites   : (function, statement) — every statement in package hotline that stores into a `chats` map
//                     (`x.chats[k] = …`).  A private chat comes into being only there.  Expected: MemChatManager.New only
//                     (the method HandleInviteNewChat calls behind its guard on 'open chat').
//   chatNewCallers  : (function, guard) — every function of internal/mobius that calls `ChatMgr.New(`, with the condition
//                     of the deny-guard (if … { return cc.NewErrReply… }) that precedes the call in that function
//                     ("" when there is none).
//   nameWrites      : (function, condition path, right-hand side) — every assignment to a `.UserName` field in the
//                     non-test source of hotline and internal/mobius, with the conditions of the enclosing if-arms
//                     (else arms as "!(…)", joined by " && ").  The display name is client-chosen only under
//                     Authorize(AccessAnyName).

import (
	"fmt"
	"go/ast"
	"path/filepath"
	"sort"
	"strings"
)

func init() { extraGenerators = append(extraGenerators, genPrivGates) }

func pgSquash(n ast.Node) string { return strings.Join(strings.Fields(src(n)), " ") }

func pgFuncName(fd *ast.FuncDecl) string {
	if fd.Recv != nil && len(fd.Recv.List) > 0 {
		return strings.TrimPrefix(src(fd.Recv.List[0].Type), "*") + "." + fd.Name.Name
	}
	return fd.Name.Name
}

// pgWalk visits the statements of a body keeping the path of if-conditions.
func pgWalk(stmts []ast.Stmt, conds []string, visit func(s ast.Stmt, conds []string)) {
	for _, s := range stmts {
		switch t := s.(type) {
		case *ast.IfStmt:
			c := pgSquash(t.Cond)
			if t.Init != nil {
				c = pgSquash(t.Init) + "; " + c
			}
			pgWalk(t.Body.List, append(append([]string{}, conds...), c), visit)
			if t.Else != nil {
				ec := append(append([]string{}, conds...), "!("+c+")")
				switch e := t.Else.(type) {
				case *ast.BlockStmt:
					pgWalk(e.List, ec, visit)
				case *ast.IfStmt:
					pgWalk([]ast.Stmt{e}, ec, visit)
				}
			}
		case *ast.BlockStmt:
			pgWalk(t.List, conds, visit)
		case *ast.ForStmt:
			pgWalk(t.Body.List, append(append([]string{}, conds...), "for"), visit)
		case *ast.RangeStmt:
			pgWalk(t.Body.List, append(append([]string{}, conds...), "range"), visit)
		case *ast.SwitchStmt:
			for _, cc := range t.Body.List {
				if cl, ok := cc.(*ast.CaseClause); ok {
					pgWalk(cl.Body, append(append([]string{}, conds...), "case"), visit)
				}
			}
		default:
			visit(s, conds)
			// function literals (goroutines, deferred closures)
			ast.Inspect(s, func(n ast.Node) bool {
				if fl, ok := n.(*ast.FuncLit); ok {
					pgWalk(fl.Body.List, append(append([]string{}, conds...), "func"), visit)
					return false
				}
				return true
			})
		}
	}
}

func genPrivGates(hl, mb *pkgFiles, hdr, out string) {
	var b strings.Builder
	b.WriteString(hdr)

	type triple struct{ a, b, c string }
	var chatWrites [][2]string
	var names []triple
	collect := func(p *pkgFiles, chats bool) {
		var fns []string
		for n := range p.files {
			fns = append(fns, n)
		}
		sort.Strings(fns)
		for _, fn := range fns {
			for _, d := range p.files[fn].Decls {
				fd, ok := d.(*ast.FuncDecl)
				if !ok || fd.Body == nil {
					continue
				}
				if strings.HasPrefix(fd.Name.Name, "Verif") || (fd.Recv != nil && strings.HasPrefix(src(fd.Recv.List[0].Type), "*Mock")) {
					continue
				}
				pgWalk(fd.Body.List, nil, func(s ast.Stmt, conds []string) {
					as, ok := s.(*ast.AssignStmt)
					if !ok {
						return
					}
					for i, l := range as.Lhs {
						if ix, ok := l.(*ast.IndexExpr); ok && chats {
							if se, ok := ix.X.(*ast.SelectorExpr); ok && se.Sel.Name == "chats" {
								chatWrites = append(chatWrites, [2]string{pgFuncName(fd), pgSquash(s)})
							}
						}
						if se, ok := l.(*ast.SelectorExpr); ok && se.Sel.Name == "UserName" {
							rhs := ""
							if i < len(as.Rhs) {
								rhs = pgSquash(as.Rhs[i])
							}
							names = append(names, triple{pgFuncName(fd), strings.Join(conds, " && "), rhs})
						}
					}
				})
			}
		}
	}
	collect(hl, true)
	collect(mb, false)
	b.WriteString(pairList("chatMapWrites", "every store into a `chats` map in package hotline: (function, statement)", chatWrites))

	// callers of ChatMgr.New with their preceding deny-guard
	var callers [][2]string
	var fns []string
	for n := range mb.files {
		fns = append(fns, n)
	}
	sort.Strings(fns)
	for _, fn := range fns {
		for _, d := range mb.files[fn].Decls {
			fd, ok := d.(*ast.FuncDecl)
			if !ok || fd.Body == nil {
				continue
			}
			guard, found := "", false
			for _, s := range fd.Body.List {
				if strings.Contains(pgSquash(s), "ChatMgr.New(") {
					found = true
					break
				}
				if is, ok := s.(*ast.IfStmt); ok && returnsErrReply(is.Body) {
					guard = pgSquash(is.Cond)
				}
			}
			if !found && strings.Contains(pgSquash(fd.Body), "ChatMgr.New(") {
				found, guard = true, "nested"
			}
			if found {
				callers = append(callers, [2]string{fd.Name.Name, guard})
			}
		}
	}
	b.WriteString(pairList("chatNewCallers", "functions of internal/mobius calling ChatMgr.New, with the deny-guard that precedes the call", callers))

	fmt.Fprintf(&b, "/-- every assignment to a `.UserName` field: (function, conditions of the enclosing if-arms, right-hand side) -/\ndef nameWrites : List (String × String × String) := [\n")
	for i, t := range names {
		sep := ","
		if i == len(names)-1 {
			sep = ""
		}
		fmt.Fprintf(&b, "  (%s, %s, %s)%s\n", leanStr(t.a), leanStr(t.b), leanStr(t.c), sep)
	}
	b.WriteString("]\n\nend Mobius.Generated\n")
	writeIfChanged(filepath.Join(out, "PrivGates.lean"), b.String())
}
