package main

// Extra facts for C05 / C06 (registered through extraGenerators):
//
//   denyMessages : for every `if …Authorize(c)… { return cc.NewErrReply(t, msg) }` of a registered handler:
//                  (handler, access constant, message) — the message text when it is a string literal,
//                  "expr:<source>" otherwise
//   ampFlow      : for the handlers that declare `var newAccess hotline.AccessBitmap`: the statements of that
//                  block that mention newAccess, in order, whitespace-collapsed — the copy, the 64-iteration
//                  subset loop (with its bounds and body), the account construction
//   disconnectFlow : the top-level statements of HandleDisconnectUser, reduced to their kind, in order

import (
	"fmt"
	"go/ast"
	"go/token"
	"path/filepath"
	"sort"
	"strconv"
	"strings"
)

func collapse(s string) string { return strings.Join(strings.Fields(s), " ") }

func registeredHandlers(mb *pkgFiles) []string {
	var names []string
	seen := map[string]bool{}
	if fd := findFunc(mb, "", "RegisterHandlers"); fd != nil {
		ast.Inspect(fd.Body, func(n ast.Node) bool {
			if ce, ok := n.(*ast.CallExpr); ok && strings.HasSuffix(src(ce.Fun), ".HandleFunc") && len(ce.Args) == 2 {
				h := src(ce.Args[1])
				if !seen[h] {
					seen[h] = true
					names = append(names, h)
				}
			}
			return true
		})
	}
	sort.Strings(names)
	return names
}

func authorizeArgs(e ast.Expr) []string {
	var out []string
	ast.Inspect(e, func(n ast.Node) bool {
		if ce, ok := n.(*ast.CallExpr); ok {
			if se, ok := ce.Fun.(*ast.SelectorExpr); ok && se.Sel.Name == "Authorize" && len(ce.Args) == 1 {
				out = append(out, strings.TrimPrefix(src(ce.Args[0]), "hotline."))
			}
		}
		return true
	})
	return out
}

func errReplyMessage(b *ast.BlockStmt) (string, bool) {
	if len(b.List) == 0 {
		return "", false
	}
	r, ok := b.List[len(b.List)-1].(*ast.ReturnStmt)
	if !ok || len(r.Results) != 1 {
		return "", false
	}
	ce, ok := r.Results[0].(*ast.CallExpr)
	if !ok || !strings.HasSuffix(src(ce.Fun), "NewErrReply") || len(ce.Args) != 2 {
		return "", false
	}
	if bl, ok := ce.Args[1].(*ast.BasicLit); ok && bl.Kind == token.STRING {
		s, err := strconv.Unquote(bl.Value)
		if err == nil {
			return s, true
		}
	}
	return "expr:" + collapse(strings.ReplaceAll(src(ce.Args[1]), "hotline.", "")), true
}

func stmtKind(s ast.Stmt) string {
	t := collapse(src(s))
	switch {
	case strings.HasPrefix(t, "if !cc.Authorize("):
		return "guard-requester:" + strings.Join(authorizeArgs(s.(*ast.IfStmt).Cond), ",")
	case strings.Contains(t, "Authorize(") && strings.HasPrefix(t, "if "):
		is := s.(*ast.IfStmt)
		return "guard:" + collapse(strings.ReplaceAll(src(is.Cond), "hotline.", ""))
	case strings.HasPrefix(t, "go func()"):
		k := "go"
		if strings.Contains(t, "Disconnect()") {
			k += ":Disconnect"
		}
		return k
	case strings.Contains(t, "BanList.Add"):
		return "ban-block"
	case strings.HasPrefix(t, "return "):
		return "return"
	default:
		if as, ok := s.(*ast.AssignStmt); ok && len(as.Lhs) == 1 {
			return "assign:" + src(as.Lhs[0])
		}
		return "other"
	}
}

func genAccessGuards(hl, mb *pkgFiles, hdr, out string) {
	var b strings.Builder
	b.WriteString(hdr)
	type dm struct{ h, c, m string }
	var dms []dm
	type flow struct {
		h string
		l []string
	}
	var flows []flow
	for _, h := range registeredHandlers(mb) {
		fd := findFunc(mb, "", h)
		if fd == nil || fd.Body == nil {
			continue
		}
		ast.Inspect(fd.Body, func(n ast.Node) bool {
			switch s := n.(type) {
			case *ast.IfStmt:
				args := authorizeArgs(s.Cond)
				if len(args) > 0 {
					m, ok := errReplyMessage(s.Body)
					if !ok && len(s.Body.List) == 1 {
						// `if !cc.Authorize(c) { if <place check> { return cc.NewErrReply(…) } }`
						if inner, isIf := s.Body.List[0].(*ast.IfStmt); isIf {
							m, ok = errReplyMessage(inner.Body)
						}
					}
					if ok {
						for _, a := range args {
							dms = append(dms, dm{h, a, m})
						}
					}
				}
			case *ast.BlockStmt:
				declares := false
				for _, st := range s.List {
					if ds, ok := st.(*ast.DeclStmt); ok && strings.Contains(src(ds), "newAccess") {
						declares = true
					}
				}
				if declares {
					var l []string
					for _, st := range s.List {
						if t := src(st); strings.Contains(t, "newAccess") {
							l = append(l, collapse(strings.ReplaceAll(t, "hotline.", "")))
						}
					}
					flows = append(flows, flow{h, l})
				}
			}
			return true
		})
	}
	b.WriteString("/-- every `if …Authorize(c)… { return cc.NewErrReply(t, msg) }` of a registered handler: (handler, access constant, message) -/\n")
	b.WriteString("def denyMessages : List (String × String × String) := [\n")
	for i, d := range dms {
		sep := ","
		if i == len(dms)-1 {
			sep = ""
		}
		fmt.Fprintf(&b, "  (%s, %s, %s)%s\n", leanStr(d.h), leanStr(d.c), leanStr(d.m), sep)
	}
	b.WriteString("]\n\n")
	b.WriteString("/-- account-creation paths: the statements that mention `newAccess`, in order (declaration, copy, subset loop, account construction) -/\n")
	b.WriteString("def ampFlow : List (String × List String) := [\n")
	for i, f := range flows {
		sep := ","
		if i == len(flows)-1 {
			sep = ""
		}
		var q []string
		for _, s := range f.l {
			q = append(q, leanStr(s))
		}
		fmt.Fprintf(&b, "  (%s, [%s])%s\n", leanStr(f.h), strings.Join(q, ",\n    "), sep)
	}
	b.WriteString("]\n\n")
	var df []string
	if fd := findFunc(mb, "", "HandleDisconnectUser"); fd != nil && fd.Body != nil {
		for _, st := range fd.Body.List {
			df = append(df, leanStr(stmtKind(st)))
		}
	}
	b.WriteString("/-- HandleDisconnectUser: kinds of its top-level statements, in order -/\n")
	fmt.Fprintf(&b, "def disconnectFlow : List String := [%s]\n\n", strings.Join(df, ", "))
	// folder-kind checks: bodies of FilePath.IsDropbox / IsUploadDir / resolvedName and ReadPath's item loop
	var pcs [][2]string
	for _, fn := range []string{"IsDropbox", "IsUploadDir", "resolvedName"} {
		if fd := findFunc(hl, "FilePath", fn); fd != nil && fd.Body != nil {
			pcs = append(pcs, [2]string{fn, collapse(src(fd.Body))})
		}
	}
	if fd := findFunc(hl, "", "ReadPath"); fd != nil && fd.Body != nil {
		ast.Inspect(fd.Body, func(n ast.Node) bool {
			if rs, ok := n.(*ast.RangeStmt); ok {
				pcs = append(pcs, [2]string{"ReadPath.loop", collapse(src(rs))})
			}
			return true
		})
	}
	b.WriteString(pairList("placeChecks", "folder-kind checks of FilePath and the item loop of ReadPath (whitespace-collapsed source)", pcs))
	b.WriteString("end Mobius.Generated\n")
	writeIfChanged(filepath.Join(out, "AccessGuards.lean"), b.String())
}

func init() {
	extraGenerators = append(extraGenerators, genAccessGuards)
}
