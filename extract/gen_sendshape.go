package main

// Generated/SendShape.lean (C12): WHAT CAN BLOCK on the way from the outbox to a client's connection.
//
//   dispatchSpawns    : in Server.processOutbox every call of sendTransaction lies inside the function literal of a `go`
//                       statement (and there is one): each outgoing transaction is its own goroutine — the dispatcher never
//                       waits for a client.
//   dispatchBlocking  : every construct of processOutbox OUTSIDE that `go` literal that can block: channel receives / sends,
//                       select, Lock / RLock / Wait / Acquire calls, and any call of sendTransaction or Write made directly.
//                       Expected: the one receive from the outbox.
//   sendBlocking      : every construct of Server.sendTransaction that can block besides the Connection.Write itself:
//                       Lock / RLock / Wait / Acquire / Do calls (a mutex, a condition variable, a semaphore, a sync.Once /
//                       singleflight held across the write), channel operations, select, `go` + wait.  Expected: none.
//                       A lock taken here is held while Write blocks on a client that does not read, and every other
//                       client's traffic queues behind it (StalledDelivery.LockNet.stuck).
//   sendDeferred      : the deferred calls of sendTransaction (a deferred Unlock is how such a lock would be released).

import (
	"go/ast"
	"go/token"
	"path/filepath"
	"strings"
)

func init() { extraGenerators = append(extraGenerators, genSendShape) }

var blockingSelectors = map[string]bool{"Lock": true, "RLock": true, "Wait": true, "Acquire": true, "Do": true, "TryLock": true}

// blockingIn lists the potentially blocking constructs below n, skipping the subtrees in skip.
func blockingIn(n ast.Node, skip map[ast.Node]bool, direct []string) []string {
	var out []string
	ast.Inspect(n, func(m ast.Node) bool {
		if m == nil || skip[m] {
			return false
		}
		switch x := m.(type) {
		case *ast.UnaryExpr:
			if x.Op == token.ARROW {
				out = append(out, "recv "+strings.Join(strings.Fields(src(x.X)), ""))
			}
		case *ast.SendStmt:
			out = append(out, "send "+strings.Join(strings.Fields(src(x.Chan)), ""))
		case *ast.SelectStmt:
			out = append(out, "select")
		case *ast.RangeStmt:
			out = append(out, "range "+strings.Join(strings.Fields(src(x.X)), ""))
		case *ast.CallExpr:
			if se, ok := x.Fun.(*ast.SelectorExpr); ok {
				if blockingSelectors[se.Sel.Name] {
					out = append(out, "call "+strings.Join(strings.Fields(src(x.Fun)), ""))
				}
				for _, d := range direct {
					if se.Sel.Name == d {
						out = append(out, "call "+strings.Join(strings.Fields(src(x.Fun)), ""))
					}
				}
			}
		}
		return true
	})
	return out
}

func genSendShape(hl, mb *pkgFiles, hdr, out string) {
	var b strings.Builder
	b.WriteString(hdr)

	spawns := false
	var dispatch []string
	if fd := findFunc(hl, "Server", "processOutbox"); fd != nil && fd.Body != nil {
		skip := map[ast.Node]bool{}
		inGo, outside := 0, 0
		ast.Inspect(fd.Body, func(n ast.Node) bool {
			if g, ok := n.(*ast.GoStmt); ok {
				if fl, ok := g.Call.Fun.(*ast.FuncLit); ok {
					skip[fl] = true
					ast.Inspect(fl, func(m ast.Node) bool {
						if c, ok := m.(*ast.CallExpr); ok && strings.HasSuffix(strings.Join(strings.Fields(src(c.Fun)), ""), ".sendTransaction") {
							inGo++
						}
						return true
					})
					return false
				}
				if strings.HasSuffix(strings.Join(strings.Fields(src(g.Call.Fun)), ""), ".sendTransaction") {
					inGo++
					skip[g.Call] = true
				}
			}
			return true
		})
		ast.Inspect(fd.Body, func(n ast.Node) bool {
			if n == nil || skip[n] {
				return false
			}
			if c, ok := n.(*ast.CallExpr); ok && strings.HasSuffix(strings.Join(strings.Fields(src(c.Fun)), ""), ".sendTransaction") {
				outside++
			}
			return true
		})
		spawns = inGo >= 1 && outside == 0
		dispatch = blockingIn(fd.Body, skip, []string{"sendTransaction", "Write"})
	} else {
		dispatch = []string{"processOutbox not found"}
	}
	if spawns {
		b.WriteString("/-- processOutbox: every sendTransaction call is inside a `go` statement -/\ndef dispatchSpawns : Bool := true\n\n")
	} else {
		b.WriteString("/-- processOutbox: every sendTransaction call is inside a `go` statement -/\ndef dispatchSpawns : Bool := false\n\n")
	}
	b.WriteString(strList("dispatchBlocking", "processOutbox outside the `go` literal: constructs that can block", dispatch))

	var send, deferred []string
	if fd := findFunc(hl, "Server", "sendTransaction"); fd != nil && fd.Body != nil {
		send = blockingIn(fd.Body, nil, nil)
		ast.Inspect(fd.Body, func(n ast.Node) bool {
			switch x := n.(type) {
			case *ast.DeferStmt:
				deferred = append(deferred, strings.Join(strings.Fields(src(x.Call.Fun)), ""))
			case *ast.GoStmt:
				send = append(send, "go "+strings.Join(strings.Fields(src(x.Call.Fun)), ""))
			}
			return true
		})
	} else {
		send = []string{"sendTransaction not found"}
	}
	b.WriteString(strList("sendBlocking", "sendTransaction: constructs that can block besides the Connection.Write", send))
	b.WriteString(strList("sendDeferred", "sendTransaction: deferred calls", deferred))

	b.WriteString("end Mobius.Generated\n")
	writeIfChanged(filepath.Join(out, "SendShape.lean"), b.String())
}
