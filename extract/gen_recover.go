package main

// Generated/Recover.lean (C13): every place in packages hotline and internal/mobius (non-test files) where a panic
// is stopped — a call of the builtin recover() or a `defer dontPanic(…)` — as (enclosing top-level function, what).
//
// A handler that panics after it changed a ClientConn (HandleSetClientUserInfo / HandleTranAgreed store name and
// icon before they decode the Options field) must take the session down: the panic has to reach
// handleNewConnection, whose deferred Disconnect removes the user and tells everybody.  Any recovery point between
// the handler and handleNewConnection (in a handler, in the HandleFunc registration, in handleTransaction, in the
// connection loop as a function literal) would keep the user connected with a change nobody was told about.

import (
	"fmt"
	"go/ast"
	"path/filepath"
	"sort"
	"strings"
)

func init() { extraGenerators = append(extraGenerators, genRecover) }

func recoverSitesOf(p *pkgFiles, pkg string) []string {
	var out []string
	if p == nil {
		return out
	}
	for _, f := range p.files {
		for _, d := range f.Decls {
			fd, ok := d.(*ast.FuncDecl)
			if !ok || fd.Body == nil {
				continue
			}
			name := fd.Name.Name
			ast.Inspect(fd.Body, func(n ast.Node) bool {
				switch x := n.(type) {
				case *ast.CallExpr:
					if id, ok := x.Fun.(*ast.Ident); ok && id.Name == "recover" {
						out = append(out, pkg+"."+name+":recover")
					}
				case *ast.DeferStmt:
					callee := strings.Join(strings.Fields(src(x.Call.Fun)), "")
					if callee == "dontPanic" || strings.HasSuffix(callee, ".dontPanic") {
						out = append(out, pkg+"."+name+":defer dontPanic")
					}
				}
				return true
			})
		}
	}
	return out
}

func genRecover(hl, mb *pkgFiles, hdr, out string) {
	sites := append(recoverSitesOf(hl, "hotline"), recoverSitesOf(mb, "mobius")...)
	sort.Strings(sites)
	var b strings.Builder
	b.WriteString(hdr)
	fmt.Fprintf(&b, "/-- every recover() / `defer dontPanic(…)` in packages hotline and internal/mobius: \"package.function:what\", sorted -/\ndef recoverSites : List String := [")
	for i, s := range sites {
		if i > 0 {
			b.WriteString(", ")
		}
		b.WriteString(leanStr(s))
	}
	b.WriteString("]\n\nend Mobius.Generated\n")
	writeIfChanged(filepath.Join(out, "Recover.lean"), b.String())
}
