// verif-extract: a small go/ast fact extractor.  It reads /repo's current source and rewrites
// lean/MobiusModel/Generated/*.lean, so that the Lean obligations over those tables are re-proved
// against what the code says now.  Syntactic on purpose: an unusual shape is reported as
// non-standard and the obligation fails loudly.
package main

import (
	"bytes"
	"fmt"
	"go/ast"
	"go/parser"
	"go/printer"
	"go/token"
	"os"
	"path/filepath"
	"sort"
	"strconv"
	"strings"
)

var fset = token.NewFileSet()

type pkgFiles struct {
	files map[string]*ast.File
}

func parseDir(dir string) *pkgFiles {
	p := &pkgFiles{files: map[string]*ast.File{}}
	ents, err := os.ReadDir(dir)
	if err != nil {
		fatal(err)
	}
	for _, e := range ents {
		n := e.Name()
		if !strings.HasSuffix(n, ".go") || strings.HasSuffix(n, "_test.go") || strings.HasSuffix(n, "_verif.go") {
			continue
		}
		f, err := parser.ParseFile(fset, filepath.Join(dir, n), nil, parser.ParseComments)
		if err != nil {
			fatal(err)
		}
		p.files[n] = f
	}
	return p
}

func fatal(err error) {
	fmt.Fprintln(os.Stderr, "extract:", err)
	os.Exit(2)
}

func src(n ast.Node) string {
	var b bytes.Buffer
	printer.Fprint(&b, fset, n)
	return b.String()
}

func leanStr(s string) string { return strconv.Quote(s) }

func writeIfChanged(path, content string) {
	old, err := os.ReadFile(path)
	if err == nil && string(old) == content {
		return
	}
	if err := os.WriteFile(path, []byte(content), 0644); err != nil {
		fatal(err)
	}
}

// ---------------------------------------------------------------- constants

// byteArrayValue evaluates composite literals like TranType{0x00, 0x65} / [2]byte{0x00, 0x64} to an integer.
func byteArrayValue(e ast.Expr) (int, bool) {
	cl, ok := e.(*ast.CompositeLit)
	if !ok {
		return 0, false
	}
	v := 0
	for _, el := range cl.Elts {
		bl, ok := el.(*ast.BasicLit)
		if !ok {
			return 0, false
		}
		n, err := strconv.ParseInt(bl.Value, 0, 64)
		if err != nil {
			return 0, false
		}
		v = v*256 + int(n)
	}
	return v, true
}

type kv struct {
	k string
	v int
}

func constsOf(p *pkgFiles) (tran, field, access, misc []kv) {
	for _, f := range p.files {
		for _, d := range f.Decls {
			gd, ok := d.(*ast.GenDecl)
			if !ok {
				continue
			}
			iota := -1
			for _, sp := range gd.Specs {
				vs, ok := sp.(*ast.ValueSpec)
				if !ok {
					continue
				}
				iota++
				for i, name := range vs.Names {
					n := name.Name
					var val ast.Expr
					if i < len(vs.Values) {
						val = vs.Values[i]
					}
					switch {
					case strings.HasPrefix(n, "Tran") && gd.Tok == token.VAR:
						if v, ok := byteArrayValue(val); ok {
							tran = append(tran, kv{n, v})
						}
					case strings.HasPrefix(n, "Field") && gd.Tok == token.VAR:
						if v, ok := byteArrayValue(val); ok {
							field = append(field, kv{n, v})
						}
					case strings.HasPrefix(n, "Access") && gd.Tok == token.CONST:
						if bl, ok := val.(*ast.BasicLit); ok {
							v, _ := strconv.Atoi(bl.Value)
							access = append(access, kv{n, v})
						}
					case gd.Tok == token.CONST && (strings.HasPrefix(n, "UserFlag") || strings.HasPrefix(n, "UserOpt") || strings.HasPrefix(n, "DlFldrAction")):
						if bl, ok := val.(*ast.BasicLit); ok {
							v, _ := strconv.Atoi(bl.Value)
							misc = append(misc, kv{n, v})
						}
					case gd.Tok == token.CONST && (n == "LimitChatMsg" || n == "handshakeSize" || n == "tranHeaderLen" || n == "minFieldLen" || n == "fileItemMinLen"):
						if bl, ok := val.(*ast.BasicLit); ok {
							v, _ := strconv.Atoi(bl.Value)
							misc = append(misc, kv{n, v})
						}
					case gd.Tok == token.CONST && n == "BanDuration":
						// 30 * time.Minute
						if be, ok := val.(*ast.BinaryExpr); ok {
							if bl, ok := be.X.(*ast.BasicLit); ok && src(be.Y) == "time.Minute" {
								v, _ := strconv.Atoi(bl.Value)
								misc = append(misc, kv{"BanDurationMinutes", v})
							}
						}
					case gd.Tok == token.CONST && (n == "FileDownload" || n == "FileUpload" || n == "FolderDownload" || n == "FolderUpload" || n == "BannerDownload"):
						if ce, ok := val.(*ast.CallExpr); ok && len(ce.Args) == 1 {
							if bl, ok := ce.Args[0].(*ast.BasicLit); ok {
								v, _ := strconv.Atoi(bl.Value)
								misc = append(misc, kv{n, v})
							}
						}
					}
				}
			}
		}
	}
	for _, l := range [][]kv{tran, field, access, misc} {
		sort.Slice(l, func(i, j int) bool { return l[i].k < l[j].k })
	}
	return
}

func kvList(name string, l []kv) string {
	var b strings.Builder
	fmt.Fprintf(&b, "def %s : List (String × Nat) := [\n", name)
	for i, e := range l {
		sep := ","
		if i == len(l)-1 {
			sep = ""
		}
		fmt.Fprintf(&b, "  (%s, %d)%s\n", leanStr(e.k), e.v, sep)
	}
	b.WriteString("]\n\n")
	return b.String()
}

// string constants (fork-file templates, suffix, news template)
func stringConsts(p *pkgFiles) []struct{ k, v string } {
	var out []struct{ k, v string }
	want := map[string]bool{"IncompleteFileSuffix": true, "InfoForkNameTemplate": true, "RsrcForkNameTemplate": true, "NewsTemplate": true, "NewsDateFormat": true, "GuestAccount": true}
	for _, f := range p.files {
		for _, d := range f.Decls {
			gd, ok := d.(*ast.GenDecl)
			if !ok || gd.Tok != token.CONST {
				continue
			}
			for _, sp := range gd.Specs {
				vs := sp.(*ast.ValueSpec)
				for i, n := range vs.Names {
					if want[n.Name] && i < len(vs.Values) {
						if bl, ok := vs.Values[i].(*ast.BasicLit); ok && bl.Kind == token.STRING {
							s, _ := strconv.Unquote(bl.Value)
							out = append(out, struct{ k, v string }{n.Name, s})
						}
					}
				}
			}
		}
	}
	sort.Slice(out, func(i, j int) bool { return out[i].k < out[j].k })
	return out
}

// ---------------------------------------------------------------- readers

type readerFact struct {
	recv     string
	standard bool
	why      string
}

// isStdReader recognises:  if R.readOffset >= len(B) { return 0, io.EOF };  n := copy(p, B[R.readOffset:]);  R.readOffset += n;  return n, nil
func isStdReader(fd *ast.FuncDecl) (bool, string) {
	if fd.Body == nil {
		return false, "no body"
	}
	var haveGuard, haveCopy, haveAdd, haveRet bool
	otherOffsetWrite := false
	returns := 0
	badReturn := ""
	ast.Inspect(fd.Body, func(n ast.Node) bool {
		switch s := n.(type) {
		case *ast.FuncLit:
			return false
		case *ast.IfStmt:
			c := src(s.Cond)
			if strings.Contains(c, ".readOffset >= len(") && len(s.Body.List) == 1 {
				if r, ok := s.Body.List[0].(*ast.ReturnStmt); ok && len(r.Results) == 2 && src(r.Results[0]) == "0" && src(r.Results[1]) == "io.EOF" {
					haveGuard = true
				}
			}
		case *ast.AssignStmt:
			t := src(s)
			if s.Tok == token.DEFINE && strings.HasPrefix(t, "n := copy(p, ") && strings.Contains(t, "[") && strings.Contains(t, ".readOffset:])") {
				haveCopy = true
			} else if s.Tok == token.ADD_ASSIGN && strings.HasSuffix(src(s.Lhs[0]), ".readOffset") && src(s.Rhs[0]) == "n" {
				haveAdd = true
			} else {
				for _, l := range s.Lhs {
					if strings.HasSuffix(src(l), ".readOffset") {
						otherOffsetWrite = true
					}
				}
			}
		case *ast.ReturnStmt:
			returns++
			if len(s.Results) == 2 {
				a, b := src(s.Results[0]), src(s.Results[1])
				switch {
				case a == "n" && b == "nil":
					haveRet = true
				case a == "0" && b == "io.EOF":
				case a == "0" && strings.HasPrefix(b, "fmt.Errorf("):
				default:
					badReturn = a + ", " + b
				}
			}
		}
		return true
	})
	switch {
	case !haveGuard:
		return false, "no `if off >= len(buf) { return 0, io.EOF }` guard"
	case !haveCopy:
		return false, "no `n := copy(p, buf[off:])`"
	case !haveAdd:
		return false, "no `off += n`"
	case otherOffsetWrite:
		return false, "readOffset assigned elsewhere"
	case !haveRet:
		return false, "no `return n, nil`"
	case badReturn != "":
		return false, "unexpected return " + badReturn
	}
	return true, ""
}

func readersOf(p *pkgFiles, pkg string) []readerFact {
	var out []readerFact
	for _, f := range p.files {
		for _, d := range f.Decls {
			fd, ok := d.(*ast.FuncDecl)
			if !ok || fd.Recv == nil || fd.Name.Name != "Read" || fd.Type.Params == nil || len(fd.Type.Params.List) != 1 {
				continue
			}
			if src(fd.Type.Params.List[0].Type) != "[]byte" {
				continue
			}
			recv := src(fd.Recv.List[0].Type)
			recv = strings.TrimPrefix(recv, "*")
			if strings.HasPrefix(recv, "Mock") || strings.HasPrefix(recv, "mock") {
				continue
			}
			okStd, why := isStdReader(fd)
			out = append(out, readerFact{pkg + "." + recv, okStd, why})
		}
	}
	sort.Slice(out, func(i, j int) bool { return out[i].recv < out[j].recv })
	return out
}

// ---------------------------------------------------------------- main

func main() {
	repo := "/repo"
	out := "/verif/lean/MobiusModel/Generated"
	if len(os.Args) > 1 {
		repo = os.Args[1]
	}
	if len(os.Args) > 2 {
		out = os.Args[2]
	}
	os.MkdirAll(out, 0755)
	hl := parseDir(filepath.Join(repo, "hotline"))
	mb := parseDir(filepath.Join(repo, "internal", "mobius"))

	hdr := "/- GENERATED by /verif/extract from /repo's current source on every check. Do not edit. -/\nnamespace Mobius.Generated\n\n"

	// Consts
	tran, field, access, misc := constsOf(hl)
	var b strings.Builder
	b.WriteString(hdr)
	b.WriteString(kvList("tranTypes", tran))
	b.WriteString(kvList("fieldIDs", field))
	b.WriteString(kvList("accessConsts", access))
	b.WriteString(kvList("miscConsts", misc))
	b.WriteString("def stringConsts : List (String × String) := [\n")
	sc := stringConsts(hl)
	for i, e := range sc {
		sep := ","
		if i == len(sc)-1 {
			sep = ""
		}
		fmt.Fprintf(&b, "  (%s, %s)%s\n", leanStr(e.k), leanStr(e.v), sep)
	}
	b.WriteString("]\n\n")
	b.WriteString(handshakeFacts(hl))
	b.WriteString(encodeStringShape(hl))
	b.WriteString(handshakeCalls(hl))
	b.WriteString("end Mobius.Generated\n")
	writeIfChanged(filepath.Join(out, "Consts.lean"), b.String())

	// Readers
	b.Reset()
	b.WriteString(hdr)
	b.WriteString("/-- (receiver, has the standard offset-reader shape, reason when not) -/\ndef readers : List (String × Bool × String) := [\n")
	rs := append(readersOf(hl, "hotline"), readersOf(mb, "mobius")...)
	for i, r := range rs {
		sep := ","
		if i == len(rs)-1 {
			sep = ""
		}
		fmt.Fprintf(&b, "  (%s, %v, %s)%s\n", leanStr(r.recv), r.standard, leanStr(r.why), sep)
	}
	b.WriteString("]\n\nend Mobius.Generated\n")
	writeIfChanged(filepath.Join(out, "Readers.lean"), b.String())

	genAccessYaml(hl, hdr, out)
	genHandlers(hl, mb, hdr, out)
	genConcurrency(hl, mb, hdr, out)
	for _, g := range extraGenerators {
		g(hl, mb, hdr, out)
	}
}

// extraGenerators: further fact generators register themselves here from their own file's init().
var extraGenerators []func(hl, mb *pkgFiles, hdr, out string)
